#!/usr/bin/env python3
"""L0 translator: clang's typed JSON AST of explicitly instantiated amc templates -> Gallina definitions.

Only the integer / boolean bookkeeping subset is accepted (DESIGN.md section 4.1); anything else aborts the translation of
that function with an `Untranslatable` error, which the check reports as a broken obligation - never silently skipped.
Implicit integral promotions and narrowing conversions are explicit in clang's AST (ImplicitCastExpr IntegralCast), so
wrap-around is written into the output (`wrap_u8`, `wrap_s32`, ...).

Usage: amc2coq.py <repo include dir> <output dir> [-std=c++17]
Writes <output dir>/L0_<S>.v for S in u8 s8 u16 u32 s32 u64 and prints a JSON summary on stdout."""
import json
import os
import subprocess
import sys
import tempfile

SIZE_TYPES = [("u8", "unsigned char"), ("s8", "signed char"), ("u16", "unsigned short"), ("u32", "unsigned int"),
              ("s32", "int"), ("u64", "unsigned long")]
WIDTH = {'unsigned char': ('u', 8), 'signed char': ('s', 8), 'char': ('s', 8), 'short': ('s', 16), 'unsigned short': ('u', 16),
         'int': ('s', 32), 'unsigned int': ('u', 32), 'long': ('s', 64), 'unsigned long': ('u', 64), 'bool': ('b', 1),
         'long long': ('s', 64), 'unsigned long long': ('u', 64)}


class Untranslatable(Exception):
    pass


def load(path):
    txt = open(path).read()
    dec = json.JSONDecoder()
    i = 0
    objs = []
    while i < len(txt):
        while i < len(txt) and txt[i].isspace():
            i += 1
        if i >= len(txt):
            break
        o, i = dec.raw_decode(txt, i)
        objs.append(o)
    return objs


def ty(n):
    t = n.get('type', {})
    q = t.get('desugaredQualType', t.get('qualType', ''))
    q = q.replace('const ', '').replace('volatile ', '').strip()
    if q in ('uintmax_t', 'size_t', 'std::size_t'):
        q = 'unsigned long'
    if q in ('ptrdiff_t', 'intmax_t'):
        q = 'long'
    if q in ('uint8_t',):
        q = 'unsigned char'
    return q


def type_max(t):
    k, w = WIDTH[t]
    return (1 << w) - 1 if k == 'u' else (1 << (w - 1)) - 1


class Tr:
    """Expression translation with an explicit current-state variable (assignments to members create new states)."""

    def __init__(self, has_state):
        self.n = 0
        self.lets = []
        self.has_state = has_state

    def fresh(self):
        self.n += 1
        return 'st%d' % self.n

    def wrapto(self, t, e):
        if t == 'bool':
            return e
        if t not in WIDTH:
            raise Untranslatable('type ' + t)
        k, w = WIDTH[t]
        return '(wrap_%s%d %s)' % (k, w, e)

    def ex(self, n, st):
        k = n['kind']
        if k in ('ImplicitCastExpr', 'CXXStaticCastExpr', 'CStyleCastExpr', 'CXXFunctionalCastExpr'):
            ck = n.get('castKind')
            v, st = self.ex(n['inner'][-1], st)
            if ck in ('LValueToRValue', 'NoOp', 'FunctionToPointerDecay', 'ToVoid', 'BuiltinFnToFnPtr'):
                return v, st
            if ck == 'IntegralCast':
                src = ty(n['inner'][-1])
                if src == 'bool':
                    v = '(Z.b2z %s)' % v
                return self.wrapto(ty(n), v), st
            if ck == 'IntegralToBoolean':
                return '(negb (%s =? 0))' % v, st
            raise Untranslatable('cast ' + str(ck))
        if k in ('ParenExpr', 'ExprWithCleanups', 'MaterializeTemporaryExpr', 'ConstantExpr'):
            return self.ex(n['inner'][0], st)
        if k == 'IntegerLiteral':
            return n['value'], st
        if k == 'CXXBoolLiteralExpr':
            return ('true' if n['value'] else 'false'), st
        if k == 'MemberExpr' and n['inner'][0]['kind'] in ('CXXThisExpr', 'ImplicitCastExpr'):
            if not self.has_state:
                raise Untranslatable('member access outside a method')
            return '(%s %s)' % (n['name'].lstrip('_') + '_', st), st
        if k == 'DeclRefExpr':
            nm = n['referencedDecl']['name']
            if nm == 'kMaxSize':
                return str(type_max(ty(n))), st
            return nm, st
        if k == 'CXXMemberCallExpr':
            callee = n['inner'][0]['name']
            args = []
            for a in n['inner'][1:]:
                v, st = self.ex(a, st)
                args.append(v)
            return '(%s %s%s)' % (callee, st, ''.join(' ' + a for a in args)), st
        if k == 'CallExpr':
            callee = n['inner'][0]
            while callee['kind'] == 'ImplicitCastExpr':
                callee = callee['inner'][0]
            nm = callee['referencedDecl']['name']
            args = []
            for a in n['inner'][1:]:
                v, st = self.ex(a, st)
                args.append(v)
            if nm == 'max' and not args:
                return str(type_max(ty(n))), st      # numeric_limits<SizeType>::max(), decided by the type
            if nm in ('min', 'max') and len(args) == 2:
                return '(Z.%s %s %s)' % (nm, args[0], args[1]), st
            if nm == '__builtin_expect':
                return args[0], st
            raise Untranslatable('call ' + nm)
        if k == 'UnaryOperator':
            op = n['opcode']
            sub = n['inner'][0]
            if op in ('++', '--'):
                if sub['kind'] != 'MemberExpr':
                    raise Untranslatable('++ on a non member')
                f = sub['name'].lstrip('_') + '_'
                newv = self.wrapto(ty(n), '(%s %s %s 1)' % (f, st, '+' if op == '++' else '-'))
                st2 = self.fresh()
                self.lets.append('let %s := set_%s %s %s in' % (st2, f, st, newv))
                return ('(%s %s)' % (f, st2) if not n.get('isPostfix') else '(%s %s)' % (f, st)), st2
            if op == '!':
                v, st = self.ex(sub, st)
                if ty(sub) != 'bool':
                    v = '(negb (%s =? 0))' % v
                return '(negb %s)' % v, st
            raise Untranslatable('unop ' + op)
        if k == 'BinaryOperator':
            op = n['opcode']
            a, b = n['inner']
            if op == '=':
                if a['kind'] == 'DeclRefExpr':
                    nm = a['referencedDecl']['name']
                    v, st = self.ex(b, st)
                    self.lets.append('let %s := %s in' % (nm, v))
                    return nm, st
                if a['kind'] != 'MemberExpr':
                    raise Untranslatable('assignment to a non member')
                f = a['name'].lstrip('_') + '_'
                v, st = self.ex(b, st)
                st2 = self.fresh()
                self.lets.append('let %s := set_%s %s %s in' % (st2, f, st, v))
                return '(%s %s)' % (f, st2), st2
            if op in ('&&', '||'):
                va, st = self.ex(a, st)
                n0 = len(self.lets)
                vb, st = self.ex(b, st)
                if len(self.lets) != n0:
                    raise Untranslatable('side effect in short-circuit rhs')
                return '(%s %s %s)' % (va, op, vb), st
            va, st = self.ex(a, st)
            vb, st = self.ex(b, st)
            cmp = {'<': '<?', '<=': '<=?', '==': '=?', '>': '>?', '>=': '>=?'}
            if op in cmp:
                return '(%s %s %s)' % (va, cmp[op], vb), st
            if op == '!=':
                return '(negb (%s =? %s))' % (va, vb), st
            if op in ('+', '-', '*'):
                return self.wrapto(ty(n), '(%s %s %s)' % (va, op, vb)), st
            if op == '/':
                return self.wrapto(ty(n), '(%s / %s)' % (va, vb)), st
            raise Untranslatable('binop ' + op)
        if k == 'ConditionalOperator':
            c, st = self.ex(n['inner'][0], st)
            n0 = len(self.lets)
            a, st = self.ex(n['inner'][1], st)
            b, st = self.ex(n['inner'][2], st)
            if len(self.lets) != n0:
                raise Untranslatable('side effect in conditional operator')
            return '(if %s then %s else %s)' % (c, a, b), st
        raise Untranslatable('expression kind ' + k)


def has_throw(n):
    if n.get('kind') == 'CXXThrowExpr':
        return True
    return any(has_throw(c) for c in n.get('inner', []) or [])


class Fn:
    def __init__(self, has_state, ret_is_value, throws, final='tt'):
        self.n = 0
        self.has_state = has_state
        self.retv = ret_is_value
        self.throws = throws
        self.final = final

    def ret(self, v):
        return '(Some %s)' % v if self.throws else v

    def block(self, stmts, st):
        if not stmts:
            if self.retv:
                raise Untranslatable('control reaches the end of a value-returning function')
            return self.ret(st if self.has_state else self.final)
        s, rest = stmts[0], stmts[1:]
        k = s['kind']
        if k == 'CompoundStmt':
            return self.block((s.get('inner') or []) + rest, st)
        if k == 'NullStmt':
            return self.block(rest, st)
        if k == 'ReturnStmt':
            if not s.get('inner'):
                return self.ret(st if self.has_state else 'tt')
            sub = Tr(self.has_state)
            sub.n = self.n
            v, st2 = sub.ex(s['inner'][0], st)
            self.n = sub.n
            if sub.lets and self.retv:
                raise Untranslatable('side effect in a return expression')
            return ' '.join(sub.lets) + ' ' + self.ret(v)
        if k == 'IfStmt':
            sub = Tr(self.has_state)
            sub.n = self.n
            c, st1 = sub.ex(s['inner'][0], st)
            self.n = sub.n
            thenb = s['inner'][1]
            elseb = s['inner'][2] if len(s['inner']) > 2 else None
            if self.retv or self.throws or rest == []:
                t = self.block([thenb] + rest, st1)
                e = self.block(([elseb] if elseb else []) + rest, st1)
                return '%s (if %s then %s else %s)' % (' '.join(sub.lets), c, t, e)
            saved_throws = self.throws
            t = self.block([thenb], st1)
            e = self.block([elseb] if elseb else [], st1)
            self.throws = saved_throws
            st2 = 'st%d' % (self.n + 1)
            self.n += 1
            r = self.block(rest, st2)
            return '%s let %s := (if %s then %s else %s) in %s' % (' '.join(sub.lets), st2, c, t, e, r)
        if k == 'DeclStmt':
            d = s['inner'][0]
            if d.get('kind') != 'VarDecl' or not d.get('inner'):
                raise Untranslatable('declaration without initialiser')
            sub = Tr(self.has_state)
            sub.n = self.n
            v, st2 = sub.ex(d['inner'][0], st)
            self.n = sub.n
            return '%s let %s := %s in %s' % (' '.join(sub.lets), d['name'], v, self.block(rest, st2))
        if k == 'CXXThrowExpr' or (k == 'ExprWithCleanups' and s['inner'][0]['kind'] == 'CXXThrowExpr'):
            return 'None'
        sub = Tr(self.has_state)
        sub.n = self.n
        v, st2 = sub.ex(s, st)
        self.n = sub.n
        return '%s %s' % (' '.join(sub.lets), self.block(rest, st2))


def translate_function(m, has_state, final='tt'):
    body = [c for c in m.get('inner', []) if c['kind'] == 'CompoundStmt']
    if not body:
        raise Untranslatable('no body')
    params = [(c['name'], ty(c)) for c in m['inner'] if c['kind'] == 'ParmVarDecl']
    rett = m['type']['qualType'].split('(')[0].strip()
    retv = rett != 'void'
    throws = has_throw(body[0])
    f = Fn(has_state, retv, throws, final)
    g = f.block(body, 'st')
    args = ('(st : words)' if has_state else '') + ''.join(' (%s : %s)' % (p, 'bool' if t == 'bool' else 'Z') for p, t in params)
    return 'Definition %s %s :=\n  %s.' % (m['name'], args.strip(), ' '.join(g.split()))


def walk(n):
    yield n
    for c in n.get('inner', []) or []:
        yield from walk(c)


METHODS = {
    'SmallVectorBase': ['isSmall', 'size', 'capacity', 'incrSize', 'decrSize', 'setSize'],
    'StdVectorBase': ['size', 'capacity', 'incrSize', 'decrSize', 'setSize'],
    'StaticVectorBase': ['size', 'capacity', 'incrSize', 'decrSize', 'setSize'],
}
PREFIX = {'SmallVectorBase': 'sv_', 'StdVectorBase': 'std_', 'StaticVectorBase': 'fcv_'}


def instantiated(objs, cls, ctype):
    """Instantiated specialisations of class template `cls` whose last (size type) argument is ctype."""
    for o in objs:
        for n in walk(o):
            if n.get('kind') == 'ClassTemplateSpecializationDecl' and n.get('name') == cls:
                targs = [a for a in n.get('inner', []) if a.get('kind') == 'TemplateArgument']
                if targs and targs[-1].get('type', {}).get('qualType') == ctype and any(
                        c.get('kind') == 'CXXMethodDecl' and any(x.get('kind') == 'CompoundStmt' for x in c.get('inner', [])) for c in n.get('inner', [])):
                    yield n


def dump_ast(include, std, src, flt, out):
    cmd = ['clang++', '-std=' + std, '-I' + include, '-fsyntax-only', '-Xclang', '-ast-dump=json', '-Xclang',
           '-ast-dump-filter=' + flt, src]
    with open(out, 'w') as f:
        p = subprocess.run(cmd, stdout=f, stderr=subprocess.PIPE, universal_newlines=True, timeout=300)
    if p.returncode != 0:
        raise Untranslatable('clang failed on %s: %s' % (flt, p.stderr[-2000:]))


def main():
    include, outdir = sys.argv[1], sys.argv[2]
    std = 'c++17'
    for a in sys.argv[3:]:
        if a.startswith('-std='):
            std = a[5:]
    os.makedirs(outdir, exist_ok=True)
    summary = {'std': std, 'functions': {}, 'errors': {}}
    with tempfile.TemporaryDirectory(dir=outdir) as tmp:
        src = os.path.join(tmp, 'inst.cpp')
        with open(src, 'w') as f:
            f.write('#include <amc/smallvector.hpp>\n#include <amc/fixedcapacityvector.hpp>\n#include <amc/vector.hpp>\n')
            for tag, ct in SIZE_TYPES:
                f.write('template class amc::vec::SmallVectorBase<int, std::allocator<int>, %s>;\n' % ct)
                f.write('template class amc::vec::StdVectorBase<int, std::allocator<int>, %s>;\n' % ct)
                f.write('template class amc::vec::StaticVectorBase<int, %s>;\n' % ct)
                f.write('template %s amc::vec::SafeNextCapacity<%s>(%s, uintmax_t, bool);\n' % (ct, ct, ct))
        asts = {}
        for flt in ('SmallVectorBase', 'StdVectorBase', 'StaticVectorBase', 'SafeNextCapacity', 'ExceptionGrowingPolicy'):
            path = os.path.join(tmp, flt + '.json')
            try:
                dump_ast(include, std, src, flt, path)
                asts[flt] = load(path)
            except Untranslatable as e:
                summary['errors'][flt] = str(e)
                asts[flt] = []
        for tag, ct in SIZE_TYPES:
            defs = []
            for cls in ('SmallVectorBase', 'StdVectorBase', 'StaticVectorBase'):
                found = {}
                for spec in instantiated(asts[cls], cls, ct):
                    for m in spec.get('inner', []):
                        if m.get('kind') == 'CXXMethodDecl' and m.get('name') in METHODS[cls]:
                            if m['name'] in found:
                                continue
                            try:
                                txt = translate_function(m, True)
                                found[m['name']] = txt
                            except Untranslatable as e:
                                summary['errors']['%s.%s.%s' % (tag, cls, m['name'])] = str(e)
                for name in METHODS[cls]:
                    if name in found:
                        # sibling calls inside a class refer to the prefixed names
                        txt = found[name]
                        for other in METHODS[cls]:
                            txt = txt.replace('(%s st' % other, '(%s%s st' % (PREFIX[cls], other))
                        txt = txt.replace('Definition %s ' % name, 'Definition %s%s ' % (PREFIX[cls], name), 1)
                        defs.append(txt)
                        summary['functions'].setdefault(tag, []).append(PREFIX[cls] + name)
                    elif '%s.%s.%s' % (tag, cls, name) not in summary['errors']:
                        summary['errors']['%s.%s.%s' % (tag, cls, name)] = 'method not found in the AST'
            # SafeNextCapacity<S>
            got = False
            for o in asts['SafeNextCapacity']:
                for n in walk(o):
                    if n.get('kind') == 'FunctionDecl' and n.get('name') == 'SafeNextCapacity':
                        targs = [a for a in n.get('inner', []) if a.get('kind') == 'TemplateArgument']
                        if targs and targs[0].get('type', {}).get('qualType') == ct and not got:
                            try:
                                defs.append(translate_function(n, False))
                                summary['functions'].setdefault(tag, []).append('SafeNextCapacity')
                                got = True
                            except Untranslatable as e:
                                summary['errors']['%s.SafeNextCapacity' % tag] = str(e)
            if not got and '%s.SafeNextCapacity' % tag not in summary['errors']:
                summary['errors']['%s.SafeNextCapacity' % tag] = 'instantiation not found in the AST'
            # ExceptionGrowingPolicy::Check (not a template; emitted in every module for uniformity)
            got = False
            for o in asts['ExceptionGrowingPolicy']:
                for n in walk(o):
                    if n.get('kind') == 'CXXMethodDecl' and n.get('name') == 'Check' and not got:
                        try:
                            defs.append(translate_function(n, False).replace('Definition Check', 'Definition ExcCheck', 1))
                            got = True
                        except Untranslatable as e:
                            summary['errors']['ExceptionGrowingPolicy.Check'] = str(e)
            if not got and 'ExceptionGrowingPolicy.Check' not in summary['errors']:
                summary['errors']['ExceptionGrowingPolicy.Check'] = 'not found in the AST'
            text = ('(* GENERATED by translator/amc2coq.py from clang\'s AST of the amc headers (-std=%s). Do not edit. *)\n'
                    'From Coq Require Import ZArith Bool.\nFrom Amc Require Import GenPrelude.\nLocal Open Scope Z_scope.\n\n%s\n'
                    % (std, '\n\n'.join(defs)))
            path = os.path.join(outdir, 'L0_%s.v' % tag)
            old = open(path).read() if os.path.exists(path) else None
            if old != text:
                with open(path, 'w') as f:
                    f.write(text)
    print(json.dumps(summary, indent=1, sort_keys=True))
    return 0


if __name__ == '__main__':
    sys.exit(main())
