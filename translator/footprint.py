#!/usr/bin/env python3
"""C20 footprint extractor: which functions of amc can write memory another thread may be reading?

    footprint.py <repo include dir> <outdir>     writes <outdir>/Footprint.v, prints a JSON summary on stdout

The claim checked in Coq (Properties_C20.C20_footprint_readonly) is `forallb no_writes table = true` over the table
this script regenerates from the headers.  It works on clang's JSON AST *after template instantiation*:

 1. a probe TU names the six container kinds (and two with a transparent comparator); a first clang run tells the
    class-template specialisations they are made of (bases and data members, transitively);
 2. a second TU explicitly instantiates every one of those classes (so every member function body exists) and calls the
    const member templates that explicit instantiation does not instantiate (heterogeneous find/contains/...);
    clang dumps the declarations of namespace amc only (-ast-dump-filter=amc::, never the whole TU);
 3. every function body found is analysed, given which of its inputs designate memory that other threads may be
    reading ("shared"): for a const non-static member function `this` and everything that comes in by reference /
    pointer to const; for a non-const function what comes in by reference to const of one of amc's classes (copy
    constructors, copy assignments, comparison operators).  What a function passes on to another amc function
    (object, arguments; constructors are matched by class name and signature) makes the corresponding parameter of the
    callee shared there - a fixpoint over the call graph; a read-only view (a `const int&` key, a `const T*`) is
    propagated as such and only matters where a cast drops const.  Roles in the table:
      const    const member function                      helper   non-const function that receives shared memory
      mutator  receives nothing shared: only checked for global state (two writers on DISTINCT containers)
      class    one entry per class: its mutable data members
    A *write site* is
      W1 assignment / compound assignment / ++ / -- whose lvalue designates shared memory or a global
         (this->m, *this->p, p[i] for a local alias p of shared memory, ...); a local variable itself is private
      W2 a call of a non-const member function on such an object
      W3 a cast that drops const (const_cast, C-style, reinterpret) of something shared: treated as a W6 source; W1/W2
         see through it, so `const_cast<X*>(this)->n = 0` is a W1 site
      W4 a function-local static that is neither constexpr nor const (and every write to it); a write to a
         namespace-scope variable
      W5 a `mutable` data member
      W6 a write-granting value into shared memory (a `T*` member read in a const member - the language does not make
         the pointee const -, the result of a const member returning `T*`/`T&`, a W3 cast) that is not immediately
         converted to pointer-to-const / read / compared / returned: stored, captured, or passed to a function outside
         amc (inside amc the parameter becomes shared in the callee and is analysed there).  This is what makes "std::
         algorithms only write through what they are given" sufficient: nothing writable and shared is ever given.
 4. completeness: every const member function (or const member function template) of a class template that has an
    instantiation in the TU must have at least one analysed body; otherwise it is listed in "errors".

Trusted: clang 14's AST, this script, and that std:: functions write only through non-const pointers/references/iterators
passed to them (std const members are read-only).
"""
import json
import os
import re
import subprocess
import sys
import tempfile

CONTAINERS = [
    ("vector", "amc::vector<int>"),
    ("SmallVector4", "amc::SmallVector<int, 4>"),
    ("FixedCapacityVector8", "amc::FixedCapacityVector<int, 8>"),
    ("FlatSet", "amc::FlatSet<int>"),
    ("SmallSet3", "amc::SmallSet<int, 3>"),
    ("SmallSet3Flat", "amc::SmallSet<int, 3, std::less<int>, amc::allocator<int>, amc::FlatSet<int>>"),
    ("FlatSetTr", "amc::FlatSet<int, std::less<>>"),
    ("SmallSet3Tr", "amc::SmallSet<int, 3, std::less<>>"),
    ("SmallSet3FlatTr", "amc::SmallSet<int, 3, std::less<>, amc::allocator<int>, amc::FlatSet<int, std::less<>>>"),
]
HEADERS = ["functional", "cstdint", "amc/vector.hpp", "amc/smallvector.hpp", "amc/fixedcapacityvector.hpp", "amc/flatset.hpp",
           "amc/smallset.hpp"]
# const member templates / free functions that explicit instantiation leaves uninstantiated
USES = r"""
namespace amc { namespace c20probe {
template <class S> long use_transparent(const S &s, long k) {
  long r = 0;
  r += s.find(k) != s.end();
  r += s.contains(k);
  r += static_cast<long>(s.count(k));
  return r;
}
template <class S> long use_bounds(const S &s, long k) {
  long r = 0;
  r += s.lower_bound(k) != s.end();
  r += s.upper_bound(k) != s.end();
  auto er = s.equal_range(k);
  r += er.first != er.second;
  return r;
}
template <class C> long use_cmp(const C &a, const C &b) {
  return (a == b) + (a != b) + (a < b) + (a <= b) + (a > b) + (a >= b);
}
template <class C> long use_copy(const C &a) { C b(a); C c; c = a; return static_cast<long>(b.size() + c.size()); }
template <class C> long use_iter(const C &a) {
  long r = 0;
  for (auto it = a.begin(); it != a.end(); ++it) r += *it;
  for (auto it = a.rbegin(); it != a.rend(); ++it) r += *it;
  for (auto it = a.cbegin(); it != a.cend(); it++) r += *it;
  return r;
}
template <class A, class B> void use_swap2(A &a, B &b) { a.swap2(b); b.swap2(a); }
void use_swaps(amc::vector<int> &v, amc::vector<int, amc::allocator<int>, uint16_t> &v16, amc::SmallVector<int, 4> &s4,
               amc::SmallVector<int, 5, amc::allocator<int>, uint16_t> &s5, amc::FixedCapacityVector<int, 8> &f8,
               amc::FixedCapacityVector<int, 9> &f9) {
  use_swap2(v, v16); use_swap2(v, s4); use_swap2(v, f8); use_swap2(s4, s5); use_swap2(s4, f8); use_swap2(f8, f9);
}
long use_all(%(params)s) {
  long r = 0;
  r += use_transparent(c6, 1) + use_transparent(c7, 1) + use_transparent(c8, 1);
  r += use_bounds(c6, 1);
%(calls)s
  return r;
}
} }
"""


def load(path):
    with open(path) as f:
        txt = f.read()
    dec = json.JSONDecoder()
    i = 0
    objs = []
    n = len(txt)
    while i < n:
        while i < n and txt[i].isspace():
            i += 1
        if i >= n:
            break
        o, i = dec.raw_decode(txt, i)
        objs.append(o)
    return objs


def walk(n, parents=()):
    yield n, parents
    inner = n.get('inner')
    if inner:
        p2 = parents + (n,)
        for c in inner:
            yield from walk(c, p2)


def walk_body(n, parents=()):
    """like walk, but inside a function body: the dependent pattern of a nested template (generic lambda) is skipped,
    its instantiations are visited"""
    yield n, parents
    inner = n.get('inner')
    if inner:
        p2 = parents + (n,)
        skip = None
        if n.get('kind') == 'FunctionTemplateDecl':
            skip = next((c for c in inner if c.get('kind') in FUNC_KINDS), None)
        for c in inner:
            if c is skip:
                continue
            yield from walk_body(c, p2)


def run_clang(include, src, out):
    with open(out, 'w') as f:
        p = subprocess.run(['clang++', '-std=c++17', '-I' + include, '-DAMC_NONSTD_FEATURES', '-fsyntax-only', '-Xclang', '-ast-dump=json', '-Xclang',
                            '-ast-dump-filter=amc::', src], stdout=f, stderr=subprocess.PIPE, universal_newlines=True,
                           timeout=600)
    return p.returncode, p.stderr


# ------------------------------------------------------------------------------------------------ type helpers
def qt(n):
    t = n.get('type') or {}
    return t.get('desugaredQualType') or t.get('qualType') or ''


def strip_top_const(t):
    t = t.strip()
    t = re.sub(r'\s*(__restrict|volatile)$', '', t)
    if t.endswith('const') and (t.endswith('*const') or t.endswith(' const')):
        t = t[:-5].rstrip()
    elif t.startswith('const ') and not t.rstrip().endswith(('*', '&')):
        t = t[6:]
    return t


def is_const_qualified(t):
    """top-level const of an object type (as printed by clang)"""
    t = t.strip()
    if t.endswith('*const') or t.endswith(' const'):
        return True
    if t.endswith('*') or t.endswith('&'):
        return False
    return t.startswith('const ')


def pointee(t):
    """pointee type string of a pointer / reference type, else None"""
    t = t.strip()
    if '(' in t:
        return None                       # function pointers, member pointers: no object is written through them here
    if t.endswith('&&'):
        return t[:-2].strip()
    if t.endswith('&'):
        return t[:-1].strip()
    t2 = re.sub(r'\s*(const|volatile|__restrict)$', '', t)
    while t2 != t and not t2.endswith('*'):
        t, t2 = t2, re.sub(r'\s*(const|volatile|__restrict)$', '', t2)
    if t2.endswith('*'):
        return t2[:-1].strip()
    return None


def is_pointer(t):
    t = t.strip()
    if '(' in t or t.endswith('&'):
        return False
    t2 = t
    for _ in range(3):
        t2 = re.sub(r'\s*(const|volatile|__restrict)$', '', t2)
    return t2.endswith('*')


def ptr_to_mutable(t):
    if not is_pointer(t):
        return False
    p = pointee(t)
    if p is None:
        return False
    return not is_const_qualified(p)


def grants_write(n):
    """does the value of expression n allow writing the memory it designates / points to?"""
    t = qt(n)
    if not t or t == '<bound member function type>' or '(' in t:
        return False
    if ptr_to_mutable(t):
        return True
    if n.get('valueCategory') in ('lvalue', 'xvalue') and not is_const_qualified(t) and pointee(t) is None:
        return True
    return False


def param_is_shared(p):
    """a parameter through which the caller hands something it only lets us read (const T& / const T*), of class type"""
    t = qt(p)
    pt = pointee(t)
    return pt is not None and is_const_qualified(pt)


# ------------------------------------------------------------------------------------------------ the analysis
FUNC_KINDS = ('CXXMethodDecl', 'FunctionDecl', 'CXXConstructorDecl', 'CXXDestructorDecl', 'CXXConversionDecl')
RECORD_KINDS = ('CXXRecordDecl', 'ClassTemplateSpecializationDecl', 'ClassTemplatePartialSpecializationDecl')
TRANSPARENT = ('ImplicitCastExpr', 'ParenExpr', 'CXXStaticCastExpr', 'CStyleCastExpr', 'MaterializeTemporaryExpr',
               'ExprWithCleanups', 'CXXConstCastExpr', 'CXXReinterpretCastExpr', 'CXXFunctionalCastExpr', 'CXXBindTemporaryExpr',
               'ConstantExpr', 'SubstNonTypeTemplateParmExpr')


class Unanalysable(Exception):
    pass


class Index:
    def __init__(self):
        self.const = {}        # method id -> bool
        self.static = {}       # method id -> bool
        self.bodies = {}       # function id -> (decl, meta)
        self.mutable = {}      # class name -> [field names]
        self.patterns = {}     # (class, name, offset) -> description      const members of class templates (patterns)
        self.instantiated = set()   # same keys, from analysed bodies
        self.classes_with_inst = set()
        self.records = set()   # names of amc's classes
        self.leaky = set()     # functions containing a cast that drops const (their result may alias any argument)
        self.ctors = {}        # (class name, signature) -> [constructor ids]

    def ctor_candidates(self, e):
        return self.ctors.get((simple_class_name(qt(e)), (e.get('ctorType') or {}).get('qualType')), [])


def has_body(n):
    return any(c.get('kind') in ('CompoundStmt', 'CXXTryStmt') for c in n.get('inner', []) or [])


def is_const_method(n):
    return n.get('kind') in ('CXXMethodDecl', 'CXXConversionDecl') and re.search(r'\)\s*const\b', n.get('type', {}).get('qualType', '')) is not None \
        and n.get('storageClass') != 'static'


def loc_offset(n):
    l = n.get('loc') or {}
    if 'offset' in l:
        return l['offset']
    for k in ('expansionLoc', 'spellingLoc'):
        if k in l and 'offset' in l[k]:
            return l[k]['offset']
    return -1


def build_index(objs):
    ix = Index()
    seen = set()
    for o in objs:
        for n, parents in walk(o):
            k = n.get('kind')
            if k == 'FieldDecl' and n.get('mutable'):
                cls = [p.get('name') for p in parents if p.get('kind') in RECORD_KINDS]
                c = '::'.join(x for x in cls if x) or '?'
                if n.get('name') not in ix.mutable.setdefault(c, []):
                    ix.mutable[c].append(n.get('name'))
            if k == 'ClassTemplateSpecializationDecl' and n.get('completeDefinition'):
                ix.classes_with_inst.add(n.get('name'))
            if k in RECORD_KINDS and n.get('name'):
                ix.records.add(n.get('name'))
            if k not in FUNC_KINDS:
                continue
            if k in ('CXXMethodDecl', 'CXXConversionDecl'):
                ix.const[n['id']] = is_const_method(n)
                ix.static[n['id']] = n.get('storageClass') == 'static'
            # pattern or instantiation?  nested in a function body?
            state = 'concrete'
            in_function = False
            recs = []
            for i, p in enumerate(parents):
                pk = p.get('kind')
                if pk in ('ClassTemplateDecl', 'ClassTemplatePartialSpecializationDecl'):
                    state = 'pattern'
                elif pk == 'ClassTemplateSpecializationDecl':
                    state = 'concrete'
                    recs.append(p.get('name') or '?')
                elif pk == 'CXXRecordDecl':
                    if not (i > 0 and parents[i - 1].get('kind') == 'ClassTemplateDecl') or True:
                        recs.append(p.get('name') or '(anon)')
                elif pk == 'FunctionTemplateDecl':
                    first = next((c for c in p.get('inner', []) if c.get('kind') in FUNC_KINDS), None)
                    nxt = parents[i + 1] if i + 1 < len(parents) else n
                    if nxt is first:
                        state = 'pattern'
                elif pk in FUNC_KINDS or pk in ('CompoundStmt', 'LambdaExpr'):
                    in_function = True
            if in_function:
                continue
            cls = '::'.join(recs)
            key = (cls, n.get('name'), loc_offset(n))
            if state == 'pattern':
                if is_const_method(n) and not n.get('isImplicit') and cls and not n.get('explicitlyDeleted') and not n.get('pure'):
                    ix.patterns[key] = True
                continue
            if n.get('id') in seen:
                continue
            if has_body(n):
                seen.add(n['id'])
                ix.bodies[n['id']] = (n, {'cls': cls, 'key': key, 'name': n.get('name') or '?'})
                if k == 'CXXConstructorDecl':
                    ix.ctors.setdefault((n.get('name'), n.get('type', {}).get('qualType')), []).append(n['id'])
                for m, _ in walk_body(n):
                    mk = m.get('kind')
                    if mk == 'CXXConstCastExpr' or (mk in ('CStyleCastExpr', 'CXXReinterpretCastExpr') and m.get('inner') and
                                                    ptr_to_mutable(qt(m)) and pointee(qt(m['inner'][0])) is not None and
                                                    is_const_qualified(pointee(qt(m['inner'][0])))):
                        ix.leaky.add(n['id'])
                        break
    return ix


def body_of(fn):
    return [c for c in fn.get('inner', []) if c.get('kind') in ('CompoundStmt', 'CXXTryStmt')][0]


def params_of(fn):
    return [c for c in fn.get('inner', []) or [] if c.get('kind') == 'ParmVarDecl']


def simple_class_name(t):
    """'amc::vec::VectorImpl<int, ...>' -> 'VectorImpl'"""
    depth = 0
    out = ''
    for ch in strip_top_const(t):
        if ch == '<':
            depth += 1
        elif ch == '>':
            depth -= 1
        elif depth == 0:
            out += ch
    return out.split('::')[-1].strip()


def is_value_expr(k):
    return k in ('CXXConstructExpr', 'CXXTemporaryObjectExpr', 'InitListExpr', 'CXXNewExpr', 'LambdaExpr', 'IntegerLiteral',
                 'StringLiteral', 'CXXNullPtrLiteralExpr', 'CXXBoolLiteralExpr', 'CharacterLiteral', 'FloatingLiteral',
                 'CXXScalarValueInitExpr', 'UnaryExprOrTypeTraitExpr', 'GNUNullExpr', 'ImplicitValueInitExpr', 'CXXDefaultArgExpr',
                 'CXXStdInitializerListExpr', 'CXXDefaultInitExpr', 'CompoundLiteralExpr', 'TypeTraitExpr', 'CXXNoexceptExpr',
                 'CXXThrowExpr', 'OpaqueValueExpr', 'PredefinedExpr', 'SizeOfPackExpr', 'StmtExpr', 'CXXTypeidExpr',
                 'ArrayInitLoopExpr', 'ArrayInitIndexExpr', 'CXXInheritedCtorInitExpr')


THIS = -1


class Analysis:
    """One function body, given which of its inputs designate memory shared with other threads.

    shared: set of parameter indices (THIS = -1 for the object of a member function)."""

    def __init__(self, ix, fn, shared, view=(), light=False):
        self.ix = ix
        self.fn = fn
        self.shared = set(shared)
        self.view = set(view) - self.shared   # inputs that are read-only views of shared memory (dangerous only through a cast)
        self.light = light                    # nothing shared comes in: only global state matters
        self.sites = []
        self.calls = []                       # (callee key, set of shared argument indices)
        self.locals = {}                      # decl id -> (kind, root)   kind: 'obj' | 'ptr' | 'ref'
        self.this_shared = THIS in self.shared

    # ---- roots: whose memory does an lvalue designate / a pointer point to?
    #      'private' | 'this' | 'shared:<param>' | 'global:<x>' | 'unknown:<kind>'
    def decl_root(self, d, deref):
        did = d.get('id')
        k = d.get('kind')
        if did in self.locals:
            kind, r = self.locals[did]
            if kind == 'ref' or (kind == 'ptr' and deref):
                return r
            if kind == 'global':
                return r
            return 'private'                  # the variable itself
        if k == 'ParmVarDecl':
            return 'private'
        if k in ('VarDecl', 'VarTemplateSpecializationDecl'):
            t = d.get('type', {}).get('qualType', '')
            return 'global:' + (d.get('name') or '?')
        if k in ('FieldDecl', 'IndirectFieldDecl'):
            return 'this' if self.this_shared else 'private'
        if k in ('FunctionDecl', 'CXXMethodDecl', 'EnumConstantDecl', 'NonTypeTemplateParmDecl', 'BindingDecl'):
            return 'private'
        return 'unknown:' + str(k)

    def this_root(self):
        return 'this' if self.this_shared else 'private'

    def call_parts(self, n):
        """-> (callee decl id or None, callee name, object expr or None, object reached through '->', [args])"""
        k = n.get('kind')
        inner = n.get('inner') or []
        if k in ('CXXConstructExpr', 'CXXTemporaryObjectExpr'):
            return None, simple_class_name(qt(n)), None, False, list(inner)
        callee = inner[0] if inner else {}
        while callee.get('kind') in TRANSPARENT and callee.get('inner'):
            callee = callee['inner'][0]
        args = list(inner[1:])
        if k == 'CXXMemberCallExpr':
            if callee.get('kind') == 'MemberExpr':
                objs = callee.get('inner') or []
                obj = objs[0] if objs else {'kind': 'CXXThisExpr'}
                return callee.get('referencedMemberDecl'), callee.get('name', '?'), obj, bool(callee.get('isArrow')), args
            return None, callee.get('kind', '?'), None, False, args     # call through a pointer to member
        if callee.get('kind') == 'DeclRefExpr':
            d = callee.get('referencedDecl', {})
            if k == 'CXXOperatorCallExpr' and d.get('kind') in ('CXXMethodDecl', 'CXXConversionDecl') and args:
                return d.get('id'), d.get('name', '?'), args[0], False, args[1:]
            return d.get('id'), d.get('name', '?'), None, False, args
        return None, callee.get('kind', '?'), None, False, args

    def expr_root(self, a, wide):
        """root of what an argument expression lets the callee reach (pointer: pointee; glvalue: the object)"""
        t = qt(a)
        if is_pointer(t):
            return self.root(a, True, wide)
        if a.get('valueCategory') in ('lvalue', 'xvalue'):
            return self.root(a, False, wide)
        k = a.get('kind')
        if k in TRANSPARENT and a.get('inner'):
            return self.expr_root(a['inner'][0], wide)
        return 'private'                      # a prvalue of non-pointer type: a copy

    def root(self, n, deref=False, wide=False):
        while True:
            k = n.get('kind')
            inner = n.get('inner') or []
            if k in TRANSPARENT and inner:
                if k == 'ImplicitCastExpr' and n.get('castKind') == 'ArrayToPointerDecay':
                    deref = False             # &a[0]: the array object itself
                if drops_const(n):
                    r = self.root(inner[0], deref, True)      # whatever the operand can reach is now writable
                    return r.replace('view:', 'shared:') if r.startswith('view:') else r
                n = inner[0]
            elif k == 'MemberExpr':
                if not inner:
                    return self.this_root()
                if n.get('isArrow'):
                    deref = True
                elif is_pointer(qt(n)) and deref:
                    # p.ptr->... : what the pointer member points to belongs (for us) to the owner of the member
                    pass
                n = inner[0]
            elif k == 'ArraySubscriptExpr':
                base = inner[0] if (is_pointer(qt(inner[0])) or not is_pointer(qt(inner[1]))) else inner[1]
                n = base
                deref = True
            elif k == 'UnaryOperator' and n.get('opcode') == '*':
                n = inner[0]
                deref = True
            elif k == 'UnaryOperator' and n.get('opcode') == '&':
                n = inner[0]
                deref = False
            elif k == 'UnaryOperator' and n.get('opcode') in ('++', '--', '+', '__extension__', '__real', '__imag'):
                n = inner[0]
            elif k == 'BinaryOperator' and n.get('opcode') == ',':
                n = inner[1]
            elif k == 'BinaryOperator' and n.get('opcode') in ('+', '-') and is_pointer(qt(n)):
                n = inner[0] if is_pointer(qt(inner[0])) else inner[1]
            elif k in ('BinaryOperator', 'CompoundAssignOperator') and n.get('opcode', '').endswith('=') and \
                    n.get('opcode') not in ('==', '!=', '<=', '>='):
                n = inner[0]                  # (a = b) designates a
            elif k in ('ConditionalOperator', 'BinaryConditionalOperator'):
                rs = [self.root(x, deref, wide) for x in inner[1:]]
                bad = [r for r in rs if r != 'private']
                return bad[0] if bad else 'private'
            elif k == 'CXXThisExpr':
                return self.this_root()
            elif k == 'DeclRefExpr':
                return self.decl_root(n.get('referencedDecl', {}), deref)
            elif k in ('CXXMemberCallExpr', 'CXXOperatorCallExpr', 'CallExpr'):
                t = qt(n)
                if n.get('valueCategory') == 'prvalue' and not is_pointer(t):
                    return 'private'          # a temporary object
                cid, name, obj, arrow, args = self.call_parts(n)
                rs = []
                if obj is not None:
                    rs.append(self.root(obj, arrow or is_pointer(qt(obj)), wide))
                allargs = wide or (cid in self.ix.leaky)
                for a in args:
                    if a.get('kind') == 'CXXDefaultArgExpr':
                        continue
                    if allargs or grants_write(a) or self.holds_writable(a):
                        r1 = self.expr_root(a, wide)
                        if wide and r1 != 'private' and not (grants_write(a) or self.holds_writable(a)) and not r1.startswith('global:'):
                            r1 = 'view:' + r1.split(':', 1)[-1]
                        rs.append(r1)
                bad = [r for r in rs if r != 'private']
                strong = [r for r in bad if not r.startswith('view:')]
                return strong[0] if strong else (bad[0] if bad else 'private')
            elif is_value_expr(k):
                return 'private'
            elif k in ('UnaryOperator', 'BinaryOperator'):
                return 'private'              # arithmetic / logical value
            else:
                return 'unknown:' + str(k)

    def holds_writable(self, a):
        """an argument through which the callee could hand back something writable without a cast: a pointer to mutable, or
        an object of class type (it may contain such pointers: deep constness is not enforced by the language)"""
        t = qt(a)
        if ptr_to_mutable(t):
            return True
        base = pointee(t) if is_pointer(t) else t
        return not is_scalar(base)

    def both_root(self, n, deref=False):
        r = self.root(n, deref, False)
        if r != 'private':
            return r
        r = self.root(n, deref, True)
        if r != 'private' and not r.startswith(('view:', 'global:', 'unknown:')):
            r = 'view:' + r.split(':', 1)[-1]
        return r

    # ---- declarations: which locals are private objects, which alias something
    def register_locals(self):
        ps = params_of(self.fn)
        top = {p['id'] for p in ps}
        for i, c in enumerate(ps):
            t = qt(c)
            kind = 'ptr' if is_pointer(t) else ('ref' if pointee(t) is not None else 'obj')
            nm = c.get('name') or 'arg%d' % i
            r = ('shared:' + nm) if i in self.shared else (('view:' + nm) if i in self.view else 'private')
            self.locals[c['id']] = (kind, r)
        anything_shared = bool(self.shared or self.view)
        pending = []
        for n, _ in walk_body(self.fn):
            k = n.get('kind')
            if k == 'ParmVarDecl' and n['id'] not in top:
                # parameter of a nested lambda / local class member: called back (by std algorithms) with whatever the
                # enclosing function handed over
                t = qt(n)
                kind = 'ptr' if is_pointer(t) else ('ref' if pointee(t) is not None else 'obj')
                lab = 'private'
                if anything_shared and kind != 'obj':
                    lab = ('shared:' if (self.shared and not is_scalar(pointee(t))) else 'view:') + (n.get('name') or 'cb')
                self.locals.setdefault(n['id'], (kind, lab))
            elif k in ('VarDecl', 'DecompositionDecl'):
                t = qt(n)
                if n.get('storageClass') == 'static' or n.get('tls'):
                    if not n.get('constexpr') and not is_const_qualified(t):
                        self.add('static-local %s' % n.get('name'))
                        self.locals[n['id']] = ('global', 'global:' + (n.get('name') or '?'))
                    else:
                        self.locals[n['id']] = ('obj', 'private')
                    continue
                if is_pointer(t):
                    self.locals[n['id']] = ('ptr', 'private')
                    pending.append(n)
                elif pointee(t) is not None:
                    self.locals[n['id']] = ('ref', 'private')
                    pending.append(n)
                else:
                    self.locals[n['id']] = ('obj', 'private')
        # pointer / reference locals: the root of the initialiser (wide: anything the initialiser could reach).  Pointers that
        # are re-assigned later join the roots of what is assigned.
        assigns = {}
        for n, _ in walk_body(self.fn):
            if n.get('kind') == 'BinaryOperator' and n.get('opcode') == '=' and n.get('inner'):
                l = n['inner'][0]
                while l.get('kind') in TRANSPARENT and l.get('inner'):
                    l = l['inner'][0]
                if l.get('kind') == 'DeclRefExpr' and is_pointer(qt(l)):
                    assigns.setdefault(l.get('referencedDecl', {}).get('id'), []).append(n['inner'][1])
        for _ in range(3):
            for n in pending:
                kind = self.locals[n['id']][0]
                inits = [c for c in n.get('inner', []) or [] if c.get('kind', '').endswith(('Expr', 'Operator', 'Literal', 'Cleanups'))]
                inits = inits[:1] + assigns.get(n['id'], [])
                r = 'private'
                for e in inits:
                    r1 = self.both_root(e, kind == 'ptr')
                    if r1 != 'private':
                        r = r1
                        break
                self.locals[n['id']] = (kind, r)

    # ---- W6: does a write-granting value rooted in shared memory escape?
    def escape(self, n, parents):
        cur = n
        for p in reversed(parents):
            k = p.get('kind')
            inner = p.get('inner') or []
            if k in ('ParenExpr', 'ExprWithCleanups', 'MaterializeTemporaryExpr', 'CXXBindTemporaryExpr', 'ConstantExpr'):
                cur = p
                continue
            if k in ('ImplicitCastExpr', 'CXXStaticCastExpr', 'CStyleCastExpr', 'CXXReinterpretCastExpr', 'CXXFunctionalCastExpr',
                     'CXXConstCastExpr'):
                if p.get('castKind') == 'LValueToRValue' and not ptr_to_mutable(qt(p)):
                    return None               # the value is read
                if grants_write(p):
                    cur = p
                    continue
                return None                   # converted to const / to a scalar
            if k == 'UnaryOperator':
                op = p.get('opcode')
                if op in ('*', '&', '+', '__extension__'):
                    if grants_write(p):
                        cur = p
                        continue
                    return None
                return None                   # ++/--: W1 decides; !, -, ~ : a value
            if k in ('BinaryOperator', 'CompoundAssignOperator'):
                op = p.get('opcode')
                if op == '=' or k == 'CompoundAssignOperator':
                    if inner and inner[0] is cur:
                        return None           # W1 decides
                    if k == 'CompoundAssignOperator' or not ptr_to_mutable(qt(cur)):
                        return None
                    if not ptr_to_mutable(qt(inner[0])):
                        return None
                    # p = <shared mutable pointer>: allowed for a local pointer variable (its root was joined in register_locals,
                    # every write through it is then a W1/W2/W6 site of its own); anything else is a store
                    l = inner[0]
                    while l.get('kind') in TRANSPARENT and l.get('inner'):
                        l = l['inner'][0]
                    if l.get('kind') == 'DeclRefExpr' and self.locals.get(l.get('referencedDecl', {}).get('id'), ('', ''))[0] == 'ptr':
                        return None
                    return 'stored by assignment'
                if op in ('+', '-') and grants_write(p):
                    cur = p
                    continue
                if op == ',' and inner and inner[-1] is cur and grants_write(p):
                    cur = p
                    continue
                return None
            if k == 'ArraySubscriptExpr':
                if grants_write(p):
                    cur = p
                    continue
                return None
            if k == 'MemberExpr':
                if qt(p) == '<bound member function type>':
                    return None               # W2 decides (non-const callee) / the call result is a source of its own
                if grants_write(p):
                    cur = p
                    continue
                return None
            if k in ('ConditionalOperator', 'BinaryConditionalOperator'):
                if inner and inner[0] is cur and k == 'ConditionalOperator':
                    return None
                if grants_write(p):
                    cur = p
                    continue
                return None
            if k == 'ReturnStmt':
                return None                   # handed to the caller: call results are sources there
            if k in ('IfStmt', 'WhileStmt', 'ForStmt', 'DoStmt', 'CompoundStmt', 'SwitchStmt', 'CaseStmt', 'DefaultStmt', 'LabelStmt',
                     'CXXForRangeStmt', 'NullStmt', 'AttributedStmt', 'CXXTryStmt', 'CXXCatchStmt', 'UnaryExprOrTypeTraitExpr',
                     'CXXNoexceptExpr'):
                return None                   # value discarded or used as a condition
            if k == 'VarDecl':
                lk = self.locals.get(p.get('id'), ('', ''))[0]
                if lk in ('ptr', 'ref'):
                    return None               # a local alias: tracked by its root, its uses are sites of their own
                return None if not grants_write_type(qt(p)) else 'bound to %s of type %s' % (p.get('name'), short(qt(p)))
            if k in ('CallExpr', 'CXXMemberCallExpr', 'CXXOperatorCallExpr', 'CXXConstructExpr', 'CXXTemporaryObjectExpr'):
                cid, name, obj, arrow, args = self.call_parts(p)
                if obj is cur:
                    return None               # W2 decides
                if cid not in self.ix.bodies and name in IDENTITY and k == 'CallExpr':
                    if grants_write(p):
                        cur = p
                        continue
                    return None
                if cid in self.ix.bodies or (cid is None and self.ix.ctor_candidates(p)):
                    return None               # an amc function: the parameter is marked shared there and analysed there
                return 'passed to %s' % name
            return 'used by %s' % k
        return None

    def analyse(self):
        body = body_of(self.fn)
        scopes = [body] + [c for c in self.fn.get('inner', []) if c.get('kind') == 'CXXCtorInitializer']
        self.register_locals()
        for scope in scopes:
            for n, parents in walk_body(scope):
                self.visit(n, parents)
        return self.sites

    def add(self, s):
        if s not in self.sites:
            self.sites.append(s)

    def bad(self, r):
        if self.light:
            return r.startswith('global:')
        return r != 'private' and not r.startswith('view:')

    def visit(self, n, parents):
        k = n.get('kind')
        inner = n.get('inner') or []
        # W1
        lhs = None
        what = None
        if k == 'BinaryOperator' and n.get('opcode') == '=':
            lhs, what = inner[0], 'assign'
        elif k == 'CompoundAssignOperator':
            lhs, what = inner[0], 'compound-assign'
        elif k == 'UnaryOperator' and n.get('opcode') in ('++', '--'):
            lhs, what = inner[0], n['opcode']
        if lhs is not None:
            r = self.root(lhs)
            if self.bad(r):
                self.add('%s to %s [%s]' % (what, r, describe(lhs)))
        # calls: W2 and the propagation of what is shared into amc callees
        if k in ('CXXMemberCallExpr', 'CXXOperatorCallExpr', 'CallExpr', 'CXXConstructExpr', 'CXXTemporaryObjectExpr'):
            self.call(n)
        if self.light:
            return
        # W3: a cast that drops const yields a write-granting value: a W6 source (written through it -> W1/W2 see through the cast)
        src = False
        if drops_const(n):
            src = True
        # W6 sources
        elif k == 'MemberExpr' and qt(n) != '<bound member function type>' and grants_write(n):
            src = True
        elif k in ('CXXMemberCallExpr', 'CXXOperatorCallExpr', 'CallExpr') and grants_write(n):
            src = True
        elif k == 'DeclRefExpr' and grants_write(n) and n.get('referencedDecl', {}).get('kind') in ('VarDecl', 'ParmVarDecl', 'BindingDecl'):
            src = True
        if src:
            r = self.root(n, is_pointer(qt(n)))
            if self.bad(r):
                e = self.escape(n, parents)
                if e:
                    self.add('writable %s into %s %s [%s]' % (short(qt(n)), r, e, describe(n)))

    def call(self, n):
        cid, name, obj, arrow, args = self.call_parts(n)
        k = n.get('kind')
        # W2: non-const member function on something that is not private
        if obj is not None and cid is not None and not self.ix.static.get(cid):
            isconst = self.ix.const.get(cid)
            if isconst is None:
                # callee declared outside the dump (std:: class): constness from the object expression's type
                ot = qt(obj)
                isconst = is_const_qualified(pointee(ot) if (arrow or is_pointer(ot)) and pointee(ot) else ot)
                if 'lambda at' in ot:
                    isconst = True
            if not isconst:
                r = self.root(obj, arrow or is_pointer(qt(obj)))
                if self.bad(r):
                    self.add('non-const call %s on %s [%s]' % (name, r, describe(obj)))
        # propagation
        targets = []
        if cid is not None and cid in self.ix.bodies:
            targets = [cid]
        elif cid is None and k in ('CXXConstructExpr', 'CXXTemporaryObjectExpr'):
            targets = self.ix.ctor_candidates(n)
        if not targets:
            return
        sh = set()
        vw = set()
        if obj is not None:
            r = self.both_root(obj, arrow or is_pointer(qt(obj)))
            if r != 'private':
                (vw if r.startswith('view:') else sh).add(THIS)
        for i, a in enumerate(args):
            if a.get('kind') == 'CXXDefaultArgExpr':
                continue
            t = qt(a)
            if is_pointer(t):
                r = self.both_root(a, True)
            elif a.get('valueCategory') in ('lvalue', 'xvalue'):
                r = self.both_root(a, False)
            else:
                r = self.both_root(a, False) if any(x.get('kind') in TRANSPARENT for x in [a]) and self.is_glvalue_under(a) else 'private'
            if r != 'private':
                (vw if r.startswith('view:') else sh).add(i)
        for t in targets:
            self.calls.append((t, sh, vw))

    def is_glvalue_under(self, a):
        while a.get('kind') in TRANSPARENT and a.get('inner'):
            if a.get('kind') == 'ImplicitCastExpr' and a.get('castKind') == 'LValueToRValue':
                return False
            a = a['inner'][0]
            if a.get('valueCategory') in ('lvalue', 'xvalue') or is_pointer(qt(a)):
                return True
        return False


IDENTITY = ('move', 'forward', 'addressof', '__addressof', 'move_if_noexcept', 'launder', 'as_const', 'to_address', '__to_address',
            'forward_like', 'prev', 'next')
SCALARS = {'void', 'bool', 'char', 'signed char', 'unsigned char', 'short', 'unsigned short', 'int', 'unsigned int', 'long',
           'unsigned long', 'long long', 'unsigned long long', 'float', 'double', 'long double', 'wchar_t', 'char16_t', 'char32_t',
           'std::nullptr_t', 'nullptr_t', 'std::size_t', 'size_t', 'std::ptrdiff_t', 'ptrdiff_t', 'uintmax_t', 'std::uint8_t',
           'uint8_t', 'uint16_t', 'uint32_t', 'uint64_t', 'int8_t', 'int16_t', 'int32_t', 'int64_t', 'unsigned', '__int128',
           'unsigned __int128'}


def is_scalar(t):
    """a type that cannot contain a pointer to mutable data: arithmetic types, and pointers to const of them"""
    if t is None:
        return True
    t = t.strip()
    for _ in range(4):
        if t.endswith(']'):
            t = t[:t.rindex('[')].strip()
    if is_pointer(t):
        p = pointee(t)
        return p is not None and is_const_qualified(p) and is_scalar(p)
    t = strip_top_const(t)
    return t in SCALARS or t.startswith('enum ')


def drops_const(n):
    k = n.get('kind')
    inner = n.get('inner') or []
    if not inner or k not in ('CXXConstCastExpr', 'CStyleCastExpr', 'CXXReinterpretCastExpr', 'CXXFunctionalCastExpr', 'CXXStaticCastExpr'):
        return False
    if not grants_write(n):
        return False
    if k == 'CXXConstCastExpr':
        return True
    s0 = qt(inner[0])
    sp = pointee(s0)
    return (sp is not None and is_const_qualified(sp)) or \
           (sp is None and is_const_qualified(s0) and inner[0].get('valueCategory') != 'prvalue')


def grants_write_type(t):
    if ptr_to_mutable(t):
        return True
    p = pointee(t)
    return p is not None and not is_pointer(t) and not is_const_qualified(p)


def strip_ref(t):
    t = t.strip()
    while t.endswith('&'):
        t = t[:-1].strip()
    return t


def short(t):
    t = re.sub(r'amc::(vec::)?', '', t)
    t = re.sub(r'<.*>', '<..>', t)
    return t[:60]


def callee_name(call):
    inner = call.get('inner') or []
    c = inner[0] if inner else {}
    while c.get('kind') in TRANSPARENT and c.get('inner'):
        c = c['inner'][0]
    if c.get('kind') == 'DeclRefExpr':
        return c.get('referencedDecl', {}).get('name', '?')
    if c.get('kind') == 'MemberExpr':
        return c.get('name', '?')
    return c.get('kind', '?')


def describe(n):
    """short source-like rendering of an lvalue expression"""
    k = n.get('kind')
    inner = n.get('inner') or []
    if k in TRANSPARENT and inner:
        return describe(inner[0])
    if k == 'MemberExpr':
        base = describe(inner[0]) if inner else 'this'
        return base + ('->' if n.get('isArrow') else '.') + n.get('name', '?')
    if k == 'CXXThisExpr':
        return 'this'
    if k == 'DeclRefExpr':
        return n.get('referencedDecl', {}).get('name', '?')
    if k == 'UnaryOperator':
        return n.get('opcode', '?') + describe(inner[0])
    if k == 'ArraySubscriptExpr':
        return describe(inner[0]) + '[..]'
    if k in ('CXXMemberCallExpr', 'CallExpr', 'CXXOperatorCallExpr'):
        return callee_name(n) + '(..)'
    return k or '?'


# ------------------------------------------------------------------------------------------------ driver
def make_probe_tu():
    s = ''.join('#include <%s>\n' % h for h in HEADERS)
    s += 'namespace amc { namespace c20probe {\n'
    for i, (tag, ty) in enumerate(CONTAINERS):
        s += 'using T%d = %s;\nstatic_assert(sizeof(T%d) > 0, "");\n' % (i, ty, i)
    s += '} }\n'
    return s


def class_names_from(objs):
    """canonical names of the class template specialisations of amc the probe containers are made of"""
    names = []
    roots = []
    for o in objs:
        for n, parents in walk(o):
            if n.get('kind') == 'TypeAliasDecl' and any(p.get('name') == 'c20probe' for p in parents):
                roots.append(qt(n))
    graph = {}
    for o in objs:
        for n, parents in walk(o):
            if n.get('kind') in ('ClassTemplateSpecializationDecl', 'CXXRecordDecl') and n.get('completeDefinition'):
                deps = []
                for b in n.get('bases', []) or []:
                    deps.append(b['type'].get('desugaredQualType') or b['type'].get('qualType'))
                for c in n.get('inner', []) or []:
                    if c.get('kind') == 'FieldDecl':
                        deps.append(strip_top_const(qt(c)))
                for d in deps:
                    if d.startswith('amc::') and '<' in d:
                        names.append(d)
            elif n.get('kind') == 'VarDecl' and any(p.get('kind') == 'CompoundStmt' for p in parents):
                d = strip_top_const(qt(n))             # local objects of instantiated bodies (SmallSet's PtrVec)
                if d.startswith('amc::') and '<' in d:
                    names.append(d)
    out = []
    for x in roots + names:
        x = x.strip()
        if x.startswith('amc::') and x.endswith('>') and '>::' not in x and x not in out and 'lambda' not in x:
            out.append(x)
    return roots, out


def make_inst_tu(class_names, roots):
    s = ''.join('#include <%s>\n' % h for h in HEADERS)
    for c in class_names:
        s += 'template class %s;\n' % c
    params = ', '.join('const %s &c%d' % (ty, i) for i, (tag, ty) in enumerate(CONTAINERS))
    calls = ''
    for i in range(len(CONTAINERS)):
        calls += '  r += use_cmp(c%d, c%d) + use_copy(c%d) + use_iter(c%d);\n' % (i, i, i, i)
    s += USES % {'params': params, 'calls': calls}
    return s


def coq_string(s):
    s = ''.join(ch if 32 <= ord(ch) < 127 else '?' for ch in s)
    return '"' + s.replace('"', '""') + '"'


def main():
    include, outdir = sys.argv[1], sys.argv[2]
    keep = os.environ.get('FOOTPRINT_KEEP')
    summary = {'analysed': 0, 'flagged': [], 'errors': {}}
    os.makedirs(outdir, exist_ok=True)
    with tempfile.TemporaryDirectory(prefix='footprint') as tmp:
        if keep:
            tmp = keep
            os.makedirs(tmp, exist_ok=True)
        # pass 0: what are the containers made of
        p0 = os.path.join(tmp, 'probe.cpp')
        with open(p0, 'w') as f:
            f.write(make_probe_tu())
        rc, err = run_clang(include, p0, os.path.join(tmp, 'probe.json'))
        if rc != 0:
            summary['errors']['probe'] = 'clang failed: ' + err[-1500:]
            return finish(summary, outdir, None)
        roots, names = class_names_from(load(os.path.join(tmp, 'probe.json')))
        if len(roots) != len(CONTAINERS):
            summary['errors']['probe'] = 'expected %d container aliases, found %d' % (len(CONTAINERS), len(roots))
        # pass 1..: explicit instantiation of all of them (repeat if new classes show up)
        objs = None
        for rnd in range(4):
            src = os.path.join(tmp, 'inst.cpp')
            with open(src, 'w') as f:
                f.write(make_inst_tu(names, roots))
            rc, err = run_clang(include, src, os.path.join(tmp, 'inst.json'))
            if rc != 0:
                summary['errors']['instantiate'] = 'clang failed: ' + err[-1500:]
                return finish(summary, outdir, None)
            objs = load(os.path.join(tmp, 'inst.json'))
            _, names2 = class_names_from(objs)
            new = [x for x in names2 if x not in names]
            if not new:
                break
            names += new
        summary['instantiated_classes'] = len(names)
        table = analyse_all(objs, summary)
    return finish(summary, outdir, table)


def initial_shared(fn, ix):
    """what a function may receive that other threads read: `this` of a const member, and whatever comes in through
    a reference / pointer to const (for the non-const functions only when it is one of amc's classes: the copy constructors,
    copy assignments and comparison operators; their callees get theirs by propagation)"""
    sh = set()
    ps = params_of(fn)
    if is_const_method(fn):
        sh.add(THIS)
        for i, p in enumerate(ps):
            if param_is_shared(p):
                sh.add(i)
    else:
        for i, p in enumerate(ps):
            if param_is_shared(p) and simple_class_name(pointee(qt(p))) in ix.records:
                sh.add(i)
    return sh


def analyse_all(objs, summary):
    ix = build_index(objs)
    shared = {fid: initial_shared(fn, ix) for fid, (fn, meta) in ix.bodies.items()}
    view = {fid: set() for fid in ix.bodies}
    results = {}
    todo = list(ix.bodies.keys())
    queued = set(todo)
    rounds = 0
    while todo:
        fid = todo.pop()
        queued.discard(fid)
        fn, meta = ix.bodies[fid]
        rounds += 1
        if rounds > 40 * len(ix.bodies):
            summary['errors']['fixpoint'] = 'sharing propagation did not converge'
            break
        label = '%s::%s@%d' % (meta['cls'], meta['name'], meta['key'][2])
        try:
            a = Analysis(ix, fn, shared[fid], view[fid], light=not (shared[fid] or view[fid]))
            sites = a.analyse()
            unknown = [x for x in sites if 'unknown:' in x]
            if unknown and (shared[fid] or view[fid]):
                raise Unanalysable('; '.join(unknown)[:300])
            sites = [x for x in sites if 'unknown:' not in x]
            summary['errors'].pop(label, None)
        except Unanalysable as e:
            summary['errors'][label] = 'cannot analyse: %s' % e
            sites = ['UNANALYSED']
            a.calls = getattr(a, 'calls', [])
        except (KeyError, IndexError, TypeError, AttributeError) as e:
            summary['errors'][label] = 'cannot analyse: %r' % (e,)
            sites = ['UNANALYSED']
        results[fid] = sites
        for callee, sh, vw in a.calls:
            if callee in shared and not (sh <= shared[callee] and vw <= view[callee]):
                shared[callee] |= sh
                view[callee] |= vw
                if callee not in queued:
                    queued.add(callee)
                    todo.append(callee)
    merged = {}
    bodies = 0
    for fid, (fn, meta) in ix.bodies.items():
        role = 'const' if is_const_method(fn) else ('helper' if (shared[fid] or view[fid]) else 'mutator')
        if meta['name'].startswith('use_') or 'c20probe' in meta['cls']:
            continue
        bodies += 1
        sites = results.get(fid, ['UNANALYSED'])
        if role == 'const':
            ix.instantiated.add(meta['key'])
        mk = (meta['cls'], meta['name'], meta['key'][2], role)
        m = merged.setdefault(mk, {'cls': meta['cls'], 'meth': meta['name'], 'role': role, 'writes': [], 'insts': 0, 'off': meta['key'][2]})
        m['insts'] += 1
        for x in sites:
            if x not in m['writes']:
                m['writes'].append(x)
    # completeness: const members of instantiated class templates that have no analysed body
    for key, hasb in sorted(ix.patterns.items()):
        cls, name, off = key
        if not hasb:
            continue
        top = cls.split('::')[0]
        if top not in ix.classes_with_inst:
            continue
        if key not in ix.instantiated:
            summary['errors']['%s::%s@%d' % key] = 'const member has no instantiated body in the probe TU (add a use to translator/footprint.py)'
    table = []
    for mk in sorted(merged, key=lambda k: (k[0], k[1], k[2], k[3])):
        m = merged[mk]
        m['cls'] = m['cls'] or '(free)'
        m['mutable_fields'] = []
        table.append(m)
    # W5: one entry per class: its mutable data members (a const member may write them; any such write is also a W1 site)
    classes = sorted(set(m['cls'] for m in table if m['cls'] != '(free)') | set(ix.mutable.keys()))
    for c in classes:
        table.append({'cls': c, 'meth': '(data members)', 'role': 'class', 'writes': [], 'insts': 0, 'off': 0,
                      'mutable_fields': list(ix.mutable.get(c, []))})
    summary['analysed'] = sum(1 for m in table if m['role'] == 'const')
    summary['analysed_bodies'] = bodies
    summary['by_role'] = {r: sum(1 for m in table if m['role'] == r) for r in ('const', 'helper', 'mutator', 'class')}
    summary['mutable_fields'] = {c: f for c, f in ix.mutable.items()}
    for m in table:
        if m['writes'] or m['mutable_fields']:
            summary['flagged'].append({'cls': m['cls'], 'meth': m['meth'], 'role': m['role'], 'writes': m['writes'],
                                       'mutable_fields': m['mutable_fields']})
    return table


def finish(summary, outdir, table):
    lines = ['(* GENERATED by translator/footprint.py from the headers of the library under test; do not edit. *)',
             'From Coq Require Import List String.', 'From Amc Require Import ReadOnly.', 'Import ListNotations.',
             'Local Open Scope string_scope.', '']
    if table is None:
        lines.append('(* extraction failed: %s *)' % ' / '.join(summary['errors'].keys()).replace('*)', '* )'))
        lines.append('Definition table : list entry := [ {| cls := "EXTRACTION"; meth := "FAILED"; role := "const"; insts := 0; '
                     'writes := ["extraction failed"]; mutable_fields := [] |} ].')
    else:
        lines.append('Definition table : list entry := [')
        ents = []
        for m in table:
            ents.append('  {| cls := %s; meth := %s; role := %s; insts := %d; writes := [%s]; mutable_fields := [%s] |}' % (
                coq_string(m['cls']), coq_string(m['meth']), coq_string(m['role']), m['insts'],
                '; '.join(coq_string(w) for w in m['writes']), '; '.join(coq_string(w) for w in m['mutable_fields'])))
        lines.append(';\n'.join(ents))
        lines.append('].')
    text = '\n'.join(lines) + '\n'
    path = os.path.join(outdir, 'Footprint.v')
    old = None
    if os.path.exists(path):
        with open(path) as f:
            old = f.read()
    if old != text:
        with open(path, 'w') as f:
            f.write(text)
    summary['output'] = path
    print(json.dumps(summary, indent=1, sort_keys=True))
    return 0


if __name__ == '__main__':
    sys.exit(main())
