#!/usr/bin/env python3
"""Stage-2 translator for SmallSet (smallset.hpp): clang's JSON AST of the instantiated SmallSet<int, 3>::insert_small<const int&>
(the insertion path of the inline state, including the transition to the large state) -> Gallina.

The two containers of a SmallSet become two lists (`vec`, `set`); iterators of the inline vector are Z offsets; the inline
capacity (a template argument) stays the symbolic parameter N.  Primitives (coq/SsetPrims.v): find_small_z (std::find_if with
the equivalence functor), grow_p (grow(): all inline elements go to the backing set, the vector is cleared), set_ins (insert
into the backing set).  Anything outside the subset aborts with an error reported as a broken obligation.

Usage: sset2coq.py <repo include dir> <output dir>; writes <output dir>/SsetGen.v and prints a JSON summary."""
import json
import os
import subprocess
import sys
import tempfile

sys.path.insert(0, os.path.dirname(os.path.abspath(__file__)))
import amc2coq as A  # noqa: E402


class U(Exception):
    pass


SKIP = ("ImplicitCastExpr", "ParenExpr", "ExprWithCleanups", "MaterializeTemporaryExpr", "CXXBindTemporaryExpr", "CXXFunctionalCastExpr",
        "CXXStaticCastExpr", "CXXConstructExpr")


def strip(n):
    while n["kind"] in SKIP and len(n.get("inner", [])) == 1:
        n = n["inner"][0]
    return n


def callee(n):
    c = strip(n["inner"][0])
    if c["kind"] == "DeclRefExpr":
        return c["referencedDecl"]["name"], None
    if c["kind"] == "MemberExpr":
        base = strip(c["inner"][0]) if c.get("inner") else None
        return c["name"], base
    raise U("callee " + c["kind"])


def member_of(base):
    """'_vec' / '_set' / 'this'"""
    if base is None:
        return None
    if base["kind"] == "MemberExpr":
        return base.get("name")
    if base["kind"] == "CXXThisExpr":
        return "this"
    return None


def ex(n):
    n = strip(n)
    k = n["kind"]
    if k == "DeclRefExpr":
        return n["referencedDecl"]["name"]
    if k == "IntegerLiteral":
        return n["value"]
    if k == "CXXBoolLiteralExpr":
        return "true" if n.get("value") else "false"
    if k == "SubstNonTypeTemplateParmExpr":
        return "N"
    if k == "UnaryOperator" and n["opcode"] == "*" and strip(n["inner"][0])["kind"] == "CXXThisExpr":
        return "THIS"
    if k == "BinaryOperator" and n["opcode"] in ("!=", "==") and strip(n["inner"][0])["kind"] == "CXXThisExpr":
        r = strip(n["inner"][1])   # this != std::addressof(o)
        if r["kind"] == "CallExpr" and callee(r)[0] == "addressof":
            return "(negb self)" if n["opcode"] == "!=" else "self"
        raise U("comparison of this")
    if k == "UnaryOperator" and n["opcode"] == "!":
        return "(negb %s)" % ex(n["inner"][0])
    if k == "BinaryOperator":
        op = n["opcode"]
        a, b = ex(n["inner"][0]), ex(n["inner"][1])
        if op == "==":
            return "(%s =? %s)" % (a, b)
        if op == "!=":
            return "(negb (%s =? %s))" % (a, b)
        if op in ("&&", "||"):
            return "(%s %s %s)" % (a, op, b)
        raise U("binop " + op)
    if k == "CXXOperatorCallExpr":   # iterator == iterator
        nm, _ = callee(n)
        if nm == "operator==":
            return "(%s =? %s)" % (ex(n["inner"][1]), ex(n["inner"][2]))
        if nm == "operator!=":
            return "(negb (%s =? %s))" % (ex(n["inner"][1]), ex(n["inner"][2]))
        raise U("operator " + nm)
    if k == "CXXMemberCallExpr":
        nm, base = callee(n)
        m = member_of(base)
        args = n["inner"][1:]
        if m == "_vec" and nm in ("end", "cend", "size"):
            return "vlen"
        if m == "_vec" and nm in ("begin", "cbegin"):
            return "0"
        if m == "_set" and nm == "empty":
            return "(is_nil set)"
        if m == "_set" and nm == "size" and not args:
            return "(Z.of_nat (length set))"
        if m == "this" and nm in ("mfind_small", "find_small") and len(args) == 1:
            return "(find_small_z cmp vec %s)" % ex(args[0])
        if m == "this" and nm == "isSmallContFull":
            return "(isSmallContFull_gen N vec)"
        if m == "this" and nm == "isSmall":
            return "(isSmall_gen set)"
        if m == "_set" and nm == "insert" and len(args) == 1:
            return "SETINS %s" % ex(args[0])
        if m == "_set" and nm == "find" and len(args) == 1:
            return "(set_find cmp set %s)" % ex(args[0])
        if m == "_set" and nm == "count" and len(args) == 1:
            return "(set_contains cmp set %s)" % ex(args[0])
        if m == "_set" and nm == "erase" and len(args) == 1:
            return "SETERASE %s" % ex(args[0])
        if m == "_vec" and nm == "erase" and len(args) == 1:
            return "VECERASE %s" % ex(args[0])
        if m == "this" and nm == "contains" and len(args) == 1:
            return "(contains_gen cmp vec set %s)" % ex(args[0])
        if m == "this" and nm == "insert_small" and len(args) == 1:
            return "(insert_small_gen cmp N vec set %s)" % ex(args[0])
        if m == "this" and nm == "insert_set" and len(args) == 1:
            return "(insert_set_gen cmp vec set %s)" % ex(args[0])
        raise U("member call %s.%s" % (m, nm))
    if k == "CallExpr":
        nm, _ = callee(n)
        if nm in ("forward", "move"):
            return ex(n["inner"][1])
        raise U("call " + nm)
    if k == "ConditionalOperator":
        a, b = ex(n["inner"][1]), ex(n["inner"][2])
        if a.startswith(("SETINS", "PAIR", "(insert_")) or b.startswith(("SETINS", "PAIR", "(insert_")):
            a, b = ret(a), ret(b)
        return "(if %s then %s else %s)" % (ex(n["inner"][0]), a, b)
    if k in ("CXXConstructExpr", "CXXTemporaryObjectExpr") and len(n.get("inner", [])) == 2:
        return "PAIR %s, %s" % (ex(n["inner"][0]), ex(n["inner"][1]))
    raise U("expression " + k)


MODE = [""]


def ret(e):
    if MODE[0] == "assign":
        if e == "THIS":
            return "(inl (vec, set))"
        raise U("return of " + e + " in operator=")
    if e.startswith("SETINS "):
        return "(set_ins cmp vec set %s)" % e[len("SETINS "):]
    if e.startswith("PAIR "):
        return "(vec, set, %s)" % e[len("PAIR "):]
    if e.startswith("SETERASE "):
        return "(set_erase_key cmp vec set %s)" % e[len("SETERASE "):]
    if MODE[0] == "erase" and e in ("0", "1"):
        return "(vec, set, %s)" % e
    if e.startswith(("(if ", "(insert_small_gen ", "(insert_set_gen ")):
        return e
    raise U("return of " + e)


def block(stmts, k):
    if not stmts:
        if k is None:
            raise U("fallthrough without continuation")
        return k
    s, rest = stmts[0], stmts[1:]
    kind = s["kind"]
    if kind == "CompoundStmt":
        return block((s.get("inner") or []) + rest, k)
    if kind == "DeclStmt":
        d = s["inner"][0]
        return "let %s := %s in\n%s" % (d["name"], ex(d["inner"][0]), block(rest, k))
    if kind == "ReturnStmt":
        return ret(ex(s["inner"][0]))
    if kind == "IfStmt":
        c = ex(s["inner"][0])
        restk = block(rest, k) if (rest or k is not None) else None
        t = block([s["inner"][1]], restk)
        e = block([s["inner"][2]], restk) if len(s["inner"]) > 2 else restk
        if e is None:
            raise U("if without else and without continuation")
        return "(if %s then %s\n else %s)" % (c, t, e)
    if kind == "CXXThrowExpr" and not s.get("inner"):   # throw; in a handler
        return "(inr (vec, set))"
    if kind == "CXXTryStmt":
        # thr = Some (vec', set'): an operation inside the try block threw and left the two containers as vec', set' (ANY
        # contents: their copy assignment only has the basic guarantee); the handler runs on them
        body, catch = s["inner"][0], s["inner"][1]
        if len(s["inner"]) != 2 or catch["kind"] != "CXXCatchStmt":
            raise U("try shape")
        restk = block(rest, k) if (rest or k is not None) else None
        return "(match thr with\n | Some (vec, set) => %s\n | None => %s\n end)" % (block([catch["inner"][-1]], None), block([body], restk))
    t = strip(s)
    if t["kind"] == "CXXOperatorCallExpr" and callee(t)[0] == "operator=":
        a, b = strip(t["inner"][1]), strip(t["inner"][2])
        if a["kind"] == "MemberExpr" and b["kind"] == "MemberExpr" and a.get("name") == b.get("name") and a.get("name") in ("_vec", "_set") \
                and strip(a["inner"][0])["kind"] == "CXXThisExpr" and strip(b["inner"][0])["kind"] == "DeclRefExpr":
            var = "vec" if a["name"] == "_vec" else "set"
            return "let %s := o%s in\n%s" % (var, var, block(rest, k))
        raise U("operator= shape")
    if t["kind"] == "CXXMemberCallExpr":
        nm, base = callee(t)
        m = member_of(base)
        if m in ("_vec", "_set") and nm == "clear" and len(t["inner"]) == 1:
            return "let %s := [] in\n%s" % ("vec" if m == "_vec" else "set", block(rest, k))
        if m == "this" and nm == "grow" and len(t["inner"]) == 1:
            return "let '(vec, set) := grow_p cmp vec set in\n%s" % block(rest, k)
        if m == "_vec" and nm in ("push_back", "emplace_back") and len(t["inner"]) == 2:
            return "let vec := vec ++ [%s] in\n%s" % (ex(t["inner"][1]), block(rest, k))
        if m == "_vec" and nm == "erase" and len(t["inner"]) == 2:
            return "let vec := vec_erase vec %s in\n%s" % (ex(t["inner"][1]), block(rest, k))
    raise U("statement " + kind + "/" + t["kind"])


def main():
    include, outdir = sys.argv[1], sys.argv[2]
    os.makedirs(outdir, exist_ok=True)
    summary = {"functions": [], "errors": {}}
    defs = []
    with tempfile.TemporaryDirectory(dir=outdir) as tmp:
        src = os.path.join(tmp, "ss.cpp")
        with open(src, "w") as f:
            f.write("#include <amc/smallset.hpp>\ntemplate class amc::SmallSet<int, 3>;\nvoid use(amc::SmallSet<int, 3>& s, const int& v) { s.insert(v); }\n")
        out = os.path.join(tmp, "ast.json")
        try:
            A.dump_ast(include, "c++17", src, "SmallSet", out)
            objs = A.load(out)
        except A.Untranslatable as e:
            summary["errors"]["SmallSet"] = str(e)
            objs = []
        inst = []
        for o in objs:
            for n in A.walk(o):
                if n.get("kind") == "ClassTemplateSpecializationDecl" and n.get("name") == "SmallSet":
                    inst += [m for m in A.walk(n) if m.get("kind") == "CXXMethodDecl"]
        specs = [
            ("isSmall", "isSmall_gen", "(set : list Z) : bool", None),
            ("isSmallContFull", "isSmallContFull_gen", "(N : Z) (vec : list Z) : bool", None),
            ("insert_small", "insert_small_gen", "(cmp : Z -> Z -> bool) (N : Z) (vec set : list Z) (v : Z) : list Z * list Z * Z * bool", "const int &"),
            ("insert_set", "insert_set_gen", "(cmp : Z -> Z -> bool) (vec set : list Z) (v : Z) : list Z * list Z * Z * bool", "const int &"),
            ("insert", "insert_gen", "(cmp : Z -> Z -> bool) (N : Z) (vec set : list Z) (v : Z) : list Z * list Z * Z * bool", "(const int &)"),
            ("find", "find_gen", "(cmp : Z -> Z -> bool) (vec set : list Z) (k : Z) : Z", "::const_reference) const"),
            ("contains", "contains_gen", "(cmp : Z -> Z -> bool) (vec set : list Z) (k : Z) : bool", "::const_reference) const"),
            ("erase", "erase_key_gen", "(cmp : Z -> Z -> bool) (vec set : list Z) (v : Z) : list Z * list Z * Z", "::size_type (amc::SmallSet<int, 3>::const_reference)"),
            ("operator=", "copy_assign_gen", "(vec set ovec oset : list Z) (self : bool) (thr : option (list Z * list Z)) : list Z * list Z + list Z * list Z", "(const amc::SmallSet<int, 3> &)"),
        ]
        for cname, gname, sig, tf in specs:
            found = None
            for m in inst:
                if m.get("name") == cname and any(c.get("kind") == "CompoundStmt" for c in m.get("inner", [])):
                    if tf and tf not in m.get("type", {}).get("qualType", ""):
                        continue
                    found = m
                    break
            if found is None:
                summary["errors"][cname] = "instantiated SmallSet<int, 3>::%s not found in the AST" % cname
                continue
            try:
                body = [c for c in found["inner"] if c["kind"] == "CompoundStmt"][0]
                stmts = body.get("inner") or []
                MODE[0] = "erase" if gname == "erase_key_gen" else ("assign" if gname == "copy_assign_gen" else "")
                if len(stmts) == 1 and stmts[0]["kind"] == "ReturnStmt" and gname in ("isSmall_gen", "isSmallContFull_gen", "find_gen", "contains_gen"):
                    g = ex(stmts[0]["inner"][0])
                else:
                    g = block([body], None)
                defs.append("Definition %s %s :=\n  let vlen := Z.of_nat (length %s) in\n%s." % (gname, sig, "vec" if "vec" in sig else "set", g))
                summary["functions"].append(gname)
            except U as e:
                summary["errors"][cname] = "untranslatable: " + str(e)
    text = ("(* GENERATED by translator/sset2coq.py from clang's AST of SmallSet<int, 3> (smallset.hpp). Do not edit. *)\n"
            "From Coq Require Import ZArith Arith List Bool.\nFrom Amc Require Import SsetPrims.\nImport ListNotations.\nLocal Open Scope Z_scope.\n\n"
            + ("\n\n".join(defs) if defs else "(* translation failed *)") + "\n")
    path = os.path.join(outdir, "SsetGen.v")
    if not os.path.exists(path) or open(path).read() != text:
        with open(path, "w") as f:
            f.write(text)
    print(json.dumps(summary, indent=1, sort_keys=True))


if __name__ == "__main__":
    main()
