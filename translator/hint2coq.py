#!/usr/bin/env python3
"""Stage-2 prototype: clang JSON AST of the instantiated FlatSet<int>::insert_hint<const int&> -> Gallina decision program.
Iterators become Z offsets from begin(); effects (vector insert, set insert, lower_bound, comparator) become primitives."""
import json, sys
def load(path):
    txt = open(path).read(); dec = json.JSONDecoder(); i = 0; objs = []
    while i < len(txt):
        while i < len(txt) and txt[i].isspace(): i += 1
        if i >= len(txt): break
        o, i = dec.raw_decode(txt, i); objs.append(o)
    return objs
def walk(n):
    yield n
    for c in n.get('inner', []) or []: yield from walk(c)
class Unsupported(Exception): pass
SKIP = ('ImplicitCastExpr', 'ParenExpr', 'ExprWithCleanups', 'MaterializeTemporaryExpr', 'CXXConstructExpr', 'CXXBindTemporaryExpr', 'CXXFunctionalCastExpr', 'CXXStaticCastExpr')
def strip(n):
    while n['kind'] in SKIP and len(n.get('inner', [])) == 1: n = n['inner'][0]
    return n
def callee_name(n):
    c = strip(n['inner'][0])
    if c['kind'] == 'DeclRefExpr': return c['referencedDecl']['name']
    if c['kind'] == 'MemberExpr': return c['name']
    raise Unsupported('callee ' + c['kind'])
def is_comp_call(n):  # compRef()(a, b)
    return n['kind'] == 'CXXOperatorCallExpr' and callee_name(n) == 'operator()' and strip(n['inner'][1])['kind'] == 'CXXMemberCallExpr' and callee_name(strip(n['inner'][1])) == 'compRef'
LEN = ['len']   # text for end(): the variable bound at entry (insert_hint) or the current length (functions that resize the vector)
def lambda_text(n):
    """[&comp](const_reference v1, const_reference v2) { return <expr>; } -> (fun v1 v2 => <expr>)"""
    params = []; body = None
    for m in walk(n):
        if m.get('kind') == 'CXXMethodDecl' and m.get('name') == 'operator()':
            params = [c['name'] for c in m.get('inner', []) if c['kind'] == 'ParmVarDecl']
            body = [c for c in m.get('inner', []) if c['kind'] == 'CompoundStmt'][0]
            break
    if body is None or len(body.get('inner', [])) != 1 or body['inner'][0]['kind'] != 'ReturnStmt':
        raise Unsupported('lambda shape')
    return '(fun %s => %s)' % (' '.join(params), ex(body['inner'][0]['inner'][0]))
def ex(n):
    n = strip(n); k = n['kind']
    if k == 'DeclRefExpr': return n['referencedDecl']['name']
    if k == 'IntegerLiteral': return n['value']
    if k == 'CXXBoolLiteralExpr': return 'true' if n.get('value') else 'false'
    if k == 'UnaryOperator' and n['opcode'] == '*' and strip(n['inner'][0])['kind'] == 'CXXThisExpr': return 'THIS'   # return *this
    if k == 'BinaryOperator' and n['opcode'] in ('!=', '==') and strip(n['inner'][0])['kind'] == 'CXXThisExpr':
        r = strip(n['inner'][1])   # this != std::addressof(o)
        if r['kind'] == 'CallExpr' and callee_name(r) == 'addressof' and strip(r['inner'][1])['kind'] == 'DeclRefExpr' and strip(r['inner'][1])['referencedDecl']['name'] == 'o':
            return '(negb self)' if n['opcode'] == '!=' else 'self'
        raise Unsupported('comparison of this')
    if k == 'UnaryOperator':
        op = n['opcode']; a = ex(n['inner'][0])
        if op == '*': return '(deref l %s)' % a
        if op == '!': return '(negb %s)' % a
        if op == '-': return '(- %s)' % a
        raise Unsupported('unop ' + op)
    if k == 'BinaryOperator':
        op = n['opcode']; a = ex(n['inner'][0]); b = ex(n['inner'][1])
        if op == '==': return '(%s =? %s)' % (a, b)
        if op == '!=': return '(negb (%s =? %s))' % (a, b)
        if op in ('&&', '||'): return '(%s %s %s)' % (a, op, b)
        if op in ('>=', '<='): return '(%s %s? %s)' % (a, op, b)
        raise Unsupported('binop ' + op)
    if k == 'ConditionalOperator':
        c, a, b = [ex(x) for x in n['inner']]
        return '(if %s then %s else %s)' % (c, a, b)
    if k == 'CXXOperatorCallExpr' and callee_name(n) == 'operator=':
        a, b = strip(n['inner'][1]), strip(n['inner'][2])
        def is_vec(x, owner):
            return x['kind'] == 'MemberExpr' and x.get('name') == '_sortedVector' and strip(x['inner'][0])['kind'] == owner
        def is_cmpref(x):
            return x['kind'] == 'CXXMemberCallExpr' and callee_name(x) == 'compRef'
        if is_vec(a, 'CXXThisExpr') and is_vec(b, 'DeclRefExpr') and strip(b['inner'][0])['referencedDecl']['name'] == 'o': return 'VECASSIGN'
        if is_cmpref(a) and is_cmpref(b): return 'CMPASSIGN'   # the comparator object: not part of the list model (cmp is the same function)
        raise Unsupported('operator= shape')
    if k == 'CXXOperatorCallExpr' and is_comp_call(n): return '(cmp %s %s)' % (ex(n['inner'][2]), ex(n['inner'][3]))
    if k == 'CXXOperatorCallExpr' and callee_name(n) == 'operator()' and strip(n['inner'][1])['kind'] == 'DeclRefExpr' and strip(n['inner'][1])['referencedDecl']['name'] == 'comp':
        return '(cmp %s %s)' % (ex(n['inner'][2]), ex(n['inner'][3]))   # const Compare &comp = compRef()
    if k == 'CXXMemberCallExpr':
        nm = callee_name(n); obj = strip(strip(n['inner'][0])['inner'][0]) if strip(n['inner'][0]).get('inner') else None
        if nm in ('begin', 'cbegin', 'mbegin'): return '0'
        if nm in ('end', 'cend', 'mend'): return LEN[0]
        if nm == 'lower_bound' and len(n['inner']) == 2: return '(lower_bound cmp l 0 %s %s)' % (LEN[0], ex(n['inner'][1]))   # FlatSet::lower_bound(k)
        if nm == 'find' and len(n['inner']) == 2: return '(find_gen cmp l %s)' % ex(n['inner'][1])
        if nm == 'erase' and obj is not None and obj['kind'] == 'MemberExpr' and obj.get('name') == '_sortedVector':
            if len(n['inner']) == 3:   # erase(std::unique(begin, end, pred), end())
                u = strip(n['inner'][1])
                if u['kind'] == 'CallExpr' and callee_name(u) == 'unique' and ex(u['inner'][1]) == '0' and ex(u['inner'][2]) == LEN[0] and ex(n['inner'][2]) == LEN[0]:
                    return 'ERASEUNIQ %s' % lambda_text(u['inner'][3])
                raise Unsupported('erase(range) shape')
            return 'VECERASE %s' % ex(n['inner'][1])
        if nm == 'insert' and obj is not None and obj['kind'] == 'MemberExpr' and obj.get('name') == '_sortedVector' and len(n['inner']) == 4:
            if ex(n['inner'][1]) != LEN[0] or ex(n['inner'][2]) != 'first' or ex(n['inner'][3]) != 'last':
                raise Unsupported('range insert not at end()')
            return 'VECAPPEND'
        if nm == 'restoreInvariants' and len(n['inner']) == 1: return 'RESTORE'
        if nm == 'clear' and len(n['inner']) == 1 and obj is not None and (obj['kind'] == 'CXXThisExpr' or (obj['kind'] == 'MemberExpr' and obj.get('name') == '_sortedVector')): return 'CLEAR'
        if nm == 'eraseDuplicates' and len(n['inner']) == 1: return 'ERASEDUP'
        if nm == 'insert' and obj is not None and obj['kind'] == 'MemberExpr' and obj.get('name') == '_sortedVector':
            return 'VECINSERT %s' % ex(n['inner'][1])          # handled at return position
        if nm == 'insert' and obj is not None and obj['kind'] == 'CXXThisExpr': return 'SETINSERT'
        raise Unsupported('member call ' + nm)
    if k == 'MemberExpr' and n.get('name') == 'first':
        inner = ex(n['inner'][0])
        if inner == 'SETINSERT': return 'SETINSERT'
        raise Unsupported('.first of ' + inner)
    if k == 'CallExpr':
        nm = callee_name(n); args = n['inner'][1:]
        if nm == 'next':
            d = '1' if strip(args[1])['kind'] == 'CXXDefaultArgExpr' else ex(args[1])
            return '(%s + %s)' % (ex(args[0]), d)
        if nm == 'lower_bound': return '(lower_bound cmp l %s %s %s)' % (ex(args[0]), ex(args[1]), ex(args[2]))
        if nm == 'forward': return ex(args[0])
        if nm == 'adjacent_find' and len(args) == 3: return '(adjacent_find_z l %s %s %s)' % (ex(args[0]), ex(args[1]), lambda_text(args[2]))
        if nm == 'stable_sort' and len(args) == 3: return 'SSORT %s %s' % (ex(args[0]), ex(args[1]))
        if nm == 'inplace_merge' and len(args) == 4: return 'IMERGE %s %s %s' % (ex(args[0]), ex(args[1]), ex(args[2]))
        raise Unsupported('call ' + nm)
    if k == 'CXXDefaultArgExpr': return '1'
    if k in ('CXXConstructExpr', 'CXXTemporaryObjectExpr') and len(n.get('inner', [])) == 2:   # std::pair<iterator, bool>(it, flag)
        return 'PAIR %s, %s' % (ex(n['inner'][0]), ex(n['inner'][1]))
    raise Unsupported('expr ' + k)
def is_assert(s):
    s = strip(s); return s['kind'] == 'ConditionalOperator' and any(x.get('kind') == 'DeclRefExpr' and x.get('referencedDecl', {}).get('name') == '__assert_fail' for x in walk(s))
WRAP = [False]   # the function has a try block: results are  inl <normal result>  /  inr <vector left by the exception>
def ret(e):
    if WRAP[0]:
        if e == 'THIS': return '(inl l)'
        raise Unsupported('return in a function with a try block')
    if e.startswith('VECINSERT '): return '(vec_insert l %s v)' % e[len('VECINSERT '):]
    if e == 'SETINSERT': return '(set_insert cmp l v)'
    if e.startswith('PAIR '): return '(l, %s)' % e[len('PAIR '):]
    return '(l, %s)' % e
def update_of(s):
    """x = _sortedVector.insert(it, v)  ->  ('x', vec_insert ...);   _sortedVector.erase(it)  ->  (None, vec_erase ...)"""
    t = strip(s)
    if t['kind'] == 'BinaryOperator' and t.get('opcode') == '=' and strip(t['inner'][0])['kind'] == 'DeclRefExpr':
        e = ex(t['inner'][1])
        if e.startswith('VECINSERT '):
            return strip(t['inner'][0])['referencedDecl']['name'], '(vec_insert l %s v)' % e[len('VECINSERT '):]
        return None
    if t['kind'] in ('CXXMemberCallExpr', 'CallExpr', 'CXXOperatorCallExpr'):
        try:
            e = ex(t)
        except Unsupported:
            return None
        if e.startswith('VECERASE '):
            return None, '(vec_erase l %s)' % e[len('VECERASE '):]
        if e.startswith('ERASEUNIQ '):
            return None, '(erase_unique %s l)' % e[len('ERASEUNIQ '):]
        if e == 'ERASEDUP':
            return None, '(erase_duplicates_gen cmp l)'
        if e == 'RESTORE':
            return None, '(restore_invariants_gen cmp l)'
        if e == 'CLEAR':
            return None, '[]'
        if e == 'VECASSIGN':
            return None, 'ol'
        if e.startswith('SSORT '):
            return None, '(stable_sort_range cmp l %s)' % e[len('SSORT '):]
        if e.startswith('IMERGE '):
            return None, '(inplace_merge_range cmp l %s)' % e[len('IMERGE '):]
    return None
def block(stmts, k):
    """k: Gallina text for the fallthrough continuation (None = unreachable)"""
    if not stmts:
        if k is None: raise Unsupported('fallthrough without continuation')
        return k
    s, rest = stmts[0], stmts[1:]; kind = s['kind']
    if kind == 'CompoundStmt': return block(s.get('inner', []) + rest, k)
    if is_assert(s): return block(rest, k)
    if kind == 'DeclStmt':
        d = s['inner'][0]
        if d.get('name') == 'comp':   # const Compare &comp = compRef();
            return block(rest, k)
        e = ex(d['inner'][0])
        if e == 'VECAPPEND': return 'let \'(l, %s) := vec_append l vs in\n%s' % (d['name'], block(rest, k))
        return 'let %s := %s in\n%s' % (d['name'], e, block(rest, k))
    if kind == 'ReturnStmt': return ret(ex(s['inner'][0]))
    if kind == 'CXXThrowExpr' and not s.get('inner'):   # throw; inside a handler: the exception leaves with the vector as it is
        return '(inr l)'
    if kind == 'CXXTryStmt':
        # the operations of the vector inside the try block may throw: thr = Some l' says they do and leave the vector as l'
        # (any l': the vector only promises the basic guarantee); the handler then runs on l'
        body, catch = s['inner'][0], s['inner'][1]
        if len(s['inner']) != 2 or catch['kind'] != 'CXXCatchStmt': raise Unsupported('try shape')
        handler = catch['inner'][-1]
        restk = block(rest, k) if (rest or k is not None) else None
        t = block([body], restk)
        h = block([handler], None)
        return "(match thr with\n | Some l => %s\n | None => %s\n end)" % (h, t)
    if strip(s)['kind'] == 'CXXOperatorCallExpr' and callee_name(strip(s)) == 'operator=' and ex(s) == 'CMPASSIGN':
        return block(rest, k)
    upd = update_of(s)
    if upd is not None:
        var, e = upd
        return 'let %s := %s in\n%s' % (('\'(l, %s)' % var) if var else 'l', e, block(rest, k))
    if kind == 'IfStmt' and len(s['inner']) == 2 and rest:
        body = s['inner'][1]
        inner = body.get('inner', []) if body['kind'] == 'CompoundStmt' else [body]
        if len(inner) == 1 and update_of(inner[0]) is not None:
            var, e = update_of(inner[0])
            c = ex(s['inner'][0])
            if var:
                return 'let \'(l, %s) := (if %s then %s else (l, %s)) in\n%s' % (var, c, e, var, block(rest, k))
            return 'let l := (if %s then %s else l) in\n%s' % (c, e, block(rest, k))
    if kind == 'IfStmt':
        c = ex(s['inner'][0]); restk = block(rest, k) if (rest or k is not None) else None
        t = block([s['inner'][1]], restk); e = block([s['inner'][2]], restk) if len(s['inner']) > 2 else restk
        if e is None: raise Unsupported('if without else and without continuation')
        return '(if %s then %s\n else %s)' % (c, t, e)
    raise Unsupported('stmt ' + kind)

import json, os, subprocess, tempfile

def main():
    include, outdir = sys.argv[1], sys.argv[2]
    os.makedirs(outdir, exist_ok=True)
    summary = {'functions': [], 'errors': {}}
    text = None
    with tempfile.TemporaryDirectory(dir=outdir) as tmp:
        src = os.path.join(tmp, 'inst2.cpp')
        with open(src, 'w') as f:
            f.write('#include <amc/flatset.hpp>\ntemplate class amc::FlatSet<int>;\nvoid use(amc::FlatSet<int>& s, const int& v) { s.insert(s.begin(), v); }\nvoid use2(amc::FlatSet<int>& s, const int* a, const int* b) { s.insert(a, b); }\n')
        out = os.path.join(tmp, 'ast.json')
        with open(out, 'w') as f:
            p = subprocess.run(['clang++', '-std=c++17', '-I' + include, '-fsyntax-only', '-Xclang', '-ast-dump=json', '-Xclang',
                                '-ast-dump-filter=FlatSet', src], stdout=f, stderr=subprocess.PIPE, universal_newlines=True, timeout=300)
        if p.returncode != 0:
            summary['errors']['insert_hint'] = 'clang failed: ' + p.stderr[-1500:]
        else:
            try:
                objs = load(out)
                SPECS = [
                    ('insert_hint', 'insert_hint_gen', 'const int &', '(cmp : Z -> Z -> bool) (l : list Z) (hint : Z) (v : Z) : list Z * Z', {}),
                    ('insert_val', 'insert_val_gen', 'const int &', '(cmp : Z -> Z -> bool) (l : list Z) (v : Z) : list Z * Z * bool', {}),
                    ('find', 'find_gen', 'const_reference', '(cmp : Z -> Z -> bool) (l : list Z) (k : Z) : Z', {'plain': True}),
                    ('erase', 'erase_key_gen', 'const_reference', '(cmp : Z -> Z -> bool) (l : list Z) (v : Z) : list Z * Z', {}),
                    ('eraseDuplicates', 'erase_duplicates_gen', 'void0', '(cmp : Z -> Z -> bool) (l : list Z) : list Z', {'void': True}),
                    ('restoreInvariants', 'restore_invariants_gen', 'void0', '(cmp : Z -> Z -> bool) (l : list Z) : list Z', {'void': True}),
                    ('insert', 'insert_range_gen', 'range', '(cmp : Z -> Z -> bool) (l : list Z) (vs : list Z) (thr : option (list Z)) : list Z + list Z', {'void': True}),
                    ('operator=', 'copy_assign_gen', 'copyassign', '(cmp : Z -> Z -> bool) (l ol : list Z) (self : bool) (thr : option (list Z)) : list Z + list Z', {}),
                ]
                texts = []
                # non-template members: only those of the instantiated class FlatSet<int> (the template pattern has unresolved calls)
                inst_methods = []
                for o in objs:
                    for n in walk(o):
                        if n.get('kind') == 'ClassTemplateSpecializationDecl' and n.get('name') == 'FlatSet':
                            inst_methods += [m for m in n.get('inner', []) if m.get('kind') == 'CXXMethodDecl']
                for cname, gname, tfilter, sig, opts in SPECS:
                    found = None
                    for o in objs:
                        for n in (inst_methods if tfilter in ('const_reference', 'void0', 'copyassign') else walk(o)):
                            if n.get('kind') == 'CXXMethodDecl' and n.get('name') == cname and any(c.get('kind') == 'CompoundStmt' for c in n.get('inner', [])):
                                qt = n.get('type', {}).get('qualType', '')
                                params = [c for c in n['inner'] if c['kind'] == 'ParmVarDecl']
                                ptypes = [c.get('type', {}).get('qualType', '') for c in params]
                                if tfilter == 'const int &' and 'const int &' not in qt:
                                    continue
                                if tfilter == 'const_reference' and not (len(params) == 1 and ('const_reference' in ptypes[0] or ptypes[0] == 'const int &')):
                                    continue
                                if tfilter == 'void0' and params:
                                    continue
                                if tfilter == 'copyassign' and not (len(params) == 1 and ptypes[0].startswith('const amc::FlatSet<int')):
                                    continue
                                if tfilter == 'range' and not (len(params) == 2 and ptypes[0] == 'const int *' and ptypes[1] == 'const int *'):
                                    continue
                                found = n
                                break
                        if found:
                            break
                    if found is None:
                        summary['errors'][cname] = 'instantiated FlatSet<int>::%s not found in the AST' % cname
                        continue
                    try:
                        body = [c for c in found['inner'] if c['kind'] == 'CompoundStmt'][0]
                        LEN[0] = 'len' if gname == 'insert_hint_gen' else '(vlen l)'
                        WRAP[0] = any(m.get('kind') == 'CXXTryStmt' for m in walk(body))
                        g = block([body], ('(inl l)' if WRAP[0] else 'l') if opts.get('void') else None)
                        WRAP[0] = False
                        if opts.get('plain'):   # a value, not a (list, value) pair
                            g = g.replace('(l, ', '(')
                        texts.append('Definition %s %s :=\n  let len := Z.of_nat (length l) in\n%s.' % (gname, sig, g))
                        summary['functions'].append(gname)
                    except Unsupported as e:
                        summary['errors'][cname] = 'untranslatable: ' + str(e)
                # definition order: find before erase (erase calls find); insert_val before insert_hint is not needed
                order = {'find_gen': 0, 'insert_val_gen': 1, 'erase_key_gen': 2, 'erase_duplicates_gen': 3, 'restore_invariants_gen': 4, 'insert_range_gen': 5, 'copy_assign_gen': 6, 'insert_hint_gen': 7}
                texts.sort(key=lambda t: order.get(t.split()[1], 9))
                text = '\n\n'.join(texts) if texts else None
            except Unsupported as e:
                summary['errors']['insert_hint'] = 'untranslatable: ' + str(e)
            except Exception as e:  # malformed AST etc.
                summary['errors']['insert_hint'] = 'translator error: %r' % (e,)
    hdr = ("(* GENERATED by translator/hint2coq.py from clang's AST of FlatSet<int>::insert_hint<const int&> (flatset.hpp). Do not edit. *)\n"
           "From Coq Require Import ZArith Arith List Bool.\nFrom Amc Require Import Hint HintPrims.\nImport ListNotations.\nLocal Open Scope Z_scope.\n\n")
    body = text if text else "(* translation failed *)"
    path = os.path.join(outdir, 'HintGen.v')
    new = hdr + body + "\n"
    old = open(path).read() if os.path.exists(path) else None
    if old != new:
        with open(path, 'w') as f:
            f.write(new)
    print(json.dumps(summary, indent=1, sort_keys=True))

if __name__ == '__main__':
    main()
