#!/usr/bin/env python3
"""Stage-3 translator: the storage-base member functions that move buffers between two vectors or talk to the allocator
(vectorcommon.hpp / smallvector.hpp: swap_impl, move_construct, move_assign, shrink_impl, shrink, resetToSmall, freeStorage,
destroyFreeStorage, grow of SmallVectorBase / StdVectorBase / StaticVectorBase), from clang's JSON AST to Gallina.

What is translated is the integer bookkeeping on the size words of `this` and of the other operand `o`, the control flow,
and - as an ordered list of effects - every call that touches elements, buffers or the allocator, with its integer
arguments evaluated at the point of the call (pointer arguments are dropped):
    Definition sv_move_assign (st ot : words) (inplaceCapa : Z) : option (words * words * list eff)
None = an exception (only SafeNextCapacity throws).  Calls to members that are themselves translated (isSmall, size,
setSize, freeStorage, shrink, ...) become calls of the generated definitions.  `if (_storage)` of StdVectorBase is rendered
as `ptr_nonnull st` (GenPrelude: the pointer is non-null exactly when the capacity word is non-zero - an invariant of that
class which the drivers observe, not derivable from the words).  Anything outside this subset aborts the translation of
the function with an error, which the check reports as a broken obligation.

Usage: base2coq.py <repo include dir> <output dir>;  writes <output dir>/Base_<S>.v for S in u8, u32, prints a JSON summary."""
import json
import os
import sys
import tempfile

sys.path.insert(0, os.path.dirname(os.path.abspath(__file__)))
import amc2coq as A  # noqa: E402

U = A.Untranslatable
TAGS = [("u8", "unsigned char"), ("u32", "unsigned int")]
PREFIX = A.PREFIX
# order = dependency order of the generated definitions
METHODS = {
    "SmallVectorBase": ["freeStorage", "destroyFreeStorage", "shrink", "resetToSmall", "shrink_impl", "grow", "swap_impl", "move_construct", "move_assign"],
    "StdVectorBase": ["freeStorage", "shrink", "shrink_impl", "grow", "swap_impl", "move_construct", "move_assign"],
    "StaticVectorBase": ["swap_impl", "move_construct", "move_assign"],
}
LAYER_NAMES = ("adjustCapacity", "reserve", "resize", "assign", "append", "clear", "pop_back", "push_back", "emplace_back")
PURE_MEMBERS = ("isSmall", "size", "capacity")                  # value-returning, translated by amc2coq (L0_<S>.v)
MUTATORS = ("setSize", "incrSize", "decrSize")                  # words -> words, translated by amc2coq
POINTER_ACCESSORS = ("ptr", "dyn", "begin", "end", "cbegin", "data", "dynStorage")
INT_TYPES = set(A.WIDTH) - {"bool"}


def strip(n):
    while n.get("kind") in ("ImplicitCastExpr", "ParenExpr", "ExprWithCleanups", "MaterializeTemporaryExpr", "ConstantExpr") and n.get("inner"):
        n = n["inner"][-1]
    return n


def is_assert(n):
    n = strip(n)
    return n.get("kind") == "ConditionalOperator" and any(x.get("kind") == "DeclRefExpr" and x.get("referencedDecl", {}).get("name") == "__assert_fail" for x in A.walk(n))


def is_int(n):
    return A.ty(n) in INT_TYPES


class Ctx:
    def __init__(self, cls):
        self.cls = cls
        self.pre = PREFIX[cls]
        self.k = 0
        self.locals = set()

    def fresh(self):
        self.k += 1
        return self.k


class S:
    """Symbolic state: names of the Coq variables currently holding this' words, o's words, the effect list."""

    def __init__(self, st, ot, ef, extras=()):
        self.st, self.ot, self.ef = st, ot, ef
        self.extras = tuple(extras)   # integer locals declared without initialiser: carried across if/else merges

    def tup(self, two, final=False):
        parts = [self.st, self.ot, self.ef] if two else [self.st, self.ef]
        if not final:
            parts += list(self.extras)
        return "(" + ", ".join(parts) + ")"


def obj_of(base, s):
    """Which object does a member access / call go to: 'st' (this) or 'ot' (the parameter o)."""
    b = strip(base)
    if b["kind"] == "CXXThisExpr":
        return s.st, "st"
    if b["kind"] == "DeclRefExpr" and b["referencedDecl"]["name"] == "o":
        return s.ot, "ot"
    if b["kind"] == "UnaryOperator" and b.get("opcode") == "*" and strip(b["inner"][0])["kind"] == "CXXThisExpr":
        return s.st, "st"
    raise U("member access on " + b["kind"])


def wrapto(t, e):
    if t == "bool":
        return e
    if t not in A.WIDTH:
        raise U("type " + t)
    k, w = A.WIDTH[t]
    return "(wrap_%s%d %s)" % (k, w, e)


def ex(n, s, cx):
    """Pure integer / boolean expression over the current state."""
    k = n["kind"]
    if k in ("ImplicitCastExpr", "CXXStaticCastExpr", "CStyleCastExpr", "CXXFunctionalCastExpr"):
        ck = n.get("castKind")
        sub = n["inner"][-1]
        if ck == "PointerToBoolean":
            b = strip(sub)
            if b["kind"] == "MemberExpr" and b["name"] == "_storage":
                v, _ = obj_of(b["inner"][0], s)
                return "(ptr_nonnull %s)" % v
            raise U("pointer truth value of " + b["kind"])
        v = ex(sub, s, cx)
        if ck in ("LValueToRValue", "NoOp", "FunctionToPointerDecay"):
            return v
        if ck == "IntegralCast":
            if A.ty(sub) == "bool":
                v = "(Z.b2z %s)" % v
            return wrapto(A.ty(n), v)
        if ck == "IntegralToBoolean":
            return "(negb (%s =? 0))" % v
        raise U("cast " + str(ck))
    if k in ("ParenExpr", "ExprWithCleanups", "MaterializeTemporaryExpr", "ConstantExpr"):
        return ex(n["inner"][0], s, cx)
    if k == "IntegerLiteral":
        return n["value"]
    if k == "CXXBoolLiteralExpr":
        return "true" if n["value"] else "false"
    if k == "MemberExpr" and n["name"] in ("_capa", "_size"):
        v, _ = obj_of(n["inner"][0], s)
        return "(%s %s)" % (n["name"].lstrip("_") + "_", v)
    if k == "DeclRefExpr":
        nm = n["referencedDecl"]["name"]
        if nm == "kMaxSize":
            return str(A.type_max(A.ty(n)))
        return nm
    if k == "CXXMemberCallExpr":
        me = n["inner"][0]
        if me["name"] in PURE_MEMBERS and len(n["inner"]) == 1:
            v, _ = obj_of(me["inner"][0], s)
            return "(%s%s %s)" % (cx.pre, me["name"], v)
        raise U("member call %s in an expression" % me["name"])
    if k == "CallExpr":
        callee = strip(n["inner"][0])
        nm = callee.get("referencedDecl", {}).get("name")
        if nm == "max" and len(n["inner"]) == 1:
            return str(A.type_max(A.ty(n)))
        if nm == "__builtin_expect" and len(n["inner"]) == 3:   # AMC_UNLIKELY(c)
            return ex(n["inner"][1], s, cx)
        raise U("call %s in an expression" % nm)
    if k == "CXXDefaultArgExpr":
        d = getattr(cx, "current_defaults", None)
        if d is None or cx.default_index >= len(d) or d[cx.default_index] is None:
            raise U("default argument without a known value")
        return ex(d[cx.default_index], s, cx)
    if k == "UnaryOperator" and n["opcode"] == "-":
        return wrapto(A.ty(n), "(- %s)" % ex(n["inner"][0], s, cx))
    if k == "UnaryOperator" and n["opcode"] == "!":
        v = ex(n["inner"][0], s, cx)
        if A.ty(n["inner"][0]) != "bool":
            v = "(negb (%s =? 0))" % v
        return "(negb %s)" % v
    if k == "BinaryOperator":
        op = n["opcode"]
        a, b = n["inner"]
        va, vb = ex(a, s, cx), ex(b, s, cx)
        cmp = {"<": "<?", "<=": "<=?", "==": "=?", ">": ">?", ">=": ">=?"}
        if op in ("&&", "||"):
            return "(%s %s %s)" % (va, op, vb)
        if op in cmp:
            return "(%s %s %s)" % (va, cmp[op], vb)
        if op == "!=":
            return "(negb (%s =? %s))" % (va, vb)
        if op in ("+", "-", "*"):
            return wrapto(A.ty(n), "(%s %s %s)" % (va, op, vb))
        raise U("binop " + op)
    if k == "ConditionalOperator":
        return "(if %s then %s else %s)" % (ex(n["inner"][0], s, cx), ex(n["inner"][1], s, cx), ex(n["inner"][2], s, cx))
    raise U("expression kind " + k)


def set_field(field, objvar, val):
    return "(set_%s %s %s)" % (field.lstrip("_") + "_", objvar, val)


class Gen:
    """Statement compiler in continuation-passing style; every block ends with `Some <state tuple>`."""

    def __init__(self, cx, two):
        self.cx = cx
        self.two = two

    def upd(self, s, which, newexpr):
        n = self.cx.fresh()
        if which == "st":
            v = "st%d" % n
            return "let %s := %s in " % (v, newexpr), S(v, s.ot, s.ef, s.extras)
        v = "ot%d" % n
        return "let %s := %s in " % (v, newexpr), S(s.st, v, s.ef, s.extras)

    def eff(self, s, name, args):
        n = self.cx.fresh()
        v = "ef%d" % n
        return "let %s := %s ++ [Eff \"%s\"%%string [%s]] in " % (v, s.ef, name, "; ".join(args)), S(s.st, s.ot, v, s.extras)

    def int_args(self, args, s):
        out = []
        for a in args:
            if is_int(a):
                out.append(ex(a, s, self.cx))
        return out

    def nested_effects(self, args, s):
        """Effects of calls appearing as (pointer valued) arguments, evaluated first."""
        txt = ""
        for a in args:
            b = strip(a)
            if b["kind"] in ("CallExpr", "CXXMemberCallExpr") and not is_int(b):
                t, s = self.call(b, s, value_needed=False, allow_pure_pointer=True)
                txt += t
        return txt, s

    def call(self, n, s, value_needed=False, allow_pure_pointer=False):
        """A call evaluated for its effects.  Returns (text, new state)."""
        k = n["kind"]
        if k == "CXXMemberCallExpr":
            me = n["inner"][0]
            nm = me["name"]
            args = n["inner"][1:]
            base = strip(me["inner"][0])
            if base["kind"] == "MemberExpr" and base["name"] == "_storage":
                # ElemWithPtrStorage accessors / setDyn: pointer plumbing; only the effects of the arguments count
                if nm in POINTER_ACCESSORS:
                    return "", s
                if nm == "setDyn":
                    return self.nested_effects(args, s)
                raise U("_storage." + nm)
            if nm in POINTER_ACCESSORS and allow_pure_pointer:
                return "", s
            objv, which = obj_of(me["inner"][0], s)
            if nm in MUTATORS:
                return self.upd(s, which, "(%s%s %s%s)" % (self.cx.pre, nm, objv, "".join(" " + ex(a, s, self.cx) for a in args)))
            if (nm, len(args)) in self.cx.overloads and which == "st":
                nm_gen = self.cx.overloads[(nm, len(args))]
            elif any(k[0] == nm for k in self.cx.overloads) or nm in LAYER_NAMES:
                raise U("call of %s with %d arguments: that overload is not translated" % (nm, len(args)))
            else:
                nm_gen = nm
            if nm_gen in self.cx.done and which == "st":
                # a translated sibling: (words, effects) -> option (words * effects)
                n1 = self.cx.fresh()
                st2, ef2 = "st%d" % n1, "ef%d" % n1
                argv = []
                for i, a in enumerate(args):
                    if not (is_int(a) or A.ty(a) == "bool"):
                        continue   # references / pointers are not part of the bookkeeping
                    self.cx.current_defaults = self.cx.defaults.get(nm)
                    self.cx.default_index = i
                    argv.append(ex(a, s, self.cx))
                self.cx.current_defaults = None
                argv += ["0"] * self.cx.noracles.get(nm + "/" + str(len(args)), 0)   # address-derived parameters: any value (see BaseTV)
                call = "%s%s %s%s" % (self.cx.pre, nm_gen, s.st, "".join(" " + a for a in argv))
                s2 = S(st2, s.ot, ef2, s.extras)
                return ("SIB|%s|%s|%s|%s|" % (call, st2, ef2, s.ef)), s2
            if nm in ("allocate", "deallocate", "reallocate"):
                pre, s = self.nested_effects(args, s)
                t, s = self.eff(s, nm, self.int_args(args, s))
                return pre + t, s
            raise U("member call " + nm)
        if k == "CallExpr":
            callee = strip(n["inner"][0])
            nm = callee.get("referencedDecl", {}).get("name") or callee.get("name")
            args = n["inner"][1:]
            if nm == "swap" and len(args) == 2:
                a, b = strip(args[0]), strip(args[1])
                if a["kind"] == "MemberExpr" and b["kind"] == "MemberExpr" and a["name"] == b["name"]:
                    if a["name"] in ("_capa", "_size"):
                        va, wa = obj_of(a["inner"][0], s)
                        vb, wb = obj_of(b["inner"][0], s)
                        if wa == wb:
                            raise U("swap of a field with itself")
                        f = a["name"]
                        ea, eb = "(%s %s)" % (f.lstrip("_") + "_", va), "(%s %s)" % (f.lstrip("_") + "_", vb)
                        t1, s1 = self.upd(s, wa, set_field(f, va, eb))
                        t2, s2 = self.upd(s1, wb, set_field(f, vb, ea))
                        return t1 + t2, s2
                    if a["name"] == "_storage":
                        return self.eff(s, "swap_storage", [])
                raise U("swap of " + a["kind"])
            if nm is None:
                raise U("indirect call")
            if nm == "Check" and len(args) == 2:   # GrowingPolicy::Check(capacity, maxCapacity): throws beyond the maximum
                return "CHK|%s %s|" % (ex(args[0], s, self.cx), ex(args[1], s, self.cx)), s
            pre, s = self.nested_effects(args, s)
            t, s = self.eff(s, nm, self.int_args(args, s))
            return pre + t, s
        raise U("call kind " + k)

    def assign(self, lhs, rhs, s):
        lhs = strip(lhs)
        r = strip(rhs)
        if lhs["kind"] == "MemberExpr" and lhs["name"] in ("_capa", "_size"):
            objv, which = obj_of(lhs["inner"][0], s)
            if r["kind"] == "CallExpr" and strip(r["inner"][0]).get("referencedDecl", {}).get("name") == "exchange":
                tgt = strip(r["inner"][1])
                if tgt["kind"] != "MemberExpr" or tgt["name"] not in ("_capa", "_size"):
                    raise U("exchange on " + tgt["kind"])
                tv, tw = obj_of(tgt["inner"][0], s)
                old = "(%s %s)" % (tgt["name"].lstrip("_") + "_", tv)
                newv = ex(r["inner"][2], s, self.cx)
                newv = wrapto(A.ty(tgt), newv) if A.ty(strip(r["inner"][2])) != A.ty(tgt) else newv
                n = self.cx.fresh()
                tmp = "x%d" % n
                t0 = "let %s := %s in " % (tmp, old)
                t1, s1 = self.upd(s, tw, set_field(tgt["name"], tv, newv))
                objv2 = s1.st if which == "st" else s1.ot
                t2, s2 = self.upd(s1, which, set_field(lhs["name"], objv2, tmp))
                return t0 + t1 + t2, s2
            return self.upd(s, which, set_field(lhs["name"], objv, ex(rhs, s, self.cx)))
        if lhs["kind"] == "MemberExpr" and lhs["name"] == "_storage":
            # pointer member of StdVectorBase: only the effects of the right-hand side count
            if r["kind"] == "CallExpr" and strip(r["inner"][0]).get("referencedDecl", {}).get("name") == "exchange":
                return self.eff(s, "take_storage", [])
            if r["kind"] in ("CallExpr", "CXXMemberCallExpr"):
                return self.call(r, s)
            if r["kind"] in ("CXXNullPtrLiteralExpr", "GNUNullExpr", "ImplicitValueInitExpr"):
                return "", s
            raise U("_storage = " + r["kind"])
        if lhs["kind"] == "DeclRefExpr" and A.ty(lhs).endswith("*"):
            if r["kind"] in ("CallExpr",):
                return self.call(r, s, allow_pure_pointer=True)
            return "", s   # pointer arithmetic on begin() / dynStorage(): no effect, no bookkeeping
        if lhs["kind"] == "DeclRefExpr" and is_int(lhs):
            nm = lhs["referencedDecl"]["name"]
            if r["kind"] == "CallExpr" and strip(r["inner"][0]).get("referencedDecl", {}).get("name") == "SafeNextCapacity":
                a = [ex(x, s, self.cx) for x in r["inner"][1:]]
                return "SNC|%s|%s|" % (nm, " ".join(a)), s
            return "let %s := %s in " % (nm, ex(rhs, s, self.cx)), s
        raise U("assignment to " + lhs["kind"])

    def stmt(self, n, s):
        """-> (text prefix, new state); the prefix may contain the markers SIB| / SNC| resolved by wrap()."""
        k = n["kind"]
        if k in ("ExprWithCleanups", "ParenExpr"):
            return self.stmt(n["inner"][0], s)
        if k in ("CStyleCastExpr", "CXXStaticCastExpr", "ImplicitCastExpr") and n.get("castKind") == "ToVoid":
            return self.stmt(n["inner"][-1], s)
        if k == "NullStmt":
            return "", s
        if k == "BinaryOperator" and n["opcode"] == "=":
            return self.assign(n["inner"][0], n["inner"][1], s)
        if k in ("CallExpr", "CXXMemberCallExpr"):
            return self.call(n, s)
        if k == "UnaryOperator" and n["opcode"] in ("++", "--"):
            sub = strip(n["inner"][0])
            if sub["kind"] == "MemberExpr" and sub["name"] in ("_capa", "_size"):
                objv, which = obj_of(sub["inner"][0], s)
                f = sub["name"].lstrip("_") + "_"
                return self.upd(s, which, set_field(sub["name"], objv, wrapto(A.ty(sub), "((%s %s) %s 1)" % (f, objv, "+" if n["opcode"] == "++" else "-"))))
            raise U("++ on " + sub["kind"])
        if k == "DeclStmt":
            d = n["inner"][0]
            if d.get("kind") != "VarDecl":
                raise U("declaration " + str(d.get("kind")))
            init = d.get("inner", [None])[-1] if d.get("inner") else None
            if A.ty(d) in INT_TYPES or A.ty(d) == "bool":
                if init is None:   # assigned later in every branch that uses it (SizeType newCapa;)
                    return "", s
                r = strip(init)
                if r["kind"] == "CallExpr" and strip(r["inner"][0]).get("referencedDecl", {}).get("name") == "SafeNextCapacity":
                    a = [ex(x, s, self.cx) for x in r["inner"][1:]]
                    return "SNC|%s|%s|" % (d["name"], " ".join(a)), s
                try:
                    return "let %s := %s in " % (d["name"], ex(init, s, self.cx)), s
                except U:
                    # an integer computed from addresses (an element index recovered from a reference): not derivable from the
                    # words; it becomes an extra, universally quantified parameter of the generated function
                    if not any(x.get("kind") == "CXXMemberCallExpr" and x["inner"][0].get("name") in POINTER_ACCESSORS for x in A.walk(init)):
                        raise
                    self.cx.oracles.append(d["name"])
                    return "", s
            # pointer valued local: only the effects of its initialiser count
            if init is None:
                return "", s
            r = strip(init)
            if r["kind"] in ("CallExpr", "CXXMemberCallExpr"):
                return self.call(r, s, allow_pure_pointer=True)
            return "", s
        raise U("statement kind " + k)

    def block(self, stmts, s):
        """Continuation-passing: the statements after an if are translated once per branch, so that early returns and
        locals assigned in both branches need no merging (the functions concerned are a few lines long)."""
        if not stmts:
            return "Some " + s.tup(self.two, final=True)
        h, rest = stmts[0], stmts[1:]
        k = h["kind"]
        if k == "CompoundStmt":
            return self.block((h.get("inner") or []) + rest, s)
        if k == "ReturnStmt":
            if h.get("inner") and (is_int(h["inner"][0]) or A.ty(h["inner"][0]) == "bool"):
                raise U("return of an integer value")
            # a returned reference / iterator is not part of the bookkeeping
            return "Some " + s.tup(self.two, final=True)
        if is_assert(h):
            return self.block(rest, s)
        if k == "CXXThrowExpr" or (k == "ExprWithCleanups" and strip(h)["kind"] == "CXXThrowExpr") or strip(h)["kind"] == "CXXThrowExpr":
            return "None"
        if k == "CXXTryStmt":
            # handlers of these functions destroy a temporary and rethrow: the exceptional outcome is None either way
            for hd in h["inner"][1:]:
                if not any(x.get("kind") == "CXXThrowExpr" for x in A.walk(hd)):
                    raise U("catch handler that does not rethrow")
            return self.block([h["inner"][0]] + rest, s)
        if k == "IfStmt":
            c = ex(h["inner"][0], s, self.cx)
            thenb = h["inner"][1]
            elseb = h["inner"][2] if len(h["inner"]) > 2 else None
            return "(if %s then %s else %s)" % (c, self.block([thenb] + rest, s), self.block(([elseb] if elseb else []) + rest, s))
        pre, s2 = self.stmt(h, s)
        return self.wrap(pre, self.block(rest, s2))

    def wrap(self, pre, body):
        """Resolve the markers for calls that may fail or return a state."""
        if "SIB|" in pre:
            i = pre.index("SIB|")
            head, tail = pre[:i], pre[i + 4:]
            call, st2, ef2, ef0, tail = tail.split("|", 4)
            inner = self.wrap(tail, body)
            return head + "match %s with None => None | Some (%s, efs) => let %s := %s ++ efs in %s end" % (call, st2, ef2, ef0, inner)
        if "CHK|" in pre:
            i = pre.index("CHK|")
            head, tail = pre[:i], pre[i + 4:]
            args, tail = tail.split("|", 1)
            inner = self.wrap(tail, body)
            return head + "match ExcCheck %s with None => None | Some _ => %s end" % (args, inner)
        if "SNC|" in pre:
            i = pre.index("SNC|")
            head, tail = pre[:i], pre[i + 4:]
            nm, args, tail = tail.split("|", 2)
            inner = self.wrap(tail, body)
            return head + "match SafeNextCapacity %s with None => None | Some %s => %s end" % (args, nm, inner)
        return pre + body


def translate(m, cx):
    body = [c for c in m.get("inner", []) if c["kind"] == "CompoundStmt"]
    if not body:
        raise U("no body")
    params = [c for c in m["inner"] if c["kind"] == "ParmVarDecl"]
    two = any(p.get("name") == "o" for p in params)
    ints = [(p.get("name") or "unused%d" % i, A.ty(p)) for i, p in enumerate(params) if A.ty(p) in INT_TYPES or A.ty(p) == "bool"]
    for p in params:
        t = A.ty(p)
        if p.get("name") != "o" and not (t in INT_TYPES or t == "bool" or t.endswith(("&", "*")) or t == "double"):
            raise U("parameter of type " + t)   # element values, references and pointers are not part of the bookkeeping
    g = Gen(cx, two)
    s0 = S("st", "ot", "ef0")
    cx.oracles = []
    txt = g.block(body, s0)
    ints = ints + [(o, "long") for o in cx.oracles]
    cx.noracles[m["name"] + "/" + str(len(params))] = len(cx.oracles)
    # a sibling is called with the effects so far and returns only its own: every definition starts from []
    txt = "let ef0 := @nil eff in " + txt
    args = "(st : words)" + (" (ot : words)" if two else "") + "".join(" (%s : %s)" % (n, "bool" if t == "bool" else "Z") for n, t in ints)
    rett = "option (words * words * list eff)" if two else "option (words * list eff)"
    return "Definition %s%s %s : %s :=\n  %s." % (cx.pre, m["name"], args, rett, " ".join(txt.split())), two


def class_methods(objs, cls, ctype):
    """name -> list of CXXMethodDecl with a body (in-class and out-of-class definitions) for the instantiation with ctype."""
    out = {}
    for spec in A.instantiated(objs, cls, ctype):
        for m in spec.get("inner", []):
            if m.get("kind") == "CXXMethodDecl" and any(c.get("kind") == "CompoundStmt" for c in m.get("inner", [])):
                out.setdefault(m["name"], []).append(m)
    return out


def main():
    include, outdir = sys.argv[1], sys.argv[2]
    os.makedirs(outdir, exist_ok=True)
    summary = {"functions": {}, "errors": {}}
    with tempfile.TemporaryDirectory(dir=outdir) as tmp:
        src = os.path.join(tmp, "inst.cpp")
        with open(src, "w") as f:
            f.write("#include <amc/smallvector.hpp>\n#include <amc/fixedcapacityvector.hpp>\n#include <amc/vector.hpp>\n")
            for tag, ct in TAGS:
                f.write("template class amc::vec::SmallVectorBase<double, std::allocator<double>, %s>;\n" % ct)
                f.write("template class amc::vec::StdVectorBase<double, std::allocator<double>, %s>;\n" % ct)
                f.write("template class amc::vec::StaticVectorBase<double, %s>;\n" % ct)
                f.write("template class amc::vec::DynamicVector<double, std::allocator<double>, %s, true>;\n" % ct)
                f.write("template class amc::vec::DynamicVector<double, std::allocator<double>, %s, false>;\n" % ct)
                f.write("template class amc::vec::StaticVector<double, %s, amc::vec::ExceptionGrowingPolicy>;\n" % ct)
                f.write("template double& amc::vec::DynamicVector<double, std::allocator<double>, %s, true>::emplace_back<const double&>(const double&);\n" % ct)
                f.write("template double& amc::vec::DynamicVector<double, std::allocator<double>, %s, false>::emplace_back<const double&>(const double&);\n" % ct)
                f.write("template double& amc::vec::StaticVector<double, %s, amc::vec::ExceptionGrowingPolicy>::emplace_back<const double&>(const double&);\n" % ct)
                f.write("template class amc::vec::VectorImpl<double, std::allocator<double>, %s, true, amc::vec::DynamicGrowingPolicy>;\n" % ct)
                f.write("template class amc::vec::VectorImpl<double, std::allocator<double>, %s, false, amc::vec::DynamicGrowingPolicy>;\n" % ct)
                f.write("template class amc::vec::VectorImpl<double, amc::vec::EmptyAlloc, %s, true, amc::vec::ExceptionGrowingPolicy>;\n" % ct)
        asts = {}
        for cls in list(METHODS) + ["DynamicVector", "StaticVector", "VectorImpl"]:
            path = os.path.join(tmp, cls + ".json")
            try:
                A.dump_ast(include, "c++17", src, cls, path)
                asts[cls] = A.load(path)
            except U as e:
                summary["errors"][cls] = str(e)
                asts[cls] = []
        for tag, ct in TAGS:
            defs = []
            for cls in ("SmallVectorBase", "StdVectorBase", "StaticVectorBase"):
                ms = class_methods(asts[cls], cls, ct)
                cx = Ctx(cls)
                cx.done = set()
                cx.defaults = {}
                cx.overloads = {}
                cx.noracles = {}
                for name in METHODS[cls]:
                    cands = ms.get(name, [])
                    # move_construct of SmallVectorBase is overloaded: keep the one taking the same class
                    cands = [m for m in cands if not any(p["kind"] == "ParmVarDecl" and "StdVectorBase" in p["type"]["qualType"] and cls != "StdVectorBase" for p in m["inner"])]
                    key = "%s.%s.%s" % (tag, cls, name)
                    if not cands:
                        summary["errors"][key] = "method not found in the AST"
                        continue
                    try:
                        cx.k = 0
                        txt, two = translate(cands[0], cx)
                        defs.append(txt)
                        cx.done.add(name)
                        summary["functions"].setdefault(tag, []).append(PREFIX[cls] + name)
                    except U as e:
                        summary["errors"][key] = str(e)
                # the layers on top of the base: DynamicVector / StaticVector (growing policy) and VectorImpl (operations)
                dcls = "StaticVector" if cls == "StaticVectorBase" else "DynamicVector"
                want = {"SmallVectorBase": "true", "StdVectorBase": "false"}.get(cls)
                for name, cands in ms.items():
                    for m in cands[:1]:
                        cx.defaults[name] = [(p["inner"][-1] if p.get("inner") else None) for p in m["inner"] if p["kind"] == "ParmVarDecl"]

                def spec_ok(spec, clsname):
                    targs = [a for a in spec.get("inner", []) if a.get("kind") == "TemplateArgument"]
                    tys = [a.get("type", {}).get("qualType") for a in targs]
                    if ct not in tys:
                        return False
                    flags = [str(a.get("value")) for a in targs if "value" in a]
                    if want is not None:
                        if not flags or flags[0] not in (("-1", "1", "true") if want == "true" else ("0", "false")):
                            return False
                        if clsname == "VectorImpl" and not any("DynamicGrowingPolicy" in str(t) for t in tys):
                            return False
                    elif clsname == "VectorImpl" and not any("ExceptionGrowingPolicy" in str(t) for t in tys):
                        return False
                    return True

                def find_method(clsname, mname, nparams, second=None, first=None):
                    for o in asts.get(clsname, []):
                        for spec in A.walk(o):
                            if spec.get("kind") != "ClassTemplateSpecializationDecl" or spec.get("name") != clsname or not spec_ok(spec, clsname):
                                continue
                            for m in A.walk(spec):
                                if m.get("kind") != "CXXMethodDecl" or m.get("name") != mname:
                                    continue
                                ps = [p for p in m["inner"] if p["kind"] == "ParmVarDecl"]
                                if len(ps) != nparams or not any(c.get("kind") == "CompoundStmt" for c in m.get("inner", [])):
                                    continue
                                if second is not None and (second not in ps[1]["type"]["qualType"] or A.ty(ps[0]) not in INT_TYPES):
                                    continue
                                if first is not None and first not in ps[0]["type"]["qualType"]:
                                    continue
                                return m
                    return None

                LAYER = [
                    (dcls, "adjustCapacity", 1, None, "adjustCapacity"),
                    (dcls, "adjustCapacity", 2, "const double &", "adjustCapacity_ref"),
                    (dcls, "reserve", 1, None, "reserve"),
                    ("VectorImpl", "resize", 1, None, "resize"),
                    ("VectorImpl", "resize", 2, "const", "resize_v"),
                    ("VectorImpl", "assign", 2, "const", "assign_n"),
                    ("VectorImpl", "append", 1, None, "append_n"),
                    ("VectorImpl", "append", 2, "const", "append_nv"),
                    ("VectorImpl", "clear", 0, None, "clear"),
                    ("VectorImpl", "pop_back", 0, None, "pop_back"),
                    ("VectorImpl", "push_back", 1, "FIRST:const", "push_back"),
                    (dcls, "emplace_back", 1, "FIRST:const double &", "emplace_back"),
                ]
                for clsname, mname, nparams, second, gname in LAYER:
                    key = "%s.%s%s.%s" % (tag, clsname, "" if want is None else "<" + want + ">", gname)
                    if second and second.startswith("FIRST:"):
                        got = find_method(clsname, mname, nparams, None, second[6:])
                    else:
                        got = find_method(clsname, mname, nparams, second)
                    if got is None:
                        summary["errors"][key] = "method not found in the AST"
                        continue
                    try:
                        cx.k = 0
                        txt, two = translate(got, cx)
                        txt = txt.replace("Definition %s%s " % (cx.pre, mname), "Definition %s%s " % (cx.pre, gname), 1)
                        defs.append(txt)
                        cx.done.add(gname)
                        cx.overloads[(mname, nparams)] = gname
                        summary["functions"].setdefault(tag, []).append(PREFIX[cls] + gname)
                    except U as e:
                        summary["errors"][key] = str(e)
            text = ("(* GENERATED by translator/base2coq.py from clang's AST of the amc headers (-std=c++17). Do not edit. *)\n"
                    "From Coq Require Import ZArith Bool List String.\nFrom Amc Require Import GenPrelude.\nFrom Amc.Gen Require Import L0_%s.\n"
                    "Import ListNotations.\nLocal Open Scope Z_scope.\n\n%s\n" % (tag, "\n\n".join(defs)))
            path = os.path.join(outdir, "Base_%s.v" % tag)
            old = open(path).read() if os.path.exists(path) else None
            if old != text:
                with open(path, "w") as f:
                    f.write(text)
    print(json.dumps(summary, indent=1, sort_keys=True))
    return 0


if __name__ == "__main__":
    sys.exit(main())
