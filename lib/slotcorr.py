"""Slot level correspondence: the hand-written Coq slot models against the real element-moving helpers.

coq/Slots.v, Erase.v, Alias.v, Throw.v, EmplaceGrow.v, ThrowMove.v, SlotsTR.v, Transfer.v and AliasThrow.v model the helper functions of include/amc/vectorcommon.hpp
(namespace amc::vec) on a memory of slots `Out | Raw | Live v | Moved`.  This module ties them to the code by an executable comparison:

  * harness/cpp/slotdrv.cpp (ASan + UBSan build, from /repo's working tree) calls the real helpers on a raw buffer of the
    instrumented non trivially relocatable element vf::El<0>, the way insert / erase / resize / assign call them, for every
    small size / capacity / position / count / throw index, and prints the state of every slot before and after; the families
    `*_mt` do the same on vf::El<2>, whose moves are throwing-capable events too (coq/ThrowMove.v: every catch branch is live);
  * the same cases are evaluated INSIDE Coq (`Eval vm_compute`) by the model definitions, from an initial memory that
    is a function of the case parameters;
  * the families `*_tr` (coq/SlotsTR.v) run the trivially relocatable overloads (bitwise relocation: std::memmove) on vf::El<1>; the
    driver records every memmove of the amc headers as a ledger event (the vacated source slots become `R`); a relocated object is
    printed with a trailing `!` (it does not live where it was constructed): the marker is checked here against the values (an object
    carries it iff it sits in another slot than the one it was built in) and removed before the comparison with the model;
  * the families of coq/Transfer.v (swap_deep, move_n, reloc*: swap / move assignment / relocation of a whole content) run between TWO
    raw buffers (composite state `buffer 1/buffer 2/e`), for vf::El<0>, vf::El<1> and - relocation only - vf::El<2> (the copy variant
    RelocateByCopy with every throw index, amc::uninitialized_relocate_n with throwing moves); erase_at* on one buffer;
  * the families of coq/AliasThrow.v (insert_own_*, insert_cnt_own_*, push_back_own_*, insert_range_in_*; `_th`: El<0>, `_tr`: El<1>) call the
    REAL member functions of a whole amc::vector with one of its own elements as the argument (within the capacity and growing: composite
    state `block/e/new block`, read through the element and allocator ledgers), and insert (pos, first, last) with single-pass iterators;
  * both sides are rendered to the same text (`post=R,L10,M,... | threw= | newsize= | errs=`) and compared line by line.

`run(tier) -> dict`;  `python3 -m lib.slotcorr [quick|thorough]` prints a summary and exits 1 on any difference.
Nothing here is registered as a property: see harness/cpp/SLOTDRV.md for the line format and the case <-> model table.
"""
import json
import os
import re
import sys
import time

from . import build
from . import common as C
from . import coqbuild

WORK = os.path.join(C.CACHE, "slotcorr")
VOS = ["Slots.vo", "Erase.vo", "Alias.vo", "Throw.vo", "EmplaceGrow.vo", "ThrowMove.vo", "SlotsTR.vo", "Transfer.vo", "AliasThrow.vo", "SwapThrow.vo", "MoveThrow.vo"]
RANGE_VALUE = 100       # slotdrv.cpp: kRangeValue (insert_range_tr: the source range holds 100, 101, ...)
NEW_VALUE = 99          # slotdrv.cpp: kNewValue
FIRST_VALUE = 10        # slotdrv.cpp: kFirstValue
SECOND_VALUE = 20       # slotdrv.cpp: kSecondValue (two-buffer families: the second buffer holds 20, 21, ...)
MAX_REPORTED = 8
CHUNK = 300             # cases per `Eval vm_compute`
TIERS = {"quick": (4, 3), "thorough": (6, 4)}    # (max size, max spare capacity = max count)

# case name -> (parameter names, has a throw sweep, Coq constructor, the model definition compared, definitions it runs through)
CASES = {
    "insert_cnt": (("size", "cap", "pos", "count"), False, "KInsertCnt", "Slots.insert_cnt",
                   ["Slots.shift_right_cnt", "Slots.fill_after_shift", "Slots.uninit_fill_n", "Slots.fill_n", "Slots.uninit_move_n",
                    "Slots.move_backward", "Slots.move_construct", "Slots.move_assign", "Slots.copy_construct", "Slots.copy_assign"]),
    "shift_right_cnt": (("size", "cap", "pos", "count"), False, "KShiftRightCnt", "Slots.shift_right_cnt",
                        ["Slots.uninit_move_n", "Slots.move_backward", "Slots.move_construct", "Slots.move_assign"]),
    "shift_right1": (("size", "cap", "pos"), False, "KShiftRight1", "Slots.shift_right_cnt",
                     ["Slots.uninit_move_n", "Slots.move_backward", "Slots.move_construct", "Slots.move_assign"]),
    "fill_after_shift": (("size", "cap", "pos", "count"), False, "KFillAfterShift", "Slots.fill_after_shift",
                         ["Slots.uninit_fill_n", "Slots.fill_n", "Slots.copy_construct", "Slots.copy_assign"]),
    "erase": (("size", "cap", "first", "last"), False, "KErase", "Erase.erase_n",
              ["Erase.move_fwd", "Erase.destroy_n", "Erase.destroy1", "Slots.move_assign"]),
    "insert_own": (("size", "cap", "pos", "src"), False, "KInsertOwn", "Alias.insert_own",
                   ["Alias.read", "Alias.assign_from_temp", "Slots.shift_right_cnt", "Slots.copy_construct", "Slots.copy_assign"]),
    # the model of the repaired insert(pos, count, v) (Throw.insert_cnt_th is the model of the code before the repair of F11)
    "insert_cnt_th": (("size", "cap", "pos", "count"), True, "KInsertCntTh", "Throw.insert_cnt_fix",
                      ["Throw.shift_right_cnt", "Throw.uninit_move_n", "Throw.move_backward", "Throw.move_construct", "Throw.move_assign",
                       "Throw.fill_after_shift_fix", "Throw.unshift_right", "Throw.unshift_move",
                       "Throw.uninit_fill_n", "Throw.uninit_fill_loop", "Throw.fill_n_alive", "Throw.copy_assign_alive",
                       "Throw.copy_construct", "Throw.destroy_n", "Throw.destroy", "Throw.tick"]),
    "resize_grow": (("size", "cap", "count"), True, "KResizeGrow", "Throw.resize_grow",
                    ["Throw.uninit_fill_n", "Throw.uninit_fill_loop", "Throw.copy_construct", "Throw.destroy_n", "Throw.tick"]),
    "assign_grow": (("size", "cap", "count"), True, "KAssignGrow", "Throw.fill_fix",
                    ["Throw.fill_n", "Throw.copy_assign", "Throw.uninit_fill_n", "Throw.uninit_fill_loop", "Throw.copy_construct",
                     "Throw.destroy_n", "Throw.tick"]),
    "assign_shrink": (("size", "cap", "count"), True, "KAssignShrink", "Throw.fill_n",
                      ["Throw.copy_assign", "Throw.destroy_n", "Throw.destroy", "Throw.tick"]),
    # coq/EmplaceGrow.v: the paths that build the new element in a temporary first
    "insert_n_th": (("size", "cap", "pos"), True, "KInsertN", "EmplaceGrow.insert_n",
                    ["EmplaceGrow.shift_right1", "EmplaceGrow.shift_left", "EmplaceGrow.mv_construct", "EmplaceGrow.mv_assign",
                     "EmplaceGrow.mv_backward", "EmplaceGrow.mv_forward", "Throw.copy_assign_alive", "Throw.copy_construct",
                     "Throw.destroy", "Throw.tick"]),
    "shift_left": (("size", "cap", "pos"), False, "KShiftLeft", "EmplaceGrow.shift_left",
                   ["EmplaceGrow.mv_assign", "EmplaceGrow.mv_forward", "Throw.destroy"]),
    "emplace_n_th": (("size", "cap", "pos", "src", "rv"), True, "KEmplaceN", "EmplaceGrow.emplace_n",
                     ["EmplaceGrow.construct_arg", "EmplaceGrow.shift_relocate", "EmplaceGrow.shift_right1",
                      "EmplaceGrow.relocate_after_shift", "EmplaceGrow.mv_construct", "EmplaceGrow.mv_assign", "EmplaceGrow.mv_backward",
                      "Throw.copy_construct", "Throw.destroy", "Throw.tick"]),
    "emplace_grow_th": (("size", "pos", "src", "rv"), True, "KEmplaceGrow", "EmplaceGrow.emplace_grow",
                        ["EmplaceGrow.construct_arg", "EmplaceGrow.grow", "EmplaceGrow.next_cap", "EmplaceGrow.fill_range",
                         "EmplaceGrow.mv_uninit_n", "EmplaceGrow.catch_grow", "EmplaceGrow.give_back", "EmplaceGrow.relocate_at",
                         "EmplaceGrow.shift_relocate", "EmplaceGrow.shift_right1", "EmplaceGrow.relocate_after_shift",
                         "EmplaceGrow.mv_construct", "EmplaceGrow.mv_assign", "EmplaceGrow.mv_backward", "Throw.copy_construct",
                         "Throw.destroy_n", "Throw.destroy", "Throw.tick"]),
    "emplace_back_grow_th": (("size", "src", "rv"), True, "KEmplaceBackGrow", "EmplaceGrow.emplace_back_grow",
                             ["EmplaceGrow.construct_arg", "EmplaceGrow.grow", "EmplaceGrow.next_cap", "EmplaceGrow.fill_range",
                              "EmplaceGrow.mv_uninit_n", "EmplaceGrow.catch_grow", "EmplaceGrow.give_back", "EmplaceGrow.relocate_at",
                              "EmplaceGrow.mv_construct", "EmplaceGrow.mv_assign", "Throw.copy_construct", "Throw.destroy_n",
                              "Throw.destroy", "Throw.tick"]),
    # coq/ThrowMove.v: the same helpers for an element whose moves are throwing-capable events (vf::El<2>)
    "shift_right1_mt": (("size", "cap", "pos"), True, "KShiftRight1M", "ThrowMove.shift_right1",
                        ["ThrowMove.move_construct", "ThrowMove.move_assign", "ThrowMove.move_backward", "EmplaceGrow.mv_construct",
                         "EmplaceGrow.mv_assign", "Throw.destroy", "Throw.tick"]),
    "shift_right_cnt_mt": (("size", "cap", "pos", "count"), True, "KShiftRightCntM", "ThrowMove.shift_right_cnt",
                           ["ThrowMove.uninit_move_n", "ThrowMove.uninit_move_loop", "ThrowMove.move_construct", "ThrowMove.move_assign",
                            "ThrowMove.move_backward", "EmplaceGrow.mv_construct", "EmplaceGrow.mv_assign", "Throw.destroy_n",
                            "Throw.destroy", "Throw.tick"]),
    "shift_left_mt": (("size", "cap", "pos"), True, "KShiftLeftM", "ThrowMove.shift_left",
                      ["ThrowMove.move_assign", "ThrowMove.move_forward", "ThrowMove.lift", "EmplaceGrow.mv_assign", "Throw.destroy",
                       "Throw.tick"]),
    "insert_n_mt": (("size", "cap", "pos"), True, "KInsertNM", "ThrowMove.insert_n",
                    ["ThrowMove.shift_right1", "ThrowMove.shift_left", "ThrowMove.move_construct", "ThrowMove.move_assign",
                     "ThrowMove.move_backward", "ThrowMove.move_forward", "EmplaceGrow.mv_construct", "EmplaceGrow.mv_assign",
                     "Throw.copy_assign_alive", "Throw.copy_construct", "Throw.destroy", "Throw.tick"]),
    "emplace_n_mt": (("size", "cap", "pos", "src", "rv"), True, "KEmplaceNM", "ThrowMove.emplace_n",
                     ["ThrowMove.construct_arg", "ThrowMove.shift_relocate", "ThrowMove.shift_right1", "ThrowMove.shift_left",
                      "ThrowMove.relocate_after_shift", "ThrowMove.move_construct", "ThrowMove.move_assign", "ThrowMove.move_backward",
                      "ThrowMove.move_forward", "EmplaceGrow.mv_construct", "EmplaceGrow.mv_assign", "Throw.copy_construct",
                      "Throw.destroy", "Throw.tick"]),
    "erase_mt": (("size", "cap", "first", "last"), True, "KEraseM", "ThrowMove.erase_n",
                 ["ThrowMove.move_forward", "ThrowMove.move_assign", "ThrowMove.lift", "EmplaceGrow.mv_assign", "Throw.destroy_n",
                  "Throw.destroy", "Throw.tick"]),
    # coq/SlotsTR.v: the trivially relocatable overloads (bitwise relocation) on vf::El<1>
    "shift_right1_tr": (("size", "cap", "pos"), True, "KShiftRight1TR", "SlotsTR.shift_right1",
                        ["SlotsTR.relocate_n", "SlotsTR.reloc_bwd", "SlotsTR.relocate", "ThrowMove.lift"]),
    "shift_right_cnt_tr": (("size", "cap", "pos", "count"), True, "KShiftRightCntTR", "SlotsTR.shift_right_cnt",
                           ["SlotsTR.relocate_n", "SlotsTR.reloc_bwd", "SlotsTR.relocate", "ThrowMove.lift"]),
    "unshift_right_tr": (("size", "cap", "pos", "count"), True, "KUnshiftRightTR", "SlotsTR.unshift_right",
                         ["SlotsTR.relocate_n", "SlotsTR.reloc_fwd", "SlotsTR.relocate", "ThrowMove.lift"]),
    "shift_left_tr": (("size", "cap", "pos"), True, "KShiftLeftTR", "SlotsTR.shift_left",
                      ["SlotsTR.relocate_n", "SlotsTR.reloc_fwd", "SlotsTR.relocate", "ThrowMove.lift"]),
    "insert_n_tr": (("size", "cap", "pos"), True, "KInsertNTR", "SlotsTR.insert_n",
                    ["SlotsTR.shift_right1", "SlotsTR.shift_left", "SlotsTR.relocate_n", "SlotsTR.reloc_fwd", "SlotsTR.reloc_bwd",
                     "SlotsTR.relocate", "Throw.copy_construct", "Throw.tick"]),
    "emplace_n_tr": (("size", "cap", "pos", "src", "rv"), True, "KEmplaceNTR", "SlotsTR.emplace_n",
                     ["SlotsTR.shift_relocate", "SlotsTR.shift_right1", "SlotsTR.relocate_after_shift", "SlotsTR.relocate_n",
                      "SlotsTR.reloc_bwd", "SlotsTR.relocate", "EmplaceGrow.construct_arg", "EmplaceGrow.mv_construct",
                      "Throw.copy_construct", "Throw.tick", "ThrowMove.lift"]),
    "erase_tr": (("size", "cap", "first", "last"), True, "KEraseTR", "SlotsTR.erase_n",
                 ["SlotsTR.relocate_n", "SlotsTR.reloc_fwd", "SlotsTR.relocate", "Throw.destroy_n", "Throw.destroy", "ThrowMove.lift"]),
    "insert_cnt_tr": (("size", "cap", "pos", "count"), True, "KInsertCntTR", "SlotsTR.insert_cnt_tr",
                      ["SlotsTR.shift_right_cnt", "SlotsTR.fill_after_shift", "SlotsTR.unshift_right", "SlotsTR.relocate_n",
                       "SlotsTR.reloc_fwd", "SlotsTR.reloc_bwd", "SlotsTR.relocate", "Throw.uninit_fill_n", "Throw.uninit_fill_loop",
                       "Throw.copy_construct", "Throw.destroy_n", "Throw.destroy", "Throw.tick"]),
    "insert_range_tr": (("size", "cap", "pos", "count"), True, "KInsertRangeTR", "SlotsTR.insert_range_tr",
                        ["SlotsTR.shift_right_cnt", "SlotsTR.copy_after_shift", "SlotsTR.unshift_right", "SlotsTR.uninit_copy_n",
                         "SlotsTR.uninit_copy_loop", "SlotsTR.relocate_n", "SlotsTR.reloc_fwd", "SlotsTR.reloc_bwd", "SlotsTR.relocate",
                         "Throw.copy_construct", "Throw.destroy_n", "Throw.destroy", "Throw.tick"]),
    # coq/Transfer.v: whole-content transfers between two buffers (composite state buffer 1/buffer 2/e), and erase_at
    "swap_deep": (("n1", "cap1", "n2", "cap2"), True, "KSwapDeep false", "Transfer.swap_deep",
                  ["Transfer.swap_ranges", "Transfer.swap1", "Transfer.relocate_any", "Transfer.relocate_nx", "EmplaceGrow.mv_construct",
                   "EmplaceGrow.mv_assign", "EmplaceGrow.mv_uninit_n", "Throw.destroy_n", "Throw.destroy", "ThrowMove.lift"]),
    "swap_deep_tr": (("n1", "cap1", "n2", "cap2"), True, "KSwapDeep true", "Transfer.swap_deep",
                     ["Transfer.swap_ranges", "Transfer.swap1", "Transfer.relocate_any", "SlotsTR.relocate_n", "SlotsTR.reloc_fwd",
                      "SlotsTR.reloc_bwd", "SlotsTR.relocate", "EmplaceGrow.mv_construct", "EmplaceGrow.mv_assign", "Throw.destroy",
                      "ThrowMove.lift"]),
    # coq/SwapThrow.v: swap_deep on vf::El<2> (every move construction / assignment of std::swap and of the tail relocation is an event)
    "swap_deep_mt": (("n1", "cap1", "n2", "cap2"), True, "KSwapDeepMt", "SwapThrow.swap_deep_mt",
                     ["SwapThrow.swap_ranges", "SwapThrow.swap1", "SwapThrow.unwind", "ThrowMove.move_construct", "ThrowMove.move_assign",
                      "Transfer.uninit_relocate_n", "Transfer.uninit_move_n", "Transfer.uninit_move_loop", "Throw.destroy_n", "Throw.destroy",
                      "Throw.tick"]),
    # coq/MoveThrow.v: move_n on vf::El<2>
    "move_n_mt": (("n", "cap1", "dn", "cap2"), True, "KMoveNMt", "MoveThrow.move_n_mt",
                  ["ThrowMove.move_forward", "ThrowMove.move_assign", "ThrowMove.uninit_move_n", "ThrowMove.uninit_move_loop",
                   "ThrowMove.move_construct", "Throw.destroy_n", "Throw.destroy", "Throw.tick", "ThrowMove.lift"]),
    "move_n": (("n", "cap1", "dn", "cap2"), True, "KMoveN false", "Transfer.move_n",
               ["EmplaceGrow.mv_forward", "EmplaceGrow.mv_assign", "EmplaceGrow.mv_uninit_n", "EmplaceGrow.mv_construct", "Throw.destroy_n",
                "Throw.destroy", "ThrowMove.lift"]),
    "move_n_tr": (("n", "cap1", "dn", "cap2"), True, "KMoveN true", "Transfer.move_n",
                  ["SlotsTR.relocate_n", "SlotsTR.reloc_fwd", "SlotsTR.reloc_bwd", "SlotsTR.relocate", "Throw.destroy_n", "Throw.destroy",
                   "ThrowMove.lift"]),
    "reloc": (("n", "cap1", "cap2"), True, "KReloc false", "Transfer.relocate_to_new_buffer",
              ["Transfer.uninit_relocate_n", "Transfer.uninit_move_n", "Transfer.uninit_move_loop", "Transfer.move_construct_g",
               "EmplaceGrow.mv_construct", "Throw.destroy_n", "Throw.destroy", "ThrowMove.lift"]),
    "reloc_tr": (("n", "cap1", "cap2"), True, "KReloc true", "Transfer.relocate_to_new_buffer",
                 ["SlotsTR.relocate_n", "SlotsTR.reloc_fwd", "SlotsTR.reloc_bwd", "SlotsTR.relocate", "ThrowMove.lift"]),
    "reloc_cp": (("n", "cap1", "cap2"), True, "KRelocCopy", "Transfer.relocate_by_copy",
                 ["Transfer.uninit_copy_n", "Transfer.uninit_copy_loop", "Transfer.copy_construct_from", "Throw.destroy_n", "Throw.destroy",
                  "Throw.tick", "ThrowMove.lift"]),
    "reloc_mt": (("n", "cap1", "cap2"), True, "KRelocMt", "Transfer.uninit_relocate_n",
                 ["Transfer.uninit_move_n", "Transfer.uninit_move_loop", "Transfer.move_construct_g", "ThrowMove.move_construct",
                  "EmplaceGrow.mv_construct", "Throw.destroy_n", "Throw.destroy", "Throw.tick", "ThrowMove.lift"]),
    "erase_at": (("size", "cap", "pos"), True, "KEraseAt false", "Transfer.erase_at",
                 ["EmplaceGrow.mv_forward", "EmplaceGrow.mv_assign", "Throw.destroy", "ThrowMove.lift"]),
    "erase_at_tr": (("size", "cap", "pos"), True, "KEraseAt true", "Transfer.erase_at",
                    ["SlotsTR.relocate_n", "SlotsTR.reloc_fwd", "SlotsTR.relocate", "Throw.destroy", "ThrowMove.lift"]),
    "erase_at_mt": (("size", "cap", "pos"), True, "KEraseAtMt", "Transfer.erase_at_mt",
                    ["ThrowMove.move_forward", "ThrowMove.move_assign", "EmplaceGrow.mv_assign", "Throw.destroy", "Throw.tick", "ThrowMove.lift"]),
    # coq/AliasThrow.v: real member functions of a whole amc::vector<El<0>> whose argument is an OWN element (within the capacity and
    # growing), and the single-pass range insertion; composite state block/e/new block
    "insert_own_th": (("size", "cap", "pos", "src"), True, "KInsertOwnTh false", "AliasThrow.insert_own",
                      ["AliasThrow.finish_tmp", "AliasThrow.adjust", "AliasThrow.next_capn", "AliasThrow.insert_n_ref",
                       "AliasThrow.copy_construct_ref", "AliasThrow.copy_assign_ref", "AliasThrow.read_ref", "EmplaceGrow.construct_arg",
                       "EmplaceGrow.emplace_n", "EmplaceGrow.emplace_grow", "EmplaceGrow.grow", "EmplaceGrow.next_cap", "EmplaceGrow.fill_range",
                       "EmplaceGrow.mv_uninit_n", "EmplaceGrow.catch_grow", "EmplaceGrow.give_back", "EmplaceGrow.relocate_at",
                       "EmplaceGrow.shift_relocate", "EmplaceGrow.shift_right1", "EmplaceGrow.shift_left", "EmplaceGrow.relocate_after_shift",
                       "EmplaceGrow.mv_construct", "EmplaceGrow.mv_assign", "EmplaceGrow.mv_backward", "EmplaceGrow.mv_forward",
                       "Throw.copy_construct", "Throw.copy_assign_alive", "Throw.destroy_n", "Throw.destroy", "Throw.tick"]),
    "insert_cnt_own_th": (("size", "cap", "pos", "count", "src"), True, "KInsertCntOwnTh false", "AliasThrow.insert_cnt_own",
                          ["AliasThrow.finish_tmp", "AliasThrow.adjust", "AliasThrow.next_capn", "AliasThrow.insert_cnt_ref",
                           "AliasThrow.fill_after_shift_ref", "AliasThrow.fill_n_ref", "AliasThrow.uninit_fill_n_ref",
                           "AliasThrow.uninit_fill_loop_ref", "AliasThrow.copy_construct_ref", "AliasThrow.copy_assign_ref",
                           "AliasThrow.read_ref", "EmplaceGrow.construct_arg", "EmplaceGrow.grow", "EmplaceGrow.fill_range",
                           "EmplaceGrow.mv_uninit_n", "EmplaceGrow.mv_construct", "Throw.shift_right_cnt", "Throw.uninit_move_n",
                           "Throw.move_backward", "Throw.move_construct", "Throw.move_assign", "Throw.unshift_right", "Throw.unshift_move",
                           "Throw.copy_construct", "Throw.copy_assign_alive", "Throw.destroy_n", "Throw.destroy", "Throw.tick"]),
    "push_back_own_th": (("size", "cap", "src"), True, "KPushBackOwnTh false", "AliasThrow.push_back_own",
                         ["AliasThrow.adjust", "AliasThrow.next_capn", "AliasThrow.copy_construct_ref", "AliasThrow.read_ref",
                          "EmplaceGrow.grow", "EmplaceGrow.fill_range", "EmplaceGrow.mv_uninit_n", "EmplaceGrow.mv_construct",
                          "Throw.copy_construct", "Throw.destroy_n", "Throw.destroy", "Throw.tick"]),
    "insert_range_in_th": (("size", "cap", "pos", "count"), True, "KInsertRangeInTh false", "AliasThrow.insert_range_in",
                           ["AliasThrow.append_range_in", "AliasThrow.append_loop", "AliasThrow.rotate", "Throw.copy_construct",
                            "Throw.destroy_n", "Throw.destroy", "Throw.tick"]),
    # the same member functions on the trivially relocatable element vf::El<1> (tr = true: the overloads of SlotsTR.v, the relocating grow)
    "insert_own_tr": (("size", "cap", "pos", "src"), True, "KInsertOwnTh true", "AliasThrow.insert_own",
                      ["AliasThrow.finish_tmp", "AliasThrow.adjust", "AliasThrow.grow_tr", "AliasThrow.emplace_grow_tr", "AliasThrow.next_capn", "AliasThrow.insert_n_ref",
                       "SlotsTR.emplace_n", "SlotsTR.shift_relocate", "SlotsTR.shift_right1", "SlotsTR.shift_left", "SlotsTR.relocate_n", "SlotsTR.relocate",
                       "AliasThrow.copy_construct_ref", "AliasThrow.copy_assign_ref", "AliasThrow.read_ref", "EmplaceGrow.construct_arg",
                       "EmplaceGrow.emplace_n", "EmplaceGrow.emplace_grow", "EmplaceGrow.grow", "EmplaceGrow.next_cap", "EmplaceGrow.fill_range",
                       "EmplaceGrow.mv_uninit_n", "EmplaceGrow.catch_grow", "EmplaceGrow.give_back", "EmplaceGrow.relocate_at",
                       "EmplaceGrow.shift_relocate", "EmplaceGrow.shift_right1", "EmplaceGrow.shift_left", "EmplaceGrow.relocate_after_shift",
                       "EmplaceGrow.mv_construct", "EmplaceGrow.mv_assign", "EmplaceGrow.mv_backward", "EmplaceGrow.mv_forward",
                       "Throw.copy_construct", "Throw.copy_assign_alive", "Throw.destroy_n", "Throw.destroy", "Throw.tick"]),
    "insert_cnt_own_tr": (("size", "cap", "pos", "count", "src"), True, "KInsertCntOwnTh true", "AliasThrow.insert_cnt_own",
                          ["AliasThrow.finish_tmp", "AliasThrow.adjust", "AliasThrow.grow_tr", "AliasThrow.next_capn", "AliasThrow.insert_cnt_ref",
                           "SlotsTR.shift_right_cnt", "SlotsTR.unshift_right", "SlotsTR.relocate_n", "SlotsTR.relocate",
                           "AliasThrow.fill_after_shift_ref", "AliasThrow.fill_n_ref", "AliasThrow.uninit_fill_n_ref",
                           "AliasThrow.uninit_fill_loop_ref", "AliasThrow.copy_construct_ref", "AliasThrow.copy_assign_ref",
                           "AliasThrow.read_ref", "EmplaceGrow.construct_arg", "EmplaceGrow.grow", "EmplaceGrow.fill_range",
                           "EmplaceGrow.mv_uninit_n", "EmplaceGrow.mv_construct", "Throw.shift_right_cnt", "Throw.uninit_move_n",
                           "Throw.move_backward", "Throw.move_construct", "Throw.move_assign", "Throw.unshift_right", "Throw.unshift_move",
                           "Throw.copy_construct", "Throw.copy_assign_alive", "Throw.destroy_n", "Throw.destroy", "Throw.tick"]),
    "push_back_own_tr": (("size", "cap", "src"), True, "KPushBackOwnTh true", "AliasThrow.push_back_own",
                         ["AliasThrow.adjust", "AliasThrow.grow_tr", "AliasThrow.next_capn", "AliasThrow.copy_construct_ref", "AliasThrow.read_ref",
                          "SlotsTR.relocate_n", "SlotsTR.relocate",
                          "EmplaceGrow.grow", "EmplaceGrow.fill_range", "EmplaceGrow.mv_uninit_n", "EmplaceGrow.mv_construct",
                          "Throw.copy_construct", "Throw.destroy_n", "Throw.destroy", "Throw.tick"]),
    "insert_range_in_tr": (("size", "cap", "pos", "count"), True, "KInsertRangeInTh true", "AliasThrow.insert_range_in",
                           ["AliasThrow.append_range_in", "AliasThrow.append_loop", "AliasThrow.rotate", "Throw.copy_construct",
                            "Throw.destroy_n", "Throw.destroy", "Throw.tick"]),
}
# the model computes the size the member function sets
HAS_NEWSIZE = ("insert_cnt", "resize_grow", "emplace_n_th", "emplace_grow_th", "emplace_back_grow_th", "emplace_n_mt", "emplace_n_tr",
               "insert_own_th", "insert_cnt_own_th", "push_back_own_th", "insert_range_in_th",
               "insert_own_tr", "insert_cnt_own_tr", "push_back_own_tr", "insert_range_in_tr")
# families whose state is made of segments `a/b/...` (slotdrv.cpp, SLOTDRV.md): block/argument/e  or  old block/argument/e/new block
COMPOSITE = {"emplace_n_th": 3, "emplace_grow_th": 4, "emplace_back_grow_th": 4, "emplace_n_mt": 3, "emplace_n_tr": 3,
             "swap_deep": 3, "swap_deep_tr": 3, "swap_deep_mt": 3, "move_n": 3, "move_n_mt": 3, "move_n_tr": 3, "reloc": 3, "reloc_tr": 3, "reloc_cp": 3, "reloc_mt": 3,
             "insert_own_th": 3, "insert_cnt_own_th": 3, "push_back_own_th": 3, "insert_range_in_th": 3,
             "insert_own_tr": 3, "insert_cnt_own_tr": 3, "push_back_own_tr": 3, "insert_range_in_tr": 3}
# composite families on a whole vector (coq/AliasThrow.v): block 0..cap-1/e/new block
VEC3 = ("insert_own_th", "insert_cnt_own_th", "push_back_own_th", "insert_range_in_th",
        "insert_own_tr", "insert_cnt_own_tr", "push_back_own_tr", "insert_range_in_tr")
# composite families made of TWO buffers: buffer 1/buffer 2/e (coq/Transfer.v); the others: block/argument/e[/new block]
TWO_BUF = ("swap_deep", "swap_deep_tr", "swap_deep_mt", "move_n_mt", "move_n", "move_n_tr", "reloc", "reloc_tr", "reloc_cp", "reloc_mt")
# composite families whose block segment is `cap` slots long (the others: `size`)
BLOCK_IS_CAP = ("emplace_n_th", "emplace_n_mt", "emplace_n_tr")
# families on the trivially relocatable element vf::El<1>: objects are moved bitwise, the marker `!` is legal there (see relocation_marks)
TR_FAMILIES = ("shift_right1_tr", "shift_right_cnt_tr", "unshift_right_tr", "shift_left_tr", "insert_n_tr", "emplace_n_tr", "erase_tr",
               "insert_cnt_tr", "insert_range_tr", "swap_deep_tr", "move_n_tr", "reloc_tr", "erase_at_tr",
               "insert_own_tr", "insert_cnt_own_tr", "push_back_own_tr", "insert_range_in_tr")

LINE = re.compile(r"^CASE (\S+) ((?:\w+=\d+ )+)k=(-|\d+) \| pre=(\S+) \| post=(\S+) \| threw=([01]) \| newsize=(-|\d+) \| "
                  r"errs=(\d+) live=(-?\d+)(?: msg=(.*))?$")
HEAD = re.compile(r"^CASE (\S+) ((?:\w+=\d+ )+)k=(-|\d+) \|")

COQ_PRELUDE = r"""(* generated by lib/slotcorr.py: evaluates the slot models on the cases the C++ driver ran *)
From Coq Require Import ZArith List Arith Bool.
From Amc Require Import Slots Erase Alias Throw EmplaceGrow.
From Amc Require ThrowMove SlotsTR Transfer AliasThrow SwapThrow MoveThrow.
Import ListNotations.
Set Printing Depth 1000000.
Set Printing Width 200.

(* a slot as a number: Raw -1, Moved -2, Out -3, Live v = v *)
Definition codeS (s : Slots.slot) : Z :=
  match s with Slots.Out => (-3)%Z | Slots.Raw => (-1)%Z | Slots.Live v => v | Slots.Moved => (-2)%Z end.
Definition codeT (s : Throw.slot) : Z :=
  match s with Throw.Out => (-3)%Z | Throw.Raw => (-1)%Z | Throw.Live v => v | Throw.Moved => (-2)%Z end.
Definition errS (e : Slots.err) : Z :=
  match e with Slots.ConstructOverLive => 1%Z | Slots.ReadDead => 2%Z | Slots.AssignDead => 3%Z | Slots.DestroyDead => 4%Z
             | Slots.OutOfBlock => 5%Z end.
Definition errT (e : Throw.err) : Z :=
  match e with Throw.ConstructOverLive => 1%Z | Throw.AssignDead => 3%Z | Throw.DestroyDead => 4%Z | Throw.OutOfBlock => 5%Z end.

(* the vector invariant: size live elements 10, 11, ... then raw slots up to cap, nothing beyond *)
Definition initS (size cap : nat) : Slots.mem :=
  fun i => if i <? size then Slots.Live (Z.of_nat (10 + i)) else if i <? cap then Slots.Raw else Slots.Out.
Definition initT (size cap : nat) : Throw.mem :=
  fun i => if i <? size then Throw.Live (Z.of_nat (10 + i)) else if i <? cap then Throw.Raw else Throw.Out.
(* what shift_right (pos, size - pos, count) leaves behind, written down directly *)
Definition shiftedS (size cap pos count : nat) : Slots.mem :=
  fun i => if i <? pos then Slots.Live (Z.of_nat (10 + i))
           else if i <? pos + Nat.min (size - pos) count then Slots.Moved
           else if i <? pos + count then Slots.Raw
           else if i <? size + count then Slots.Live (Z.of_nat (10 + (i - count)))
           else if i <? cap then Slots.Raw else Slots.Out.
Definition v : Z := 99%Z.
Definition NOSIZE : Z := (-1)%Z.

(* observable of a case: [lifetime error (0 = none); new size or -1; threw; slot 0; ...; slot cap-1] *)
Definition showS (cap : nat) (r : Slots.R) (ns : Z) : list Z :=
  match r with
  | inl e => [errS e; NOSIZE; 0%Z]
  | inr m => 0%Z :: ns :: 0%Z :: map (fun i => codeS (m i)) (seq 0 cap)
  end.
Definition showT (cap : nat) (o : Throw.out) (nsDone nsThrew : Z) : list Z :=
  match o with
  | Throw.Err e => [errT e; NOSIZE; 0%Z]
  | Throw.Done m _ => 0%Z :: nsDone :: 0%Z :: map (fun i => codeT (m i)) (seq 0 cap)
  | Throw.Threw m => 0%Z :: nsThrew :: 1%Z :: map (fun i => codeT (m i)) (seq 0 cap)
  end.

(* as showT, for an explicit list of slot indices (composite states: block(s), argument, temporary) *)
Definition showE (idx : list nat) (o : Throw.out) (nsDone nsThrew : Z) : list Z :=
  match o with
  | Throw.Err e => [errT e; NOSIZE; 0%Z]
  | Throw.Done m _ => 0%Z :: nsDone :: 0%Z :: map (fun i => codeT (m i)) idx
  | Throw.Threw m => 0%Z :: nsThrew :: 1%Z :: map (fun i => codeT (m i)) idx
  end.
(* what shift_right (pos, size - pos) leaves behind (size - pos >= 1), written down directly *)
Definition shifted1T (size cap pos : nat) : Throw.mem :=
  fun i => if i <? pos then Throw.Live (Z.of_nat (10 + i)) else if i =? pos then Throw.Moved
           else if i <=? size then Throw.Live (Z.of_nat (10 + (i - 1))) else if i <? cap then Throw.Raw else Throw.Out.
Definition kind (rv : nat) : EmplaceGrow.argkind := match rv with 0 => EmplaceGrow.Lvalue | _ => EmplaceGrow.Rvalue end.
(* what the trivially relocatable shift_right (pos, size - pos, count) leaves behind, written down directly: EVERY slot of
   [pos, pos + count) is raw *)
Definition shiftedTR (size cap pos count : nat) : Throw.mem :=
  fun i => if i <? pos then Throw.Live (Z.of_nat (10 + i)) else if i <? pos + count then Throw.Raw
           else if i <? size + count then Throw.Live (Z.of_nat (10 + (i - count))) else if i <? cap then Throw.Raw else Throw.Out.
(* the source range of insert_range_tr: count external elements 100, 101, ... *)
Definition rangeTR (count : nat) : list Z := map (fun i => Z.of_nat (100 + i)) (seq 0 count).

Inductive case :=
| KInsertCnt (size cap pos count : nat)
| KShiftRightCnt (size cap pos count : nat)
| KShiftRight1 (size cap pos : nat)
| KFillAfterShift (size cap pos count : nat)
| KErase (size cap first last : nat)
| KInsertOwn (size cap pos src : nat)
| KInsertCntTh (size cap pos count : nat) (th : option nat)
| KResizeGrow (size cap count : nat) (th : option nat)
| KAssignGrow (size cap count : nat) (th : option nat)
| KAssignShrink (size cap count : nat) (th : option nat)
| KInsertN (size cap pos : nat) (th : option nat)
| KShiftLeft (size cap pos : nat)
| KEmplaceN (size cap pos src rv : nat) (th : option nat)
| KEmplaceGrow (size pos src rv : nat) (th : option nat)
| KEmplaceBackGrow (size src rv : nat) (th : option nat)
| KShiftRight1M (size cap pos : nat) (th : option nat)
| KShiftRightCntM (size cap pos count : nat) (th : option nat)
| KShiftLeftM (size cap pos : nat) (th : option nat)
| KInsertNM (size cap pos : nat) (th : option nat)
| KEmplaceNM (size cap pos src rv : nat) (th : option nat)
| KEraseM (size cap first last : nat) (th : option nat)
| KShiftRight1TR (size cap pos : nat) (th : option nat)
| KShiftRightCntTR (size cap pos count : nat) (th : option nat)
| KUnshiftRightTR (size cap pos count : nat) (th : option nat)
| KShiftLeftTR (size cap pos : nat) (th : option nat)
| KInsertNTR (size cap pos : nat) (th : option nat)
| KEmplaceNTR (size cap pos src rv : nat) (th : option nat)
| KEraseTR (size cap first last : nat) (th : option nat)
| KInsertCntTR (size cap pos count : nat) (th : option nat)
| KInsertRangeTR (size cap pos count : nat) (th : option nat)
| KSwapDeep (tr : bool) (n1 cap1 n2 cap2 : nat) (th : option nat)
| KMoveN (tr : bool) (n cap1 dn cap2 : nat) (th : option nat)
| KSwapDeepMt (n1 cap1 n2 cap2 : nat) (th : option nat)
| KMoveNMt (n cap1 dn cap2 : nat) (th : option nat)
| KReloc (tr : bool) (n cap1 cap2 : nat) (th : option nat)
| KRelocCopy (n cap1 cap2 : nat) (th : option nat)
| KRelocMt (n cap1 cap2 : nat) (th : option nat)
| KEraseAt (tr : bool) (size cap pos : nat) (th : option nat)
| KEraseAtMt (size cap pos : nat) (th : option nat)
| KInsertOwnTh (tr : bool) (size cap pos src : nat) (th : option nat)
| KInsertCntOwnTh (tr : bool) (size cap pos count src : nat) (th : option nat)
| KPushBackOwnTh (tr : bool) (size cap src : nat) (th : option nat)
| KInsertRangeInTh (tr : bool) (size cap pos count : nat) (th : option nat).

(* coq/AliasThrow.v, layout AliasThrow.init_own: block [0, cap), e = cap + 1, t = cap + 2 (the temporary T (v)), new block from cap + 4 with
   the capacity SafeNextCapacity gives for the size needed; observed: block, e, t, new block *)
Definition idxOwn (cap need : nat) : list nat := seq 0 cap ++ [cap + 1; cap + 2] ++ seq (cap + 4) (AliasThrow.next_capn cap need).

(* coq/Transfer.v, layout Transfer.init2: buffer 1 = [0, cap1), t = cap1 + 1 (the temporary of std::swap), buffer 2 = [cap1 + 3, cap1 + 3 + cap2);
   observed: buffer 1, buffer 2, t *)
Definition idx2 (cap1 cap2 : nat) : list nat := seq 0 cap1 ++ seq (cap1 + 3) cap2 ++ [cap1 + 1].

Definition run (c : case) : list Z :=
  match c with
  | KInsertCnt size cap pos count =>
      let (r, ns) := Slots.insert_cnt (initS size cap) size pos count v in showS cap r (Z.of_nat ns)
  | KShiftRightCnt size cap pos count => showS cap (Slots.shift_right_cnt (initS size cap) pos (size - pos) count) NOSIZE
  | KShiftRight1 size cap pos => showS cap (Slots.shift_right_cnt (initS size cap) pos (size - pos) 1) NOSIZE
  | KFillAfterShift size cap pos count =>
      showS cap (Slots.fill_after_shift (shiftedS size cap pos count) pos (size - pos) count v) NOSIZE
  | KErase size cap first last =>
      (* erase(first, last) calls erase_n only for a non empty range *)
      let n := last - first in
      showS cap (if n =? 0 then inr (initS size cap) else Erase.erase_n (initS size cap) first n (size - last)) NOSIZE
  | KInsertOwn size cap pos src => showS cap (Alias.insert_own (initS size cap) size pos src) NOSIZE
  | KInsertCntTh size cap pos count th => showT cap (Throw.insert_cnt_fix (initT size cap) th size pos count v) NOSIZE NOSIZE
  | KResizeGrow size cap count th =>
      let (o, ns) := Throw.resize_grow (initT size cap) th size count v in showT cap o (Z.of_nat ns) (Z.of_nat ns)
  | KAssignGrow size cap count th => showT cap (Throw.fill_fix (initT size cap) th 0 size count v) NOSIZE NOSIZE
  | KAssignShrink size cap count th =>
      (* assign(count, v), count <= size: std::fill_n on the first count elements, destroy_n of the others *)
      showT cap (match Throw.fill_n (initT size cap) th 0 count v with
                 | Throw.Done m1 th1 => match Throw.destroy_n m1 count (size - count) with
                                        | inl m2 => Throw.Done m2 th1 | inr e => Throw.Err e end
                 | o => o end) NOSIZE NOSIZE
  | KInsertN size cap pos th => showT cap (EmplaceGrow.insert_n (initT size cap) th pos (size - pos) v) NOSIZE NOSIZE
  | KShiftLeft size cap pos =>
      showT cap (match EmplaceGrow.shift_left (shifted1T size cap pos) (pos + 1) (size - pos) with
                 | inl m => Throw.Done m None | inr e => Throw.Err e end) NOSIZE NOSIZE
  (* layout EmplaceGrow.init_lay: block [0, cap), e = cap + 1, external argument = cap + 2 (src < size: an own element) *)
  | KEmplaceN size cap pos src rv th =>
      showE (seq 0 cap ++ [src; cap + 1])
            (EmplaceGrow.emplace_n (EmplaceGrow.init_lay size cap v) th pos (size - pos) (cap + 1) src (kind rv))
            (Z.of_nat (size + 1)) (Z.of_nat size)
  (* full vector: old block [0, size), e = size + 1, external argument = size + 2, new block [size + 4, size + 4 + next_cap size) *)
  | KEmplaceGrow size pos src rv th =>
      showE (seq 0 size ++ [src; size + 1] ++ seq (size + 4) (EmplaceGrow.next_cap size))
            (EmplaceGrow.emplace_grow true (EmplaceGrow.init_lay size size v) th size pos (size + 1) src (kind rv) (size + 4))
            (Z.of_nat (size + 1)) (Z.of_nat size)
  | KEmplaceBackGrow size src rv th =>
      showE (seq 0 size ++ [src; size + 1] ++ seq (size + 4) (EmplaceGrow.next_cap size))
            (EmplaceGrow.emplace_back_grow true (EmplaceGrow.init_lay size size v) th size (size + 1) src (kind rv) (size + 4))
            (Z.of_nat (size + 1)) (Z.of_nat size)
  (* coq/ThrowMove.v: moves are throwing-capable events; fx = true: the current code (shift_right has its catch) *)
  | KShiftRight1M size cap pos th => showT cap (ThrowMove.shift_right1 true (initT size cap) th pos (size - pos)) NOSIZE NOSIZE
  | KShiftRightCntM size cap pos count th =>
      showT cap (ThrowMove.shift_right_cnt true (initT size cap) th pos (size - pos) count) NOSIZE NOSIZE
  | KShiftLeftM size cap pos th => showT cap (ThrowMove.shift_left (shifted1T size cap pos) th (pos + 1) (size - pos)) NOSIZE NOSIZE
  | KInsertNM size cap pos th => showT cap (ThrowMove.insert_n true (initT size cap) th pos (size - pos) v) NOSIZE NOSIZE
  | KEmplaceNM size cap pos src rv th =>
      showE (seq 0 cap ++ [src; cap + 1])
            (ThrowMove.emplace_n true (EmplaceGrow.init_lay size cap v) th pos (size - pos) (cap + 1) src (kind rv))
            (Z.of_nat (size + 1)) (Z.of_nat size)
  | KEraseM size cap first last th =>
      (* erase(first, last) calls erase_n only for a non empty range *)
      let n := last - first in
      showT cap (if n =? 0 then Throw.Done (initT size cap) th else ThrowMove.erase_n (initT size cap) th first n (size - last)) NOSIZE NOSIZE
  (* coq/SlotsTR.v: the trivially relocatable overloads; the shifts and erase_n have no throwing-capable event: the oracle is handed back *)
  | KShiftRight1TR size cap pos th => showT cap (ThrowMove.lift (SlotsTR.shift_right1 (initT size cap) pos (size - pos)) th) NOSIZE NOSIZE
  | KShiftRightCntTR size cap pos count th =>
      showT cap (ThrowMove.lift (SlotsTR.shift_right_cnt (initT size cap) pos (size - pos) count) th) NOSIZE NOSIZE
  | KUnshiftRightTR size cap pos count th =>
      showT cap (ThrowMove.lift (SlotsTR.unshift_right (shiftedTR size cap pos count) pos (size - pos) count) th) NOSIZE NOSIZE
  | KShiftLeftTR size cap pos th =>
      showT cap (ThrowMove.lift (SlotsTR.shift_left (shiftedTR size cap pos 1) (pos + 1) (size - pos)) th) NOSIZE NOSIZE
  | KInsertNTR size cap pos th => showT cap (SlotsTR.insert_n (initT size cap) th pos (size - pos) v) NOSIZE NOSIZE
  | KEmplaceNTR size cap pos src rv th =>
      showE (seq 0 cap ++ [src; cap + 1])
            (SlotsTR.emplace_n (EmplaceGrow.init_lay size cap v) th pos (size - pos) (cap + 1) src (kind rv))
            (Z.of_nat (size + 1)) (Z.of_nat size)
  | KEraseTR size cap first last th =>
      (* erase(first, last) calls erase_n only for a non empty range *)
      let n := last - first in
      showT cap (if n =? 0 then Throw.Done (initT size cap) th
                 else ThrowMove.lift (SlotsTR.erase_n (initT size cap) first n (size - last)) th) NOSIZE NOSIZE
  | KInsertCntTR size cap pos count th => showT cap (SlotsTR.insert_cnt_tr (initT size cap) th size pos count v) NOSIZE NOSIZE
  | KInsertRangeTR size cap pos count th => showT cap (SlotsTR.insert_range_tr (initT size cap) th size pos (rangeTR count)) NOSIZE NOSIZE
  (* coq/Transfer.v: swap_deep, move_n and the relocation with noexcept moves have no throwing-capable event: the oracle is handed back *)
  | KSwapDeep tr n1 cap1 n2 cap2 th =>
      showE (idx2 cap1 cap2) (ThrowMove.lift (Transfer.swap_deep tr (Transfer.init2 n1 cap1 n2 cap2) (cap1 + 1) 0 n1 (cap1 + 3) n2) th) NOSIZE NOSIZE
  | KMoveN tr n cap1 dn cap2 th =>
      showE (idx2 cap1 cap2) (ThrowMove.lift (Transfer.move_n tr (Transfer.init2 n cap1 dn cap2) 0 n (cap1 + 3) dn) th) NOSIZE NOSIZE
  | KMoveNMt n cap1 dn cap2 th =>
      showE (idx2 cap1 cap2) (MoveThrow.move_n_mt (Transfer.init2 n cap1 dn cap2) th 0 n (cap1 + 3) dn) NOSIZE NOSIZE
  | KSwapDeepMt n1 cap1 n2 cap2 th =>
      showE (idx2 cap1 cap2) (SwapThrow.swap_deep_mt (Transfer.init2 n1 cap1 n2 cap2) th (cap1 + 1) 0 n1 (cap1 + 3) n2) NOSIZE NOSIZE
  | KReloc tr n cap1 cap2 th =>
      showE (idx2 cap1 cap2) (Transfer.relocate_to_new_buffer tr (Transfer.init2 n cap1 0 cap2) th 0 n (cap1 + 3)) NOSIZE NOSIZE
  | KRelocCopy n cap1 cap2 th => showE (idx2 cap1 cap2) (Transfer.relocate_by_copy (Transfer.init2 n cap1 0 cap2) th 0 n (cap1 + 3)) NOSIZE NOSIZE
  | KRelocMt n cap1 cap2 th => showE (idx2 cap1 cap2) (Transfer.uninit_relocate_n true (Transfer.init2 n cap1 0 cap2) th 0 n (cap1 + 3)) NOSIZE NOSIZE
  (* erase(position) calls erase_at (position, size - pos - 1) *)
  | KEraseAt tr size cap pos th => showT cap (ThrowMove.lift (Transfer.erase_at tr (initT size cap) pos (size - pos - 1)) th) NOSIZE NOSIZE
  | KEraseAtMt size cap pos th => showT cap (Transfer.erase_at_mt (initT size cap) th pos (size - pos - 1)) NOSIZE NOSIZE
  | KInsertOwnTh tr size cap pos src th =>
      showE (idxOwn cap (size + 1))
            (AliasThrow.insert_own tr (AliasThrow.init_own size cap) th size cap pos src (cap + 1) (cap + 2) (cap + 4))
            (Z.of_nat (size + 1)) (Z.of_nat size)
  | KInsertCntOwnTh tr size cap pos count src th =>
      showE (idxOwn cap (size + count))
            (AliasThrow.insert_cnt_own tr (AliasThrow.init_own size cap) th size cap pos count src (cap + 2) (cap + 4))
            (Z.of_nat (size + count)) (Z.of_nat size)
  | KPushBackOwnTh tr size cap src th =>
      showE (idxOwn cap (size + 1)) (AliasThrow.push_back_own tr (AliasThrow.init_own size cap) th size cap src (cap + 4))
            (Z.of_nat (size + 1)) (Z.of_nat size)
  (* within the capacity: no new block is observed; the same model for both flavours (copies, then std::rotate: no relocation) *)
  | KInsertRangeInTh _ size cap pos count th =>
      showE (seq 0 cap ++ [cap + 1; cap + 2]) (AliasThrow.insert_range_in (AliasThrow.init_own size cap) th size pos (rangeTR count))
            (Z.of_nat (size + count)) (Z.of_nat size)
  end.
"""
ERR_NAMES = {1: "ConstructOverLive", 2: "ReadDead", 3: "AssignDead", 4: "DestroyDead", 5: "OutOfBlock"}


class Case:
    __slots__ = ("name", "params", "k", "pre", "post", "threw", "newsize", "errs", "live", "msg", "text", "pre_text", "post_text")

    def base(self):
        return (self.name,) + tuple(self.params[p] for p in CASES[self.name][0])

    def title(self):
        return "%s %s k=%s" % (self.name, " ".join("%s=%d" % (p, self.params[p]) for p in CASES[self.name][0]),
                               "-" if self.k is None else self.k)


def canonical(c_title, post, threw, newsize, errs):
    if not isinstance(post, str):
        post = ",".join(post) if post else "-"
    return "%s | post=%s | threw=%d | newsize=%s | errs=%s" % (c_title, post, threw, newsize, errs)


def segments(text):
    """composite state `a,b/c/...` -> list of token lists (`-` = empty segment)"""
    return [[] if seg == "-" else seg.split(",") for seg in text.split("/")]


def is_alive(tok):
    return tok.startswith("L") or tok.rstrip("!") == "M"


def unmarked(text_or_tokens):
    """the state without the relocation marker `!`"""
    if isinstance(text_or_tokens, str):
        return text_or_tokens.replace("!", "")
    return [t.rstrip("!") for t in text_or_tokens]


def two_buf_shape(c):
    """-> (elements of buffer 1, its capacity, elements of buffer 2, its capacity) before the call"""
    p = c.params
    if c.name.startswith("swap_deep"):
        return p["n1"], p["cap1"], p["n2"], p["cap2"]
    if c.name.startswith("move_n"):
        return p["n"], p["cap1"], p["dn"], p["cap2"]
    return p["n"], p["cap1"], 0, p["cap2"]


def relocation_marks2(c, text, before):
    """The marker `!` in a state of a two-buffer `*_tr` family.  std::swap moves VALUES between objects that stay where they were built
    (no marker); only the objects relocated by a memmove carry it: the tail of the longer range after swap_deep (now in the other
    buffer), every element of the destination after move_n / RelocateToNewBuffer.  -> list of problems"""
    n1, _, n2, _ = two_buf_shape(c)
    segs = segments(text)
    want = [set(), set()]
    if not before:
        if c.name == "swap_deep_tr":
            want = [set(range(n1, n2)), set(range(n2, n1))]
        else:
            want = [set(), set(range(n1))]
    out = []
    if any(t.endswith("!") for t in segs[2]):
        out.append("marker in the temporary segment")
    for b in (0, 1):
        for j, t in enumerate(segs[b]):
            if not is_alive(t):
                if t.endswith("!"):
                    out.append("buffer %d slot %d: marker on a raw slot" % (b + 1, j))
            elif (j in want[b]) != t.endswith("!"):
                out.append("buffer %d slot %d holds %s: %s" % (b + 1, j, t, "a relocated object without the marker" if j in want[b]
                                                               else "marked as relocated, but it was not moved by a memmove"))
    return out


def relocation_marks3(c, text, before):
    """The marker `!` in a state of a whole-vector `*_tr` family (block/e/new block).  Positional rule (the inserted copies carry the value
    of an own element, so the value does not tell where an object was built): before the call no marker; after it an element carries the
    marker iff it was relocated by a memmove and is not back at its own address: every old element once the vector has moved to the new
    block; within the old block the shifted tail of a call that completed; the new element of insert (pos, own element at / after pos),
    built in the temporary `e` and relocated into place; never the copies constructed in place, never after std::rotate (it moves values).
    -> list of problems"""
    p = c.params
    size = p["size"]
    segs = segments(text)
    out = []
    if any(t.endswith("!") for t in segs[1]):
        out.append("marker in the temporary segment")
    grown = bool(segs[2]) and segs[2] != ["X"]
    if any(t.endswith("!") for t in (segs[0] if grown else segs[2])):
        out.append("marker in a block the vector does not use")
    seg = segs[2] if grown else segs[0]
    if c.name == "insert_own_tr":
        pos, count, new_marked = p["pos"], 1, p["src"] >= p["pos"]
    elif c.name == "insert_cnt_own_tr":
        pos, count, new_marked = p["pos"], p["count"], False
    elif c.name == "push_back_own_tr":
        pos, count, new_marked = size, 1, False
    else:                                   # insert_range_in_tr: appended in place, then rotated by value
        pos, count, new_marked = size, 0, False
    for j, t in enumerate(seg):
        if not is_alive(t):
            if t.endswith("!"):
                out.append("slot %d: marker on a raw slot" % j)
            continue
        if before:
            want = False
        elif c.threw or count == 0 or j < pos:
            want = grown
        elif j < pos + count:
            want = new_marked
        else:
            want = True
        if want != t.endswith("!"):
            out.append("slot %d holds %s: %s" % (j, t, "a relocated object without the marker" if want else "marked as relocated, but it is where it was built"))
    return out


def relocation_marks(c, tokens_text, completed):
    """The marker `!` (an object whose bytes were copied without a constructor: `self != this`) in a state of a `*_tr` family.
    Values tell where an object was constructed: 10 + i in slot i of the block; 99 / 100 + i (the inserted copies) in the slot they
    are in; the new element of emplace_n in the temporary `e` when elements had to be shifted (n > 0), in place otherwise; the
    moved-from own element of an rvalue emplace in slot `src`.  An object must carry `!` iff it is not where it was constructed.
    -> list of problems"""
    p = c.params
    size = p["size"]
    out = []
    if c.name in COMPOSITE:
        segs = segments(tokens_text)
        block, arg = segs[0], segs[1]
        own = p["src"] < size
        if own and (len(arg) != 1 or arg[0] != block[p["src"]]):
            out.append("argument segment %s is not slot %d of the block" % (arg, p["src"]))
        if not own and any(t.endswith("!") for t in arg):
            out.append("the external argument is marked as relocated")
        if any(t.endswith("!") for t in segs[2]):
            out.append("marker in the temporary segment")
    else:
        block = tokens_text
    for j, t in enumerate(block):
        if not is_alive(t):
            if t.endswith("!"):
                out.append("slot %d: marker on a raw slot" % j)
            continue
        body = t.rstrip("!")
        if c.name in COMPOSITE and completed and j == p["pos"]:
            want = size - p["pos"] > 0           # the new element: built in `e` and relocated, or built in place at the end
        elif body == "M":
            want = c.name in COMPOSITE and j != p["src"]
        else:
            val = int(body[1:])
            want = FIRST_VALUE <= val < FIRST_VALUE + size and j != val - FIRST_VALUE
        if want != t.endswith("!"):
            out.append("slot %d holds %s: %s" % (j, t, "a relocated object without the marker" if want else "marked as relocated, but it is where it was built"))
    return out


def parse_driver(out):
    """-> (cases in the driver's order, problems)"""
    cases, problems = [], []
    ended = False
    for raw in out.split("\n"):
        raw = raw.rstrip()
        if not raw or raw.startswith("SLOTDRV"):
            continue
        if raw.startswith("END"):
            ended = True
            continue
        m = LINE.match(raw)
        if not m or m.group(1) not in CASES:
            h = HEAD.match(raw)
            problems.append("the call crashed / was aborted by a sanitizer: %s" % raw[:200] if h else "unparsable driver line: %s" % raw[:200])
            continue
        c = Case()
        c.name = m.group(1)
        c.params = dict((kv.split("=")[0], int(kv.split("=")[1])) for kv in m.group(2).split())
        c.k = None if m.group(3) == "-" else int(m.group(3))
        c.pre_text, c.post_text = m.group(4), m.group(5)
        if c.name in COMPOSITE:      # flattened tokens; the segments are taken from the text
            c.pre = [t for seg in segments(c.pre_text) for t in seg]
            c.post = [t for seg in segments(c.post_text) for t in seg]
            if len(segments(c.pre_text)) != COMPOSITE[c.name] or len(segments(c.post_text)) != COMPOSITE[c.name]:
                problems.append("wrong number of segments: %s" % raw[:200])
                continue
        else:
            c.pre = [] if m.group(4) == "-" else m.group(4).split(",")
            c.post = [] if m.group(5) == "-" else m.group(5).split(",")
        c.threw = int(m.group(6))
        c.newsize = m.group(7)
        c.errs = int(m.group(8))
        c.live = int(m.group(9))
        c.msg = m.group(10)
        c.text = raw
        if tuple(sorted(c.params)) != tuple(sorted(CASES[c.name][0])):
            problems.append("unexpected parameters: %s" % raw[:200])
            continue
        cases.append(c)
    if not ended:
        problems.append("the driver did not reach END")
    return cases, problems


# ------------------------------------------------------------------------------------------------------------------
# what the harness itself promises: the sweep and the initial state are recomputed here, independently of the driver
def expected_bases(max_size, max_extra):
    out = set()
    for size in range(max_size + 1):
        for extra in range(max_extra + 1):
            cap = size + extra
            for pos in range(size + 1):
                n = size - pos
                for count in range(extra + 1):
                    out.add(("insert_cnt", size, cap, pos, count))
                    out.add(("insert_cnt_th", size, cap, pos, count))
                    if n > 0 and count > 0:
                        out.add(("shift_right_cnt", size, cap, pos, count))
                        out.add(("fill_after_shift", size, cap, pos, count))
                if n > 0 and extra >= 1:
                    out.add(("shift_right1", size, cap, pos))
                if extra >= 1:
                    for src in range(size):
                        out.add(("insert_own", size, cap, pos, src))
                    out.add(("insert_n_th", size, cap, pos))
                    if n > 0:
                        out.add(("shift_left", size, cap, pos))
                    for src in list(range(size)) + [cap + 2]:
                        for rv in (0, 1):
                            out.add(("emplace_n_th", size, cap, pos, src, rv))
                            out.add(("emplace_n_mt", size, cap, pos, src, rv))
                    out.add(("insert_n_mt", size, cap, pos))
                if n > 0:
                    for count in range(1, extra + 1):
                        out.add(("shift_right_cnt_mt", size, cap, pos, count))
                        out.add(("shift_right_cnt_tr", size, cap, pos, count))
                        out.add(("unshift_right_tr", size, cap, pos, count))
                    if extra >= 1:
                        out.add(("shift_right1_mt", size, cap, pos))
                        out.add(("shift_left_mt", size, cap, pos))
                        out.add(("shift_right1_tr", size, cap, pos))
                        out.add(("shift_left_tr", size, cap, pos))
                for count in range(extra + 1):
                    out.add(("insert_cnt_tr", size, cap, pos, count))
                    out.add(("insert_range_tr", size, cap, pos, count))
                if extra >= 1:
                    out.add(("insert_n_tr", size, cap, pos))
                    for src in list(range(size)) + [cap + 2]:
                        for rv in (0, 1):
                            out.add(("emplace_n_tr", size, cap, pos, src, rv))
            if extra == 0:
                for src in list(range(size)) + [size + 2]:
                    for rv in (0, 1):
                        for pos in range(size + 1):
                            out.add(("emplace_grow_th", size, pos, src, rv))
                        out.add(("emplace_back_grow_th", size, src, rv))
            for sfx in ("_th", "_tr"):
                for src in range(size):
                    for pos in range(size + 1):
                        out.add(("insert_own" + sfx, size, cap, pos, src))
                        for count in range(max_extra + 1):
                            out.add(("insert_cnt_own" + sfx, size, cap, pos, count, src))
                    out.add(("push_back_own" + sfx, size, cap, src))
                for pos in range(size + 1):
                    for count in range(extra + 1):
                        out.add(("insert_range_in" + sfx, size, cap, pos, count))
            for first in range(size + 1):
                for last in range(first, size + 1):
                    out.add(("erase", size, cap, first, last))
                    out.add(("erase_mt", size, cap, first, last))
                    out.add(("erase_tr", size, cap, first, last))
            for pos in range(size):
                out.add(("erase_at", size, cap, pos))
                out.add(("erase_at_tr", size, cap, pos))
                out.add(("erase_at_mt", size, cap, pos))
            for count in range(size, cap + 1):
                out.add(("resize_grow", size, cap, count))
            for count in range(cap + 1):
                out.add(("assign_grow" if size < count else "assign_shrink", size, cap, count))
    # coq/Transfer.v: two buffers, every capacity tight and with one spare slot
    slack = 1 if max_extra >= 1 else 0
    for n1 in range(max_size + 1):
        for n2 in range(max_size + 1):
            for e1 in range(slack + 1):
                for e2 in range(slack + 1):
                    for name in ("swap_deep", "swap_deep_tr", "swap_deep_mt"):
                        out.add((name, n1, max(n1, n2) + e1, n2, max(n1, n2) + e2))
                    for name in ("move_n", "move_n_tr", "move_n_mt"):
                        out.add((name, n1, n1 + e1, n2, max(n1, n2) + e2))
    for n in range(max_size + 1):
        for e1 in range(slack + 1):
            for e2 in range(max_extra + 1):
                for name in ("reloc", "reloc_tr", "reloc_cp", "reloc_mt"):
                    out.add((name, n, n + e1, n + e2))
    return out


def expected_pre(c):
    """-> token list (plain families) or the composite text"""
    p = c.params
    if c.name in TWO_BUF:
        n1, cap1, n2, cap2 = two_buf_shape(c)
        b1 = ["L%d" % (FIRST_VALUE + i) if i < n1 else "R" for i in range(cap1)]
        b2 = ["L%d" % (SECOND_VALUE + i) if i < n2 else "R" for i in range(cap2)]
        return "/".join([",".join(b1) if b1 else "-", ",".join(b2) if b2 else "-", "R"])
    size = p["size"]
    cap = p.get("cap", size)
    prefix = ["L%d" % (FIRST_VALUE + i) if i < size else "R" for i in range(cap)]
    if c.name in VEC3:
        return "/".join([",".join(prefix) if prefix else "-", "R", "-"])
    if c.name in COMPOSITE:
        arg = "L%d" % (FIRST_VALUE + p["src"] if p["src"] < size else NEW_VALUE)
        segs = [",".join(prefix) if prefix else "-", arg, "R"] + (["-"] if COMPOSITE[c.name] == 4 else [])
        return "/".join(segs)
    if c.name in ("shift_left", "shift_left_mt"):      # what shift_right(pos, size - pos) leaves: moved-from slot at pos, the suffix one slot further
        pos = p["pos"]
        return ["L%d" % (FIRST_VALUE + i) if i < pos else "M" if i == pos else "L%d" % (FIRST_VALUE + i - 1) if i <= size else "R"
                for i in range(cap)]
    if c.name in ("unshift_right_tr", "shift_left_tr"):
        # what the trivially relocatable shift_right(pos, size - pos, count) leaves: [pos, pos + count) raw, the tail count slots
        # further; every element of the tail has been relocated: marker `!`
        pos, count = p["pos"], p.get("count", 1)
        return ["L%d" % (FIRST_VALUE + i) if i < pos else "R" if i < pos + count else "L%d!" % (FIRST_VALUE + i - count) if i < size + count
                else "R" for i in range(cap)]
    if c.name != "fill_after_shift":
        return prefix
    pos, count = p["pos"], p["count"]
    n = size - pos
    out = []
    for i in range(cap):
        if i < pos:
            out.append("L%d" % (FIRST_VALUE + i))
        elif i < pos + min(n, count):
            out.append("M")
        elif i < pos + count:
            out.append("R")
        elif i < size + count:
            out.append("L%d" % (FIRST_VALUE + i - count))
        else:
            out.append("R")
    return out


def harness_checks(cases, max_size, max_extra):
    """-> (problems of the harness / sweep, anomalies of the implementation run)"""
    problems, anomalies = [], []
    seen = {}
    for c in cases:
        seen.setdefault(c.base(), []).append(c)
        want_pre = expected_pre(c)
        if (c.pre_text if isinstance(want_pre, str) else c.pre) != want_pre:
            problems.append("%s: initial state %s, expected %s" % (c.title(), c.pre_text, want_pre if isinstance(want_pre, str) else ",".join(want_pre)))
        if c.errs:
            anomalies.append("%s: %d lifetime errors recorded by the ledger (%s)" % (c.title(), c.errs, c.msg))
        elif c.msg:
            problems.append("%s: %s" % (c.title(), c.msg))
        if c.name in TR_FAMILIES:
            for when, text, completed in (("before", c.pre_text if c.name in COMPOSITE else c.pre, False),
                                          ("after", c.post_text if c.name in COMPOSITE else c.post, not c.threw)):
                for q in (relocation_marks2(c, text, when == "before") if c.name in TWO_BUF else
                          relocation_marks3(c, text, when == "before") if c.name in VEC3 else relocation_marks(c, text, completed)):
                    anomalies.append("%s: relocation marker %s the call: %s" % (c.title(), when, q))
        elif any(s.endswith("!") for s in c.post):
            anomalies.append("%s: a non relocatable object was moved bitwise: %s" % (c.title(), ",".join(c.post)))
        if c.name in COMPOSITE:
            # X<n> in the e segment: n live objects outside the block(s) and the external object (a leaked temporary);
            # X elsewhere: an element of a freed block still alive / a block allocated and not released
            if any(t.startswith("X") for t in c.post):
                anomalies.append("%s: leak: %s" % (c.title(), c.post_text))
            segs = segments(c.post_text)
            blocks = segs[0] + (segs[1] if c.name in TWO_BUF else segs[2] if c.name in VEC3 else segs[3] if len(segs) == 4 else [])
            shown = len([t for t in blocks if is_alive(t)]) + sum(int(t[1:] or 1) for t in (segs[1] if c.name in VEC3 else segs[2]) if t.startswith("X"))
            if c.live != shown:
                anomalies.append("%s: %d live objects but %d accounted for in %s" % (c.title(), c.live, shown, c.post_text))
            continue
        shown = len([s for s in c.post if s != "R"])
        if c.live != shown:
            anomalies.append("%s: %d live objects but %d live slots (object alive outside the buffer, or lost)" % (c.title(), c.live, shown))
    want = expected_bases(max_size, max_extra)
    for b in sorted(want - set(seen), key=str)[:5]:
        problems.append("case not run by the driver: %s" % (b,))
    for b in sorted(set(seen) - want, key=str)[:5]:
        problems.append("unexpected case from the driver: %s" % (b,))
    for b, cs in seen.items():
        ks = [c.k for c in cs]
        sweep = CASES[b[0]][1]
        if not sweep:
            if ks != [None]:
                problems.append("%s: throw indices %s for a case without sweep" % (b, ks))
            continue
        # k = -, 0, 1, ..., K: every k < K throws, K completes (as the run without injection does)
        if ks != [None] + list(range(len(ks) - 1)) or len(ks) < 2:
            problems.append("%s: throw indices %s are not -, 0, 1, ..." % (b, ks))
            continue
        if cs[0].threw or cs[-1].threw or any(not c.threw for c in cs[1:-1]):
            problems.append("%s: throw pattern %s is not 0, 1, ..., 1, 0" % (b, [c.threw for c in cs]))
    return problems, anomalies


# ------------------------------------------------------------------------------------------------------------------
def coq_term(c):
    params, sweep, ctor = CASES[c.name][0], CASES[c.name][1], CASES[c.name][2]
    t = ctor + " " + " ".join(str(c.params[p]) for p in params)
    if sweep:
        t += " None" if c.k is None else " (Some %d)" % c.k
    return t


def run_coq(cases):
    """-> (list of Z lists or None, error text, seconds)"""
    os.makedirs(WORK, exist_ok=True)
    src = os.path.join(WORK, "SlotCases.v")
    with open(src, "w") as f:
        f.write(COQ_PRELUDE)
        for i in range(0, len(cases), CHUNK):
            f.write("Definition cases_%d : list case := [\n  " % (i // CHUNK))
            f.write(";\n  ".join(coq_term(c) for c in cases[i:i + CHUNK]))
            f.write("].\nEval vm_compute in (map run cases_%d).\n" % (i // CHUNK))
    t0 = time.time()
    rc, so, se = 1, "", ""
    for attempt in range(2):   # a concurrent rebuild of coq/*.vo can make one attempt read a half written file
        rc, so, se = C.run(["coqc", "-Q", coqbuild.COQ, "Amc", src], timeout=600, cwd=WORK)
        if rc == 0:
            break
        coqbuild.make(VOS)
    secs = time.time() - t0
    if rc != 0:
        return None, (se or so)[-1500:], secs
    results = []
    for block in re.split(r"\n\s*:\s*list\s*\(list Z\)", so):
        if "=" not in block:
            continue
        body = block[block.index("=") + 1:]
        for inner in re.findall(r"\[([^\[\]]*)\]", body):
            results.append([int(x) for x in inner.replace("%Z", "").replace("(", "").replace(")", "").replace("\n", " ").split(";") if x.strip()])
    if len(results) != len(cases):
        return None, "expected %d results from coqc, parsed %d" % (len(cases), len(results)), secs
    return results, "", secs


def slot_text(z):
    return {-1: "R", -2: "M", -3: "Out"}.get(z, "L%d" % z)


def composite_text(c, slots):
    """the model's slots [block or old block..., argument, e, new block...] as the driver's composite text
    (two-buffer families: [buffer 1..., buffer 2..., e])"""
    if c.name in TWO_BUF:
        _, cap1, _, cap2 = two_buf_shape(c)
        toks = [{-3: "O"}.get(z, slot_text(z)) for z in slots]
        return "/".join([",".join(toks[:cap1]) if cap1 else "-", ",".join(toks[cap1:cap1 + cap2]) if cap2 else "-", toks[cap1 + cap2]])
    if c.name in VEC3:
        # [block 0..cap-1, e, t, new block...]: the two temporaries are one segment (R: both raw; X<n>: n of them alive)
        cap = c.params["cap"]
        toks = [{-3: "O"}.get(z, slot_text(z)) for z in slots]
        tmp = toks[cap:cap + 2]
        if all(t == "R" or is_alive(t) for t in tmp):
            alive = len([t for t in tmp if is_alive(t)])
            e = "X%d" % alive if alive else "R"
        else:
            e = "+".join(tmp)
        new = toks[cap + 2:]
        return "/".join([",".join(toks[:cap]) if cap else "-", e, "-" if all(t == "O" for t in new) else ",".join(new)])
    n = c.params["cap"] if c.name in BLOCK_IS_CAP else c.params["size"]
    toks = [{-3: "O"}.get(z, slot_text(z)) for z in slots]
    segs = [",".join(toks[:n]) if n else "-", toks[n], toks[n + 1]]
    if COMPOSITE[c.name] == 4:
        new = toks[n + 2:]
        segs.append("-" if all(t == "O" for t in new) else ",".join(new))     # no new block exists: every slot is Out
    return "/".join(segs)


def model_line(c, zs):
    err, ns, threw, slots = zs[0], zs[1], zs[2], zs[3:]
    if err:
        return "%s | lifetime error %s in the model" % (c.title(), ERR_NAMES.get(err, str(err)))
    post = composite_text(c, slots) if c.name in COMPOSITE else [slot_text(z) for z in slots]
    return canonical(c.title(), post, threw, "-" if ns < 0 else str(ns), "0")


def impl_line(c):
    post = c.post_text if c.name in COMPOSITE else c.post
    if c.name in TR_FAMILIES:       # the marker of a relocated object is checked on its own (relocation_marks), the models do not carry it
        post = unmarked(post)
    return canonical(c.title(), post, c.threw, c.newsize if c.name in HAS_NEWSIZE else "-", str(c.errs))


# ------------------------------------------------------------------------------------------------------------------
def run(tier="quick"):
    t_start = time.time()
    max_size, max_extra = TIERS.get(tier, TIERS["quick"])
    res = {"tier": tier, "cases_compared": 0, "differences": 0, "first_differences": [], "model_functions": [],
           "harness_problems": [], "implementation_anomalies": [], "per_case": {},
           "space": "size 0..%d, capacity size + 0..%d, every position, count 0..%d, every first <= last, every source index, "
                    "every throw index; emplace_n / growing emplace / emplace_back: argument = external object or every own element, as an "
                    "lvalue and as an rvalue; element type El<0> (not trivially relocatable, noexcept moves); families *_mt: shift_right (both "
                    "overloads), shift_left, insert_n, emplace_n, erase_n on El<2> (moves are throwing-capable events), every throw index; "
                    "families *_tr: the trivially relocatable overloads of shift_right (both), unshift_right, shift_left, insert_n, emplace_n, "
                    "erase_n and the bodies of insert(pos, count, v) / insert(pos, first, last) on El<1> (bitwise relocation), every throw index; "
                    "whole-content transfers between two buffers (coq/Transfer.v): swap_deep and move_n for every pair of lengths 0..%d, "
                    "RelocateToNewBuffer of 0..%d elements into a raw buffer, each capacity tight and with spare slots, on El<0> and El<1>; the "
                    "copy variant of RelocateToNewBuffer and amc::uninitialized_relocate_n on El<2>, every throw index; erase_at on El<0>, "
                    "El<1>, El<2>; real member functions of a whole amc::vector (coq/AliasThrow.v), on El<0> and El<1>: insert (pos, own element), "
                    "insert (pos, count, own element) (count 0..%d whatever the capacity), push_back (own element), every capacity from full "
                    "(the call grows) to size + %d, every position and source index, and insert (pos, first, last) with single-pass iterators "
                    "within the capacity, every throw index"
                    % (max_size, max_extra, max_extra, max_size, max_size, max_extra, max_extra)}

    def done():
        res["wall_time_s"] = round(time.time() - t_start, 1)
        res["ok"] = not (res["differences"] or res["harness_problems"] or res["implementation_anomalies"]) and res["cases_compared"] > 0
        return res

    with C.Lock("slotcorr"):
        # the driver, from /repo's working tree
        t0 = time.time()
        d, errors = build.build("slot-san", [("slotdrv", "slotdrv.cpp", [])], None, build.SAN)
        res["driver_build_s"] = round(time.time() - t0, 1)
        if errors:
            res["harness_problems"].append("slotdrv.cpp does not build:\n" + errors["slotdrv"][-3000:])
            return done()
        env = dict(os.environ)
        env["ASAN_OPTIONS"] = "detect_leaks=0:abort_on_error=0"
        t0 = time.time()
        rc, so, se = C.run([os.path.join(d, "slotdrv"), str(max_size), str(max_extra)], timeout=600, env=env)
        res["driver_run_s"] = round(time.time() - t0, 1)
        cases, problems = parse_driver(so)
        if rc != 0:
            problems.append("driver exit code %d: %s" % (rc, se[-1500:]))
        p2, anomalies = harness_checks(cases, max_size, max_extra)
        res["harness_problems"] = (problems + p2)[:20]
        res["implementation_anomalies"] = anomalies[:20]
        res["implementation_anomaly_count"] = len(anomalies)

        # the models, inside Coq (under the lock of the proof sessions: another check may be regenerating coq/Gen and rebuilding)
        with C.Lock("coq-session"):
            built, log, _ = coqbuild.make(VOS)
            missing = [t for t in VOS if not built.get(t)]
            if missing:   # once more: the project file may have been rewritten by a check that started before this one
                built, log, _ = coqbuild.make(VOS)
                missing = [t for t in VOS if not built.get(t)]
            zs, err, secs = (None, "", 0.0) if missing else run_coq(cases)
        if missing:
            res["harness_problems"].append("not built: %s\n%s" % (missing, log[-1500:]))
            return done()
        res["coq_eval_s"] = round(secs, 1)
        if zs is None:
            res["harness_problems"].append("the models could not be evaluated by coqc: " + err)
            return done()

    used = set()
    for c, z in zip(cases, zs):
        pc = res["per_case"].setdefault(c.name, {"model": CASES[c.name][3], "compared": 0, "differences": 0})
        pc["compared"] += 1
        res["cases_compared"] += 1
        used.add(CASES[c.name][3])
        used.update(CASES[c.name][4])
        il, ml = impl_line(c), model_line(c, z)
        if il != ml:
            pc["differences"] += 1
            res["differences"] += 1
            if len(res["first_differences"]) < MAX_REPORTED and pc["differences"] <= 3:
                res["first_differences"].append({"case": c.title(), "model_definition": CASES[c.name][3], "implementation": il, "model": ml,
                                                 "driver_line": c.text})
    res["model_functions"] = sorted(used)
    return done()


def main(argv):
    tier = argv[1] if len(argv) > 1 else "quick"
    r = run(tier)
    if "--json" in argv:
        print(json.dumps(r, indent=1))
        return 0 if r["ok"] else 1
    print("slot correspondence (%s): %d cases compared, %d differences, %.1f s" % (r["tier"], r["cases_compared"], r["differences"], r["wall_time_s"]))
    print("  space: " + r["space"])
    for name in sorted(r["per_case"]):
        pc = r["per_case"][name]
        print("  %-20s vs %-29s %5d compared %4d differences" % (name, pc["model"], pc["compared"], pc["differences"]))
    print("  model definitions exercised (%d): %s" % (len(r["model_functions"]), ", ".join(r["model_functions"])))
    for dd in r["first_differences"]:
        print("  DIFFERENCE %s  [%s]\n    implementation: %s\n    model:          %s" % (dd["case"], dd["model_definition"], dd["implementation"], dd["model"]))
    if r["differences"] > len(r["first_differences"]):
        print("  (+ %d more differences)" % (r["differences"] - len(r["first_differences"])))
    for p in r["harness_problems"]:
        print("  HARNESS PROBLEM " + p)
    for a in r["implementation_anomalies"]:
        print("  IMPLEMENTATION ANOMALY " + a)
    return 0 if r["ok"] else 1


if __name__ == "__main__":
    sys.exit(main(sys.argv))
