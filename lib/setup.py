"""./setup : builds everything the checks need from files on disk only (offline): regenerated Coq definitions, the full
.vo build of the development, the extracted model runner, the C++ drivers against /repo's current headers."""
import os
import sys

from . import build, coqbuild
from . import common as C


def main():
    os.makedirs(C.CACHE, exist_ok=True)
    os.makedirs(C.REPLAYS, exist_ok=True)
    summ = coqbuild.regenerate()
    if summ.get("errors"):
        print("translator problems:", summ["errors"])
    try:   # Gen/Footprint.v (C20) has its own extractor
        from . import c20
        fs = c20.regenerate_footprint()
        if fs.get("errors"):
            print("footprint extractor problems:", fs["errors"])
    except ImportError:
        pass
    built, log, secs = coqbuild.make()
    bad = [t for t, ok in built.items() if not ok]
    print("coq: %d targets built in %.0fs, %d failed" % (len(built) - len(bad), secs, len(bad)))
    if bad:
        print(log[-3000:])
    fb = coqbuild.forbidden_scan()
    if fb:
        print("forbidden vernacular found:", fb)
    rc = 0
    try:
        from . import extract
        ok, msg = extract.build_runner()
        print("model runner:", "ok" if ok else msg[-2000:])
        if not ok:
            rc = 1
    except ImportError:
        pass
    d, errs = build.build_vecdrv(san=True)
    print("vector drivers:", d, "errors:", list(errs))
    for name in ("build_setdrv", "build_all_extra"):
        fn = getattr(build, name, None)
        if fn:
            d, errs = fn()
            print(name, d, "errors:", list(errs))
    return 1 if (bad or fb or rc) else 0


if __name__ == "__main__":
    sys.exit(main())
