"""Registry: property id -> check function(report, tier)."""
from . import common as C
from . import vecprops, vecrun
from .vecgen import Cfg


def _vector_prop(prop):
    def fn(report, tier):
        vecprops.check_vector_property(prop, report, tier)
        if prop in ("C02", "C06"):
            # the same ledgers on the sets (instrumented elements / ledger allocators of the set driver)
            from . import setprops
            vec_cov = dict(report.coverage)
            cov = setprops.run_oracles(prop, tier, report)
            report.coverage = vec_cov
            report.coverage["sets"] = {k: cov[k] for k in ("evaluations", "histories", "distinct_nontrivial", "configurations", "oracle_violations_total")}
            report.coverage["evaluations"] += cov["evaluations"]
            report.coverage["distinct_nontrivial"] += cov["distinct_nontrivial"]
    return fn


REGISTRY = {}
for _p in ("C01", "C02", "C05", "C06", "C07", "C08", "C10"):
    REGISTRY[_p] = _vector_prop(_p)


def _set_prop(prop):
    def fn(report, tier):
        from . import setprops
        from . import setcorr
        setprops.check_set_property(prop, report, tier, corr=setcorr.run, extra_files=(["HintTV.v"] if prop in ("C12", "C19", "C03") else []))
    return fn


for _p in ("C03", "C04", "C11", "C12", "C19"):
    REGISTRY[_p] = _set_prop(_p)


def _lazy(mod):
    def fn(report, tier):
        import importlib
        importlib.import_module("lib." + mod).check(report, tier)
    return fn


for _p, _m in (("C18", "c18"), ("C17", "c17"), ("C20", "c20"), ("C15", "c15")):
    REGISTRY[_p] = _lazy(_m)


MODS = {"C18": "c18", "C17": "c17", "C20": "c20", "C15": "c15"}


def replay(prop, payload):
    """Re-run a replay file against the current tree: exit 1 + VIOLATION if it still fails."""
    import importlib
    if prop in MODS:
        try:
            m = importlib.import_module("lib." + MODS[prop])
        except ImportError:
            m = None
        if m is not None and hasattr(m, "replay"):
            return m.replay(payload)
        if m is not None and prop == "C17" and "row" in payload:
            r = payload["row"]
            return m.replay_row(r["kind"], r["s"], r["a"], r["N"], r["st"], payload.get("std", "c++17")) or 0
    if "script" in payload and "config" in payload and payload["config"] in __import__("lib.setgen", fromlist=["CONFIGS"]).CONFIGS:
        from . import setprops
        return setprops.replay(prop, payload)
    if "script" in payload and "config" in payload and payload["config"] in __import__("lib.vecgen", fromlist=["CONFIGS"]).CONFIGS:
        res = vecrun.run_scripts([(payload["config"], ["H replay"] + payload["script"])])
        for name, hs, err, berr in res:
            if berr:
                print(berr[-2000:])
                print("VIOLATION property=%s replay=%s no-failing-input-found" % (prop, "(driver does not build)"))
                return 1
            for h in hs:
                for s in h.steps:
                    print("  %s -> %s | %s" % (s.op, s.res, " | ".join(s.conts)))
                fs = [f for f in h.failures() if f[1] in vecprops.OWNED.get(prop, {prop})]
                if fs:
                    for f in fs[:5]:
                        print("  FAIL step=%s %s: %s" % f)
                    print("VIOLATION property=%s replay=%s" % (prop, "(replayed)"))
                    return 1
        print("replay passes on the current tree")
        return 0
    print("replay file names no re-runnable script (broken obligation: %s)" % payload.get("broken"))
    return 0
