"""Registry: property id -> check function(report, tier)."""
from . import common as C
from . import vecprops, vecrun
from .vecgen import Cfg


def _slot_correspondence(prop, report, tier, cases=None):
    """Slot-level models (Slots.v / Erase.v / Alias.v / Throw.v) against the real element-moving helpers (lib/slotcorr.py).
    cases: names of the case families that belong to the property (None = all)."""
    from . import slotcorr
    try:
        r = slotcorr.run(tier)
    except Exception as e:   # build failure of the driver, Coq evaluation failure ...
        report.violation({"broken": ["slot correspondence: " + str(e)[-800:]], "no_failing_input_found": True},
                         "slot-level correspondence could not run: " + str(e)[-300:], True)
        return
    per = {k: v for k, v in r.get("per_case", {}).items() if cases is None or k in cases}
    ndiff = sum(v.get("differences", 0) for v in per.values()) if per else r.get("differences", 0)
    report.coverage["slot_correspondence"] = {"cases_compared": sum(v.get("compared", 0) for v in per.values()) if per else r.get("cases_compared"),
                                              "differences": ndiff, "families": sorted(per), "space": r.get("space"),
                                              "model_functions": r.get("model_functions", [])[:40]}
    for a in r.get("implementation_anomalies", [])[:3]:
        report.violation({"case": str(a)[:600], "found_by": "slot driver", "no_failing_input_found": False},
                         "slot driver: the real helper misbehaves: %s" % str(a)[:400])
    for h in r.get("harness_problems", [])[:2]:
        report.violation({"broken": ["slot correspondence harness: " + str(h)[:400]], "no_failing_input_found": True},
                         "slot correspondence harness problem: %s" % str(h)[:300], True)
    shown = 0
    for d in r.get("first_differences", []):
        name = str(d.get("case", d))
        if cases is not None and not any(name.startswith(c + " ") or name == c for c in cases):
            continue
        if shown >= 3:
            break
        shown += 1
        report.violation({"case": name, "implementation": d.get("impl", d.get("implementation")), "model": d.get("model"),
                          "broken": ["corr:%s:slot-level" % prop], "found_by": "slot correspondence", "no_failing_input_found": True},
                         "slot-level correspondence: model and implementation disagree on %s\n  impl : %s\n  model: %s"
                         % (name, d.get("impl", d.get("implementation")), d.get("model")), True)


SLOT_FAMILIES = {
    "C02": ("insert_cnt", "shift_right_cnt", "shift_right1", "fill_after_shift", "erase", "insert_own",
            "shift_right1_tr", "shift_right_cnt_tr", "unshift_right_tr", "shift_left_tr", "erase_tr",
            "swap_deep", "swap_deep_tr", "move_n", "move_n_tr", "reloc", "reloc_tr", "erase_at", "erase_at_tr"),
    "C09": ("insert_cnt_th", "resize_grow", "assign_grow", "assign_shrink", "emplace_n_th", "emplace_grow_th", "emplace_back_grow_th", "insert_n_th", "shift_left",
            "shift_right1_mt", "shift_right_cnt_mt", "shift_left_mt", "insert_n_mt", "emplace_n_mt", "erase_mt",
            "insert_n_tr", "emplace_n_tr", "insert_cnt_tr", "insert_range_tr", "unshift_right_tr", "reloc_cp", "reloc_mt", "erase_at_mt", "swap_deep_mt", "move_n_mt",
            "insert_range_in_th", "insert_range_in_tr", "insert_own_th", "insert_cnt_own_th", "push_back_own_th"),
    "C10": ("insert_own", "insert_own_th", "insert_own_tr", "insert_cnt_own_th", "insert_cnt_own_tr", "push_back_own_th", "push_back_own_tr"),
}


def _vector_prop(prop):
    def fn(report, tier):
        vecprops.check_vector_property(prop, report, tier)
        if prop in SLOT_FAMILIES:
            _slot_correspondence(prop, report, tier, SLOT_FAMILIES[prop])
        if prop in ("C02", "C06", "C05"):
            # the same ledgers on the sets (instrumented elements / ledger allocators of the set driver)
            from . import setprops
            vec_cov = dict(report.coverage)
            n0 = len(report.violations)
            cov = setprops.run_oracles(prop, tier, report)
            if prop == "C05":
                # inline/large state, size and contents of every SmallSet after every step against the extracted set model
                from . import setcorr
                sjobs = [(j, r) for j, r in zip(report._last_jobs, report._last_results) if j[0].startswith("SS")]
                diffs, cnt = setcorr.run(prop, report, [j for j, _ in sjobs], [r for _, r in sjobs])
                cov["set_correspondence"] = cnt
                if diffs and len(report.violations) == n0:
                    d = diffs[0]
                    report.violation({"config": d["config"], "script": d["script"], "broken": ["corr:C05:%s" % d["field"]], "model": d["model"], "observed": d["impl"],
                                      "found_by": "correspondence", "no_failing_input_found": True},
                                     "correspondence %s: model and implementation disagree on %s (model %s, implementation %s)\n  script: %s"
                                     % (d["config"], d["field"], d["model"], d["impl"], " ; ".join(d["script"][-8:])), True)
            report.coverage = vec_cov
            if "set_correspondence" in cov:
                report.coverage["sets_correspondence"] = cov["set_correspondence"]
            report.coverage["sets"] = {k: cov[k] for k in ("evaluations", "histories", "distinct_nontrivial", "configurations", "oracle_violations_total")}
            report.coverage["evaluations"] += cov["evaluations"]
            report.coverage["distinct_nontrivial"] += cov["distinct_nontrivial"]
    return fn


REGISTRY = {}
for _p in ("C01", "C02", "C05", "C06", "C07", "C08", "C10"):
    REGISTRY[_p] = _vector_prop(_p)


def _set_prop(prop):
    def fn(report, tier):
        from . import setprops
        from . import setcorr
        setprops.check_set_property(prop, report, tier, corr=setcorr.run, extra_files=(["HintTV.v"] if prop in ("C12", "C19", "C03") else []))
    return fn


for _p in ("C03", "C04", "C11", "C12", "C19"):
    REGISTRY[_p] = _set_prop(_p)


def _c09(report, tier):
    from . import coqbuild
    ok, broken = coqbuild.check_property("C09", report)
    _slot_correspondence("C09", report, tier, SLOT_FAMILIES["C09"])
    from . import overlaycorr
    overlaycorr.run(report)
    n0 = len(report.violations)
    cov = vecprops.run_faults(tier, report)
    report.coverage.update(cov)
    # sets: random histories with injected throws (element copies, allocations), judged by the set driver's ledgers
    from . import setprops, setgen, setrun
    from .setgen import SCfg
    jobs = [(n, setgen.random_script(SCfg(n), C.seed() + 9, 600 if tier == "thorough" else 80, 40, inject_prob=0.25)) for n in setgen.CONFIGS]
    # and systematically: every constructing / copying / allocating set operation x k-th throwing event, then uses of the sets
    jobs += [(n, setgen.throw_grid(SCfg(n), 9 if tier == "thorough" else 6, tier == "thorough")) for n in setgen.CONFIGS]
    res = setrun.run_scripts(jobs)
    nset = 0
    ngrid = 0
    seen_classes = set()
    set_known = C.load_known()
    for (name, lines), (cn, hs, err, berr) in zip(jobs, res):
        if berr:
            continue
        scr = setrun.split_histories(lines)
        for h in hs:
            nset += len(h.steps)
            ngrid += 1 if h.hid.startswith("tg") else 0
            fs = [f for f in h.failures() if f[1] in ("C09", "C02", "C06", "CRASH", "C03", "C04", "C11")]
            thrown = [s.op.split(" ")[1] for s in h.steps if s.res.startswith("threw") and s.op.startswith("!")]
            threw_before = any(s.res.startswith("threw") for s in h.steps)
            if fs and threw_before:
                i, p, msg = fs[0]
                cls = (name, thrown[0] if thrown else "?", msg.split("[")[0][:60])
                if cls in seen_classes:
                    continue
                seen_classes.add(cls)
                opl = [s.op for s in h.steps if s.res.startswith("threw") and s.op.startswith("!")]
                at = h.steps[i].op if (i is not None and i < len(h.steps)) else (opl[0] if opl else "")
                km = vecprops.known_match(set_known, "C09", SCfg(name), at, msg)
                if km is not None:
                    report.known_finding("%s: %s" % (km["site"], km["failure"]))
                    continue
                hl = scr.get(h.hid, [])
                report.violation({"config": name, "script": hl[: (i + 1 if i is not None else len(hl))], "oracle": p, "observed": msg,
                                  "throwing_operation": thrown[0] if thrown else None,
                                  "found_by": "set fault injection", "no_failing_input_found": False},
                                 "%s: after an injected exception: %s\n  script: %s" % (name, msg, " ; ".join(hl[: (i + 1 if i is not None else len(hl))][-8:])))
    report.coverage["set_steps_with_injection"] = nset
    report.coverage["set_fault_grid_histories"] = ngrid
    report.coverage["evaluations"] += nset
    found = len(report.violations) > n0
    if broken and not found:
        report.violation({"broken": broken, "no_failing_input_found": True}, "proof obligations of C09 no longer check: " + "; ".join(broken)[:1200], True)
    report.coverage["trusted_base"] = coqbuild.TRUSTED_BASE
    report.level = "proof"


REGISTRY["C09"] = _c09


def _lazy(mod):
    def fn(report, tier):
        import importlib
        importlib.import_module("lib." + mod).check(report, tier)
    return fn


for _p, _m in (("C18", "c18"), ("C17", "c17"), ("C20", "c20"), ("C15", "c15"), ("C14", "c14"), ("C16", "c16"), ("C13", "c13")):
    REGISTRY[_p] = _lazy(_m)


MODS = {"C18": "c18", "C17": "c17", "C20": "c20", "C15": "c15", "C13": "c13", "C16": "c16"}


def replay(prop, payload):
    """Re-run a replay file against the current tree: exit 1 + VIOLATION if it still fails."""
    import importlib
    if prop in MODS:
        try:
            m = importlib.import_module("lib." + MODS[prop])
        except ImportError:
            m = None
        if m is not None and hasattr(m, "replay"):
            return m.replay(payload)
        if m is not None and prop == "C17" and "row" in payload:
            r = payload["row"]
            return m.replay_row(r["kind"], r["s"], r["a"], r["N"], r["st"], payload.get("std", "c++17")) or 0
    if "script" in payload and "config" in payload and payload["config"] in __import__("lib.setgen", fromlist=["CONFIGS"]).CONFIGS:
        from . import setprops
        return setprops.replay(prop, payload)
    if "script" in payload and "config" in payload and payload["config"] in __import__("lib.vecgen", fromlist=["CONFIGS"]).CONFIGS:
        res = vecrun.run_scripts([(payload["config"], ["H replay"] + payload["script"])])
        for name, hs, err, berr in res:
            if berr:
                print(berr[-2000:])
                print("VIOLATION property=%s replay=%s no-failing-input-found" % (prop, "(driver does not build)"))
                return 1
            for h in hs:
                for s in h.steps:
                    print("  %s -> %s | %s" % (s.op, s.res, " | ".join(s.conts)))
                fs = [f for f in h.failures() if f[1] in vecprops.OWNED.get(prop, {prop}) or f[1] == "CRASH"]
                if fs:
                    for f in fs[:5]:
                        print("  FAIL step=%s %s: %s" % f)
                    print("VIOLATION property=%s replay=%s" % (prop, "(replayed)"))
                    return 1
        print("replay passes on the current tree")
        return 0
    print("replay file names no re-runnable script (broken obligation: %s)" % payload.get("broken"))
    return 0
