"""Builds the C++ drivers from /repo's current working tree, cached by content hash under /verif/.cache."""
import os
import shutil
import time
from concurrent.futures import ThreadPoolExecutor

from . import common as C

HARNESS = os.path.join(C.VERIF, "harness", "cpp")
SAN = ["-O1", "-g", "-fsanitize=address,undefined", "-fno-sanitize-recover=all", "-fno-omit-frame-pointer"]
PLAIN = ["-O1"]


def _prune(keep_dir, root):
    """Drop stale cache entries (older trees) so the cache does not grow without bound."""
    try:
        entries = [os.path.join(root, d) for d in os.listdir(root)]
    except OSError:
        return
    entries = [e for e in entries if os.path.isdir(e) and e != keep_dir]
    entries.sort(key=lambda p: os.path.getmtime(p))
    for e in entries[:-3]:
        shutil.rmtree(e, ignore_errors=True)


def build(kind, sources, outputs, flags, std="c++17", compiler="g++", include_repo=True):
    """Compile a set of driver binaries.

    sources: list of (output name, source file, extra flags).  Returns (dir, errors) where errors maps the output
    name to the compiler output for the units that failed to build.
    """
    key = C.sha_of_files(C.repo_headers() + [os.path.join(HARNESS, f) for f in os.listdir(HARNESS)],
                         extra=" ".join(flags) + std + compiler + kind)
    root = os.path.join(C.CACHE, "cpp-" + kind)
    d = os.path.join(root, key)
    errors = {}
    with C.Lock("build-" + kind):
        os.makedirs(d, exist_ok=True)
        os.utime(d, None)
        todo = [s for s in sources if not os.path.exists(os.path.join(d, s[0])) and not os.path.exists(os.path.join(d, s[0] + ".err"))]

        def one(s):
            name, src, extra = s
            out = os.path.join(d, name)
            cmd = [compiler, "-std=" + std] + flags + (["-I" + os.path.join(C.REPO, "include")] if include_repo else []) + \
                  ["-I" + HARNESS] + extra + [os.path.join(HARNESS, src), "-o", out + ".tmp"]
            rc, so, se = C.run(cmd, timeout=900)
            if rc != 0:
                with open(out + ".err", "w") as f:
                    f.write(" ".join(cmd) + "\n" + so + se)
            else:
                os.replace(out + ".tmp", out)
            return name

        if todo:
            with ThreadPoolExecutor(max_workers=C.NCPU) as ex:
                list(ex.map(one, todo))
        for s in sources:
            e = os.path.join(d, s[0] + ".err")
            if os.path.exists(e):
                with open(e) as f:
                    errors[s[0]] = f.read()
        _prune(d, root)
    return d, errors


VEC_GROUPS = 8


def build_vecdrv(san=True):
    srcs = [("vecdrv_%d" % g, "vecdrv.cpp", ["-DGROUP=%d" % g]) for g in range(VEC_GROUPS)]
    return build("vec-" + ("san" if san else "plain"), srcs, None, SAN if san else PLAIN)
