"""Correspondence between the extracted Coq vector model (coq/VecModel.v) and the implementation (harness/cpp/vecdrv.cpp
built from /repo's working tree): both run the same scripts, the per-step observables are compared field by field."""
from concurrent.futures import ThreadPoolExecutor

from . import common as C
from . import extract, vecrun
from .vecgen import Cfg

FIELDS = ["size", "capacity", "store", "_capa", "_size", "vals"]
# which fields are observables of the property itself, which are state observables the proofs rest on
PROPERTY_FIELDS = {"size", "vals", "res"}


def norm_res(r):
    return "skip" if r.startswith("skip") else r


def compare_history(msteps, csteps):
    """Returns list of (step index, field, model value, impl value); stops at the first step that differs or is unmodelled."""
    diffs = []
    n = min(len(msteps), len(csteps))
    compared = 0
    for i in range(n):
        m, s = msteps[i], csteps[i]
        if m.get("unmodelled"):
            break
        compared += 1
        if norm_res(m["res"]) != norm_res(s.res):
            diffs.append((i, "res", m["res"], s.res))
        for k in range(3):
            mc, cc = m["conts"][k], s.conts[k] if k < len(s.conts) else "?"
            if mc != cc:
                mf, cf = mc.split(";"), cc.split(";")
                if len(mf) == len(cf) == 6:
                    for name, a, b in zip(FIELDS, mf, cf):
                        if a != b:
                            diffs.append((i, "%s[%d]" % (name, k), a, b))
                else:
                    diffs.append((i, "cont[%d]" % k, mc, cc))
        if m["al"] != s.al:
            diffs.append((i, "alloc", m["al"], s.al))
        if diffs:
            break
    return diffs, compared


def run(jobs, cxx_results=None):
    """jobs: list of (config name, script lines).  Returns list of dict(config, hid, diffs, script) for the histories that
    differ, plus counters."""
    ok, exe = extract.build_runner("vecrun")
    if not ok:
        raise RuntimeError(exe)
    if cxx_results is None:
        cxx_results = vecrun.run_scripts(jobs)

    def model(job):
        name, lines = job
        return extract.run_vec_model(Cfg(name), lines, exe=exe)

    with ThreadPoolExecutor(max_workers=C.NCPU) as ex:
        models = list(ex.map(model, jobs))
    out = []
    steps = 0
    hists = 0
    for (name, lines), mh, (cname, hs, err, berr) in zip(jobs, models, cxx_results):
        if berr:
            out.append({"config": name, "hid": None, "diffs": [(0, "build", "", berr[-500:])], "script": []})
            continue
        scripts = vecrun.split_histories(lines)
        for h in hs:
            if h.crash:
                continue  # judged by the oracles
            ms = mh.get(h.hid, [])
            diffs, n = compare_history(ms, h.steps)
            steps += n
            hists += 1
            if diffs:
                out.append({"config": name, "hid": h.hid, "diffs": diffs, "script": scripts.get(h.hid, [])[: diffs[0][0] + 1]})
    return out, {"steps_compared": steps, "histories_compared": hists}
