"""Extracted model runners: Coq `Extraction` (coq/Extract.v) -> OCaml sources -> native executables, cached by content."""
import os
import shutil
import tempfile

from . import common as C
from . import coqbuild

OCAML = os.path.join(C.VERIF, "harness", "ocaml")
GEN = os.path.join(OCAML, "gen")
RUNNERS = {"vecrun": ["vecmodel"], "setrun": ["setmodel"], "swap2mrun": ["swap2model"]}


def build_runner(name="vecrun"):
    """Returns (ok, path or message)."""
    built, log, _ = coqbuild.make(["Extract.vo"])
    if not built.get("Extract.vo"):
        return False, "coq/Extract.v does not build:\n" + log[-3000:]
    mods = RUNNERS[name]
    srcs = []
    for m in mods:
        srcs += [os.path.join(GEN, m + ".mli"), os.path.join(GEN, m + ".ml")]
    srcs.append(os.path.join(OCAML, name + ".ml"))
    for s in srcs:
        if not os.path.exists(s):
            return False, "missing " + s
    key = C.sha_of_files(srcs)
    d = os.path.join(C.CACHE, "ocaml-" + name, key)
    exe = os.path.join(d, name)
    with C.Lock("ocaml-" + name):
        if not os.path.exists(exe):
            os.makedirs(d, exist_ok=True)
            for s in srcs:
                shutil.copy(s, d)
            rc, so, se = C.run(["ocamlfind", "ocamlopt", "-w", "-a"] + [os.path.basename(s) for s in srcs] + ["-o", name], cwd=d, timeout=300)
            if rc != 0:
                return False, "ocaml build failed:\n" + (so + se)[-3000:]
        root = os.path.dirname(d)
        for e in os.listdir(root):
            if e != key:
                shutil.rmtree(os.path.join(root, e), ignore_errors=True)
    return True, exe


def run_vec_model(cfg, lines, exe=None):
    """cfg: vecgen.Cfg.  Returns dict hid -> list of step dicts {res, conts, al} (or {'unmodelled': True})."""
    if exe is None:
        ok, exe = build_runner("vecrun")
        if not ok:
            raise RuntimeError(exe)
    signed = "1" if cfg.M in (127, 2**15 - 1, 2**31 - 1, 2**63 - 1) else "0"
    with tempfile.NamedTemporaryFile("w", suffix=".mscript", dir=C.CACHE, delete=False) as f:
        f.write("\n".join(lines) + "\n")
        path = f.name
    try:
        rc, out, err = C.run([exe, cfg.flavour, str(cfg.N), str(cfg.M), signed, cfg.cat, cfg.alloc, path], timeout=900)
    finally:
        os.unlink(path)
    if rc != 0:
        raise RuntimeError("model runner failed: " + err[-2000:])
    hists = {}
    for line in out.split("\n"):
        if not line.startswith("M "):
            continue
        parts = line.split(" | ")
        head = parts[0].split(" ")
        hid = head[1]
        st = {"step": int(head[2])}
        if len(parts) >= 2 and parts[1] == "unmodelled":
            st["unmodelled"] = True
        else:
            st["res"] = parts[1]
            st["conts"] = parts[2:5]
            st["al"] = parts[5][3:]
        hists.setdefault(hid, []).append(st)
    return hists
