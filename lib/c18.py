"""C18 - growth is geometric.  Proof: coq/Growth.v + Properties_C18.v (+ translation validation of SafeNextCapacity);
oracle: reallocation count and capacity sequence of the implementation for every n; correspondence with the model."""
import math

from . import common as C
from . import coqbuild, veccorr, vecrun, vecgen
from .vecgen import Cfg


APPEND_ONE = ("push_back", "emplace_back", "push_back_rv", "resize", "insert", "append_n", "resize_v", "emplace", "insert_n", "append_nv",
              "insert_rv", "append_range", "insert_range")


ONE_NAMES = ("resize", "insert", "append_n", "resize_v", "emplace", "insert_n", "append_nv", "insert_rv", "append_range", "insert_range_fwd",
             "insert_range_inp")


def scripts(cfg, nmax):
    lines = []
    # (a) from empty, (b) after reserve(k), (c) after growing and shrink_to_fit, (d) inline SmallVector partly filled
    starts = {"empty": ["ctor_default 0"],
              "reserved": ["ctor_default 0", "reserve 0 %d" % min(7, cfg.M)],
              "shrunk": ["ctor_range 0 fwd 1,2,3,4,5,6,7,8,9", "erase_range 0 2 9", "shrink 0"],
              "partly": ["ctor_range 0 fwd 1,2"]}
    for name, pre in starts.items():
        if name == "partly" and cfg.N < 2:
            continue
        lines.append("H push.%s" % name)
        lines += pre
        n = min(nmax, cfg.M - 12)
        for i in range(n):
            lines.append("%s 0 v%d" % (("push_back", "emplace_back", "push_back_rv")[i % 3], i % 50))
        # the same, one element at a time through every other growing entry point (resize, insert / emplace at the end,
        # append(1), insert(end, 1, v), one-element ranges): "has to grow without a prior reserve" is not only push_back
        sz0 = {"empty": 0, "reserved": 0, "shrunk": 2, "partly": 2}[name]

        def one(k, sz, v):
            return ("resize 0 %d" % (sz + 1), "insert 0 %d %s" % (sz, v), "append_n 0 1", "resize_v 0 %d %s" % (sz + 1, v),
                    "emplace 0 %d %s" % (sz, v), "insert_n 0 %d 1 %s" % (sz, v), "append_nv 0 1 %s" % v, "insert_rv 0 %d %s" % (sz, v),
                    "append_range 0 fwd 7", "insert_range 0 %d fwd 7" % sz, "insert_range 0 %d inp 7" % sz)[k]
        lines.append("H one.mixed.%s" % name)
        lines += pre
        for i in range(min(nmax // 2, cfg.M - 12)):
            lines.append(one(i % 11, sz0 + i, "v%d" % (i % 50)))
        if name in ("empty", "shrunk"):     # and each entry point on its own
            for k in range(11):
                lines.append("H one.%s.%s" % (ONE_NAMES[k], name))
                lines += pre
                for i in range(min(nmax // 4, cfg.M - 12)):
                    lines.append(one(k, sz0 + i, "v%d" % (i % 50)))
        # reserve / shrink_to_fit facts on the way
        lines.append("H reserve.%s" % name)
        lines += pre
        for k in (0, 1, cfg.N, cfg.N + 1, 9, 10, 33, min(100, cfg.M)):
            lines.append("reserve 0 %d" % k)
            lines.append("push_back 0 v1")
            lines.append("shrink 0")
    return lines


def check(report, tier):
    ok, broken = coqbuild.check_property("C18", report, extra_files=coqbuild.TV_FILES)
    nmax = 3000 if tier == "thorough" else 700
    names = [n for n in vecgen.CONFIGS if Cfg(n).flavour != "fcv"]
    jobs = [(n, scripts(Cfg(n), nmax)) for n in names]
    results = vecrun.run_scripts(jobs)
    evals = 0
    distinct = set()
    samples = []
    found = False
    worst = (0, 0)
    for (name, lines), (cn, hs, err, berr) in zip(jobs, results):
        cfg = Cfg(name)
        if berr:
            report.violation({"config": name, "broken": ["driver build"], "compiler_output": berr[-3000:], "no_failing_input_found": True},
                             "driver does not build for %s" % name, True)
            found = True
            continue
        scr = vecrun.split_histories(lines)
        for h in hs:
            if h.crash:
                report.violation({"config": name, "script": scr.get(h.hid, [])[:60], "observed": "crash " + str(h.crash), "no_failing_input_found": False},
                                 "%s: crash in history %s" % (name, h.hid))
                found = True
                continue
            if h.hid.startswith(("push.", "one.")):
                reallocs = 0
                moved = 0
                n = 0
                size0 = None
                for s in h.steps:
                    op = s.op.split(" ")[0]
                    if op not in APPEND_ONE:
                        continue
                    c0 = s.conts[0].split(";")
                    size = int(c0[0])
                    if size0 is None:
                        size0 = size - 1
                    n = size - size0
                    evs = [e for e in s.al.split(",") if e and e != "-"]
                    grew = [e for e in evs if e[0] in "+~"]
                    if grew:
                        reallocs += 1
                        moved += size - 1
                    evals += 1
                    bound = 2 * math.ceil(math.log2(n)) + 4 if n > 1 else 4
                    distinct.add((name, h.hid, reallocs))
                    if reallocs > bound:
                        report.violation({"config": name, "script": scr[h.hid][:len(scr[h.hid]) - 0][:12] + ["... %d appends in total" % n],
                                          "expected": "at most 2*ceil(log2 n)+4 = %d reallocations for n = %d appended elements" % (bound, n),
                                          "observed": "%d reallocations" % reallocs, "found_by": "growth-sweep", "no_failing_input_found": False},
                                         "%s %s: %d reallocations after appending %d elements (bound %d)" % (name, h.hid, reallocs, n, bound))
                        found = True
                        break
                    if moved > 3 * (size) + 3 * (size0 + 1) + 3:
                        report.violation({"config": name, "script": scr[h.hid][:12] + ["... %d appends in total" % n],
                                          "expected": "O(n) element relocations (<= 3*size+O(1))", "observed": "%d relocations for size %d" % (moved, size),
                                          "found_by": "growth-sweep", "no_failing_input_found": False},
                                         "%s %s: %d relocations for %d elements" % (name, h.hid, moved, size))
                        found = True
                        break
                    if reallocs > worst[0]:
                        worst = (reallocs, n)
                if len(samples) < 3:
                    samples.append({"config": name, "history": h.hid, "appended": n, "reallocations": reallocs, "relocated_elements": moved})
            else:
                prev_cap = None
                for s in h.steps:
                    op = s.op.split(" ")
                    c0 = s.conts[0].split(";")
                    if len(c0) < 3:
                        continue
                    size, cap = int(c0[0]), int(c0[1])
                    evals += 1
                    evs = [e for e in s.al.split(",") if e and e != "-"]
                    if op[0] == "reserve" and s.res == "ok":
                        k = int(op[2])
                        nalloc = len([e for e in evs if e[0] in "+~"])
                        distinct.add((name, "reserve", k > (prev_cap or 0)))
                        if cap < k or nalloc > 1:
                            report.violation({"config": name, "script": scr[h.hid][:scr[h.hid].index(s.op) + 1] if s.op in scr[h.hid] else scr[h.hid][:20],
                                              "expected": "capacity >= %d with a single allocation" % k, "observed": "capacity %d, %d allocations" % (cap, nalloc),
                                              "no_failing_input_found": False}, "%s: reserve(%d) -> capacity %d with %d allocations" % (name, k, cap, nalloc))
                            found = True
                    if op[0] == "shrink":
                        want = cfg.N if (cfg.flavour == "sv" and size <= cfg.N) else size
                        distinct.add((name, "shrink", size <= cfg.N))
                        if cap != want and not (cfg.flavour == "sv" and c0[2] == "inl" and cap == cfg.N):
                            report.violation({"config": name, "script": scr[h.hid][:30], "expected": "capacity %d after shrink_to_fit" % want,
                                              "observed": "capacity %d" % cap, "no_failing_input_found": False},
                                             "%s: shrink_to_fit leaves capacity %d (size %d)" % (name, cap, size))
                            found = True
                    prev_cap = cap
    # correspondence: capacity sequence and allocator events equal the model's (which uses Words.safe_next)
    diffs, cnt = veccorr.run(jobs, results)
    rel = [d for d in diffs if {f.split("[")[0] for (_, f, _, _) in d["diffs"]} & {"capacity", "alloc", "_capa", "_size", "store", "build"}]
    if rel and not found:
        d = rel[0]
        i, f, mv, cv = d["diffs"][0]
        report.violation({"config": d["config"], "script": d["script"][-25:], "broken": ["corr:C18:%s" % f], "model": mv, "observed": cv,
                          "no_failing_input_found": True},
                         "correspondence %s: model and implementation disagree on %s (model %s, implementation %s)" % (d["config"], f, mv, cv), True)
    if broken and not found and not rel:
        report.violation({"broken": broken, "no_failing_input_found": True}, "proof obligations of C18 no longer check: " + "; ".join(broken)[:1200], True)
    report.coverage.update({
        "evaluations": evals, "distinct_nontrivial": len(distinct),
        "rule": "every prefix length n of %d successive appends (push_back / emplace_back / push_back(T&&) alternating) and of %d one-element appends "
                "through the other growing entry points (resize, resize(n, v), insert / emplace / insert(T&&) at end(), append(1), append(1, v), "
                "insert(end(), 1, v), one-element forward / input ranges; mixed and each on its own, %d appends) from 4 starting states x %d dynamic configurations; reserve/shrink_to_fit sequences; distinct = (configuration, history, number of reallocations so far) resp. (configuration, op, class)" % (nmax, nmax // 2, nmax // 4, len(names)),
        "samples": samples, "worst_case_reallocations": {"reallocations": worst[0], "n": worst[1]},
        "traces_validated_against_impl": cnt["histories_compared"], "correspondence_steps_compared": cnt["steps_compared"],
        "correspondence_differences": len(rel), "trusted_base": coqbuild.TRUSTED_BASE, "exhaustive": False,
    })
