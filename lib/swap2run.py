"""swap2 between vectors of different types (property C13): case generation, driver build, parallel run, parsing.

Driver: harness/cpp/swap2drv.cpp (8 translation units, -DGROUP=k = index of the type of the first operand).
Case line: `case <NTR|TR> <A> <modeA> <sizeA> <B> <modeB> <sizeB>`; one case per history, see the header of the driver for
the transcript.  Usage from the command line:  python3 -m lib.swap2run [quick|thorough] [--json FILE] [--budget N]
"""
import hashlib
import json
import os
import re
import sys
import tempfile
import time
from concurrent.futures import ThreadPoolExecutor

from . import build
from . import common as C

ASAN_ENV = {"ASAN_OPTIONS": "exitcode=77:detect_leaks=0:abort_on_error=0:allocator_may_return_null=1",
            "UBSAN_OPTIONS": "exitcode=77:print_stacktrace=0"}

U32 = 2 ** 32 - 1
# name, inline capacity N, maximum size (N for a FixedCapacityVector, size_type max otherwise), flavour
TYPES = [
    ("Vu32", 0, U32, "vec"),
    ("Vu8", 0, 255, "vec"),
    ("S3u32", 3, U32, "sv"),
    ("S5u8", 5, 255, "sv"),
    ("S2s8", 2, 127, "sv"),
    ("S3alt", 3, U32, "sv"),
    ("F4", 4, 4, "fcv"),
    ("F7", 7, 7, "fcv"),
]
TYPE_NAMES = [t[0] for t in TYPES]
TINFO = {t[0]: {"idx": i, "N": t[1], "limit": t[2], "flavour": t[3]} for i, t in enumerate(TYPES)}
NARROW = ("Vu8", "S5u8", "S2s8")          # dynamic vectors with an 8-bit size type
MODES = ("fresh", "grown", "shrunk", "reserved", "cleared", "adopted")
ELEMS = ("NTR", "TR")
LIMIT_SIZES = (120, 127, 128, 200, 250, 255)
GROUPS = len(TYPES)


def legal(tname, mode, size):
    """Mirror of Builder::make in the driver: can an operand of this type be put in state (mode, size)?"""
    t = TINFO[tname]
    n, lim, fcv = t["N"], t["limit"], t["flavour"] == "fcv"
    if size < 0 or size > lim:
        return False
    if mode in ("fresh", "grown"):
        return True
    if mode == "shrunk":
        return (min(size + 4, n) if fcv else max(size + 4, n + 2)) <= lim
    if mode == "reserved":
        return size + 3 <= lim
    if mode == "cleared":
        return (n if fcv else n + 3) <= lim
    if mode == "adopted":
        return t["flavour"] == "sv" and size > 0
    return False


def states(tname, sizes, modes=MODES):
    return [(m, s) for m in modes for s in sizes if legal(tname, m, s)]


def key_sizes(tname):
    n = TINFO[tname]["N"]
    return sorted(s for s in {0, 1, n - 1, n, n + 1} if s >= 0)


def case_line(el, a, sa, b, sb):
    return "case %s %s %s %d %s %s %d" % (el, a, sa[0], sa[1], b, sb[0], sb[1])


def limit_cases():
    """Sizes around the maximum of the 8-bit size types: on the wider operand against a small 8-bit operand, on the 8-bit
    operand itself where legal, and both operands large."""
    out = []
    for a in TYPE_NAMES:
        for b in TYPE_NAMES:
            if a not in NARROW and b not in NARROW:
                continue
            for el in ELEMS:
                for big, small, big_first in ((a, b, True), (b, a, False)):
                    n_small = TINFO[small]["N"]
                    small_states = []
                    for st in (("fresh", 1), ("shrunk", 1), ("cleared", 0), ("fresh", n_small + 1), ("reserved", 2)):
                        if legal(small, *st) and st not in small_states:
                            small_states.append(st)
                    for size in LIMIT_SIZES:
                        for mode in ("fresh", "grown"):
                            if not legal(big, mode, size):
                                continue
                            for st in small_states:
                                out.append(case_line(el, a, (mode, size), b, st) if big_first else case_line(el, a, st, b, (mode, size)))
                for s1 in (127, 128, 255):
                    for s2 in (127, 128, 255):
                        if legal(a, "fresh", s1) and legal(b, "fresh", s2):
                            out.append(case_line(el, a, ("fresh", s1), b, ("fresh", s2)))
                            out.append(case_line(el, a, ("grown", s1), b, ("reserved", s2 - 3)) if legal(b, "reserved", s2 - 3) else
                                       case_line(el, a, ("grown", s1), b, ("grown", s2)))
    return out


def _dedupe(lines):
    seen = set()
    out = []
    for l in lines:
        if l not in seen:
            seen.add(l)
            out.append(l)
    return out


def same_state_as_fresh(tname, mode, size):
    """(mode, size) that yields, by construction, exactly the state of ('fresh', size): no heap buffer was ever involved.
    - a FixedCapacityVector has no other state than its size: 'grown', 'shrunk', 'reserved' equal 'fresh' ('cleared' is kept
      as the one alternative construction path);
    - 'grown' up to max(N, 1) elements never left the inline storage (or, for amc::vector, made the same single request)."""
    t = TINFO[tname]
    if t["flavour"] == "fcv":
        return mode in ("grown", "shrunk", "reserved")
    return mode == "grown" and size <= max(t["N"], 1)


def key_states(tname):
    return [st for st in states(tname, key_sizes(tname)) if not same_state_as_fresh(tname, *st)]


def always_cases():
    """Every mode pair for the sizes {0, 1, N-1, N, N+1} of each operand's own N, every ordered pair, both element types
    (without the (mode, size) that are the same state as 'fresh', see same_state_as_fresh)."""
    out = []
    for el in ELEMS:
        for a in TYPE_NAMES:
            sts_a = key_states(a)
            for b in TYPE_NAMES:
                for sa in sts_a:
                    for sb in key_states(b):
                        out.append(case_line(el, a, sa, b, sb))
    return out


def extra_cases(max_size=None, cap=6):
    """Every mode pair for sizes 0..(max N of the pair)+2 capped (quick), or 0..max_size (thorough), minus nothing: the
    caller removes what it already has."""
    out = []
    for el in ELEMS:
        for a in TYPE_NAMES:
            for b in TYPE_NAMES:
                top = max_size if max_size is not None else min(max(TINFO[a]["N"], TINFO[b]["N"]) + 2, cap)
                sizes = range(0, top + 1)
                sts_b = states(b, sizes)
                for sa in states(a, sizes):
                    for sb in sts_b:
                        out.append(case_line(el, a, sa, b, sb))
    return out


def CASES(tier="quick", budget=39900, seed=None):
    """Generator of case lines.

    quick   : the always-kept set (every mode pair x key sizes {0,1,N-1,N,N+1} of each operand, 64 ordered pairs, NTR and
              TR; the (mode, size) that are provably the same state as 'fresh' are not repeated there - without that the
              set alone has 55k cases), the limit sizes of the 8-bit size types (6.6k), then a deterministic sample of the
              remaining (mode, size) pairs with sizes 0..min(max N + 2, 6) filling the budget (at least `floor` of them).
    thorough: every mode pair x sizes 0..9 on both operands, plus the limit sizes.
    """
    if seed is None:
        seed = C.seed()
    if tier == "thorough":
        for l in _dedupe(extra_cases(max_size=9) + limit_cases()):
            yield l
        return
    keep = _dedupe(always_cases() + limit_cases())
    have = set(keep)
    rest = [l for l in _dedupe(extra_cases()) if l not in have]
    floor = 1000
    room = max(budget - len(keep), floor)
    if len(rest) > room:
        rest.sort(key=lambda l: hashlib.md5(("%d:%s" % (seed, l)).encode()).hexdigest())
        rest = rest[:room]
        rest.sort()
    for l in keep:
        yield l
    for l in rest:
        yield l


# ---------------------------------------------------------------------------------------------
def build_swap2drv(san=True):
    """Returns (directory, errors, seconds).  8 binaries swap2drv_<k>, built in parallel, cached by content hash."""
    srcs = [("swap2drv_%d" % g, "swap2drv.cpp", ["-DGROUP=%d" % g]) for g in range(GROUPS)]
    t0 = time.time()
    d, errors = build.build("swap2-" + ("san" if san else "plain"), srcs, None, build.SAN if san else build.PLAIN, std="c++17")
    return d, errors, time.time() - t0


def parse_vals(s):
    """'-' | '?' | '100,101,200..203' -> list of ints (None for '?')."""
    if s == "?":
        return None
    if s in ("-", ""):
        return []
    out = []
    for tok in s.split(","):
        if ".." in tok:
            lo, hi = tok.split("..")
            out.extend(range(int(lo), int(hi) + 1))
        else:
            out.append(int(tok))
    return out


def _parse_obs(s, with_vals):
    if s == "-":
        return None
    p = s.split(",", 5 if with_vals else 4)
    o = {"_capa": int(p[0]), "_size": int(p[1]), "store": p[2], "capacity": int(p[3]), "size": int(p[4])}
    if with_vals:
        o["vals"] = parse_vals(p[5]) if len(p) > 5 else []
    return o


def parse_case(line):
    tk = line.split()
    return {"T": tk[1], "A": tk[2], "modeA": tk[3], "sizeA": int(tk[4]), "B": tk[5], "modeB": tk[6], "sizeB": int(tk[7])}


def parse_x(line):
    parts = line.split(" | ")
    if len(parts) < 3 or not parts[0].startswith("X "):
        return None
    r = {"hid": parts[0][2:], "case": parts[1]}
    kv = {}
    for p in parts[2:]:
        k, _, v = p.partition("=")
        kv[k] = v
    if "res" not in kv or ("after" not in kv and not kv["res"].startswith("skip:")):
        return None  # truncated by a crash
    r.update(parse_case(parts[1]))
    r["res"] = kv["res"]
    r["preA"] = _parse_obs(kv.get("preA", "-"), False)
    r["preB"] = _parse_obs(kv.get("preB", "-"), False)
    r["postA"] = _parse_obs(kv.get("postA", "-"), True)
    r["postB"] = _parse_obs(kv.get("postB", "-"), True)
    r["al"] = kv.get("al", "-")
    r["after"] = kv.get("after", "-")
    return r


def _split_stderr(err):
    """stderr of a driver run -> dict hid -> text printed while that history was running."""
    out = {}
    cur = None
    buf = []
    for line in err.split("\n"):
        if line.startswith("@@ "):
            if cur is not None and buf:
                out[cur] = "\n".join(buf)
            cur = line[3:].strip()
            buf = []
        elif line.strip():
            buf.append(line)
    if cur is not None and buf:
        out[cur] = "\n".join(buf)
    return out


def run_cases(case_lines, chunk=500, san=True, timeout=900):
    """Runs the cases (16 driver processes at a time).  Returns one dict per case, in the order given:
    the fields of the X line (see parse_x), 'oracle' = list of oracle failure messages, 'crash' = None or
    'signalN' / 'exitN', 'stderr' = sanitizer report of a crashed case (tail).  For a crashed case res is
    'crash-in-swap2' (pre words known) or 'crash-after:<res>' (the call returned; post words known, no values)."""
    case_lines = list(case_lines)
    bdir, errors, _ = build_swap2drv(san=san)
    if errors:
        raise RuntimeError("swap2drv does not build:\n" + "\n".join("%s:\n%s" % (k, v[-3000:]) for k, v in sorted(errors.items())))
    env = dict(os.environ)
    env.update(ASAN_ENV)
    by_group = {}
    for i, l in enumerate(case_lines):
        tk = l.split()
        by_group.setdefault(TINFO[tk[2]]["idx"], []).append(i)
    jobs = []
    for g in sorted(by_group):
        idx = by_group[g]
        for k in range(0, len(idx), chunk):
            jobs.append((g, idx[k:k + chunk]))
    # longest first is irrelevant here (chunks are alike); interleave the groups so that the pool mixes binaries
    jobs.sort(key=lambda j: (j[1][0] % 97, j[0]))
    results = [None] * len(case_lines)

    def one(job):
        g, idx = job
        with tempfile.NamedTemporaryFile("w", suffix=".s2script", dir=C.CACHE, delete=False) as f:
            for i in idx:
                f.write("H c%d\n%s\n" % (i, case_lines[i]))
            path = f.name
        try:
            rc, out, err = C.run([os.path.join(bdir, "swap2drv_%d" % g), path], timeout=timeout, env=env)
        finally:
            os.unlink(path)
        errs = _split_stderr(err)
        pres = {}
        posts = {}
        for line in out.split("\n"):
            if line.startswith("X "):
                r = parse_x(line)
                if r is None:
                    continue
                r["oracle"] = []
                r["crash"] = None
                r["stderr"] = ""
                i = int(r["hid"][1:])
                results[i] = r
            elif line.startswith("P "):
                pp = line.split(" | ")
                if len(pp) == 3 and pp[1].startswith("preA=") and pp[2].startswith("preB="):
                    try:
                        pres[pp[0][2:]] = (_parse_obs(pp[1][5:], False), _parse_obs(pp[2][5:], False))
                    except (ValueError, IndexError):
                        pass
            elif line.startswith("Q "):
                pp = line.split(" | ")
                if len(pp) == 4 and pp[1].startswith("res=") and pp[2].startswith("postA=") and pp[3].startswith("postB="):
                    try:
                        posts[pp[0][2:]] = (pp[1][4:], _parse_obs(pp[2][6:], False), _parse_obs(pp[3][6:], False))
                    except (ValueError, IndexError):
                        pass
            elif line.startswith("ORACLE "):
                tk = line.split(" ", 3)
                i = int(tk[1][1:])
                if results[i] is not None and len(tk) > 3:
                    results[i]["oracle"].append(tk[3])
            elif line.startswith("CRASH "):
                toks = dict(t.split("=", 1) for t in line.split(" ")[1:] if "=" in t)
                hid = toks.get("hist", "")
                if hid.startswith("c"):
                    i = int(hid[1:])
                    r = results[i]
                    if r is None:
                        r = {"hid": hid, "case": case_lines[i], "res": "crash", "preA": None, "preB": None, "postA": None,
                             "postB": None, "al": "-", "after": "-", "oracle": []}
                        r.update(parse_case(case_lines[i]))
                        results[i] = r
                        if hid in pres:
                            r["preA"], r["preB"] = pres[hid]
                        if hid in posts:  # swap2 returned: the crash is in the reading of the elements or in the later use
                            r["res"] = "crash-after:" + posts[hid][0]
                            r["postA"], r["postB"] = posts[hid][1], posts[hid][2]
                        elif hid in pres:
                            r["res"] = "crash-in-swap2"
                    r["crash"] = toks.get("status", "?")
                    r["stderr"] = errs.get(hid, "")[-2500:]
        for i in idx:
            if results[i] is None:  # driver timeout or lost output
                r = {"hid": "c%d" % i, "case": case_lines[i], "res": "lost", "preA": None, "preB": None, "postA": None, "postB": None,
                     "al": "-", "after": "-", "oracle": [], "crash": "timeout" if rc == 124 else "lost(rc=%s)" % rc, "stderr": err[-1500:]}
                r.update(parse_case(case_lines[i]))
                results[i] = r
        return len(idx)

    with ThreadPoolExecutor(max_workers=C.NCPU) as ex:
        list(ex.map(one, jobs))
    return results


def oracle_class(msg):
    """'C13:<class>; detail' -> '<class>'."""
    body = msg.split(":", 1)[1] if ":" in msg else msg
    return body.split(";", 1)[0].strip()


def crash_class(r):
    """Class of a crash: the kind of sanitizer report, without addresses and locations."""
    err = r.get("stderr") or ""
    for line in err.split("\n"):
        if "runtime error:" in line:
            return "CRASH UBSan " + re.sub(r"0x[0-9a-f]+", "0x..", line.split("runtime error:", 1)[1].strip())[:70]
        if "ERROR: AddressSanitizer:" in line:
            return "CRASH ASan " + line.split("ERROR: AddressSanitizer:", 1)[1].split()[0]
        if "terminate called" in line:
            return "CRASH " + line.strip()[:90]
    return "CRASH " + str(r.get("crash"))


def crash_where(r):
    """First frames of a sanitizer report that are in the library or the driver."""
    out = []
    for line in (r.get("stderr") or "").split("\n"):
        line = line.strip()
        if line.startswith("#") and ("/amc/" in line or "swap2drv.cpp" in line):
            out.append(line.split(" in ", 1)[-1][-160:])
        if len(out) >= 3:
            break
    return " <- ".join(out)


def summarize(results):
    """-> dict: counts per result, per failure class (with one minimal case and the type pairs concerned), crashes."""
    by_res = {}
    classes = {}
    failing = 0

    def weight(r):
        return (r["sizeA"] + r["sizeB"], max(r["sizeA"], r["sizeB"]), r["case"])

    for r in results:
        by_res[r["res"]] = by_res.get(r["res"], 0) + 1
        cls = []
        for m in r["oracle"]:
            cls.append((oracle_class(m), m))
        if r.get("crash"):
            cls.append((crash_class(r), crash_where(r) or (r.get("stderr") or "").strip().split("\n")[0][:300]))
        if cls:
            failing += 1
        seen = set()
        for c, m in cls:
            e = classes.setdefault(c, {"count": 0, "pairs": {}, "example": None, "_w": None})
            if c not in seen:
                e["count"] += 1
                pk = "%s x %s" % (r["A"], r["B"])
                e["pairs"][pk] = e["pairs"].get(pk, 0) + 1
                seen.add(c)
            w = weight(r)
            if e["_w"] is None or w < e["_w"]:
                e["_w"] = w
                e["example"] = {"case": r["case"], "message": m, "res": r["res"], "preA": r["preA"], "preB": r["preB"],
                                "postA": r["postA"], "postB": r["postB"], "al": r["al"], "after": r["after"]}
    for e in classes.values():
        del e["_w"]
    return {"cases": len(results), "by_res": by_res, "failing_cases": failing, "classes": classes}


def _fmt_obs(o):
    if o is None:
        return "-"
    s = "%d,%d,%s,%d,%d" % (o["_capa"], o["_size"], o["store"], o["capacity"], o["size"])
    if "vals" in o:
        v = o["vals"]
        s += "," + ("?" if v is None else ("-" if not v else (",".join(map(str, v)) if len(v) <= 8 else "%d..(%d values)..%d" % (v[0], len(v), v[-1]))))
    return s


def format_summary(s, max_pairs=12):
    lines = ["cases=%d failing=%d results=%s" % (s["cases"], s["failing_cases"], json.dumps(s["by_res"], sort_keys=True))]
    for c in sorted(s["classes"], key=lambda c: -s["classes"][c]["count"]):
        e = s["classes"][c]
        ex = e["example"]
        pairs = sorted(e["pairs"].items(), key=lambda kv: -kv[1])
        lines.append("  [%d] %s" % (e["count"], c))
        lines.append("      pairs(%d): %s%s" % (len(pairs), ", ".join("%s:%d" % kv for kv in pairs[:max_pairs]), " ..." if len(pairs) > max_pairs else ""))
        lines.append("      minimal: %s  res=%s" % (ex["case"], ex["res"]))
        lines.append("               preA=%s preB=%s postA=%s postB=%s al=%s after=%s" % (
            _fmt_obs(ex["preA"]), _fmt_obs(ex["preB"]), _fmt_obs(ex["postA"]), _fmt_obs(ex["postB"]), ex["al"], ex["after"]))
        lines.append("               %s" % ex["message"])
    return "\n".join(lines)


def main(argv):
    tier = "quick"
    out_json = None
    budget = 39900
    i = 0
    while i < len(argv):
        if argv[i] == "--json":
            out_json = argv[i + 1]
            i += 2
        elif argv[i] == "--budget":
            budget = int(argv[i + 1])
            i += 2
        else:
            tier = argv[i]
            i += 1
    _, errors, tb = build_swap2drv()
    print("build: %.1fs%s (AMC_REPO=%s)" % (tb, " ERRORS " + ",".join(sorted(errors)) if errors else "", C.REPO))
    cases = list(CASES(tier, budget=budget))
    t0 = time.time()
    res = run_cases(cases)
    tr = time.time() - t0
    s = summarize(res)
    print("tier=%s cases=%d run=%.1fs on %d workers" % (tier, len(cases), tr, C.NCPU))
    print(format_summary(s))
    if out_json:
        with open(out_json, "w") as f:
            json.dump({"summary": s, "failing": [r for r in res if r["oracle"] or r.get("crash")]}, f, indent=1, sort_keys=True)
    return 0


if __name__ == "__main__":
    sys.exit(main(sys.argv[1:]))
