"""Builds the set driver (harness/cpp/setdrv.cpp) and runs set scripts through it in parallel; parses the transcripts.

Transcript line (see the head of setdrv.cpp):
  T <hid> <step> | <script line> | <res> | <set0> | <set1> | <set2> | cmp=<n> | al=<...> | ev=<7 deltas> te=<n>
"""
import os
import tempfile
from concurrent.futures import ThreadPoolExecutor

from . import build
from . import common as C
from .setgen import GROUPS, SCfg
from .vecrun import ASAN_ENV, Hist, split_histories  # noqa: F401  (same history container as the vector runner)


def build_setdrv():
    """Compile the six translation units of the set driver (sanitized, C++17).  Returns (dir, errors by unit name)."""
    srcs = [("setdrv_%d" % g, "setdrv.cpp", ["-DGROUP=%d" % g]) for g in range(GROUPS)]
    return build.build("set-san", srcs, None, build.SAN, std="c++17")


_intern = __import__("sys").intern


class Step:
    __slots__ = ("hid", "step", "op", "res", "conts", "cmp", "al", "ev", "te", "oracle")

    def __init__(self):
        self.oracle = []


def parse_transcript(text):
    hists = {}
    order = []
    for line in text.split("\n"):
        if not line:
            continue
        if line.startswith("B "):
            cur = Hist(line[2:])
            cur.hintmax = -1
            hists[cur.hid] = cur
            order.append(cur.hid)
        elif line.startswith("T "):
            parts = line.split(" | ")
            head = parts[0].split(" ")
            if len(parts) != 9 or len(head) < 3 or not head[2].isdigit() or not parts[-1].startswith("ev=") or " te=" not in parts[-1]:
                continue  # truncated by a crash
            s = Step()
            s.hid, s.step = _intern(head[1]), int(head[2])
            # (interned: the enumerations repeat the same operations, states and event strings millions of times)
            s.op, s.res = _intern(parts[1]), _intern(parts[2])
            s.conts = [_intern(x) for x in parts[3:6]]
            try:
                s.cmp = int(parts[6][4:])
                evte = parts[-1].split(" ")
                s.te = int(evte[1][3:])
            except (ValueError, IndexError):
                continue
            s.al = _intern(parts[7][3:])
            s.ev = _intern(evte[0][3:])
            if s.hid in hists:
                hists[s.hid].steps.append(s)
        elif line.startswith("ORACLE "):
            f = line.split(" ", 3)
            if len(f) < 4:
                continue
            _, hid, step, msg = f
            h = hists.get(hid)
            if h is None:
                continue
            if step == "end":
                h.end_oracle.append(msg)
            elif h.steps:
                h.steps[-1].oracle.append(msg)
        elif line.startswith("M "):
            f = line.split(" ")
            h = hists.get(f[1]) if len(f) > 2 else None
            if h is not None and f[2].startswith("hintmax="):
                try:
                    h.hintmax = int(f[2][8:])
                except ValueError:
                    pass
        elif line.startswith("CRASH "):
            toks = dict(t.split("=", 1) for t in line.split(" ")[1:] if "=" in t)
            h = hists.get(toks.get("hist"))
            if h is not None:
                h.crash = toks.get("status", "?")
    return [hists[h] for h in order]


def _chunks(lines, chunk):
    """Split script lines into pieces of at most `chunk` histories."""
    pieces, cur, n = [], [], 0
    for l in lines:
        if l.startswith("H "):
            if n == chunk:
                pieces.append(cur)
                cur, n = [], 0
            n += 1
        cur.append(l)
    if cur:
        pieces.append(cur)
    return pieces


def run_scripts(jobs, timeout=900, chunk=None):
    """jobs: list of (config name, script lines).  Returns list of (config name, [Hist], stderr tail, build error or None),
    one entry per job in the same order.  With chunk=n the histories of a job are run n at a time in parallel processes."""
    bdir, errors = build_setdrv()
    env = dict(os.environ)
    env.update(ASAN_ENV)

    def one(piece):
        name, lines = piece
        cfg = SCfg(name)
        exe = "setdrv_%d" % cfg.group
        if exe in errors:
            return ([], "", errors[exe])
        with tempfile.NamedTemporaryFile("w", suffix=".script", dir=C.CACHE, delete=False) as f:
            f.write("\n".join(lines) + "\n")
            path = f.name
        try:
            rc, out, err = C.run([os.path.join(bdir, exe), name, path], timeout=timeout, env=env)
        finally:
            os.unlink(path)
        hs = parse_transcript(out)
        if rc == 124:
            err += "\nDRIVER TIMEOUT"
        elif rc != 0:
            err += "\nDRIVER EXIT CODE %d" % rc
        return (hs, err[-3000:], None)

    pieces = []
    for j, (name, lines) in enumerate(jobs):
        for p in (_chunks(lines, chunk) if chunk else [lines]):
            pieces.append((j, (name, p)))
    with ThreadPoolExecutor(max_workers=C.NCPU) as ex:
        results = list(ex.map(lambda p: one(p[1]), pieces))
    out = []
    for j, (name, _) in enumerate(jobs):
        hs, errs, berr = [], [], None
        for (pj, _), (h, e, b) in zip(pieces, results):
            if pj != j:
                continue
            hs.extend(h)
            if e.strip():
                errs.append(e)
            berr = berr or b
        out.append((name, hs, "\n".join(errs)[-3000:], berr))
    return out


def summarize(results):
    """Counts for a quick look: (histories, steps, failures list of (config, hid, step index, property, message, script line))."""
    nh = ns = 0
    fails = []
    for name, hs, err, berr in results:
        if berr:
            fails.append((name, None, None, "BUILD", berr[-400:], None))
            continue
        for h in hs:
            nh += 1
            ns += len(h.steps)
            for i, prop, msg in h.failures():
                line = h.steps[i].op if i is not None and i < len(h.steps) else None
                fails.append((name, h.hid, i, prop, msg, line))
    return nh, ns, fails
