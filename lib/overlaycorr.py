"""Correspondence for coq/Overlay.v (the inline slots of a SmallVector overlay its heap pointer): the real
amc::SmallVector<vf::El<2>, 3> (element moves and copies are throwing-capable events) does shrink_to_fit() back to its inline storage and
swap() between a heap vector and an inline one under every throw index (harness/cpp/overlay_probe.cpp, ASan/UBSan); the model's
reset_to_small / swap_dyn_small are evaluated by coqc (vm_compute) on the same cases; threw, inline-or-heap state, size and the element
sequence (moved-from elements included) of every vector afterwards must be equal, the heap block must be the same one after a throw,
nothing may leak and the vectors must still accept a push_back."""
import os
import re

from . import build, coqbuild
from . import common as C

WORK = os.path.join(C.CACHE, "overlaycorr")
MOVED = -7

PRELUDE = """From Coq Require Import ZArith List Bool Arith.
From Amc Require Import Throw Transfer Overlay.
Import ListNotations.
Definition zs (s : slot) : Z := match s with Live v => v | Moved => (-7)%Z | Raw => (-900)%Z | Out => (-901)%Z end.
Definition th_of (k : Z) : option nat := if (k <? 0)%Z then None else Some (Z.to_nat k).
Definition view (m : mem) (o : obj) : list Z :=
  let b := if small o then Some (bi o) else ptr o in
  [Z.b2z (small o); Z.of_nat (size o); match ptr o with Some p => Z.of_nat p | None => (-1)%Z end]
  ++ match b with Some b => map (fun k => zs (m (b + k))) (seq 0 (size o)) | None => [(-902)%Z] end.
(* shrink_to_fit: inline [0, 3) raw; heap block [6, 11) of capacity 5 holding n elements 10, 11, ... *)
Definition mem_shrink (n : nat) : mem := fun i =>
  if i <? 3 then Raw else if i <? 6 then Out else if i <? 6 + n then Live (Z.of_nat (10 + (i - 6))) else if i <? 11 then Raw else Out.
Definition o_shrink (n : nat) : obj := {| small := false; size := n; cap := 5; ptr := Some 6; bi := 0 |}.
Definition run_shrink (n : nat) (k : Z) : list Z :=
  match reset_to_small true 3 1 true (mem_shrink n) (th_of k) (o_shrink n) with
  | RDone m o _ => 0%Z :: view m o
  | RThrew m o => 1%Z :: view m o
  | RErr _ => [(-999)%Z] end.
(* swap: a inline [0, 3) raw with heap block [8, 13) = [10, 11, 12, raw, raw]; b inline [4, 7) holding nb elements 20, 21, ... *)
Definition mem_swap (nb : nat) : mem := fun i =>
  if i <? 3 then Raw else if i <? 4 then Out else if i <? 4 + nb then Live (Z.of_nat (20 + (i - 4))) else if i <? 7 then Raw
  else if i <? 8 then Out else if i <? 11 then Live (Z.of_nat (10 + (i - 8))) else if i <? 13 then Raw else Out.
Definition o_a : obj := {| small := false; size := 3; cap := 5; ptr := Some 8; bi := 0 |}.
Definition o_b (nb : nat) : obj := {| small := true; size := nb; cap := 3; ptr := None; bi := 4 |}.
Definition run_swap (nb : nat) (k : Z) : list Z :=
  match swap_dyn_small true 3 1 true (mem_swap nb) (th_of k) o_a (o_b nb) with
  | RDone m (a, b) _ => 0%Z :: view m a ++ [(-1000)%Z] ++ view m b
  | RThrew m (a, b) => 1%Z :: view m a ++ [(-1000)%Z] ++ view m b
  | RErr _ => [(-999)%Z] end.
"""


def _parse_probe(out):
    """-> list of cases {kind, n, k, dir, threw, sameblock, vecs: [(size, cap, inline, [vals])...], usable: bool, leak, errors}"""
    cases = []
    cur = None
    for line in out.split("\n"):
        m = re.match(r"^(shrink|swap) (.*)$", line)
        if m:
            cur = {"kind": m.group(1), "vecs": {}, "line": line}
            for tok in m.group(2).split(" "):
                if "=" in tok:
                    a, b = tok.split("=", 1)
                    cur[a] = int(b)
            cases.append(cur)
            continue
        m = re.match(r"^  (\S+) size=(\d+) cap=(\d+) inline=(\d) \[(.*)\]$", line)
        if m and cur is not None:
            cur["vecs"][m.group(1)] = (int(m.group(2)), int(m.group(3)), int(m.group(4)), [int(x) for x in m.group(5).split()])
            continue
        m = re.match(r"^  leak=(-?\d+) errors=(-?\d+)$", line)
        if m and cur is not None:
            cur["leak"], cur["errors"] = int(m.group(1)), int(m.group(2))
    return cases


def _coq_eval(cases):
    os.makedirs(WORK, exist_ok=True)
    src = os.path.join(WORK, "OverlayCases.v")
    terms = []
    for c in cases:
        if c["kind"] == "shrink":
            terms.append("run_shrink %d (%d)%%Z" % (c["n"], c["k"]))
        else:
            terms.append("run_swap %d (%d)%%Z" % (c["nb"], c["k"]))
    with open(src, "w") as f:
        f.write(PRELUDE)
        f.write("Eval vm_compute in [\n  " + ";\n  ".join(terms) + "].\n")
    rc, so, se = C.run(["coqc", "-Q", coqbuild.COQ, "Amc", src], timeout=600, cwd=WORK)
    if rc != 0:
        return None, (se or so)[-1500:]
    body = so[so.index("=") + 1:] if "=" in so else ""
    body = body.split(": list (list Z)")[0]
    res = []
    for inner in re.findall(r"\[([^\[\]]*)\]", body):
        res.append([int(x) for x in inner.replace("%Z", "").replace("(", "").replace(")", "").replace("\n", " ").split(";") if x.strip()])
    if len(res) != len(cases):
        return None, "expected %d results from coqc, parsed %d" % (len(cases), len(res))
    return res, ""


def _model_vecs(z):
    """[threw, small, size, ptr, vals..., (-1000, small, size, ptr, vals...)] -> (threw, [(small, size, ptr, vals)...])"""
    threw = z[0]
    rest = z[1:]
    parts = []
    while rest:
        if -1000 in rest:
            i = rest.index(-1000)
            seg, rest = rest[:i], rest[i + 1:]
        else:
            seg, rest = rest, []
        parts.append((seg[0], seg[1], seg[2], seg[3:]))
    return threw, parts


def run(report):
    """Adds the comparison to the report's coverage; violations for differences (no failing input: model vs code) and for misbehaviour
    of the real code (failing input: the probe's case)."""
    with C.Lock("overlaycorr"):
        d, errors = build.build("overlay-san", [("overlay_probe", "overlay_probe.cpp", [])], None, build.SAN)
        if errors:
            report.violation({"broken": ["overlay probe build"], "compiler_output": errors["overlay_probe"][-3000:], "no_failing_input_found": True},
                             "harness/cpp/overlay_probe.cpp does not build against the current headers", True)
            return
        env = dict(os.environ)
        env["ASAN_OPTIONS"] = "detect_leaks=0:abort_on_error=0"
        rc, so, se = C.run([os.path.join(d, "overlay_probe")], timeout=300, env=env)
        cases = _parse_probe(so)
        with C.Lock("coq-session"):
            built, log, _ = coqbuild.make(["Overlay.vo"])
            zs, err = (None, "Overlay.vo not built:\n" + log[-1200:]) if not built.get("Overlay.vo") else _coq_eval(cases)
    cov = {"cases": len(cases), "differences": 0, "model": "Overlay.reset_to_small / swap_dyn_small (N = 3, pointer spans 1 slot, throwing moves)"}
    report.coverage["overlay_correspondence"] = cov
    if rc != 0 or not cases:
        report.violation({"case": (so + se)[-1500:], "found_by": "overlay probe", "no_failing_input_found": False},
                         "overlay probe: the real SmallVector misbehaves under ASan / the ledger (exit %d): %s" % (rc, (se or so)[-300:]))
        return
    if zs is None:
        report.violation({"broken": ["overlay correspondence: " + err[-800:]], "no_failing_input_found": True},
                         "the Overlay model could not be evaluated: " + err[-300:], True)
        return
    ndiff = 0
    for c, z in zip(cases, zs):
        # the real code on its own: nothing leaked, no ledger error, still usable, same heap block after a throw
        names = ["v"] if c["kind"] == "shrink" else ["a", "b"]
        bad = []
        if c.get("leak", 0) != 0 or c.get("errors", 0) != 0:
            bad.append("leak=%s ledger errors=%s" % (c.get("leak"), c.get("errors")))
        for nm, plus in (("v", "v+99"), ("a", "a+98"), ("b", "b+99")):
            if nm in c["vecs"] and (plus not in c["vecs"] or c["vecs"][plus][0] != c["vecs"][nm][0] + 1):
                bad.append("%s not usable afterwards" % nm)
        if c["kind"] == "shrink" and c["threw"] and not c.get("sameblock"):
            bad.append("the heap block changed although shrink_to_fit threw")
        if c["kind"] == "swap" and c["threw"] and not c.get("a.sameblock"):
            bad.append("the heap vector lost its block although swap threw")
        if bad:
            report.violation({"case": c["line"], "observed": "; ".join(bad), "found_by": "overlay probe", "no_failing_input_found": False},
                             "SmallVector<El<2>,3> %s: %s" % (c["line"], "; ".join(bad)))
        if z == [-999]:
            threw, parts = -1, []
        else:
            threw, parts = _model_vecs(z)
        impl = [(1 if c["vecs"][nm][2] else 0, c["vecs"][nm][0], c["vecs"][nm][3]) for nm in names if nm in c["vecs"]]
        model = [(p[0], p[1], p[3]) for p in parts]
        if threw != c["threw"] or impl != model:
            ndiff += 1
            if ndiff <= 3:
                report.violation({"case": c["line"], "implementation": {"threw": c["threw"], "vectors": impl}, "model": {"threw": threw, "vectors": model},
                                  "broken": ["corr:C09:overlay"], "found_by": "overlay correspondence", "no_failing_input_found": True},
                                 "overlay correspondence: model and implementation disagree on `%s`\n  impl : threw=%s %s\n  model: threw=%s %s"
                                 % (c["line"], c["threw"], impl, threw, model), True)
    cov["differences"] = ndiff
