"""Runs vector scripts through the C++ drivers (in parallel) and parses the transcripts."""
import os
import tempfile
from concurrent.futures import ThreadPoolExecutor

from . import build
from . import common as C
from .vecgen import Cfg

ASAN_ENV = {"ASAN_OPTIONS": "exitcode=77:detect_leaks=0:abort_on_error=0:allocator_may_return_null=1",
            "UBSAN_OPTIONS": "exitcode=77:print_stacktrace=0"}


_intern = __import__("sys").intern


class Step:
    __slots__ = ("hid", "step", "op", "res", "conts", "al", "ev", "te", "oracle", "inj")

    def __init__(self):
        self.oracle = []


class Hist:
    def __init__(self, hid):
        self.hid = hid
        self.steps = []
        self.crash = None
        self.end_oracle = []
        self.stderr_tail = ""
        self.injected = []   # throwing-capable events the fault injection made throw, in order

    def failures(self):
        """List of (step index or None, property, message)."""
        out = []
        for i, s in enumerate(self.steps):
            for o in s.oracle:
                prop, _, msg = o.partition(":")
                out.append((i, prop, msg))
        for o in self.end_oracle:
            prop, _, msg = o.partition(":")
            out.append((None, prop, msg))
        if self.crash:
            out.append((len(self.steps), "CRASH", self.crash))
        return out


def parse_transcript(text):
    hists = {}
    order = []
    cur = None
    for line in text.split("\n"):
        if not line:
            continue
        if line.startswith("B "):
            cur = Hist(line[2:])
            hists[cur.hid] = cur
            order.append(cur.hid)
        elif line.startswith("T "):
            parts = line.split(" | ")
            head = parts[0].split(" ")
            if len(parts) < 6 or len(head) < 3 or not head[2].isdigit() or not parts[-1].startswith("ev="):
                continue  # truncated by a crash
            s = Step()
            s.hid, s.step = _intern(head[1]), int(head[2])
            s.op, s.res = _intern(parts[1]), _intern(parts[2])
            s.conts = [_intern(x) for x in parts[3:-2]]
            s.al = _intern(parts[-2][3:])
            evte = parts[-1].split(" ")
            s.ev = _intern(evte[0][3:])
            s.te = int(evte[1][3:])
            s.inj = evte[2][4:] if len(evte) > 2 and evte[2].startswith("inj=") else ""
            if s.hid in hists:
                hists[s.hid].steps.append(s)
        elif line.startswith("INJ "):
            if cur is not None:
                cur.injected.append(line[4:].strip())
        elif line.startswith("ORACLE "):
            _, hid, step, msg = line.split(" ", 3)
            h = hists.get(hid)
            if h is None:
                continue
            if step == "end":
                h.end_oracle.append(msg)
            elif h.steps:
                h.steps[-1].oracle.append(msg)
        elif line.startswith("CRASH "):
            toks = dict(t.split("=", 1) for t in line.split(" ")[1:])
            h = hists.get(toks.get("hist"))
            if h is not None:
                h.crash = toks.get("status", "?")
    return [hists[h] for h in order]


def split_histories(lines):
    """Script lines -> dict hid -> list of op lines."""
    out = {}
    cur = None
    for l in lines:
        if l.startswith("H "):
            cur = l[2:]
            out[cur] = []
        elif cur is not None:
            out[cur].append(l)
    return out


def run_scripts(jobs, san=True, timeout=900):
    """jobs: list of (config name, script lines).  Returns list of (config name, [Hist], raw stderr tail, build error or None)."""
    bdir, errors = build.build_vecdrv(san=san)
    env = dict(os.environ)
    env.update(ASAN_ENV)

    def one(job):
        name, lines = job
        cfg = Cfg(name)
        exe = "vecdrv_%d" % cfg.group
        if exe in errors:
            return (name, [], "", errors[exe])
        with tempfile.NamedTemporaryFile("w", suffix=".script", dir=C.CACHE, delete=False) as f:
            f.write("\n".join(lines) + "\n")
            path = f.name
        try:
            rc, out, err = C.run([os.path.join(bdir, exe), name, path], timeout=timeout, env=env)
        finally:
            os.unlink(path)
        hs = parse_transcript(out)
        if rc == 124:
            err += "\nDRIVER TIMEOUT"
        return (name, hs, err[-3000:], None)

    with ThreadPoolExecutor(max_workers=C.NCPU) as ex:
        return list(ex.map(one, jobs))
