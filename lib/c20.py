"""C20 - concurrent const access to one container is race-free (partial).

proof      coq/ReadOnly.v: every interleaving of read-only threads is conflict-free, leaves the state unchanged and gives
           every operation its sequential result (C20_racefree); C20_table_racefree ties it to the footprint table.
tie        translator/footprint.py regenerates coq/Gen/Footprint.v from the CURRENT headers (write sites of every const
           member function, of the copy constructors / comparison operators and of what they reach; mutable members;
           global state of everything else); Properties_C20.C20_footprint_readonly evaluates `forallb no_writes table`.
search     harness/cpp/tsandrv.cpp under ThreadSanitizer: reader threads on one const object per container kind, writers on
           distinct objects; every result is compared with the sequentially precomputed one.
"""
import hashlib
import json
import os
import re
import shutil

from . import build
from . import common as C
from . import coqbuild

FOOTPRINT = os.path.join(coqbuild.TRANS, "footprint.py")
FOOTPRINT_V = os.path.join(coqbuild.GEN, "Footprint.v")
TSAN_FLAGS = ["-O1", "-g", "-fsanitize=thread", "-fno-omit-frame-pointer", "-pthread"]
PLAIN_FLAGS = ["-O1", "-g", "-pthread"]
TSAN_ENV = "halt_on_error=0:exitcode=66:second_deadlock_stack=1"


FAILED_TABLE = """(* footprint extraction failed: see the check output *)
From Coq Require Import List String.
From Amc Require Import ReadOnly.
Import ListNotations.
Local Open Scope string_scope.
Definition table : list entry := [ {| cls := "EXTRACTION"; meth := "FAILED"; role := "const"; insts := 0;
                                      writes := ["extraction failed"]; mutable_fields := [] |} ].
"""


def footprint_cmd():
    return ["python3", FOOTPRINT, os.path.join(C.REPO, "include"), coqbuild.GEN]


def _sha(text):
    return hashlib.sha256(text.encode()).hexdigest()[:16]


def regenerate_footprint():
    """Run the extractor against the current headers (cached by the hash of headers + extractor).  Returns its summary."""
    os.makedirs(coqbuild.GEN, exist_ok=True)
    key = C.sha_of_files(C.repo_headers() + [FOOTPRINT], extra=C.REPO)
    stamp = os.path.join(C.CACHE, "c20-footprint.json")
    with C.Lock("c20-footprint"):
        if os.path.exists(stamp) and os.path.exists(FOOTPRINT_V):
            try:
                with open(stamp) as f:
                    st = json.load(f)
                with open(FOOTPRINT_V) as f:
                    cur = _sha(f.read())
                if st.get("key") == key and st.get("sha") == cur:
                    st["summary"]["cached"] = True
                    return st["summary"]
            except (ValueError, KeyError, OSError):
                pass
        rc, so, se = C.run(footprint_cmd(), timeout=600)
        try:
            summ = json.loads(so)
        except ValueError:
            summ = {"analysed": 0, "flagged": [], "errors": {"footprint.py": (so + se)[-2000:] or "no output (exit %s)" % rc}}
            # never leave a stale table behind: the obligation must not check against an older tree
            coqbuild._write_if_changed(FOOTPRINT_V, FAILED_TABLE)
        if os.path.exists(FOOTPRINT_V):
            with open(FOOTPRINT_V) as f:
                sha = _sha(f.read())
            os.makedirs(C.CACHE, exist_ok=True)
            with open(stamp, "w") as f:
                json.dump({"key": key, "sha": sha, "summary": summ}, f)
        return summ


def _drop_stale_objects():
    """coqbuild.check_property accepts a .vo that is newer than its own source; a failed rebuild after a change of a
    DEPENDENCY (the regenerated table) would leave the previous Properties_C20.vo in place.  Remove what is older than
    what it depends on, so that only a fresh successful build counts."""
    dep_chain = [("Gen/Footprint", ["ReadOnly.v"]), ("Properties_C20", ["ReadOnly.v", "Gen/Footprint.v"])]
    for target, deps in dep_chain:
        vo = os.path.join(coqbuild.COQ, target + ".vo")
        if not os.path.exists(vo):
            continue
        t = os.path.getmtime(vo)
        newer = [d for d in deps + [target + ".v"] if os.path.exists(os.path.join(coqbuild.COQ, d)) and os.path.getmtime(os.path.join(coqbuild.COQ, d)) > t]
        if newer:
            for ext in (".vo", ".vos", ".vok", ".glob"):
                try:
                    os.remove(os.path.join(coqbuild.COQ, target + ext))
                except OSError:
                    pass


# ------------------------------------------------------------------------------------------------ the TSan driver
def _probe_tsan(binary):
    """Can an instrumented binary run in this sandbox?  -> (prefix command or None if it cannot, note)"""
    env = dict(os.environ, TSAN_OPTIONS=TSAN_ENV)
    rc, so, se = C.run([binary, "2", "0", "1", "1"], timeout=120, env=env)
    if "DONE" in so:
        return [], "ThreadSanitizer runs natively"
    if shutil.which("setarch"):
        rc2, so2, se2 = C.run(["setarch", "-R", binary, "2", "0", "1", "1"], timeout=120, env=env)
        if "DONE" in so2:
            return ["setarch", "-R"], "ThreadSanitizer needs `setarch -R` here (ASLR)"
    return None, "ThreadSanitizer cannot run here: " + (se or so)[-300:]


def build_driver():
    """-> (binary, prefix, instrumented: bool, note, error)"""
    d, errs = build.build("c20-tsan", [("tsandrv", "tsandrv.cpp", [])], None, TSAN_FLAGS)
    if not errs:
        binary = os.path.join(d, "tsandrv")
        prefix, note = _probe_tsan(binary)
        if prefix is not None:
            return binary, prefix, True, note, None
    else:
        note = "TSan build failed"
    if errs and "fsanitize" not in errs.get("tsandrv", "") and "tsan" not in errs.get("tsandrv", "").lower():
        return None, [], False, note, errs["tsandrv"]          # the driver does not compile against this tree
    d2, errs2 = build.build("c20-plain", [("tsandrv", "tsandrv.cpp", [])], None, PLAIN_FLAGS)
    if errs2:
        return None, [], False, note, errs2["tsandrv"]
    return os.path.join(d2, "tsandrv"), [], False, note + "; FALLBACK: readers run UN-INSTRUMENTED, results compared only", None


RACE = "WARNING: ThreadSanitizer: data race"


def run_driver(binary, prefix, readers, writers, seed, rounds):
    env = dict(os.environ, TSAN_OPTIONS=TSAN_ENV)
    rc, so, se = C.run(prefix + [binary, str(readers), str(writers), str(seed), str(rounds)], timeout=900, env=env)
    out = so + "\n" + se
    res = {"readers": readers, "writers": writers, "seed": seed, "rounds": rounds, "rc": rc,
           "races": out.count(RACE), "mismatches": len(re.findall(r"^MISMATCH", out, re.M)),
           "reader_ops": 0, "writer_ops": 0, "distinct_ops": 0, "kinds": 0}
    m = re.search(r"DONE .*kinds=(\d+) distinct_ops=(\d+) reader_ops=(\d+) writer_ops=(\d+) mismatches=(\d+)", out)
    if m:
        res["kinds"], res["distinct_ops"], res["reader_ops"], res["writer_ops"] = (int(m.group(i)) for i in (1, 2, 3, 4))
    res["crashed"] = (m is None) or rc not in (0, 3, 66)
    # excerpts: the first race report, the summaries, the first mismatches
    excerpt = []
    i = out.find(RACE)
    if i >= 0:
        excerpt = out[i:].split("\n")[:28]
    res["excerpt"] = [l[:300] for l in excerpt]
    res["summaries"] = sorted(set(l.strip()[:400] for l in out.split("\n") if l.startswith("SUMMARY: ThreadSanitizer")))[:12]
    res["mismatch_lines"] = [l[:200] for l in out.split("\n") if l.startswith("MISMATCH")][:6]
    if res["crashed"]:
        res["tail"] = [l[:300] for l in out.strip().split("\n")[-8:]]
    return res


def plan(tier):
    s = C.seed()
    if tier == "quick":
        return [(4, 2, s * 1000 + i, 150) for i in range(3)]
    out = []
    for i in range(20):
        readers = 2 + (i * 3 + s) % 7          # 2 .. 8
        writers = (i + s) % 3                    # 0 .. 2
        out.append((readers, writers, s * 1000 + i, 300))
    return out


def _failing(r):
    return r["races"] > 0 or r["mismatches"] > 0 or r["crashed"]


def _entry_seen_in(entry, runs):
    """a run whose race report / mismatch names the entry's function"""
    cls = entry["cls"].split("::")[0]
    meth = entry["meth"]
    for r in runs:
        if not _failing(r):
            continue
        for l in r["summaries"] + r["excerpt"]:
            if meth in l and (cls in l or cls == "(free)"):
                return r
    for r in runs:
        if _failing(r):
            return r
    return None


def _schedule(r):
    return {k: r[k] for k in ("readers", "writers", "seed", "rounds")}


def check(report, tier):
    notes = []
    # (a) the footprint table of the current tree
    summ = regenerate_footprint()
    flagged = summ.get("flagged", [])
    errors = dict(summ.get("errors", {}))
    # (b) the proof, against that table
    _drop_stale_objects()
    ok, broken = coqbuild.check_property("C20", report)
    for k, v in errors.items():
        broken.append("translator:footprint:%s (%s)" % (k, str(v)[:200]))
    # (c) the supporting search
    binary, prefix, instrumented, tsan_note, berr = build_driver()
    runs = []
    if binary is None:
        broken.append("driver: harness/cpp/tsandrv.cpp does not build against this tree")
        notes.append("tsandrv build error: " + (berr or "")[-1500:])
    else:
        for readers, writers, seed, rounds in plan(tier):
            runs.append(run_driver(binary, prefix, readers, writers, seed, rounds))
    failing = [r for r in runs if _failing(r)]
    race_observed = bool(failing)

    # (d) violations
    reported_runs = set()
    coq_broken = [b for b in broken if b.startswith("coq:")]
    for e in flagged[:12]:
        r = _entry_seen_in(e, runs)
        payload = {"entry": e, "broken": ["C20_footprint_readonly"] + coq_broken, "footprint_cmd": " ".join(footprint_cmd()),
                   "obligation": "Properties_C20.C20_footprint_readonly : forallb no_writes Footprint.table = true"}
        what = []
        if e.get("writes"):
            what.append("write sites: " + "; ".join(e["writes"][:4]))
        if e.get("mutable_fields"):
            what.append("mutable data members: " + ", ".join(e["mutable_fields"]))
        text = "C20 footprint: %s::%s (%s) is not read-only on shared memory: %s\n" % (e["cls"], e["meth"], e["role"], " | ".join(what))
        text += "broken obligation: C20_footprint_readonly (the table regenerated from the headers has a write site)"
        if coq_broken:
            text += "\n  " + coq_broken[0][:260]
        if r is not None:
            payload["tsan"] = {"schedule": _schedule(r), "races": r["races"], "mismatches": r["mismatches"], "crashed": r["crashed"],
                               "summaries": r["summaries"], "report_excerpt": r["excerpt"], "mismatch_lines": r["mismatch_lines"],
                               "cmd": "TSAN_OPTIONS=%s tsandrv %d %d %d %d" % (TSAN_ENV, r["readers"], r["writers"], r["seed"], r["rounds"])}
            text += "\nexhibited: tsandrv readers=%d writers=%d seed=%d rounds=%d -> %d race report(s), %d MISMATCH%s" % (
                r["readers"], r["writers"], r["seed"], r["rounds"], r["races"], r["mismatches"], ", crashed" if r["crashed"] else "")
            for l in (r["summaries"][:2] or r["mismatch_lines"][:2]):
                text += "\n  " + l[:240]
            reported_runs.add(id(r))
        report.violation(payload, text, no_failing_input=(r is None))
    if len(flagged) > 12:
        notes.append("%d further flagged entries not reported one by one" % (len(flagged) - 12))
    for k, v in list(errors.items())[:8]:
        report.violation({"broken": ["C20_footprint_readonly"], "extractor_error": {k: v}, "footprint_cmd": " ".join(footprint_cmd())},
                         "C20 footprint: %s: %s\nbroken obligation: the table cannot be established for this tree" % (k, str(v)[:300]),
                         no_failing_input=True)
    if not flagged:
        # a race / wrong result the extractor did not predict
        for r in failing[:3]:
            payload = {"broken": ["C20 (supporting search)"], "tsan": {"schedule": _schedule(r), "races": r["races"],
                       "mismatches": r["mismatches"], "crashed": r["crashed"], "summaries": r["summaries"],
                       "report_excerpt": r["excerpt"], "mismatch_lines": r["mismatch_lines"], "tail": r.get("tail", [])},
                       "footprint_flagged": 0}
            text = "C20: tsandrv readers=%d writers=%d seed=%d rounds=%d: %d ThreadSanitizer race report(s), %d MISMATCH%s; the footprint table is clean" % (
                r["readers"], r["writers"], r["seed"], r["rounds"], r["races"], r["mismatches"], ", crashed" if r["crashed"] else "")
            for l in (r["summaries"][:3] or r["mismatch_lines"][:3] or r.get("tail", [])[:3]):
                text += "\n  " + l[:240]
            report.violation(payload, text, no_failing_input=False)
    other = [b for b in broken if not b.startswith("translator:footprint:")]
    if other and not flagged:
        report.violation({"broken": other}, "C20: obligations not discharged: " + "; ".join(other)[:1500], no_failing_input=not race_observed)
    elif other and flagged:
        notes.append("coq: " + "; ".join(other)[:600])

    # (e) evidence
    table_entries = summ.get("by_role", {})
    reader_ops = sum(r["reader_ops"] for r in runs)
    writer_ops = sum(r["writer_ops"] for r in runs)
    distinct_ops = max([r["distinct_ops"] for r in runs] or [0])
    analysed = summ.get("analysed", 0)
    helpers = table_entries.get("helper", 0)
    report.coverage.update({
        "evaluations": analysed + helpers + table_entries.get("mutator", 0) + reader_ops + writer_ops,
        "evaluations_detail": {"const_member_functions_analysed": analysed, "helper_functions_analysed": helpers,
                               "other_functions_checked_for_global_state": table_entries.get("mutator", 0),
                               "classes_checked_for_mutable_members": table_entries.get("class", 0),
                               "instantiated_bodies": summ.get("analysed_bodies", 0), "reader_operations_executed": reader_ops,
                               "writer_operations_executed": writer_ops, "tsan_runs": len(runs)},
        "distinct_nontrivial": analysed + helpers + distinct_ops,
        "rule": "source-level const member functions with an analysed instantiated body (merged over "
                                    "instantiations) + non-const functions that receive shared memory (copy constructors, "
                                    "assignments, comparison helpers and their callees) + distinct (container kind, const operation) "
                                    "pairs executed concurrently by the reader threads and compared with the sequential result",
        "samples": [{"table_entry": e} for e in _sample_entries()] +
                   [{"schedule": dict(_schedule(r), races=r["races"], mismatches=r["mismatches"], reader_ops=r["reader_ops"])} for r in runs[:4]] +
                   [{"flagged": f} for f in flagged[:3]],
        "footprint": {"cmd": " ".join(footprint_cmd()), "analysed_const_members": analysed, "flagged": len(flagged),
                      "errors": len(errors), "by_role": table_entries, "instantiated_classes": summ.get("instantiated_classes"),
                      "mutable_fields": summ.get("mutable_fields", {})},
        "tsan": {"available": instrumented, "note": tsan_note, "flags": " ".join(TSAN_FLAGS if instrumented else PLAIN_FLAGS),
                 "options": TSAN_ENV, "runs": len(runs), "race_reports": sum(r["races"] for r in runs),
                 "mismatches": sum(r["mismatches"] for r in runs), "crashed_runs": sum(1 for r in runs if r["crashed"])},
        "trusted_base": coqbuild.TRUSTED_BASE + [
            "translator/footprint.py (write-site extraction over clang's AST: assignments / ++ / non-const calls rooted in shared "
            "memory, const-dropping casts, escapes of writable pointers into shared memory, static locals, mutable members; "
            "the `respects` hypothesis of C20_table_racefree is exactly what it is trusted for)",
            "clang 14 -ast-dump=json of the explicitly instantiated containers (int elements; std::less<int> and std::less<>; "
            "std::set and FlatSet backed SmallSet)",
            "std:: functions called by amc write only through non-const pointers / references / iterators passed to them",
            "ThreadSanitizer runtime (supporting search only; a clean run proves nothing)",
        ],
    })
    if notes:
        report.notes.extend(notes)
    report.assumptions.extend([
        "partial: the proof is about the logical half - const operations are read-only on shared memory, hence every "
        "sequentially consistent interleaving is conflict-free and returns sequential results",
        "outside the model: the C++ memory model below sequential consistency, compiler-introduced accesses, libstdc++ internals "
        "(std::set nodes, std::variant, std::optional) and malloc (copy construction allocates)",
        "element type int (trivially copyable); a user type whose const members or copy constructor write shared state is the user's race",
        "one probe translation unit: -std=c++17, AMC_NONSTD_FEATURES defined (superset of the API), 64-bit Linux, clang 14",
    ])
    report.level = "proof"
    return ok and not flagged and not errors and not race_observed


def _sample_entries():
    out = []
    try:
        with open(FOOTPRINT_V) as f:
            lines = [l.strip().rstrip(";") for l in f if l.strip().startswith("{|")]
        pick = [l for l in lines if 'role := "const"' in l]
        for i in (0, len(pick) // 3, 2 * len(pick) // 3, len(pick) - 1):
            if 0 <= i < len(pick) and pick[i] not in out:
                out.append(pick[i])
        out += [l for l in lines if 'role := "helper"' in l][:2]
    except OSError:
        pass
    return out


def replay(payload):
    """Re-run a replay file against the current tree: 1 (and a VIOLATION line) if it still fails, else 0."""
    summ = regenerate_footprint()
    still = []
    e = payload.get("entry")
    if e:
        for f in summ.get("flagged", []):
            if f["cls"] == e["cls"] and f["meth"] == e["meth"]:
                still.append("footprint still flags %s::%s: %s %s" % (f["cls"], f["meth"], f["writes"][:3], f["mutable_fields"]))
    if payload.get("extractor_error"):
        for k in payload["extractor_error"]:
            if k in summ.get("errors", {}):
                still.append("extractor error persists: %s" % k)
    t = payload.get("tsan")
    if t and t.get("schedule"):
        binary, prefix, instrumented, note, berr = build_driver()
        if binary is None:
            still.append("tsandrv does not build")
        else:
            s = t["schedule"]
            r = run_driver(binary, prefix, s["readers"], s["writers"], s["seed"], s["rounds"])
            print("  tsandrv %s: races=%d mismatches=%d crashed=%s (%s)" % (s, r["races"], r["mismatches"], r["crashed"], note))
            for l in r["summaries"][:3] + r["mismatch_lines"][:3]:
                print("  " + l[:240])
            if _failing(r):
                still.append("the schedule still fails")
    for s in still:
        print("  " + s)
    if still:
        print("VIOLATION property=C20 replay=(replayed)")
        return 1
    print("replay passes on the current tree")
    return 0
