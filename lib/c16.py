"""C16 - behaviour independent of C++ standard, pedantic mode, assertions, optimisation (partial).
Proof: coq/Properties_C16.v (bookkeeping regenerated under four standards agrees).  On the implementation: the same fixed
seed script corpus through drivers built under a matrix of configurations, transcripts byte-identical pairwise; compile-fail
probes for the features a configuration does not offer."""
import hashlib
import os
import tempfile
from concurrent.futures import ThreadPoolExecutor

from . import build, coqbuild, setgen, vecgen
from . import common as C
from .setgen import SCfg
from .vecgen import Cfg

# (label, std, extra flags).  Every value of every axis appears; the first entry is the reference.
VEC_MATRIX_QUICK = [
    ("c++17.O2.ndebug", "c++17", ["-O2", "-DNDEBUG"]),
    ("c++11.O0.assert", "c++11", ["-O0"]),
    ("c++14.O2.ndebug", "c++14", ["-O2", "-DNDEBUG"]),
    ("c++17.O0.assert", "c++17", ["-O0"]),
    ("c++20.O2.assert", "c++20", ["-O2"]),
    ("c++20.O0.ndebug", "c++20", ["-O0", "-DNDEBUG"]),
]
VEC_MATRIX_FULL = [("%s.%s.%s" % (s, o, a), s, ["-" + o] + (["-DNDEBUG"] if a == "ndebug" else []))
                   for s in ("c++11", "c++14", "c++17", "c++20") for o in ("O0", "O2") for a in ("assert", "ndebug")]
SET_MATRIX_QUICK = [("c++17.O2.ndebug", "c++17", ["-O2", "-DNDEBUG"]), ("c++17.O0.assert", "c++17", ["-O0"]),
                    ("c++20.O2.assert", "c++20", ["-O2"]), ("c++20.O0.ndebug", "c++20", ["-O0", "-DNDEBUG"])]
SET_MATRIX_FULL = [("%s.%s.%s" % (s, o, a), s, ["-" + o] + (["-DNDEBUG"] if a == "ndebug" else []))
                   for s in ("c++17", "c++20") for o in ("O0", "O2") for a in ("assert", "ndebug")]
NONSTD_OPS = ("pop_back_val", "append_n", "append_nv", "append_range", "swap2")

PROBES = [
    # (name, std, defines, code, must_compile)
    ("append without AMC_NONSTD_FEATURES", "c++17", [], "#include <amc/vector.hpp>\nint main(){ amc::vector<int> v; v.append(3); return 0; }", False),
    ("append with AMC_NONSTD_FEATURES", "c++17", ["-DAMC_NONSTD_FEATURES"], "#include <amc/vector.hpp>\nint main(){ amc::vector<int> v; v.append(3); return 0; }", True),
    ("swap2 without AMC_NONSTD_FEATURES", "c++17", [], "#include <amc/smallvector.hpp>\nint main(){ amc::SmallVector<int,2> a; amc::SmallVector<int,4> b; a.swap2(b); return 0; }", False),
    ("swap2 with AMC_NONSTD_FEATURES", "c++17", ["-DAMC_NONSTD_FEATURES"], "#include <amc/smallvector.hpp>\nint main(){ amc::SmallVector<int,2> a; amc::SmallVector<int,4> b; a.swap2(b); return 0; }", True),
    ("pop_back_val without AMC_NONSTD_FEATURES", "c++14", [], "#include <amc/vector.hpp>\nint main(){ amc::vector<int> v(1); return v.pop_back_val(); }", False),
    ("pop_back_val with AMC_NONSTD_FEATURES", "c++14", ["-DAMC_NONSTD_FEATURES"], "#include <amc/vector.hpp>\nint main(){ amc::vector<int> v(1); return v.pop_back_val(); }", True),
    ("SmallSet under c++14", "c++14", [], "#include <amc/smallset.hpp>\nint main(){ amc::SmallSet<int,4> s; s.insert(1); return 0; }", False),
    ("SmallSet under c++17", "c++17", [], "#include <amc/smallset.hpp>\nint main(){ amc::SmallSet<int,4> s; s.insert(1); return 0; }", True),
    ("FlatSet standard API under c++11", "c++11", [], "#include <amc/flatset.hpp>\nint main(){ amc::FlatSet<int> s; s.insert(1); return s.size() == 1 ? 0 : 1; }", True),
    ("FlatSet::steal_vector without AMC_NONSTD_FEATURES", "c++17", [], "#include <amc/flatset.hpp>\nint main(){ amc::FlatSet<int> s; auto v = s.steal_vector(); return 0; }", False),
    ("vector standard API under c++11", "c++11", [], "#include <amc/vector.hpp>\n#include <amc/smallvector.hpp>\n#include <amc/fixedcapacityvector.hpp>\nint main(){ amc::vector<int> v; v.push_back(1); amc::SmallVector<int,3> s(v.begin(), v.end()); amc::FixedCapacityVector<int,4> f; f.push_back(2); return 0; }", True),
]


def _run(bdir, exe, name, lines):
    with tempfile.NamedTemporaryFile("w", suffix=".script", dir=C.CACHE, delete=False) as f:
        f.write("\n".join(lines) + "\n")
        path = f.name
    try:
        rc, out, err = C.run([os.path.join(bdir, exe), name, path], timeout=900)
    finally:
        os.unlink(path)
    keep = [l for l in out.split("\n") if l.startswith(("T ", "ORACLE ", "CRASH ", "E "))]
    return keep


def _first_diff(a, b):
    for i, (x, y) in enumerate(zip(a, b)):
        if x != y:
            return i, x, y
    if len(a) != len(b):
        i = min(len(a), len(b))
        return i, (a[i] if i < len(a) else "<end>"), (b[i] if i < len(b) else "<end>")
    return None


def _fixed_program(report, prog, matrix, family):
    """Build harness/cpp/<prog>.cpp under every entry of the matrix: it must compile everywhere, print the same bytes, and every
    amc section must equal the std:: reference section of its family.  -> (found, evaluations, compared pairs, distinct)"""
    found = False
    evals = 0
    compared = []
    distinct = set()
    src = "harness/cpp/%s.cpp" % prog
    builds = {label: build.build("c16-%s-%s" % (prog, label), [(prog, prog + ".cpp", [])], None, flags, std=std) for label, std, flags in matrix}
    outs = {}
    ref_label = matrix[0][0]
    for label, _, _ in matrix:
        bdir, errs = builds[label]
        if prog in errs:
            msg = errs[prog]
            first = [l for l in msg.split("\n") if "error" in l][:3]
            report.violation({"program": src, "build": label, "expected": "the program compiles under every language level (it does with the std:: containers in place of the amc ones)",
                              "observed": "\n".join(first) or msg[-1500:], "compiler_output": msg[-3000:], "found_by": "API program", "no_failing_input_found": False},
                             "%s does not compile under %s: %s" % (src, label, (first or ["?"])[0][:300]))
            found = True
            continue
        rc, so, se = C.run([os.path.join(bdir, prog)], timeout=300)
        outs[label] = so.split("\n") if rc == 0 else ["<exit %d> %s" % (rc, se[-300:])] + so.split("\n")
        evals += len(outs[label])
        distinct.add((prog, label))
    if ref_label not in outs:
        return found, evals, compared, distinct
    sections = {}
    cur = None
    for l in outs[ref_label]:
        if l == "END":
            break
        if l.startswith("== "):
            cur = l[3:]
            sections[cur] = []
        elif cur is not None:
            sections[cur].append(l)
    if "END" not in outs[ref_label]:
        report.violation({"program": src, "build": ref_label, "observed": outs[ref_label][:5], "found_by": "API program", "no_failing_input_found": False},
                         "%s did not run to its end under %s" % (src, ref_label))
        found = True
    refs = [k for k in sections if k.endswith("(reference)")]
    for k, body in sections.items():
        fam = [r for r in refs if family(r) == family(k)]
        if k in refs or not fam or k == "FlatSet":
            continue
        d = _first_diff(sections[fam[0]], body)
        compared.append((k, fam[0], ref_label))
        if d is not None:
            report.violation({"program": src, "section": k, "build": ref_label, "std_container_prints": d[1], "amc_container_prints": d[2],
                              "found_by": "API program", "no_failing_input_found": False},
                             "%s [%s] %s: differs from the std:: container running the same calls\n  %s\n  %s" % (prog, ref_label, k, d[1][:200], d[2][:200]))
            found = True
    for label, lines_out in outs.items():
        if label == ref_label:
            continue
        compared.append((prog, ref_label, label))
        d = _first_diff(outs[ref_label], lines_out)
        if d is not None:
            report.violation({"program": src, "build_a": ref_label, "build_b": label, "line": d[0], "output_a": d[1][:600], "output_b": d[2][:600],
                              "found_by": "API program", "no_failing_input_found": False},
                             "%s: output differs between %s and %s at line %d\n  %s\n  %s" % (prog, ref_label, label, d[0] + 1, d[1][:300], d[2][:300]))
            found = True
    return found, evals, compared, distinct


def check(report, tier):
    ok, broken = coqbuild.check_property("C16", report, extra_files=coqbuild.TVX_FILES + coqbuild.TV_FILES + ["SwapGuardTV.v"])
    th = tier == "thorough"
    seed = C.seed()
    found = False
    evals = 0
    distinct = set()
    samples = []
    compared = []
    # ---- vectors
    vm = VEC_MATRIX_FULL if th else VEC_MATRIX_QUICK
    vjobs = [(n, vecgen.random_script(Cfg(n), seed + 16, 120 if th else 40, 40) + vecgen.limit_grid(Cfg(n))[:4000]) for n in vecgen.CONFIGS]
    builds = {}
    for label, std, flags in vm:
        srcs = [("vecdrv_%d" % g, "vecdrv.cpp", ["-DGROUP=%d" % g]) for g in range(build.VEC_GROUPS)]
        builds[label] = build.build("c16-vec-" + label, srcs, None, flags, std=std)
    # extras off: standard operations only
    std_only = [(n, vecgen.random_script(Cfg(n), seed + 17, 120 if th else 40, 40, mask=NONSTD_OPS)) for n in vecgen.CONFIGS]
    srcs = [("vecdrv_%d" % g, "vecdrv.cpp", ["-DGROUP=%d" % g, "-DVF_NO_EXTRAS"]) for g in range(build.VEC_GROUPS)]
    builds["c++17.O2.ndebug.noextras"] = build.build("c16-vec-noextras", srcs, None, ["-O2", "-DNDEBUG"], std="c++17")

    def run_vec(args):
        label, name, lines = args
        bdir, errs = builds[label]
        exe = "vecdrv_%d" % Cfg(name).group
        if exe in errs:
            return label, name, None, errs[exe]
        return label, name, _run(bdir, exe, name, lines), None

    tasks = [(label, n, lines) for (label, _, _) in vm for (n, lines) in vjobs]
    tasks += [(l, n, lines) for l in ("c++17.O2.ndebug", "c++17.O2.ndebug.noextras") for (n, lines) in std_only]
    # the reference build's transcripts are kept; every other transcript is compared with its reference by the worker that produced
    # it and dropped (the full matrix of transcripts does not have to be in memory at once)
    ref_label = vm[0][0]

    def key_of(name, lines_in):
        return (name, hashlib.sha1("\n".join(lines_in).encode()).hexdigest())

    ref_tasks = [t for t in tasks if t[0] == ref_label]
    other_tasks = [t for t in tasks if t[0] != ref_label]
    refs = {}
    with ThreadPoolExecutor(max_workers=C.NCPU) as ex:
        for (label, name, lines_in), (l2, n2, tr, berr) in zip(ref_tasks, ex.map(run_vec, ref_tasks)):
            refs[key_of(name, lines_in)] = (tr, berr)

    def run_cmp(args):
        label, name, lines_in = args
        _, _, tr, berr = run_vec(args)
        if berr:
            return 0, berr, None, False
        ref = refs.get(key_of(name, lines_in))
        if ref is None or ref[0] is None:
            return len(tr), None, None, False
        return len(tr), None, _first_diff(ref[0], tr), True

    with ThreadPoolExecutor(max_workers=C.NCPU) as ex:
        cmp_results = list(ex.map(run_cmp, other_tasks))
    for (name, _), (tr, berr) in refs.items():
        if berr:
            report.violation({"config": name, "build": ref_label, "broken": ["driver build under " + ref_label], "compiler_output": berr[-3000:], "no_failing_input_found": True},
                             "the vector driver does not build under %s" % ref_label, True)
            found = True
            continue
        evals += len(tr)
        distinct.add((name, ref_label))
    for (label, name, lines_in), (nlines, berr, d, was_compared) in zip(other_tasks, cmp_results):
        if berr:
            report.violation({"config": name, "build": label, "broken": ["driver build under " + label], "compiler_output": berr[-3000:], "no_failing_input_found": True},
                             "the vector driver does not build under %s" % label, True)
            found = True
            continue
        evals += nlines
        distinct.add((name, label))
        if was_compared:
            compared.append((name, ref_label, label))
        if d is not None:
            i, x, y = d
            hid = x.split(" ")[1] if x.startswith("T ") else "?"
            hl = vecgen_history(lines_in, hid)
            report.violation({"config": name, "build_a": ref_label, "build_b": label, "script": hl[:40], "transcript_a": x[:600], "transcript_b": y[:600],
                              "found_by": "transcript comparison", "no_failing_input_found": False},
                             "%s: transcripts differ between %s and %s\n  %s\n  %s" % (name, ref_label, label, x[:300], y[:300]))
            found = True
    refs.clear()
    # ---- sets (C++17 and later)
    sm = SET_MATRIX_FULL if th else SET_MATRIX_QUICK
    sjobs = [(n, setgen.random_script(SCfg(n), seed + 16, 150 if th else 50, 50)) for n in setgen.CONFIGS]
    sbuilds = {}
    for label, std, flags in sm:
        srcs = [("setdrv_%d" % g, "setdrv.cpp", ["-DGROUP=%d" % g]) for g in range(setgen.GROUPS)]
        sbuilds[label] = build.build("c16-set-" + label, srcs, None, flags, std=std)

    def run_set(args):
        label, name, lines = args
        bdir, errs = sbuilds[label]
        exe = "setdrv_%d" % SCfg(name).group
        if exe in errs:
            return None, errs[exe]
        return _run(bdir, exe, name, lines), None

    stasks = [(label, n, lines) for (label, _, _) in sm for (n, lines) in sjobs]
    with ThreadPoolExecutor(max_workers=C.NCPU) as ex:
        sres = list(ex.map(run_set, stasks))
    stable = {}
    for (label, name, lines_in), (tr, berr) in zip(stasks, sres):
        stable.setdefault(name, {})[label] = (tr, berr, lines_in)
    for name, per in stable.items():
        ref = per.get(sm[0][0])
        for label, (tr, berr, lines_in) in per.items():
            if berr:
                report.violation({"config": name, "build": label, "broken": ["set driver build under " + label], "compiler_output": berr[-3000:], "no_failing_input_found": True},
                                 "the set driver does not build under %s" % label, True)
                found = True
                continue
            evals += len(tr)
            distinct.add((name, label))
            if ref is None or ref[0] is None or label == sm[0][0]:
                continue
            compared.append((name, sm[0][0], label))
            d = _first_diff(ref[0], tr)
            if d is not None:
                i, x, y = d
                hid = x.split(" ")[1] if x.startswith("T ") else "?"
                report.violation({"config": name, "build_a": sm[0][0], "build_b": label, "script": vecgen_history(lines_in, hid)[:40], "transcript_a": x[:600], "transcript_b": y[:600],
                                  "found_by": "transcript comparison", "no_failing_input_found": False},
                                 "%s: transcripts differ between %s and %s\n  %s\n  %s" % (name, sm[0][0], label, x[:300], y[:300]))
                found = True
    # ---- fixed programs over the API the script language cannot express (harness/cpp/apiprog.cpp: C++11 and later, vectors
    #      and FlatSet; harness/cpp/setprog.cpp: C++17 and later, the std::set API with class element types)
    extras = ("c++17.O2.ndebug.extras", "c++17", ["-O2", "-DNDEBUG", "-DAMC_NONSTD_FEATURES"])
    for prog, matrix, family in (("apiprog", vm + [extras], lambda k: (("PB" in k), ("string" in k), (" from " in k))),
                                 ("setprog", sm + [extras], lambda k: ("Rec" in k,))):
        f, e, cmpd, dist = _fixed_program(report, prog, matrix, family)
        found = found or f
        evals += e
        compared += cmpd
        distinct |= dist
    # ---- compile probes
    pdir = os.path.join(C.CACHE, "c16-probes")
    os.makedirs(pdir, exist_ok=True)
    probe_results = []
    for name, std, defs, code, must in PROBES:
        src = os.path.join(pdir, hashlib.sha1((name + code).encode()).hexdigest()[:12] + ".cpp")
        with open(src, "w") as f:
            f.write(code + "\n")
        rc, so, se = C.run(["g++", "-std=" + std, "-fsyntax-only", "-I" + os.path.join(C.REPO, "include")] + defs + [src], timeout=300)
        compiled = rc == 0
        probe_results.append({"probe": name, "std": std, "compiled": compiled, "expected_to_compile": must})
        evals += 1
        if compiled != must:
            report.violation({"probe": name, "std": std, "defines": defs, "program": code, "expected": "compiles" if must else "is rejected at compile time",
                              "observed": "compiled" if compiled else se[-800:], "found_by": "compile probe", "no_failing_input_found": False},
                             "compile probe '%s' (-std=%s): expected %s" % (name, std, "to compile" if must else "a compile-time error (feature absent)"))
            found = True
    if broken and not found:
        report.violation({"broken": broken, "no_failing_input_found": True}, "proof obligations of C16 no longer check: " + "; ".join(broken)[:1200], True)
    report.coverage.update({
        "evaluations": evals, "distinct_nontrivial": len(distinct),
        "rule": "fixed-seed script corpus (random histories + limit grids) x build matrix; evaluations = transcript lines produced over all builds + output lines of the fixed API program (multi-argument emplace, "
                "initializer lists, class and nested element types, container comparison, free swap; also compared with std:: containers) + compile probes; "
                "distinct = (container configuration, build configuration) pairs whose transcript was produced and compared with the reference build's",
        "samples": [{"vector_builds": [l for l, _, _ in vm] + ["c++17.O2.ndebug.noextras"], "set_builds": [l for l, _, _ in sm]},
                    {"compile_probes": probe_results}],
        "transcript_pairs_compared": len(compared), "trusted_base": coqbuild.TRUSTED_BASE, "exhaustive": False,
    })
    report.assumptions.append("partial: optimisation level, assertions and AMC_NONSTD_FEATURES have no counterpart in the source-level model; "
                              "that axis is covered by transcript equality only (validation, not proof)")
    report.level = "proof"


def vecgen_history(lines, hid):
    out = []
    cur = None
    for l in lines:
        if l.startswith("H "):
            cur = l[2:]
        elif cur == hid:
            out.append(l)
    return out


def replay(payload):
    """Re-run a replay file of C16 against the current tree (API program and script transcripts)."""
    labels = {l: (s, f) for l, s, f in VEC_MATRIX_FULL + VEC_MATRIX_QUICK + SET_MATRIX_FULL + [("c++17.O2.ndebug.extras", "c++17", ["-O2", "-DNDEBUG", "-DAMC_NONSTD_FEATURES"])]}
    if payload.get("program"):
        outs = {}
        for key in ("build", "build_a", "build_b"):
            label = payload.get(key)
            if not label or label not in labels:
                continue
            std, flags = labels[label]
            prog = os.path.basename(payload["program"])[:-4]
            bdir, errs = build.build("c16-%s-%s" % (prog, label), [(prog, prog + ".cpp", [])], None, flags, std=std)
            if prog in errs:
                print("\n".join([l for l in errs[prog].split("\n") if "error" in l][:5]))
                print("VIOLATION property=C16 replay=(replayed: %s.cpp does not compile under %s)" % (prog, label))
                return 1
            rc, so, se = C.run([os.path.join(bdir, prog)], timeout=300)
            outs[key] = so.split("\n")
        if "build_a" in outs and "build_b" in outs and _first_diff(outs["build_a"], outs["build_b"]) is not None:
            print("  %s\n  %s" % _first_diff(outs["build_a"], outs["build_b"])[1:])
            print("VIOLATION property=C16 replay=(replayed: outputs differ)")
            return 1
        if "build" in outs and payload.get("section"):
            secs, cur = {}, None
            for l in outs["build"]:
                if l == "END":
                    break
                if l.startswith("== "):
                    cur = l[3:]
                    secs[cur] = []
                elif cur:
                    secs[cur].append(l)
            k = payload["section"]
            fam = [r for r in secs if r.endswith("(reference)") and (("PB" in r) == ("PB" in k)) and (("string" in r) == ("string" in k)) and (("Rec" in r) == ("Rec" in k)) and (" from " not in k)]
            if fam and k in secs and secs[k] != secs[fam[0]]:
                print("VIOLATION property=C16 replay=(replayed: section %s differs from the std:: reference)" % k)
                return 1
        print("replay passes on the current tree")
        return 0
    if payload.get("script") and payload.get("config") and payload.get("build_a") in labels and payload.get("build_b") in labels:
        name = payload["config"]
        is_set = name in setgen.CONFIGS
        outs = []
        for key in ("build_a", "build_b"):
            label = payload[key]
            std, flags = labels[label]
            if is_set:
                srcs = [("setdrv_%d" % g, "setdrv.cpp", ["-DGROUP=%d" % g]) for g in range(setgen.GROUPS)]
                bdir, errs = build.build("c16-set-" + label, srcs, None, flags, std=std)
                exe = "setdrv_%d" % SCfg(name).group
            else:
                srcs = [("vecdrv_%d" % g, "vecdrv.cpp", ["-DGROUP=%d" % g]) for g in range(build.VEC_GROUPS)]
                bdir, errs = build.build("c16-vec-" + label, srcs, None, flags, std=std)
                exe = "vecdrv_%d" % Cfg(name).group
            if exe in errs:
                print("VIOLATION property=C16 replay=(replayed: driver does not build under %s) no-failing-input-found" % label)
                return 1
            outs.append(_run(bdir, exe, name, ["H replay"] + payload["script"]))
        d = _first_diff(outs[0], outs[1])
        if d is not None:
            print("  %s\n  %s" % d[1:])
            print("VIOLATION property=C16 replay=(replayed: transcripts differ)")
            return 1
        print("replay passes on the current tree")
        return 0
    print("replay file names no re-runnable input (broken obligation: %s)" % payload.get("broken"))
    return 0
