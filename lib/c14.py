"""C14 - containers honour their own trivially_relocatable declaration (partial).
Proof: coq/Properties_C14.v.  Tie: at random points of vector and set histories the real object is moved by memcpy to
fresh storage, the source is poisoned and abandoned, and the history continues on the copy - compared step by step with the
models and judged by every direct oracle."""
from . import common as C
from . import coqbuild, setcorr, setgen, setprops, setrun, veccorr, vecgen, vecrun
from .setgen import SCfg
from .vecgen import Cfg

ALL_TAGS = {"C01", "C02", "C03", "C04", "C05", "C06", "C07", "C11", "CRASH"}


def check(report, tier):
    ok, broken = coqbuild.check_property("C14", report)
    th = tier == "thorough"
    seed = C.seed()
    vw = dict(vecgen.DEFAULT_WEIGHTS)
    vw.update({"relocate": 14, "dtor": 4, "ctor": 5})
    sw = dict(setgen.DEFAULT_WEIGHTS)
    sw.update({"relocate": 14, "dtor": 4, "ctor": 5})
    vjobs = [(n, vecgen.random_script(Cfg(n), seed + 14, 1500 if th else 250, 40, ops=vw)) for n in vecgen.CONFIGS]
    sjobs = [(n, setgen.random_script(SCfg(n), seed + 14, 1500 if th else 250, 50, weights=sw)) for n in setgen.CONFIGS]
    vres = vecrun.run_scripts(vjobs)
    sres = setrun.run_scripts(sjobs)
    nrel = 0
    nsteps = 0
    distinct = set()
    samples = []
    found = False
    shown = set()
    for kind, jobs, results, split in (("vec", vjobs, vres, vecrun.split_histories), ("set", sjobs, sres, setrun.split_histories)):
        for (name, lines), (cn, hs, err, berr) in zip(jobs, results):
            if berr:
                report.violation({"config": name, "broken": ["driver build"], "compiler_output": berr[-3000:], "no_failing_input_found": True},
                                 "driver does not build for %s" % name, True)
                found = True
                continue
            scr = split(lines)
            for h in hs:
                rel_at = [i for i, s in enumerate(h.steps) if s.op.startswith("relocate") and s.res == "ok"]
                nsteps += len(h.steps)
                if not rel_at:
                    continue
                nrel += len(rel_at)
                for i in rel_at:
                    a = int(h.steps[i].op.split(" ")[2])
                    st = h.steps[i].conts[a].split(";")
                    distinct.add((name, tuple(st[:3]) if kind == "vec" else tuple(st[:2])))
                fs = [f for f in h.failures() if f[1] in ALL_TAGS and (f[0] is None or f[0] >= rel_at[0])]
                if fs:
                    i, p, msg = fs[0]
                    hl = scr.get(h.hid, [])
                    key = (name.split(".")[0], msg[:40])
                    if key in shown or len(shown) >= 6:
                        continue
                    shown.add(key)
                    found = True
                    report.violation({"config": name, "script": hl[: (i + 1 if i is not None else len(hl))], "oracle": p, "observed": msg,
                                      "found_by": "relocate-and-continue", "no_failing_input_found": False},
                                     "%s: after a raw byte relocation of the container: %s\n  script: %s"
                                     % (name, msg, " ; ".join(hl[: (i + 1 if i is not None else len(hl))][-10:])))
                elif len(samples) < 4:
                    hl = scr.get(h.hid, [])
                    samples.append({"config": name, "history": hl[: rel_at[0] + 3][-8:]})
    # the claims themselves: every container trait constant decided by the compiler against the model of the conjunction rule
    # (Static.predict, C14_claims_are_conjunctions) - a container that starts claiming the trait with a part that is not
    # relocatable (element, comparator, underlying vector / set) shows up here even if no driver configuration has such a part
    TRAIT_FIELDS = ("t_tr", "p_TT", "p_Ti", "p_Tn", "p_Td", "p_nest", "p_nn", "v_tr", "sv_tr", "f_tr", "fs_def", "fs_ncmp", "fs_dcmp",
                    "fs_sv", "fs_sv_ncmp", "fs_fcv", "fs_fcv_ncmp", "ss_std", "ss_fs", "ss_fs_ncmp", "ss_fs_dcmp")
    claims_rows = 0
    try:
        from . import c17
        G = c17._gen()
        rows = G.matrix(tier)
        obs = c17._obs_fields(G)
        parsed, perr, _, _ = c17.run_probe(G, rows, "c++17", tier)
        if perr:
            report.violation({"broken": ["trait probe does not build: " + perr[-1500:]], "no_failing_input_found": True},
                             "C14: the trait probe does not build against the current headers", True)
            found = True
        else:
            claims_rows = len(parsed)
            mism, merr, _ = c17.coq_eval(G, parsed, "c++17")
            byid = {r["id"]: r for r in parsed}
            bad = {}
            for rid, pred in sorted(mism.items()):
                r = byid[rid]
                for f, pv in zip(obs, pred):
                    if f in TRAIT_FIELDS and pv != r[f]:
                        bad.setdefault(f, []).append((r, pv, r[f]))
            for f, items in sorted(bad.items())[:4]:
                r, pv, ov = items[0]
                found = True
                report.violation({"instance": c17.instance_name(G, r), "field": f, "expected": pv, "observed": ov, "failing_rows": len(items),
                                  "row": {k: r[k] for k in sorted(r)}, "found_by": "compiler-decided trait table", "no_failing_input_found": False},
                                 "C14 claims: %s: amc::is_trivially_relocatable constant %s is %s, the conjunction rule (Static.predict) gives %s (%d rows)"
                                 % (c17.instance_name(G, r), f, ov, pv, len(items)))
    except Exception as e:  # noqa: BLE001 - the probe machinery belongs to C17; its failure is reported, not hidden
        report.violation({"broken": ["trait table for C14: " + str(e)[-600:]], "no_failing_input_found": True}, "C14: trait table could not be evaluated: " + str(e)[-300:], True)
        found = True
    vd, vc = veccorr.run(vjobs, vres)
    sd, sc = setcorr.run("C14", report, sjobs, sres)
    ndiff = len(vd) + len(sd)
    if ndiff and not found:
        d = (vd + sd)[0]
        report.violation({"config": d["config"], "script": d["script"][-25:], "broken": ["corr:C14"], "no_failing_input_found": True},
                         "correspondence %s: model and implementation disagree in a history with relocation: %s" % (d["config"], str(d.get("diffs", d.get("field")))[:200]), True)
    if broken and not found and not ndiff:
        report.violation({"broken": broken, "no_failing_input_found": True}, "proof obligations of C14 no longer check: " + "; ".join(broken)[:1200], True)
    report.coverage.update({
        "evaluations": nsteps + claims_rows, "trait_rows_decided_by_the_compiler": claims_rows, "relocations_executed": nrel, "distinct_nontrivial": len(distinct),
        "rule": "random histories with frequent `relocate` steps (memcpy of the live object into a dead slot, source poisoned with 0xDD, no destructor) "
                "on 22 vector and 16 set configurations; distinct = (configuration, state of the container when it was relocated: size; capacity; storage "
                "class resp. size; flat/small/large); container types that do not claim the trait refuse the step (skip:notTR)",
        "samples": samples, "traces_validated_against_impl": vc["histories_compared"] + sc["traces_validated_against_impl"],
        "correspondence_steps_compared": vc["steps_compared"] + sc["correspondence_steps_compared"], "correspondence_differences": ndiff,
        "trusted_base": coqbuild.TRUSTED_BASE, "exhaustive": False,
    })
    report.assumptions.append("partial: that the real representation holds no address-dependent field is established by the relocate-and-continue "
                              "runs and the compiler-decided trait table (C17), not by the theorem, which is about the models")
    report.level = "proof"
