"""C17 - static contract (relocatability trait, layout, size_type, triviality, noexcept).

check(report, tier):
  (a) builds coq/Properties_C17.v (theorems about the executable model coq/Static.v) through coqbuild;
  (b) generates the probe translation units (harness/cpp/c17probe_gen.py), compiles them against /repo's CURRENT
      headers and runs them: one line of compiler-decided constants per instance (kind, sizeof T, alignof T, N, size_type);
  (c) re-evaluates the SAME rows in the Coq model (`Static.mismatches`, vm_compute, in a generated .cache/c17/Rows_*.v):
      any row on which model and compiler differ is the correspondence failing;
  (d) evaluates the property's statements directly on the compiler's numbers (direct oracle, independent of Coq);
  (e) reports every failing class with a concrete row as replay.
"""
import hashlib
import importlib.util
import json
import os
import re
import shutil
import time
from concurrent.futures import ThreadPoolExecutor

from . import common as C
from . import coqbuild

GEN_PATH = os.path.join(C.VERIF, "harness", "cpp", "c17probe_gen.py")
ROOT = os.path.join(C.CACHE, "c17")
NSHARDS = 16
CXXFLAGS = ["-O0", "-w"]
STDS = {"quick": ["c++17"], "thorough": ["c++11", "c++14", "c++17", "c++20"]}
ALLOC_LINES = {}   # -std -> the informational allocator line of the last probe run
PAD = 6          # Properties_C17.C17_layout_large: sizeof(SmallVector) <= sizeof(vector) + N*sizeof(T) + 6
PTR = 8


def _gen():
    spec = importlib.util.spec_from_file_location("c17probe_gen", GEN_PATH)
    m = importlib.util.module_from_spec(spec)
    spec.loader.exec_module(m)
    return m


def _prune(keep, root, prefix):
    try:
        ents = [os.path.join(root, d) for d in os.listdir(root) if d.startswith(prefix)]
    except OSError:
        return
    ents = [e for e in ents if os.path.isdir(e) and e != keep]
    ents.sort(key=os.path.getmtime)
    for e in ents[:-6]:
        shutil.rmtree(e, ignore_errors=True)


# ---------------------------------------------------------------------------------------------------------------
# (b) the probe

def run_probe(G, rows, std, tier):
    """Compile + run the probe for one -std.  Returns (parsed rows, error text or None, seconds, cached?)."""
    key = C.sha_of_files(C.repo_headers() + [GEN_PATH], extra=std + tier + " ".join(CXXFLAGS) + str(NSHARDS))
    d = os.path.join(ROOT, "probe-%s-%s" % (std.replace("+", "x"), key))
    out_path = os.path.join(d, "out.txt")
    t0 = time.time()
    with C.Lock("c17-" + std.replace("+", "x")):
        os.makedirs(d, exist_ok=True)
        os.utime(d, None)
        cached = os.path.exists(out_path)
        if not cached:
            shards = G.generate(rows, NSHARDS)
            for i, txt in enumerate(shards):
                with open(os.path.join(d, "c17probe_%d.cpp" % i), "w") as f:
                    f.write(txt)

            def one(i):
                src = os.path.join(d, "c17probe_%d.cpp" % i)
                exe = os.path.join(d, "c17probe_%d" % i)
                cmd = ["g++", "-std=" + std] + CXXFLAGS + ["-I" + os.path.join(C.REPO, "include"), src, "-o", exe]
                rc, so, se = C.run(cmd, timeout=900)
                if rc != 0:
                    return i, None, "compile: " + " ".join(cmd) + "\n" + (so + se)[-3000:]
                rc, so, se = C.run([exe], timeout=120)
                if rc != 0:
                    return i, None, "run: exit %d\n%s" % (rc, (so + se)[-1000:])
                return i, so, None

            with ThreadPoolExecutor(max_workers=C.NCPU) as ex:
                res = list(ex.map(one, range(NSHARDS)))
            errs = [e for _, _, e in res if e]
            if errs:
                _prune(d, ROOT, "probe-")
                return [], errs[0], time.time() - t0, False
            with open(out_path + ".tmp", "w") as f:
                f.write("".join(so for _, so, _ in res))
            os.replace(out_path + ".tmp", out_path)
            for i in range(NSHARDS):
                try:
                    os.remove(os.path.join(d, "c17probe_%d" % i))
                except OSError:
                    pass
        with open(out_path) as f:
            text = f.read()
        _prune(d, ROOT, "probe-")
    try:
        parsed = G.parse(text, rows)
        ALLOC_LINES[std] = G.parse_alloc(text)
    except ValueError as e:
        return [], "parse: %s" % e, time.time() - t0, cached
    parsed.sort(key=lambda r: r["id"])
    if len(parsed) != len(rows):
        return parsed, "the probe printed %d rows, %d expected" % (len(parsed), len(rows)), time.time() - t0, cached
    return parsed, None, time.time() - t0, cached


# ---------------------------------------------------------------------------------------------------------------
# (c) the same rows in the Coq model

def _cb(b):
    return "true" if b else "false"


def _obs_fields(G):
    return G.FIELDS[G.FIELDS.index("t_tr"):]


def coq_rows_text(G, rows, std):
    obs = _obs_fields(G)
    smallset = std in ("c++17", "c++20", "c++23")
    lines = []
    for r in rows:
        decl = G.KIND_DESC[r["kind"]]["decl"]
        dtxt = "None" if decl is None else ("(Some %s)" % _cb(decl))
        desc = "(mkDesc %d %d %s %s %s %s %s %s)" % (r["t_size"], r["t_align"], _cb(r["t_tc"]), dtxt, _cb(r["t_td"]),
                                                     _cb(r["t_nmc"]), _cb(r["t_nma"]), _cb(r["t_nsw"]))
        key = (r["kind"], r["s"], r["a"], r["N"], r["st"])
        vals = "; ".join(("(%d)" % r[f]) if r[f] < 0 else str(r[f]) for f in obs)
        lines.append("mkRow %d %s %d %d %s %s [%s]" % (r["id"], desc, r["N"], r["w"], _cb(G.sets_on(key)), _cb(smallset), vals))
    # chunks keep the list literals small
    chunks = [lines[i:i + 200] for i in range(0, len(lines), 200)]
    txt = ["(* generated by lib/c17.py: rows printed by the compiler probe (-std=%s), re-evaluated in the model *)" % std,
           "From Coq Require Import ZArith List.", "Import ListNotations.", "Open Scope Z_scope.",
           "From Amc Require Import Static."]
    for i, ch in enumerate(chunks):
        txt.append("Definition rows%d : list row := [\n  %s\n]." % (i, ";\n  ".join(ch)))
    txt.append("Definition rows : list row := %s." % " ++ ".join(["rows%d" % i for i in range(len(chunks))] or ["[]"]))
    txt.append("Eval vm_compute in (length rows).")
    txt.append("Eval vm_compute in (mismatches rows).")
    return "\n".join(txt) + "\n"


def coq_eval(G, rows, std):
    """Returns (mismatches {id: predicted list}, error or None, seconds)."""
    t0 = time.time()
    static_vo = os.path.join(coqbuild.COQ, "Static.vo")
    static_v = os.path.join(coqbuild.COQ, "Static.v")
    if not (os.path.exists(static_vo) and os.path.getmtime(static_vo) >= os.path.getmtime(static_v)):
        return {}, "coq/Static.vo is not built", 0.0
    os.makedirs(ROOT, exist_ok=True)
    tag = std.replace("+", "x")
    text = coq_rows_text(G, rows, std)
    src = os.path.join(ROOT, "Rows_%s.v" % tag)
    with open(static_v, "rb") as f:
        key = hashlib.sha256(f.read() + text.encode()).hexdigest()[:16]
    res_path = os.path.join(ROOT, "Rows_%s.result.json" % tag)
    with C.Lock("c17-rows-" + tag):
        if os.path.exists(res_path):
            try:
                with open(res_path) as f:
                    st = json.load(f)
                if st.get("key") == key:
                    return {int(k): v for k, v in st["mismatches"].items()}, None, time.time() - t0
            except ValueError:
                pass
        with open(src, "w") as f:
            f.write(text)
        rc, so, se = C.run(["timeout", "300", "coqc", "-Q", coqbuild.COQ, "Amc", src], timeout=330, cwd=ROOT)
        if rc != 0:
            return {}, "coqc %s failed (exit %d): %s" % (src, rc, (se or so)[-600:]), time.time() - t0
        flat = "".join(so.split())
        m = re.search(r"=(\d+)%?:?nat", flat)
        if not m or int(m.group(1)) != len(rows):
            return {}, "unexpected output of %s: %s" % (src, so[:300]), time.time() - t0
        tail = flat[m.end():]
        mism = {}
        for mm in re.finditer(r"\((\d+),\[([-\d;()]*)\]\)", tail):
            mism[int(mm.group(1))] = [int(x.strip("()")) for x in mm.group(2).split(";") if x]
        if not mism and not re.search(r"=(\[\]|nil):list", tail):
            return {}, "cannot parse the output of %s: %s" % (src, tail[:300]), time.time() - t0
        C.write_json(res_path, {"key": key, "mismatches": {str(k): v for k, v in mism.items()}})
    return mism, None, time.time() - t0


# ---------------------------------------------------------------------------------------------------------------
# (d) the property's statements evaluated directly on the compiler's numbers

def smallest_bytes(N):
    for b in (1, 2, 4, 8):
        if N <= 2 ** (8 * b) - 1:
            return b
    raise ValueError(N)


def oracle(G, r, std):
    """Yield (check class, field, expected description, expected value or None, observed) for every failed statement."""
    kd = G.KIND_DESC[r["kind"]]
    N, s = r["N"], r["t_size"]
    bad = []

    def expect(cls, field, want, why):
        if r[field] != want:
            bad.append((cls, field, why, want, r[field]))

    # the element type is what the generator intended (harness sanity; the model is fed the observed values)
    for f, want in (("t_size", r["s"]), ("t_align", r["a"]), ("t_tc", kd["tc"]), ("t_td", kd["td"]), ("t_nmc", kd["nmc"]),
                    ("t_nma", kd["nma"]), ("t_nsw", kd["nsw"])):
        expect("descriptor", f, want, "element type of kind %s" % r["kind"])
    # is_trivially_relocatable truth table
    decl = kd["decl"]
    tr = int(decl) if decl is not None else r["t_tc"]
    expect("trait", "t_tr", tr, "declared %s, trivially copyable %d" % (decl, r["t_tc"]))
    T = r["t_tr"]
    for f, want, why in (("p_TT", T, "pair<T,T> iff T"), ("p_Ti", T, "pair<T,int> iff T"), ("p_Tn", 0, "pair<T,NT>: NT is not relocatable"),
                         ("p_Td", T, "pair<TD,T> iff T (TD declared)"), ("p_nest", T, "pair<pair<T,int>,T> iff T"),
                         ("p_nn", 0, "pair<NT,NT>")):
        expect("pair", f, want, why)
    # layout
    if r["sv_size"] >= 0:
        if N * s <= PTR:
            if r["sv_size"] > r["v_size"]:
                bad.append(("layout_small", "sv_size", "N*sizeof(T) = %d <= sizeof(void*): sizeof(SmallVector) <= sizeof(vector) = %d"
                            % (N * s, r["v_size"]), r["v_size"], r["sv_size"]))
        else:
            lim = r["v_size"] + N * s + PAD
            if r["sv_size"] > lim:
                bad.append(("layout_large", "sv_size", "sizeof(SmallVector) <= sizeof(vector) + N*sizeof(T) + %d = %d" % (PAD, lim),
                            lim, r["sv_size"]))
        if N >= 1 and r["sv_size"] < 2 * r["w"] + N * s:
            bad.append(("layout_holds", "sv_size", "sizeof(SmallVector) >= 2*sizeof(size_type) + N*sizeof(T)", 2 * r["w"] + N * s,
                        r["sv_size"]))
    # FixedCapacityVector
    if r["f_size"] >= 0:
        sb = smallest_bytes(N)
        expect("size_type", "f_stsize", sb, "smallest unsigned type able to hold N = %d" % N)
        expect("fcv_triv_dtor", "f_td", r["t_td"], "trivially destructible iff T is")
        lo = 2 * sb + N * s
        hi = lo + 2 * max(r["t_align"], sb)
        if not (lo <= r["f_size"] <= hi):
            bad.append(("layout_fcv", "f_size", "2*sizeof(size_type) + N*sizeof(T) <= sizeof(FixedCapacityVector) <= that + 2*max(align, "
                        "sizeof(size_type)): [%d, %d]" % (lo, hi), lo, r["f_size"]))
        expect("container_tr", "f_tr", T, "FixedCapacityVector iff T")
        expect("noexcept", "f_mc", int(bool(T or r["t_nmc"])), "move ctor: T relocatable or nothrow move constructible")
        expect("noexcept", "f_ma", int(bool(T or (r["t_nmc"] and r["t_nma"]))), "move assign: T relocatable or nothrow move ctor+assign")
        for f in ("f_sw", "f_fsw"):
            expect("noexcept", f, int(bool(r["t_nmc"] and r["t_nsw"])), "swap: nothrow move constructible and nothrow swappable")
    # amc::vector
    expect("container_tr", "v_tr", 1, "amc::vector is always relocatable")
    for f in ("v_mc", "v_ma", "v_sw", "v_fsw"):
        expect("noexcept", f, 1, "amc::vector (N = 0): always noexcept")
    # SmallVector
    if r["sv_size"] >= 0:
        z = N == 0
        expect("container_tr", "sv_tr", 1 if z else T, "SmallVector iff T (N = 0: amc::vector)")
        expect("noexcept", "sv_mc", int(bool(z or T or r["t_nmc"])), "move ctor: N == 0 or T relocatable or nothrow move constructible")
        expect("noexcept", "sv_ma", int(bool(z or T or (r["t_nmc"] and r["t_nma"]))), "move assign: N == 0 or T relocatable or nothrow move ctor+assign")
        for f in ("sv_sw", "sv_fsw"):
            expect("noexcept", f, int(bool(z or (r["t_nmc"] and r["t_nsw"]))), "swap: N == 0 or nothrow move constructible and swappable")
    # sets: conjunction of the parts
    expect("container_tr", "fs_def", 1, "FlatSet<T>: std::less and amc::vector are relocatable")
    expect("container_tr", "fs_ncmp", 0, "FlatSet with a non relocatable comparator")
    expect("container_tr", "fs_dcmp", 1, "FlatSet with a comparator declared relocatable")
    if r["fs_sv"] >= 0:
        expect("container_tr", "fs_sv", r["sv_tr"], "FlatSet over SmallVector iff the SmallVector")
        expect("container_tr", "fs_sv_ncmp", 0, "FlatSet over SmallVector, non relocatable comparator")
    if r["fs_fcv"] >= 0:
        expect("container_tr", "fs_fcv", r["f_tr"], "FlatSet over FixedCapacityVector iff the FixedCapacityVector")
        expect("container_tr", "fs_fcv_ncmp", 0, "FlatSet over FixedCapacityVector, non relocatable comparator")
    if r["ss_std"] >= 0:
        expect("container_tr", "ss_std", 0, "SmallSet over std::set (not relocatable)")
        expect("container_tr", "ss_fs", T, "SmallSet over FlatSet iff T")
        expect("container_tr", "ss_fs_ncmp", 0, "SmallSet over FlatSet with a non relocatable comparator")
        expect("container_tr", "ss_fs_dcmp", T, "SmallSet over FlatSet with a declared comparator iff T")
    return bad


def expected_legal(G, r, std):
    """Which optional groups must have been printed (-1 otherwise): harness sanity."""
    key = (r["kind"], r["s"], r["a"], r["N"], r["st"])
    sets = G.sets_on(key)
    sv, fcv = G.sv_legal(r["N"], r["st"]), G.fcv_legal(r["N"])
    ss = G.ss_legal(r["N"]) and sets and std in ("c++17", "c++20", "c++23")
    bad = []
    for f, legal in (("sv_size", sv), ("f_size", fcv), ("fs_sv", sv and sets), ("fs_fcv", fcv and sets), ("ss_std", ss)):
        if (r[f] >= 0) != bool(legal):
            bad.append(f)
    return bad


def instance_name(G, r):
    return "T = probe::E<%d,%d,%s>, N = %d, size_type = %s" % (r["s"], r["a"], r["kind"], r["N"], G.ST[r["st"]][1])


def n_class(r):
    N, s = r["N"], r["t_size"]
    if N == 0:
        return "0"
    if N * s <= PTR:
        return "fits"
    return "inline" if N <= 64 else "large"


# ---------------------------------------------------------------------------------------------------------------

def check(report, tier):
    G = _gen()
    ok, broken = coqbuild.check_property("C17", report)
    rows = G.matrix(tier)
    obs_fields = _obs_fields(G)
    stds = STDS.get(tier, STDS["quick"])
    evaluations = 0
    timings = {}
    failures = {}      # (std, source, class) -> list of (row, field, why, expected, observed)
    probe_errors = []
    model_errors = []
    all_rows = []
    for std in stds:
        parsed, err, secs, cached = run_probe(G, rows, std, tier)
        timings["probe_%s_s" % std] = round(secs, 1)
        timings["probe_%s_cached" % std] = cached
        if err:
            probe_errors.append((std, err))
            continue
        for r in parsed:
            for f in expected_legal(G, r, std):
                failures.setdefault((std, "oracle", "legality"), []).append((r, f, "group printed / skipped as the generator intended", None, r[f]))
            for cls, f, why, want, got in oracle(G, r, std):
                failures.setdefault((std, "oracle", cls), []).append((r, f, why, want, got))
        mism, merr, msecs = coq_eval(G, parsed, std)
        timings["model_%s_s" % std] = round(msecs, 1)
        if merr:
            model_errors.append((std, merr))
        byid = {r["id"]: r for r in parsed}
        for rid, pred in sorted(mism.items()):
            r = byid[rid]
            diffs = [(f, p, r[f]) for f, p in zip(obs_fields, pred) if p != r[f]]
            f, p, o = diffs[0] if diffs else ("?", None, None)
            failures.setdefault((std, "model", f.split("_")[0] + ":" + f), []).append(
                (r, f, "Coq model (Static.predict) = %s; all differing fields: %s" % (p, ", ".join("%s model=%s compiler=%s" % d for d in diffs)), p, o))
        evaluations += len(parsed)
        all_rows.append((std, parsed))

    any_row_failure = bool(failures)
    for (std, source, cls), items in sorted(failures.items()):
        r, f, why, want, got = items[0]
        payload = {
            "check": cls, "source": "direct oracle on the compiler's constants" if source == "oracle" else "Coq model vs compiler",
            "std": std, "instance": instance_name(G, r), "row": {k: r[k] for k in sorted(r)},
            "field": f, "statement": why, "expected": want, "observed": got,
            "failing_rows": len(items),
            "more_rows": [{"instance": instance_name(G, x[0]), "field": x[1], "expected": x[3], "observed": x[4]} for x in items[1:6]],
            "broken": ["C17 %s: %s" % (cls, why)] + broken,
            "replay_cmd": "python3 -c \"from lib import c17; c17.replay_row(%r, %d, %d, %d, %r, %r)\"" % (r["kind"], r["s"], r["a"], r["N"], r["st"], std),
        }
        text = "C17 %s [%s, -std=%s] %s: %s -- field %s expected %s observed %s (%d rows fail)" % (
            cls, source, std, instance_name(G, r), why, f, want, got, len(items))
        report.violation(payload, text, no_failing_input=False)
    for std, err in probe_errors:
        report.violation({"broken": ["the C17 probe does not build / run against the current headers (-std=%s)" % std] + broken,
                          "std": std, "error": err[-3000:]},
                         "C17 probe failed for -std=%s: %s" % (std, err[-1500:]), no_failing_input=True)
    for std, err in model_errors:
        if ok:   # otherwise reported below as a broken build
            report.violation({"broken": ["Coq evaluation of the probe rows failed (-std=%s): %s" % (std, err)], "std": std},
                             "C17 model evaluation failed for -std=%s: %s" % (std, err), no_failing_input=True)
    if not ok:
        names = "; ".join(broken)
        report.violation({"broken": broken, "direct_oracle_rows": evaluations, "direct_oracle_failures": len(failures),
                          "note": "the Coq development for C17 does not check" + ("" if any_row_failure else "; every row passes the direct oracle")},
                         "C17 Coq obligations are broken: %s" % names[:1500], no_failing_input=not any_row_failure)

    # coverage
    distinct = set()
    baseline = {}
    samples = []
    for std, parsed in all_rows:
        for r in parsed:
            if r["kind"] == "triv" and r["s"] == 1 and r["a"] == 1 and r["N"] == 0:
                baseline[(std, r["st"])] = tuple(r[f] for f in obs_fields)
        for r in parsed:
            b = baseline.get((std, r["st"]))
            vec = tuple(r[f] for f in obs_fields)
            if b is None or vec != b:
                distinct.add((r["kind"], r["s"], r["a"], n_class(r), r["st"]))
        for r in parsed[:: max(1, len(parsed) // 4)][:4]:
            samples.append({"std": std, "instance": instance_name(G, r),
                            "constants": {f: r[f] for f in ("t_tr", "v_size", "sv_size", "f_size", "f_stsize", "f_td", "sv_mc", "sv_ma", "sv_sw", "fs_ncmp", "ss_fs")}})
    report.coverage.update({
        "evaluations": evaluations,
        "rows_per_std": len(rows),
        "stds": stds,
        "fields_per_row": len(obs_fields),
        "distinct_nontrivial": len(distinct),
        "rule": "distinct (kind, sizeof T, alignof T, N-class in {0, fits a pointer, inline <= 64, large}, size_type) among the rows "
                "whose vector of compiler constants differs from the baseline instance (trivial 1-byte element, N = 0, same size_type, same -std)",
        "samples": samples[:8],
        "exhaustive": False,
        "matrix": "%d (size,align) shapes x %d element kinds x N in 0..40 + {254,255,256,65534,65535,65536} x 4 size types (subset: see c17probe_gen.matrix)"
                  % (len(G.SHAPES), len(G.KINDS)),
        "timings": timings,
        "model_mismatch_rows": sum(len(v) for k, v in failures.items() if k[1] == "model"),
        "oracle_failed_rows": sum(len(v) for k, v in failures.items() if k[1] == "oracle"),
    })
    report.coverage["trusted_base"] = coqbuild.TRUSTED_BASE + [
        "g++ 12 as the decision procedure of every instance (sizeof, alignof, std type traits, the noexcept operator), LP64",
        "harness/cpp/c17probe_gen.py: the element kinds are what their names say (checked: the std traits of T are compared with the intended ones, class 'descriptor')",
        "lib/c17.py: the transcription of the probe rows into .cache/c17/Rows_*.v and the parsing of coqc's output",
    ]
    report.assumptions.append("C17 layout theorems: LP64 (sizeof(void*) = 8), Itanium C++ ABI, alignof T in {1,2,4,8,16}, sizeof(size_type) in {1,2,4,8}; "
                              "other platforms are outside the model (the probe would disagree with it)")
    al = [(std, ALLOC_LINES.get(std)) for std in stds if ALLOC_LINES.get(std)]
    if al:
        report.coverage["allocator_part"] = {std: a for std, a in al}
        std, a = al[0]
        if a["alloc_tr"] == 0 and (a["vector_tr"] or a["smallvector_tr"]):
            txt = ("amc::is_trivially_relocatable<probe::SelfAlloc<int>> = %d (stateful allocator storing a pointer to itself), yet "
                   "amc::vector<int,SelfAlloc<int>> claims %d (sizeof %d: the allocator is stored in the object), amc::SmallVector<int,4,SelfAlloc<int>> %d, "
                   "amc::FlatSet<int,std::less<int>,SelfAlloc<int>> %d (-std=%s)"
                   % (a["alloc_tr"], a["vector_tr"], a["sizeof_vector"], a["smallvector_tr"], a["flatset_tr"], std))
            known = [k for k in C.load_known() if k.get("kind") == "finding" and "C17" in k.get("properties", []) and k.get("id") == "allocator-not-part-of-trait"]
            if known:
                report.known_finding("%s: %s" % (known[0]["site"], known[0]["failure"]))
                report.notes.append("known finding observed: " + txt)
            else:
                report.violation({"instance": "probe::SelfAlloc<int>", "observed": a, "expected": "a container whose stored allocator is not trivially relocatable does not claim the trait",
                                  "found_by": "compiler-probe", "no_failing_input_found": False}, "trivially_relocatable typedef ignores the allocator part: " + txt)
    report.level = "proof"


def replay_row(kind, s, a, N, st, std="c++17"):
    """Re-decide one instance with the compiler against the current tree and print the failed statements."""
    G = _gen()
    key = (kind, s, a, N, st)
    d = os.path.join(ROOT, "replay")
    os.makedirs(d, exist_ok=True)
    src = os.path.join(d, "row.cpp")
    with open(src, "w") as f:
        f.write(G.generate([key], 1)[0])
    rc, so, se = C.run(["g++", "-std=" + std] + CXXFLAGS + ["-I" + os.path.join(C.REPO, "include"), src, "-o", os.path.join(d, "row")], timeout=600)
    if rc != 0:
        print((so + se)[-3000:])
        print("VIOLATION property=C17 replay=(probe does not build) no-failing-input-found")
        return 1
    rc, so, se = C.run([os.path.join(d, "row")], timeout=60)
    r = G.parse(so, [key])[0]
    print(json.dumps(r, sort_keys=True))
    bad = oracle(G, r, std)
    for cls, f, why, want, got in bad:
        print("  FAIL %s: %s -- %s expected %s observed %s" % (cls, why, f, want, got))
    if bad:
        print("VIOLATION property=C17 replay=(replayed)")
        return 1
    print("replay passes on the current tree")
    return 0
