"""Shared plumbing for the checks: paths, subprocesses, evidence, replays, known findings."""
import fcntl
import hashlib
import json
import os
import subprocess
import sys
import time

VERIF = os.path.dirname(os.path.dirname(os.path.abspath(__file__)))
REPO = os.environ.get("AMC_REPO", "/repo")
CACHE = os.path.join(VERIF, ".cache")
# evidence/ describes /repo itself: a run against another tree (AMC_REPO, used to try the checks on seeded changes) writes elsewhere
# (so does a soak run with another generator seed than the registered commands use: VERIF_EVIDENCE_ALT=1)
EVIDENCE = os.path.join(VERIF, "evidence") if (REPO == "/repo" and not os.environ.get("VERIF_EVIDENCE_ALT")) else os.path.join(CACHE, "alt-evidence")
REPLAYS = os.path.join(VERIF, "replays")
NCPU = min(16, os.cpu_count() or 4)


def seed():
    try:
        return int(os.environ.get("VERIF_SEED", "1"))
    except ValueError:
        return 1


def run(cmd, timeout=600, cwd=None, env=None, stdin=None):
    """Run a command, return (exit code, stdout, stderr); a timeout is reported as exit code 124."""
    try:
        p = subprocess.run(cmd, cwd=cwd, env=env, input=stdin, stdout=subprocess.PIPE, stderr=subprocess.PIPE,
                           timeout=timeout, universal_newlines=True, errors="replace")
        return p.returncode, p.stdout, p.stderr
    except subprocess.TimeoutExpired as e:
        out = e.stdout.decode(errors="replace") if isinstance(e.stdout, bytes) else (e.stdout or "")
        err = e.stderr.decode(errors="replace") if isinstance(e.stderr, bytes) else (e.stderr or "")
        return 124, out, err + "\nTIMEOUT after %ss" % timeout


class Lock:
    """Inter-process lock (checks may be started concurrently)."""

    def __init__(self, name):
        os.makedirs(CACHE, exist_ok=True)
        self.path = os.path.join(CACHE, name + ".lock")

    def __enter__(self):
        self.f = open(self.path, "w")
        fcntl.flock(self.f, fcntl.LOCK_EX)
        return self

    def __exit__(self, *a):
        fcntl.flock(self.f, fcntl.LOCK_UN)
        self.f.close()


def sha_of_files(paths, extra=""):
    h = hashlib.sha256()
    h.update(extra.encode())
    for p in sorted(paths):
        h.update(p.encode())
        try:
            with open(p, "rb") as f:
                h.update(f.read())
        except OSError:
            h.update(b"<missing>")
    return h.hexdigest()[:16]


def repo_headers():
    d = os.path.join(REPO, "include", "amc")
    return [os.path.join(d, f) for f in sorted(os.listdir(d))]


def write_json(path, obj):
    os.makedirs(os.path.dirname(path), exist_ok=True)
    tmp = path + ".tmp%d" % os.getpid()
    with open(tmp, "w") as f:
        json.dump(obj, f, indent=1, sort_keys=True)
        f.write("\n")
    os.replace(tmp, path)


def write_replay(prop, payload):
    """Write a replay file, named by the hash of its content; returns the path."""
    os.makedirs(REPLAYS, exist_ok=True)
    payload = dict(payload)
    payload["property"] = prop
    txt = json.dumps(payload, indent=1, sort_keys=True)
    name = "%s-%s.json" % (prop, hashlib.sha256(txt.encode()).hexdigest()[:8])
    path = os.path.join(REPLAYS, name)
    with open(path, "w") as f:
        f.write(txt + "\n")
    return path


def load_known():
    p = os.path.join(VERIF, "known_findings.json")
    if not os.path.exists(p):
        return []
    with open(p) as f:
        return json.load(f).get("findings", [])


class Report:
    """Collects what a check run did and produces the evidence file, the VIOLATION / KNOWN-FINDING lines and the exit code."""

    def __init__(self, prop, tier):
        self.prop = prop
        self.tier = tier
        self.t0 = time.time()
        self.violations = []   # (replay path, text, no_input)
        self.known = []        # text
        self.coverage = {}
        self.assumptions = []
        self.level = "proof"
        self.notes = []

    def violation(self, replay_payload, text, no_failing_input=False):
        path = write_replay(self.prop, replay_payload)
        self.violations.append((path, text, no_failing_input))

    def known_finding(self, text):
        if text not in self.known:
            self.known.append(text)

    def finish(self):
        ev = {
            "property_id": self.prop,
            "tier": self.tier,
            "seed": seed(),
            "level": self.level,
            "coverage": self.coverage,
            "assumptions": self.assumptions,
            "wall_s": round(time.time() - self.t0, 2),
            "violations": len(self.violations),
        }
        if self.known:
            ev["coverage"]["known_findings_reported"] = self.known
        if self.notes:
            ev["coverage"]["notes"] = self.notes
        write_json(os.path.join(EVIDENCE, self.prop + ".json"), ev)
        for k in self.known:
            print("KNOWN-FINDING: property=%s %s" % (self.prop, k))
        seen = set()
        for path, text, noinp in self.violations:
            if path in seen:
                continue
            seen.add(path)
            print("  " + text.replace("\n", "\n  "))
            print("VIOLATION property=%s replay=%s%s" % (self.prop, path, " no-failing-input-found" if noinp else ""))
        sys.stdout.flush()
        return 1 if self.violations else 0
