"""C13 - swap2 exchanges contents between any two vector flavours, or fails cleanly.
Proof: coq/Properties_C13.v over coq/Swap2Model.v ([swap2x c1 c2] between two DIFFERENT configurations), whose range guard is
proved equal to the swap_sizetype regenerated from the source under four language standards (coq/SwapGuardTV.v).
Tie: the cross-type driver (harness/cpp/swap2drv.cpp: 8 vector types x 8, operands built in 6 storage states, two element
categories, identity/ledger oracles) runs the real swap2; for every case the extracted [swap2x] is run on the size words the
driver observed BEFORE the call and must predict the outcome (ok / which exception), the size words, storage class,
capacity() and size() of both operands AFTER the call, and the allocator requests made by the call."""
import os
import tempfile

from . import common as C
from . import coqbuild, extract, swap2run

CAT = {"NTR": "NTR", "TR": "TR"}
U32 = 2 ** 32 - 1
# driver type name -> flavour:N:M:signed:<cat>:alloc   (FixedCapacityVector<T,N>: size_type uint8_t, no allocator)
MCFG = {
    "Vu32": ("vec", 0, U32, 0, "led"), "Vu8": ("vec", 0, 255, 0, "led"), "S3u32": ("sv", 3, U32, 0, "led"),
    "S5u8": ("sv", 5, 255, 0, "led"), "S2s8": ("sv", 2, 127, 1, "led"), "S3alt": ("sv", 3, U32, 0, "ledr"),
    "F4": ("fcv", 4, 255, 0, "none"), "F7": ("fcv", 7, 255, 0, "none"),
}
FIELDS = ("_capa", "_size", "store", "capacity", "size")


def mcfg(name, cat):
    f, n, m, s, a = MCFG[name]
    return "%s:%d:%d:%d:%s:%s" % (f, n, m, s, cat, a)


def run_model(results):
    """results: dicts of swap2run.run_cases with preA/preB.  Returns dict hid -> {'res','postA','postB','al'}."""
    ok, exe = extract.build_runner("swap2mrun")
    if not ok:
        raise RuntimeError(exe)
    lines = []
    for r in results:
        if r.get("preA") is None or r.get("preB") is None:
            continue
        lines.append("%s %s %d %d %s %d %d" % (r["hid"], mcfg(r["A"], r["T"]), r["preA"]["_capa"], r["preA"]["_size"],
                                               mcfg(r["B"], r["T"]), r["preB"]["_capa"], r["preB"]["_size"]))
    with tempfile.NamedTemporaryFile("w", suffix=".s2m", dir=C.CACHE, delete=False) as f:
        f.write("\n".join(lines) + "\n")
        path = f.name
    try:
        rc, out, err = C.run([exe, path], timeout=900)
    finally:
        os.unlink(path)
    if rc != 0:
        raise RuntimeError("swap2 model runner failed: " + err[-2000:])
    res = {}
    for line in out.split("\n"):
        if not line.startswith("M "):
            continue
        parts = line.split(" | ")
        kv = dict(p.split("=", 1) for p in parts[1:])
        res[parts[0][2:]] = {"res": kv["res"], "postA": kv["postA"], "postB": kv["postB"], "al": kv["al"]}
    return res


def obs_str(o):
    return "-" if o is None else "%d,%d,%s,%d,%d" % tuple(o[k] for k in FIELDS)


def compare(results, model):
    """-> (differences, steps compared)."""
    diffs = []
    n = 0
    for r in results:
        m = model.get(r["hid"])
        if m is None or r["res"].startswith(("skip", "crash", "lost")):
            continue
        n += 1
        d = []
        if m["res"] != r["res"]:
            d.append(("res", r["res"], m["res"]))
        for side in ("postA", "postB"):
            if r.get(side) is not None and obs_str(r[side]) != m[side]:
                d.append((side, obs_str(r[side]), m[side]))
        if r.get("al", "-") != m["al"]:
            d.append(("al", r.get("al", "-"), m["al"]))
        if d:
            diffs.append({"case": r["case"], "preA": obs_str(r["preA"]), "preB": obs_str(r["preB"]), "diffs": d})
    return diffs, n


def known_match(r, msg, known):
    for k in known:
        if "C13" not in k.get("properties", []) or k.get("kind") == "fixed":
            continue
        m = k.get("match", {})
        if m.get("class") and m["class"] != swap2run.oracle_class(msg):
            continue
        if m.get("pairs") and "%s x %s" % (r["A"], r["B"]) not in m["pairs"]:
            continue
        return k
    return None


def check(report, tier, only_cases=None):
    ok, broken = coqbuild.check_property("C13", report, extra_files=("SwapGuardTV.v",))
    th = tier == "thorough"
    cases = list(only_cases) if only_cases is not None else list(swap2run.CASES("thorough" if th else "quick"))
    found = False
    try:
        results = swap2run.run_cases(cases)
    except RuntimeError as e:
        report.violation({"broken": ["driver build"], "compiler_output": str(e)[-3000:], "no_failing_input_found": True},
                         "swap2 driver does not build: " + str(e)[:400], True)
        results = []
        found = True
    known = C.load_known()
    summ = swap2run.summarize(results) if results else {"by_res": {}, "classes": {}, "failing_cases": 0}
    shown = set()
    for r in results:
        msgs = list(r["oracle"])
        if r.get("crash"):
            msgs.append("C13:%s; %s" % (swap2run.crash_class(r), swap2run.crash_where(r) or (r.get("stderr") or "").strip()[-300:]))
        for msg in msgs:
            k = known_match(r, msg, known)
            if k is not None:
                report.known_finding("%s: %s" % (k["id"], k["what"]))
                continue
            cls = swap2run.oracle_class(msg)
            found = True
            if cls in shown or len(shown) >= 6:
                continue
            shown.add(cls)
            report.violation({"case": r["case"], "oracle": msg, "res": r["res"], "preA": r["preA"], "preB": r["preB"],
                              "postA": r["postA"], "postB": r["postB"], "al": r.get("al"), "after": r.get("after"),
                              "stderr": (r.get("stderr") or "")[-1500:], "found_by": "cross-type swap2 driver", "no_failing_input_found": False},
                             "%s -> %s\n  preA=%s preB=%s postA=%s postB=%s\n  %s (%d cases of this class)"
                             % (r["case"], r["res"], obs_str(r["preA"]), obs_str(r["preB"]), swap2run._fmt_obs(r["postA"]), swap2run._fmt_obs(r["postB"]),
                                msg, summ["classes"].get(cls, {}).get("count", 1)))
    diffs, ncmp = [], 0
    if results:
        try:
            model = run_model(results)
            diffs, ncmp = compare(results, model)
        except RuntimeError as e:
            report.violation({"broken": ["extraction"], "output": str(e)[-3000:], "no_failing_input_found": True}, "swap2 model runner: " + str(e)[:400], True)
            found = True
    if diffs and not found:
        d = diffs[0]
        report.violation({"case": d["case"], "preA": d["preA"], "preB": d["preB"], "diffs": d["diffs"], "broken": ["corr:C13"],
                          "differences": len(diffs), "no_failing_input_found": True},
                         "correspondence: model swap2x and implementation disagree on %d cases (no oracle failed), first: %s  preA=%s preB=%s: %s"
                         % (len(diffs), d["case"], d["preA"], d["preB"], "; ".join("%s impl=%s model=%s" % x for x in d["diffs"])), True)
        found = True
    if broken and not found:
        report.violation({"broken": broken, "no_failing_input_found": True}, "proof obligations of C13 no longer check: " + "; ".join(broken)[:1200], True)
    pairs = set()
    states = set()
    for r in results:
        pairs.add((r["A"], r["B"], r["T"]))
        if r.get("preA") and r.get("preB"):
            states.add((r["A"], r["B"], r["preA"]["store"], r["preB"]["store"], r["res"]))
    samples = [{"case": r["case"], "res": r["res"], "preA": obs_str(r["preA"]), "preB": obs_str(r["preB"]), "postA": obs_str(r["postA"]), "postB": obs_str(r["postB"]), "al": r.get("al")}
               for r in results[:: max(1, len(results) // 5)][:5]]
    report.coverage.update({
        "evaluations": len(results), "results": summ["by_res"], "type_pairs_x_element_category": len(pairs),
        "distinct_nontrivial": len(states),
        "rule": "every ordered pair of 8 vector types (amc::vector / SmallVector / FixedCapacityVector; size types uint32_t, uint8_t, int8_t; "
                "two allocator types) x 2 element categories x operands built in the storage states fresh / grown / shrunk / reserved / cleared / "
                "adopted x key sizes {0,1,N-1,N,N+1} and the sizes around 127 and 255; distinct = (pair, storage class of both operands, outcome)",
        "samples": samples, "traces_validated_against_impl": ncmp, "correspondence_steps_compared": ncmp,
        "correspondence_fields": ["outcome", "_capa", "_size", "storage class", "capacity()", "size()", "allocator requests"],
        "correspondence_differences": len(diffs), "oracle_failure_classes": {k: v["count"] for k, v in summ["classes"].items()},
        "trusted_base": coqbuild.TRUSTED_BASE, "exhaustive": False,
    })
    report.assumptions.append("C13_swap2 is about the size words, path choice and exceptions of the model; the exchange of the elements is proved at slot level for "
                              "the element-wise path (C13_elements_*: Swap2Elems.swap2_elems = growth of either side + swap_deep, tied to the code through "
                              "the slot correspondence of swap_deep / relocation and the allocator requests compared here); for the buffer-exchange path "
                              "and over whole histories it is decided on the implementation by the identity ledger of the cross-type driver")
    report.level = "proof"


def replay(payload):
    """Re-run the recorded case against the current tree: exit code."""
    case = payload.get("case")
    if not case:
        print("replay file names no re-runnable case (broken obligation: %s)" % payload.get("broken"))
        return 0
    res = swap2run.run_cases([case])
    r = res[0]
    bad = list(r["oracle"]) + ([swap2run.crash_class(r)] if r.get("crash") else [])
    if not bad and payload.get("diffs"):
        d, _ = compare(res, run_model(res))
        bad = ["model/implementation differ: %s" % d[0]["diffs"]] if d else []
    print("  %s -> %s  preA=%s preB=%s postA=%s postB=%s" % (case, r["res"], obs_str(r["preA"]), obs_str(r["preB"]), obs_str(r["postA"]), obs_str(r["postB"])))
    for b in bad:
        print("  FAIL " + b)
    if bad:
        print("VIOLATION property=C13 replay=(replayed)")
        return 1
    print("replay passes on the current tree")
    return 0
