"""Script generators for the set driver (harness/cpp/setdrv.cpp): seeded random histories over a small key domain,
the complete hint enumeration of C12, the exhaustive (content, state) x operation sweep of SmallSet (C04 / C11),
the lookup sweep of C19 and bulk insertions with many equivalent elements.

Every random choice derives from one random.Random(seed).  The generators keep a small Python model of the pool
(contents in iteration order, inline / large state, node slots) only to emit calls that are mostly valid: the driver
skips a call whose precondition does not hold, the verdicts come from the driver's oracles, never from this model."""
import random

# name -> (group, kind 'FS'|'SS', N, backing, comparator kind, element category)
CONFIGS = {
    "FS.amc.less": (0, "FS", 0, "amc", "less", "int"),
    "FS.amc.greater": (0, "FS", 0, "amc", "greater", "int"),
    "FS.amc.transp": (0, "FS", 0, "amc", "transp", "int"),
    "FS.sv4.coarse": (1, "FS", 0, "sv4", "coarse", "int"),
    "FS.fcv16.mod": (1, "FS", 0, "fcv16", "mod", "int"),
    "FS.std.less": (1, "FS", 0, "std", "less", "int"),
    "FS.amc.less.NTR": (2, "FS", 0, "amc", "less", "NTR"),
    "FS.amc.less.TR": (2, "FS", 0, "amc", "less", "TR"),
    "SS.N1.set.less": (3, "SS", 1, "set", "less", "int"),
    "SS.N2.set.less": (3, "SS", 2, "set", "less", "int"),
    "SS.N3.set.less": (3, "SS", 3, "set", "less", "int"),
    "SS.N3.set.coarse": (4, "SS", 3, "set", "coarse", "int"),
    "SS.N4.set.mod": (4, "SS", 4, "set", "mod", "int"),
    "SS.N3.set.less.NTR": (4, "SS", 3, "set", "less", "NTR"),
    "SS.N3.flat.less": (5, "SS", 3, "flat", "less", "int"),
    "SS.N2.flat.greater": (5, "SS", 2, "flat", "greater", "int"),
    "FS.sv3.less.NTR": (6, "FS", 0, "sv3", "less", "NTR"),
    "FS.fcv16.less.NTR": (6, "FS", 0, "fcv16", "less", "NTR"),
    "FS.std.less.NTR": (6, "FS", 0, "std", "less", "NTR"),
    "SS.N3.flat.less.NTR": (7, "SS", 3, "flat", "less", "NTR"),
    "SS.N2.set.less.TR": (7, "SS", 2, "set", "less", "TR"),
    "SS.N3.flat.less.TR": (7, "SS", 3, "flat", "less", "TR"),
}
GROUPS = 8
K = 3
MOD = 5  # the driver constructs the stateful comparator as ModLess{5}

_KEYS = {
    "less": lambda x: x,
    "transp": lambda x: x,
    "greater": lambda x: -x,
    "coarse": lambda x: x // 3,
    "mod": lambda x: x % MOD,
}


class SCfg:
    def __init__(self, name):
        self.name = name
        self.group, self.kind, self.N, self.backing, self.cmp, self.cat = CONFIGS[name]
        self.key = _KEYS[self.cmp]
        self.cap = 16 if self.backing == "fcv16" else None   # FixedCapacityVector backed FlatSet
        self.flat = self.kind == "FS"
        self.transp = self.cmp == "transp"
        self.has_extract_pos = True
        self.instrumented = self.cat != "int"
        # the comparator of the temporary set used by merge_other
        self.other_key = _KEYS["less"] if self.cmp == "greater" else _KEYS["greater"]
        self.default_domain = {"less": 4, "transp": 4, "greater": 4, "coarse": 7, "mod": 5}[self.cmp]

    def norm(self, vals):
        """What a std::set with this comparator keeps of `vals` (first of equivalent elements), in its order."""
        seen = {}
        for v in vals:
            seen.setdefault(self.key(v), v)
        return [seen[k] for k in sorted(seen)]


def _vs(vals):
    return ",".join(map(str, vals)) if vals else "-"


class Model:
    """Contents of one set in iteration order, with the inline / large state of a SmallSet."""

    def __init__(self, cfg):
        self.cfg = cfg
        self.items = []
        self.large = False

    def copy(self):
        m = Model(self.cfg)
        m.items = list(self.items)
        m.large = self.large
        return m

    def ordered(self):
        return self.cfg.flat or self.large

    def find(self, v):
        k = self.cfg.key(v)
        for i, x in enumerate(self.items):
            if self.cfg.key(x) == k:
                return i
        return None

    def lb(self, v):
        k = self.cfg.key(v)
        return sum(1 for x in self.items if self.cfg.key(x) < k)

    def _sort(self):
        self.items.sort(key=self.cfg.key)

    def insert(self, v):
        if self.find(v) is not None:
            return False
        if self.cfg.cap is not None and len(self.items) >= self.cfg.cap:
            return False  # out_of_range, nothing changes
        if self.cfg.flat or self.large:
            self.items.append(v)
            self._sort()
        elif len(self.items) == self.cfg.N:
            self.items.append(v)
            self._sort()
            self.large = True
        else:
            self.items.append(v)
        return True

    def insert_range(self, vals):
        if self.cfg.cap is not None and len(self.items) + len(vals) > self.cfg.cap:
            return  # the underlying vector throws before changing anything
        for v in vals:
            self.insert(v)

    def _shrunk(self):
        if not self.items:
            self.large = False

    def erase_key(self, v):
        i = self.find(v)
        if i is None:
            return None
        x = self.items.pop(i)
        self._shrunk()
        return x

    def erase_at(self, i):
        x = self.items.pop(i)
        self._shrunk()
        return x

    def erase_range(self, i, j):
        del self.items[i:j]
        self._shrunk()

    def clear(self):
        self.items = []
        self.large = False

    def merge(self, o):
        if not self.cfg.flat and o.large and not self.large:
            self._sort()
            self.large = True
        for x in list(o.items):
            if self.insert(x):
                o.items.remove(x)
        o._shrunk()
        self._shrunk()


def model_of(cfg, vals):
    m = Model(cfg)
    m.insert_range(list(vals))
    return m


# ---------------------------------------------------------------------------------------------------------------
# Random histories

DEFAULT_WEIGHTS = {
    "insert": 8, "insert_rv": 3, "emplace": 4, "insert_hint": 6, "emplace_hint": 3, "insert_range": 4, "insert_il": 2,
    "extract_key": 3, "extract_pos": 2, "insert_node": 4, "insert_node_hint": 2, "erase_key": 6, "erase_pos": 4,
    "erase_range": 3, "clear": 1, "swap": 2, "copy_assign": 2, "move_assign": 3, "find": 3, "count": 2, "contains": 2,
    "lb": 2, "ub": 2, "eqr": 2, "find_het": 2, "merge": 4, "merge_other": 2, "cmp": 3, "walk": 2, "rwalk": 2,
    "erase_loop": 3, "ctor": 3, "dtor": 1, "assign_vector": 1, "steal_vector": 1, "assign_il": 1, "bulk": 1,
    "self_swap": 1, "self_copy_assign": 1,
}
_GROW = ("insert", "insert_rv", "emplace", "insert_hint", "emplace_hint", "insert_range", "insert_il", "insert_node", "merge")
_DRAIN = ("erase_key", "erase_pos", "erase_range", "erase_loop", "extract_key", "extract_pos", "clear")


def _ctor(rng, cfg, a, pool, dom):
    kinds = ["default", "range", "range", "il", "copy", "move"] + (["vector"] if cfg.flat else [])
    kind = rng.choice(kinds)
    others = [k for k in range(K) if k != a and pool[k] is not None]
    if kind in ("copy", "move") and not others:
        kind = "range"
    if kind == "default":
        return Model(cfg), "ctor_default %d" % a
    if kind in ("range", "il", "vector"):
        n = rng.choice([0, 1, 2, cfg.N, cfg.N + 1, cfg.N + 2, rng.randrange(0, 8)])
        if kind == "il":
            n = min(n, 8)
        vals = [rng.randrange(dom) for _ in range(n)]
        m = Model(cfg)
        if cfg.cap is not None and n > cfg.cap:
            return None, "ctor_range %d %s" % (a, _vs(vals))
        m.insert_range(vals)
        return m, "%s %d %s" % ({"range": "ctor_range", "il": "ctor_il", "vector": "from_vector"}[kind], a, _vs(vals))
    b = rng.choice(others)
    if kind == "copy":
        return pool[b].copy(), "ctor_copy %d %d" % (a, b)
    m = pool[b].copy()
    pool[b].clear()
    return m, "ctor_move %d %d" % (a, b)


def random_history(rng, cfg, length, weights=None, mask=(), inject_prob=0.0):
    """One history: list of script lines."""
    if cfg.flat:
        dom = rng.choice([12, 12, 12, 24])
    else:
        dom = rng.choice([cfg.N + 2, 6, 12, 12])
    pool = [None] * K
    node = [None] * K
    lines = []
    w = dict(weights or DEFAULT_WEIGHTS)
    for n in mask:
        w.pop(n, None)
    if cfg.flat:
        pass
    else:
        for n in ("lb", "ub", "eqr", "assign_vector", "steal_vector"):
            w.pop(n, None)
    if not cfg.transp:
        w.pop("find_het", None)
    if not cfg.has_extract_pos:
        w.pop("extract_pos", None)
    names = sorted(w)
    phase = "grow"

    def key_for(m):
        # biased so that keys are often present (or equivalent to a present one)
        if m.items and rng.random() < 0.5:
            e = rng.choice(m.items)
            return max(0, e + rng.choice([0, 0, 0, 1, -1, 2, -2]))
        return rng.randrange(dom)

    for k in range(K):
        if k == 0 or rng.random() < 0.8:
            pool[k], line = _ctor(rng, cfg, k, pool, dom)
            lines.append(line)
    for _ in range(length):
        if rng.random() < 0.12:
            phase = "drain" if phase == "grow" else "grow"
        wts = [w[n] * (3 if (phase == "grow" and n in _GROW) or (phase == "drain" and n in _DRAIN) else 1) for n in names]
        op = rng.choices(names, wts)[0]
        a = rng.randrange(K)
        if pool[a] is None:
            pool[a], line = _ctor(rng, cfg, a, pool, dom)
            lines.append(line)
            continue
        m = pool[a]
        sz = len(m.items)
        b = rng.choice([k for k in range(K) if k != a])
        pre = ""
        if inject_prob and rng.random() < inject_prob:
            pre = "!%d " % rng.randrange(0, 6)
        if op in ("insert", "insert_rv", "emplace"):
            v = key_for(m)
            lines.append("%s%s %d %d" % (pre, op, a, v))
            m.insert(v)
        elif op in ("insert_hint", "emplace_hint"):
            v = key_for(m)
            if m.ordered() and rng.random() < 0.5:
                h = m.lb(v)  # correct hint
            else:
                h = rng.choice([0, sz, rng.randrange(0, sz + 1)])
            lines.append("%s%s %d %d %d" % (pre, op, a, h, v))
            m.insert(v)
        elif op in ("insert_range", "insert_il"):
            n = rng.choice([0, 1, 2, 3, 4, 6])
            vals = [key_for(m) for _ in range(n)]
            lines.append("%s%s %d %s" % (pre, op, a, _vs(vals)))
            m.insert_range(vals)
        elif op == "bulk":
            n = rng.randrange(18, 30)
            vals = [rng.randrange(0, 30) for _ in range(n)]
            lines.append("insert_range %d %s" % (a, _vs(vals)))
            m.insert_range(vals)
        elif op == "extract_key":
            v = key_for(m)
            lines.append("extract_key %d %d" % (a, v))
            node[a] = m.erase_key(v)
        elif op == "extract_pos":
            if sz == 0:
                continue
            h = rng.randrange(sz)
            lines.append("extract_pos %d %d" % (a, h))
            node[a] = m.erase_at(h)
        elif op == "insert_node":
            nb = rng.randrange(K)
            lines.append("%sinsert_node %d %d" % (pre, a, nb))
            if node[nb] is not None and m.insert(node[nb]):
                node[nb] = None
        elif op == "insert_node_hint":
            nb = rng.randrange(K)
            v = node[nb]
            h = m.lb(v) if (v is not None and m.ordered() and rng.random() < 0.5) else rng.randrange(0, sz + 1)
            lines.append("%sinsert_node_hint %d %d %d" % (pre, a, nb, h))
            if v is not None and m.insert(v):
                node[nb] = None
        elif op == "erase_key":
            v = key_for(m)
            lines.append("erase_key %d %d" % (a, v))
            m.erase_key(v)
        elif op == "erase_pos":
            if sz == 0:
                continue
            h = rng.choice([0, sz - 1, rng.randrange(sz)])
            lines.append("erase_pos %d %d" % (a, h))
            m.erase_at(h)
        elif op == "erase_range":
            i = rng.choice([0, 0, rng.randrange(0, sz + 1)])
            j = rng.choice([i, sz, min(i + 1, sz), rng.randrange(i, sz + 1)])
            lines.append("erase_range %d %d %d" % (a, i, j))
            m.erase_range(i, j)
        elif op == "clear":
            lines.append("clear %d" % a)
            m.clear()
        elif op == "swap":
            if pool[b] is None:
                continue
            lines.append("swap %d %d" % (a, b))
            pool[a], pool[b] = pool[b], pool[a]
        elif op == "relocate":
            dead = [k for k in range(K) if pool[k] is None]
            if not dead:
                continue
            t = rng.choice(dead)
            lines.append("relocate %d %d" % (a, t))
            pool[t] = pool[a]
            pool[a] = None
        elif op == "self_swap":
            lines.append("swap %d %d" % (a, a))
        elif op == "self_copy_assign":
            lines.append("copy_assign %d %d" % (a, a))
        elif op == "copy_assign":
            if pool[b] is None:
                continue
            lines.append("%scopy_assign %d %d" % (pre, a, b))
            pool[a] = pool[b].copy()
        elif op == "move_assign":
            if pool[b] is None:
                continue
            lines.append("move_assign %d %d" % (a, b))
            pool[a] = pool[b].copy()
            pool[b].clear()
        elif op in ("find", "count", "contains", "lb", "ub", "eqr", "find_het"):
            lines.append("%s %d %d" % (op, a, key_for(m)))
        elif op == "merge":
            if pool[b] is None:
                continue
            lines.append("%smerge %d %d" % (pre, a, b))
            m.merge(pool[b])
        elif op == "merge_other":
            n = rng.choice([0, 1, 2, 3, 5])
            vals = [key_for(m) for _ in range(n)]
            lines.append("merge_other %d %s" % (a, _vs(vals)))
            m.insert_range(vals)
        elif op == "cmp":
            if pool[b] is None:
                continue
            lines.append("cmp %d %d" % (a, b))
        elif op in ("walk", "rwalk"):
            lines.append("%s %d" % (op, a))
        elif op == "erase_loop":
            kd = rng.choice([1, 2, 2, 3, 3, 5])
            lines.append("erase_loop %d %d" % (a, kd))
            for x in [x for x in m.items if x % kd == 0]:
                m.erase_key(x)
        elif op == "assign_vector":
            n = rng.randrange(0, 7)
            vals = [rng.randrange(dom) for _ in range(n)]
            lines.append("assign_vector %d %s" % (a, _vs(vals)))
            m.clear()
            m.insert_range(vals)
        elif op == "assign_il":
            n = rng.randrange(0, 6)
            vals = [rng.randrange(dom) for _ in range(n)]
            lines.append("assign_il %d %s" % (a, _vs(vals)))
            m.clear()
            m.insert_range(vals)
        elif op == "steal_vector":
            lines.append("steal_vector %d" % a)
            m.clear()
        elif op == "ctor":
            pool[a], line = _ctor(rng, cfg, a, pool, dom)
            lines.append(line)
        elif op == "dtor":
            lines.append("dtor %d" % a)
            pool[a] = None
    return lines


def random_script(cfg, seed, histories, length, **kw):
    rng = random.Random("%s/%s" % (seed, cfg.name))
    out = []
    for h in range(histories):
        out.append("H r%d" % h)
        out.extend(random_history(rng, cfg, length, **kw))
    return out


def throw_grid(cfg, kmax=7, thorough=False):
    """C09 for the sets, systematically: every operation that constructs, copies or moves elements or allocates, from a few
    (target, source) contents on both sides of N, with the k-th throwing event (element construction / copy / allocator call) made
    to throw for every k < kmax, followed by uses of every set involved (lookups of every key, walk, insert, merge, erase)."""
    n = cfg.N if not cfg.flat else 3
    small = [1, 5, 9][:max(1, min(3, n))]
    big = [2 * i + 2 for i in range(max(n + 2, 6))]
    if cfg.cap is not None:
        big = big[:max(2, cfg.cap - 3)]
    targets = [[], small, big]
    sources = [[0, 8, 10][:max(1, min(3, n))], [3, 5, 7, 20, 21, 22, 23, 24][:len(big)] if cfg.cap is not None else [3, 5, 7, 20, 21, 22, 23, 24]]
    sources.append(([5, 1, 12] + [13, 14, 15, 16])[:max(2, min(n, 7))])   # shares elements with the small target, other order
    if thorough:
        targets.append([11, 3, 7] if not cfg.flat else [4, 40, 41, 42, 43])
        sources.append(list(range(30, 30 + n + 1)))
    out = []
    hid = 0
    for ti, t in enumerate(targets):
        for si, src in enumerate(sources):
            ops = ["copy_assign 0 1", "move_assign 0 1", "merge 0 1", "merge 1 0", "swap 0 1", "ctor_copy 2 1", "ctor_move 2 1",
                   "insert_range 0 %s" % _vs(src), "insert_il 0 %s" % _vs(src), "assign_il 0 %s" % _vs(src), "ctor_range 2 %s" % _vs(src),
                   "ctor_il 2 %s" % _vs(src[:8]), "merge_other 0 %s" % _vs(src),
                   "insert 0 %d" % src[0], "insert 0 %d" % (src[-1] + 50), "insert_rv 0 %d" % src[-1], "emplace 0 %d" % src[0],
                   "insert_hint 0 0 %d" % src[0], "emplace_hint 0 %d %d" % (len(t), src[-1] + 50), "extract_key 0 %d" % (t[0] if t else 1),
                   "erase_key 0 %d" % (t[0] if t else 1), "erase_pos 0 0" if t else "clear 0", "erase_range 0 0 %d" % min(2, len(t))]
            if cfg.flat:
                ops += ["assign_vector 0 %s" % _vs(src), "from_vector 2 %s" % _vs(src), "steal_vector 1"]
            # node handles: the element extracted from set 1 is inserted into set 0 (a failed insertion leaves it in the node)
            ops += [("extract_key 1 %d" % src[0], "insert_node 0 1"), ("extract_key 1 %d" % src[-1], "insert_node_hint 0 1 0"),
                    ("extract_key 1 %d" % src[0], "insert_node_hint 0 1 %d" % len(t))]
            for op in ops:
                pre_op = None
                if isinstance(op, tuple):
                    pre_op, op = op
                for k in range(kmax):
                    out.append("H tg%d.%d.%d.%d" % (ti, si, hid, k))
                    out.append("ctor_range 0 %s" % _vs(t))
                    out.append("ctor_range 1 %s" % _vs(src))
                    if pre_op:
                        out.append(pre_op)
                    out.append("!%d %s" % (k, op))
                    # the sets are still sets, and usable
                    for key in sorted(set(t + src))[:6]:
                        out.append("find 0 %d" % key)
                    out.append("walk 0")
                    out.append("walk 1")
                    out.append("insert 0 4")
                    out.append("merge 1 0")
                    out.append("erase_key 1 %d" % src[0])
                    out.append("cmp 0 1")
                hid += 1
    return out


def bulk_script(cfg, seed, cases):
    """Bulk insertions of 18..40 values holding many equivalent elements (the representative kept must be the one
    std::set keeps: the first of the range, or the element already present)."""
    rng = random.Random("bulk/%s/%s" % (seed, cfg.name))
    out = []
    for c in range(cases):
        out.append("H b%d" % c)
        dom = rng.choice([12, 20, 30, 45])
        n = rng.randrange(18, 41)
        npre = rng.choice([0, 2, 5, 9])
        if cfg.cap is not None:  # mostly within the fixed capacity, sometimes beyond (out_of_range)
            n = rng.randrange(cfg.cap - 8, cfg.cap + 3)
            npre = rng.choice([0, 0, 2])
        vals = [rng.randrange(dom) for _ in range(n)]
        pre = [rng.randrange(dom) for _ in range(npre)]
        kind = rng.choice(["ctor_range", "insert_range", "insert_range"] + (["from_vector", "assign_vector"] if cfg.flat else []))
        if kind in ("ctor_range", "from_vector"):
            out.append("%s 0 %s" % (kind, _vs(vals)))
        else:
            out.append("ctor_range 0 %s" % _vs(pre))
            out.append("%s 0 %s" % (kind, _vs(vals)))
        out.append("walk 0")
        out.append("insert_range 0 %s" % _vs([rng.randrange(dom) for _ in range(rng.randrange(17, 26) if cfg.cap is None else rng.randrange(4, 12))]))
        out.append("ctor_copy 1 0")
        out.append("cmp 0 1")
    return out


# ---------------------------------------------------------------------------------------------------------------
# C12: complete enumeration of contents x hints x values

def hint_enumeration(cfg, k=6):
    """All subsets of {1,3,..,2k-1} x all hint positions x all values 0..2k+1, for insert_hint and emplace_hint.
    One history per subset; the set is rebuilt before every case."""
    keys = [2 * i + 1 for i in range(k)]
    values = list(range(0, 2 * k + 2))
    out = []
    for mask in range(1 << k):
        sub = [keys[i] for i in range(k) if mask >> i & 1]
        if mask % 3 == 1:
            sub.reverse()  # the construction order must not matter
        elif mask % 3 == 2:
            sub = sub[1::2] + sub[0::2]
        n = len(cfg.norm(sub))
        out.append("H h%d" % mask)
        for op in ("insert_hint", "emplace_hint"):
            for h in range(n + 1):
                for v in values:
                    out.append("ctor_range 0 %s" % _vs(sub))
                    out.append("%s 0 %d %d" % (op, h, v))
    return out


# ---------------------------------------------------------------------------------------------------------------
# C04 / C11: every reachable (content, state) of a SmallSet x every single operation with every argument

def _fillers(cfg, vals, count):
    used = set(cfg.key(v) for v in vals)
    out = []
    v = 50
    while len(out) < count and v < 400:
        if cfg.key(v) not in used:
            used.add(cfg.key(v))
            out.append(v)
        v += 1
    return out if len(out) == count else None


def build_state(cfg, k, vals, mode):
    """Lines that put set k into the state (content = vals, mode) and its model, or None when unreachable.
    modes: 'asc' / 'desc' (inserted one by one in that order), 'large' (grown beyond N with foreign keys which are then
    erased: large state with few elements, or drained back to an empty inline set), 'refill' (grown, cleared, refilled)."""
    m = Model(cfg)
    lines = ["ctor_default %d" % k]

    def ins(v):
        lines.append("insert %d %d" % (k, v))
        m.insert(v)

    if mode in ("asc", "desc"):
        if mode == "desc" and len(vals) < 2:
            return None
        for v in (vals if mode == "asc" else list(reversed(vals))):
            ins(v)
    elif mode == "large":
        if len(vals) > cfg.N:
            return None
        f = _fillers(cfg, vals, cfg.N + 1 - len(vals))
        if f is None:
            return None
        for v in vals:
            ins(v)
        for v in f:
            ins(v)
        for v in f:
            lines.append("erase_key %d %d" % (k, v))
            m.erase_key(v)
    elif mode == "refill":
        f = _fillers(cfg, [], cfg.N + 1)
        if f is None:
            return None
        for v in f:
            ins(v)
        lines.append("clear %d" % k)
        m.clear()
        for v in vals:
            ins(v)
    else:
        raise ValueError(mode)
    return lines, m


def smallset_states(cfg, domain, modes=("asc", "desc", "large", "refill"), slot=0):
    out = []
    for mask in range(1 << domain):
        vals = [v for v in range(domain) if mask >> v & 1]
        if len(set(cfg.key(v) for v in vals)) != len(vals):
            continue
        for mode in modes:
            b = build_state(cfg, slot, vals, mode)
            if b is not None:
                out.append((vals, mode, b[0], b[1]))
    return out


def smallset_exhaustive(cfg, domain=None, pairs=True):
    """SmallSet configurations only: every reachable (content, state) over the key domain 0..domain-1 x every single
    operation with every argument (each key, each position), walks and erase loops; with pairs=True also every ordered
    pair of states x the two-set operations."""
    if cfg.kind != "SS":
        return []
    if domain is None:
        domain = cfg.default_domain
    probes = list(range(domain + 1))
    out = []
    hid = 0
    states = smallset_states(cfg, domain)
    for vals, mode, pre, m in states:
        n = len(m.items)
        ops = []
        for v in probes:
            for o in ("insert", "insert_rv", "emplace", "erase_key", "find", "count", "contains", "extract_key"):
                ops.append(["%s 0 %d" % (o, v)])
            for h in range(n + 1):
                ops.append(["insert_hint 0 %d %d" % (h, v)])
                ops.append(["emplace_hint 0 %d %d" % (h, v)])
            node = ["ctor_range 1 %d" % v, "extract_key 1 %d" % v]
            ops.append(node + ["insert_node 0 1"])
            for h in sorted(set([0, n])):
                ops.append(node + ["insert_node_hint 0 1 %d" % h])
        ops.append(["ctor_default 1", "extract_key 1 0", "insert_node 0 1"])  # empty node
        for h in range(n):
            ops.append(["erase_pos 0 %d" % h])
            ops.append(["extract_pos 0 %d" % h, "insert_node 0 0"])
        for i in range(n + 1):
            for j in range(i, n + 1):
                ops.append(["erase_range 0 %d %d" % (i, j)])
        ops += [["walk 0"], ["rwalk 0"], ["clear 0"], ["cmp 0 0"], ["erase_loop 0 1"], ["erase_loop 0 2"], ["erase_loop 0 3"],
                ["insert_range 0 %s" % _vs(probes)], ["insert_range 0 %s" % _vs(list(reversed(probes)))],
                ["insert_il 0 %s" % _vs(probes[:8])], ["assign_il 0 %s" % _vs(probes[:8])], ["ctor_copy 1 0", "cmp 0 1"],
                ["ctor_move 1 0", "walk 1"], ["merge_other 0 %s" % _vs(probes)], ["merge_other 0 %s" % _vs(probes[:2])]]
        for o in ops:
            out.append("H x%d" % hid)
            hid += 1
            out.extend(pre)
            out.extend(o)
            out += ["walk 0", "rwalk 0"]
    if pairs:
        others = smallset_states(cfg, domain, modes=("asc", "large"), slot=1)
        for vals, mode, pre, m in states:
            for vals2, mode2, pre2, m2 in others:
                for o in ("merge 0 1", "merge 1 0", "swap 0 1", "cmp 0 1", "move_assign 0 1", "copy_assign 0 1"):
                    out.append("H y%d" % hid)
                    hid += 1
                    out.extend(pre)
                    out.extend(pre2)
                    out.append(o)
                    out += ["walk 0", "rwalk 0", "walk 1", "cmp 0 1", "insert 0 %d" % domain, "erase_loop 1 1", "walk 1"]
    return out


# ---------------------------------------------------------------------------------------------------------------
# C19: comparator calls of every lookup / position search, for every size and every key rank

def sweep_values(cfg, n):
    """(present values, probe keys) for a set of n elements with absent keys below, between and above."""
    if cfg.cmp == "coarse":
        present = [6 * i + 3 for i in range(n)]          # classes 1, 3, 5, ...
        probes = []
        for c in range(0, 2 * n + 2):
            probes += [3 * c, 3 * c + 1] if c % 4 == 0 else [3 * c + 2] if c % 4 == 2 else [3 * c]
        return present, probes
    if cfg.cmp == "mod":
        n = min(n, 2)
        return [1, 3][:n], list(range(0, 2 * MOD))
    return [2 * i + 2 for i in range(n)], list(range(1, 2 * n + 4))


def lookup_sweep(cfg, nmax=40, extra_sizes=()):
    """For n in 0..nmax: a set of n elements, then every lookup, insert(absent), erase(key) and insert with every correct
    hint for every key rank.  The set is rebuilt before each group so that a failure does not propagate."""
    out = []
    top = nmax
    if cfg.cap is not None:
        top = min(top, cfg.cap - 1)
    if cfg.cmp == "mod":
        top = min(top, 2)
    sizes = list(range(0, top + 1))
    # a few large sets with a thin selection of key ranks (transcript volume grows with n^3)
    big = [b for b in extra_sizes if b > top and (cfg.cap is None or b < cfg.cap) and cfg.cmp != "mod"]
    for n in sizes + big:
        present, probes = sweep_values(cfg, n)
        if n in big:
            keep = sorted(set([0, 1, 2, len(probes) // 2 - 1, len(probes) // 2, len(probes) // 2 + 1, len(probes) - 3, len(probes) - 2, len(probes) - 1]
                              + [2 ** k for k in range(2, 10) if 2 ** k < len(probes)] + [2 ** k + 1 for k in range(2, 10) if 2 ** k + 1 < len(probes)]))
            probes = [probes[i] for i in keep if 0 <= i < len(probes)]
        m = model_of(cfg, present)
        out.append("H s%d" % n)
        build = "ctor_range 0 %s" % _vs(present[::2] + present[1::2])
        out.append(build)
        for v in probes:
            for o in ("find", "count", "contains") + (("lb", "ub", "eqr") if cfg.flat else ()) + (("find_het",) if cfg.transp else ()):
                out.append("%s 0 %d" % (o, v))
        for v in probes:
            i = m.find(v)
            out.append(build)
            if i is None:
                out += ["insert 0 %d" % v, "erase_key 0 %d" % v, "emplace 0 %d" % v, "extract_key 0 %d" % v]
                if m.ordered() or cfg.flat:
                    h = m.lb(v)
                    out += ["insert_hint 0 %d %d" % (h, v), "erase_key 0 %d" % v, "emplace_hint 0 %d %d" % (h, v)]
            else:
                out += ["insert 0 %d" % v, "erase_key 0 %d" % v, "insert_rv 0 %d" % v, "extract_key 0 %d" % v, "insert_node 0 0"]
                if m.ordered() or cfg.flat:
                    out += ["insert_hint 0 %d %d" % (i, v), "emplace_hint 0 %d %d" % (i, v)]
    return out
