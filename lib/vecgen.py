"""Script generators for the vector drivers: seeded random histories biased to the case-split boundaries of the
proofs, systematic small-scope sweeps, limit neighbourhoods, aliasing grids and fault-injection scenarios.

Every random choice derives from one random.Random(seed), so a run is reproducible from VERIF_SEED.
The generator keeps its own list model of the pool so that it emits (mostly) valid calls."""
import random

# name -> (group, flavour, N, size_type max, element category, allocator kind)
CONFIGS = {
    "vec.u32.TC4.amc": (0, "vec", 0, 2**32 - 1, "TC", "amc"),
    "vec.u32.NTR.led": (0, "vec", 0, 2**32 - 1, "NTR", "led"),
    "vec.u8.TR.ledr": (1, "vec", 0, 255, "TR", "ledr"),
    "vec.s32.TR.amc": (1, "vec", 0, 2**31 - 1, "TR", "amc"),
    "vec.u64.NTR.amc": (2, "vec", 0, 2**64 - 1, "NTR", "amc"),
    "SV3.u32.NTR.led": (2, "sv", 3, 2**32 - 1, "NTR", "led"),
    "SV3.u32.TR.ledr": (3, "sv", 3, 2**32 - 1, "TR", "ledr"),
    "SV4.u32.TC4.amc": (3, "sv", 4, 2**32 - 1, "TC", "amc"),
    "SV4.u8.TC2.led": (4, "sv", 4, 255, "TC", "led"),
    "SV1.s8.NTR.led": (4, "sv", 1, 127, "NTR", "led"),
    "SV8.u16.TR.amc": (5, "sv", 8, 65535, "TR", "amc"),
    "SV2.u64.NTR.amc": (5, "sv", 2, 2**64 - 1, "NTR", "amc"),
    "FCV5.u8.NTR": (6, "fcv", 5, 255, "NTR", "none"),
    "FCV5.u8.TR": (6, "fcv", 5, 255, "TR", "none"),
    "FCV8.u8.TC4": (7, "fcv", 8, 255, "TC", "none"),
    "FCV3.s32.NTR": (7, "fcv", 3, 2**31 - 1, "NTR", "none"),
    "SV4.u8.NTR.led": (7, "sv", 4, 255, "NTR", "led"),
    "vec.u16.POD.amc": (0, "vec", 0, 65535, "TC", "amc"),
    "vec.u32.NTR.ledr": (1, "vec", 0, 2**32 - 1, "NTR", "ledr"),
    "SV3.u16.NTR.ledr": (3, "sv", 3, 65535, "NTR", "ledr"),
    "FCV6.u8.POD": (6, "fcv", 6, 255, "TC", "none"),
    "SV3.s32.POD.led": (6, "sv", 3, 2**31 - 1, "TC", "led"),
    "SV2.u32.OA16.led": (6, "sv", 2, 2**32 - 1, "TC", "led"),
    "FCV3.u8.OA16": (7, "fcv", 3, 255, "TC", "none"),
    # element type whose move constructor / move assignment can throw (fault enumeration); the model treats it as NTR
    "SV3.u8.NTM.led": (6, "sv", 3, 255, "NTM", "led"),
    "vec.u32.NTM.led": (7, "vec", 0, 2**32 - 1, "NTM", "led"),
    "FCV5.u8.NTM": (7, "fcv", 5, 255, "NTM", "none"),
}


class Cfg:
    def __init__(self, name):
        self.name = name
        self.group, self.flavour, self.N, self.M, self.cat, self.alloc = CONFIGS[name]
        self.limit = self.N if self.flavour == "fcv" else self.M

    def model_header(self):
        """Line understood by the extracted model runner."""
        return "CONFIG %s %s %d %d %s %s" % (self.name, self.flavour, self.N, self.M, self.cat, self.alloc)


K = 3
RANGE_CATS = ["fwd", "fwd", "fwd", "inp", "list"]


class Pool:
    """Reference list model of the pool, only to generate valid calls."""

    def __init__(self):
        self.v = [None] * K


def _vals(rng, n):
    return ",".join(str(rng.randrange(1, 60)) for _ in range(n)) if n else "-"


def _pick_size(rng, cfg, cur, maxsize):
    """Sizes biased to the boundaries {0, N-1, N, N+1, cur-1, cur, cur+1}."""
    cands = [0, 1, cfg.N - 1, cfg.N, cfg.N + 1, cur - 1, cur, cur + 1, cur + 2, rng.randrange(0, maxsize + 1)]
    cands = [c for c in cands if 0 <= c <= maxsize]
    return rng.choice(cands)


def _pick_pos(rng, size):
    cands = [0, size, size // 2, max(size - 1, 0), 1 if size >= 1 else 0]
    return rng.choice(cands + [rng.randrange(0, size + 1)])


def _arg(rng, size, own_prob):
    if size > 0 and rng.random() < own_prob:
        return "o%d" % rng.randrange(0, size)
    return "v%d" % rng.randrange(1, 60)


def random_history(rng, cfg, length, maxsize=None, own_prob=0.15, allow_limit_errors=True, ops=None, mask=()):
    """One history: list of script lines."""
    if maxsize is None:
        maxsize = max(cfg.N + 6, 9)
    if cfg.flavour == "fcv":
        maxsize = cfg.N if not allow_limit_errors else cfg.N + 2
    maxsize = min(maxsize, cfg.limit + (2 if allow_limit_errors else 0))
    pool = [None] * K
    lines = []

    def fits(n):
        return n <= cfg.limit

    for k in range(K):
        if rng.random() < 0.8 or k == 0:
            pool[k], line = _ctor(rng, cfg, k, pool, maxsize)
            lines.append(line)
    weights = ops or DEFAULT_WEIGHTS
    names = [n for n in weights if n not in mask]
    wts = [weights[n] for n in names]
    for _ in range(length):
        op = rng.choices(names, wts)[0]
        a = rng.randrange(K)
        if pool[a] is None:
            pool[a], line = _ctor(rng, cfg, a, pool, maxsize)
            lines.append(line)
            continue
        cur = pool[a]
        sz = len(cur)
        b = rng.choice([k for k in range(K) if k != a])
        if op in ("push_back", "push_back_rv", "emplace_back"):
            if sz + 1 > maxsize:
                continue
            g = _arg(rng, sz, own_prob)
            lines.append("%s %d %s" % (op, a, g))
            if fits(sz + 1):
                val = cur[int(g[1:])] if g[0] == "o" else int(g[1:])
                cur.append(val)
        elif op in ("insert", "insert_rv", "emplace"):
            if sz + 1 > maxsize:
                continue
            p = _pick_pos(rng, sz)
            g = _arg(rng, sz, own_prob)
            lines.append("%s %d %d %s" % (op, a, p, g))
            if fits(sz + 1):
                val = cur[int(g[1:])] if g[0] == "o" else int(g[1:])
                cur.insert(p, val)
        elif op == "insert_n":
            n = rng.choice([0, 1, 1, 2, 3, max(sz - 1, 0), sz, sz + 1])
            if sz + n > maxsize:
                continue
            p = _pick_pos(rng, sz)
            g = _arg(rng, sz, own_prob)
            lines.append("insert_n %d %d %d %s" % (a, p, n, g))
            if fits(sz + n):
                val = cur[int(g[1:])] if g[0] == "o" else int(g[1:])
                cur[p:p] = [val] * n
        elif op == "insert_range":
            n = rng.choice([0, 1, 2, 2, 3, 4])
            if sz + n > maxsize:
                continue
            p = _pick_pos(rng, sz)
            cat = rng.choice(RANGE_CATS + (["il"] if n == 2 else []))
            vals = [rng.randrange(1, 60) for _ in range(n)]
            lines.append("insert_range %d %d %s %s" % (a, p, cat, ",".join(map(str, vals)) or "-"))
            if fits(sz + n):
                cur[p:p] = vals
        elif op == "erase":
            if sz == 0:
                continue
            p = rng.choice([0, sz - 1, rng.randrange(sz)])
            lines.append("erase %d %d" % (a, p))
            del cur[p]
        elif op == "erase_range":
            p = _pick_pos(rng, sz)
            q = rng.choice([p, p, sz, min(p + 1, sz), rng.randrange(p, sz + 1)])
            lines.append("erase_range %d %d %d" % (a, p, q))
            del cur[p:q]
        elif op in ("pop_back", "pop_back_val"):
            if sz == 0:
                continue
            lines.append("%s %d" % (op, a))
            cur.pop()
        elif op == "clear":
            lines.append("clear %d" % a)
            del cur[:]
        elif op == "resize":
            n = _pick_size(rng, cfg, sz, maxsize)
            lines.append("resize %d %d" % (a, n))
            if fits(n):
                cur[:] = cur[:n] + [0] * (n - sz)
        elif op == "resize_v":
            n = _pick_size(rng, cfg, sz, maxsize)
            g = _arg(rng, sz, own_prob)
            lines.append("resize_v %d %d %s" % (a, n, g))
            if fits(n):
                val = cur[int(g[1:])] if g[0] == "o" else int(g[1:])
                cur[:] = cur[:n] + [val] * (n - sz)
        elif op == "assign_n":
            n = _pick_size(rng, cfg, sz, maxsize)
            g = _arg(rng, sz, own_prob)
            lines.append("assign_n %d %d %s" % (a, n, g))
            if fits(n):
                val = cur[int(g[1:])] if g[0] == "o" else int(g[1:])
                cur[:] = [val] * n
        elif op == "assign_range":
            n = _pick_size(rng, cfg, sz, maxsize)
            vals = [rng.randrange(1, 60) for _ in range(n)]
            lines.append("assign_range %d %s %s" % (a, rng.choice(RANGE_CATS), ",".join(map(str, vals)) or "-"))
            if fits(n):
                cur[:] = vals
        elif op == "reserve":
            n = _pick_size(rng, cfg, sz, maxsize + 3)
            lines.append("reserve %d %d" % (a, n))
        elif op == "shrink":
            lines.append("shrink %d" % a)
        elif op == "append_n":
            n = rng.choice([0, 1, 2, 3])
            if sz + n > maxsize:
                continue
            lines.append("append_n %d %d" % (a, n))
            if fits(sz + n):
                cur.extend([0] * n)
        elif op == "append_nv":
            n = rng.choice([0, 1, 2, 3])
            if sz + n > maxsize:
                continue
            g = _arg(rng, sz, own_prob)
            lines.append("append_nv %d %d %s" % (a, n, g))
            if fits(sz + n):
                val = cur[int(g[1:])] if g[0] == "o" else int(g[1:])
                cur.extend([val] * n)
        elif op == "append_range":
            n = rng.choice([0, 1, 2, 3])
            if sz + n > maxsize:
                continue
            vals = [rng.randrange(1, 60) for _ in range(n)]
            lines.append("append_range %d %s %s" % (a, rng.choice(RANGE_CATS), ",".join(map(str, vals)) or "-"))
            if fits(sz + n):
                cur.extend(vals)
        elif op == "copy_assign":
            if pool[b] is None:
                continue
            lines.append("copy_assign %d %d" % (a, b))
            cur[:] = pool[b]
        elif op == "move_assign":
            if pool[b] is None:
                continue
            lines.append("move_assign %d %d" % (a, b))
            cur[:] = pool[b]
            del pool[b][:]
        elif op == "swap":
            if pool[b] is None:
                continue
            lines.append("swap %d %d" % (a, b))
            pool[a], pool[b] = pool[b], pool[a]
        elif op == "self_swap":
            lines.append("swap %d %d" % (a, a))
        elif op == "self_copy_assign":
            lines.append("copy_assign %d %d" % (a, a))
        elif op == "swap2":
            if pool[b] is None:
                continue
            if cfg.flavour == "fcv" and max(len(pool[a]), len(pool[b])) > cfg.N:
                continue
            lines.append("swap2 %d %d" % (a, b))
            pool[a], pool[b] = pool[b], pool[a]
        elif op == "at":
            i = rng.choice([0, sz - 1, sz, sz + 1, rng.randrange(0, sz + 2)])
            if i < 0:
                continue
            lines.append("at %d %d" % (a, i))
        elif op == "cmp":
            if pool[b] is None:
                continue
            lines.append("cmp %d %d" % (a, b))
        elif op == "ctor":
            pool[a], line = _ctor(rng, cfg, a, pool, maxsize)
            lines.append(line)
        elif op == "dtor":
            lines.append("dtor %d" % a)
            pool[a] = None
        elif op == "relocate":
            dead = [k for k in range(K) if pool[k] is None]
            if not dead:
                continue
            t = rng.choice(dead)
            lines.append("relocate %d %d" % (a, t))
            pool[t] = pool[a]
            pool[a] = None
    return lines


def _ctor(rng, cfg, a, pool, maxsize):
    kind = rng.choice(["default", "n", "nv", "range", "range", "copy", "move", "adopt"])
    cap = min(maxsize, cfg.limit)
    others = [k for k in range(K) if k != a and pool[k] is not None]
    if kind in ("copy", "move") and not others:
        kind = "range"
    if kind == "adopt" and cfg.flavour != "sv":
        kind = "default"
    if kind == "default":
        return [], "ctor_default %d" % a
    if kind == "n":
        n = _pick_size(rng, cfg, 0, cap)
        return [0] * n, "ctor_n %d %d" % (a, n)
    if kind == "nv":
        n = _pick_size(rng, cfg, 0, cap)
        v = rng.randrange(1, 60)
        return [v] * n, "ctor_nv %d %d %d" % (a, n, v)
    if kind == "range":
        n = _pick_size(rng, cfg, 0, cap)
        vals = [rng.randrange(1, 60) for _ in range(n)]
        return vals, "ctor_range %d %s %s" % (a, rng.choice(RANGE_CATS), ",".join(map(str, vals)) or "-")
    if kind == "copy":
        b = rng.choice(others)
        return list(pool[b]), "ctor_copy %d %d" % (a, b)
    if kind == "move":
        b = rng.choice(others)
        vals = list(pool[b])
        del pool[b][:]
        return vals, "ctor_move %d %d" % (a, b)
    # adopt: SmallVector from an amc::vector (possibly smaller than N, possibly with spare capacity)
    n = _pick_size(rng, cfg, 0, cap)
    vals = [rng.randrange(1, 60) for _ in range(n)]
    c = rng.choice([n, n, n + 1, n + 3])
    return vals, "adopt %d %s %d" % (a, ",".join(map(str, vals)) or "-", c)


DEFAULT_WEIGHTS = {
    "push_back": 6, "push_back_rv": 3, "emplace_back": 4, "insert": 5, "insert_rv": 3, "emplace": 4, "insert_n": 5,
    "insert_range": 5, "erase": 5, "erase_range": 5, "pop_back": 3, "pop_back_val": 2, "clear": 2, "resize": 3,
    "resize_v": 3, "assign_n": 3, "assign_range": 3, "reserve": 3, "shrink": 3, "append_n": 2, "append_nv": 2,
    "append_range": 2, "copy_assign": 3, "move_assign": 5, "swap": 4, "self_swap": 1, "self_copy_assign": 1,
    "swap2": 3, "at": 2, "cmp": 2, "ctor": 3, "dtor": 1,
}


def random_script(cfg, seed, histories, length, **kw):
    rng = random.Random("%s/%s" % (seed, cfg.name))
    out = []
    for h in range(histories):
        out.append("H r%d" % h)
        out.extend(random_history(rng, cfg, length, **kw))
    return out


# ---------------------------------------------------------------------------------------------------------------
# Systematic generators

def build_state(cfg, k, size, mode):
    """Lines that put container k into a given structural state with fresh distinct values.
    mode: 'fresh' (constructed with the elements), 'grown' (push_back one by one: geometric capacity),
          'shrunk' (grown past N, erased down, heap kept), 'adopted' (SmallVector stealing an amc::vector),
          'reserved' (capacity size+2)."""
    base = 10 * (k + 1)
    vals = [base + i for i in range(size)]
    vs = ",".join(map(str, vals)) or "-"
    if mode == "fresh":
        return ["ctor_range %d fwd %s" % (k, vs)]
    if mode == "grown":
        return ["ctor_default %d" % k] + ["push_back %d v%d" % (k, v) for v in vals]
    if mode == "shrunk":
        big = cfg.N + 2
        lines = ["ctor_range %d fwd %s" % (k, ",".join(str(base + i) for i in range(max(big, size))))]
        if max(big, size) > size:
            lines.append("erase_range %d %d %d" % (k, size, max(big, size)))
        return lines
    if mode == "adopted":
        return ["adopt %d %s %d" % (k, vs, size)]
    if mode == "reserved":
        return ["ctor_range %d fwd %s" % (k, vs), "reserve %d %d" % (k, size + 2)]
    raise ValueError(mode)


def state_modes(cfg):
    if cfg.flavour == "fcv":
        return ["fresh"]
    if cfg.flavour == "vec":
        return ["fresh", "grown", "reserved"]
    return ["fresh", "grown", "shrunk", "adopted", "reserved"]


def systematic_pairs(cfg, maxsize):
    """Every ordered pair of structural states x every two-container operation (move/copy/swap/swap2/cmp),
    followed by a probe that exposes a corrupted representation (push_back, then read back)."""
    out = []
    hid = 0
    top = cfg.N if cfg.flavour == "fcv" else maxsize
    for ma in state_modes(cfg):
        for sa in range(0, top + 1):
            for mb in state_modes(cfg):
                for sb in range(0, top + 1):
                    for op in ("move_assign", "copy_assign", "swap", "swap2", "ctor_move", "ctor_copy"):
                        lines = build_state(cfg, 0, sa, ma) + build_state(cfg, 1, sb, mb)
                        lines.append("%s 0 1" % op)
                        if cfg.flavour != "fcv" or (op.startswith("ctor") and sb < cfg.N) or (not op.startswith("ctor")):
                            for k in (0, 1):
                                lines.append("push_back %d v99" % k if cfg.flavour != "fcv" else "cmp %d %d" % (k, 1 - k))
                        lines.append("shrink 0")
                        lines.append("cmp 0 1")
                        out.append("H p%d" % hid)
                        out.extend(lines)
                        hid += 1
    return out


def systematic_single(cfg, maxsize):
    """Every structural state x every single-container operation x every position / count class."""
    out = []
    hid = 0
    top = cfg.N if cfg.flavour == "fcv" else maxsize
    for mode in state_modes(cfg):
        for s in range(0, top + 1):
            pre = build_state(cfg, 0, s, mode)
            ops = []
            for p in sorted(set([0, 1, s // 2, max(s - 1, 0), s])):
                if p > s:
                    continue
                ops += ["insert 0 %d v77" % p, "insert_rv 0 %d v77" % p, "emplace 0 %d v77" % p]
                for n in (0, 1, 2, 3):
                    ops.append("insert_n 0 %d %d v77" % (p, n))
                    ops.append("insert_range 0 %d %s %s" % (p, "fwd" if n % 2 else "inp", ",".join(str(70 + i) for i in range(n)) or "-"))
                if p < s:
                    ops.append("erase 0 %d" % p)
                for q in sorted(set([p, min(p + 1, s), s])):
                    ops.append("erase_range 0 %d %d" % (p, q))
            ops += ["push_back 0 v77", "push_back_rv 0 v77", "emplace_back 0 v77", "clear 0", "shrink 0"]
            if s:
                ops += ["pop_back 0", "pop_back_val 0"]
            for n in sorted(set([0, 1, max(s - 1, 0), s, s + 1, s + 3, cfg.N, cfg.N + 1])):
                ops += ["resize 0 %d" % n, "resize_v 0 %d v77" % n, "assign_n 0 %d v77" % n, "reserve 0 %d" % n,
                        "assign_range 0 fwd %s" % (",".join(str(70 + i) for i in range(n)) or "-"),
                        "assign_range 0 inp %s" % (",".join(str(70 + i) for i in range(n)) or "-")]
            for n in (0, 1, 3):
                ops += ["append_n 0 %d" % n, "append_nv 0 %d v77" % n,
                        "append_range 0 list %s" % (",".join(str(70 + i) for i in range(n)) or "-")]
            ops += ["at 0 %d" % i for i in sorted(set([0, max(s - 1, 0), s, s + 1]))]
            for o in ops:
                out.append("H s%d" % hid)
                out.extend(pre)
                out.append(o)
                out.append("push_back 0 v99" if cfg.flavour != "fcv" else "cmp 0 0")
                out.append("cmp 0 0")
                hid += 1
    return out


def alias_grid(cfg, maxsize):
    """C10: every (size, position, source index, count, spare capacity or not) in a small scope."""
    out = []
    hid = 0
    top = min(maxsize, cfg.N) if cfg.flavour == "fcv" else maxsize
    for s in range(1, top + 1):
        for spare in (False, True):
            if cfg.flavour == "fcv":
                if spare is False:
                    continue
                pre = build_state(cfg, 0, s, "fresh")
            else:
                pre = build_state(cfg, 0, s, "fresh") + (["reserve 0 %d" % (s + 4)] if spare else ["shrink 0"])
            for i in range(s):
                ops = ["push_back 0 o%d" % i, "push_back_rv 0 o%d" % i, "emplace_back 0 o%d" % i]
                for p in range(s + 1):
                    ops += ["insert 0 %d o%d" % (p, i), "insert_rv 0 %d o%d" % (p, i), "emplace 0 %d o%d" % (p, i)]
                    for n in (0, 1, 2, 3):
                        ops.append("insert_n 0 %d %d o%d" % (p, n, i))
                for n in sorted(set([0, 1, s, s + 1, s + 3])):
                    ops += ["resize_v 0 %d o%d" % (n, i), "assign_n 0 %d o%d" % (n, i)]
                for n in (0, 1, 3):
                    ops.append("append_nv 0 %d o%d" % (n, i))
                for o in ops:
                    out.append("H a%d" % hid)
                    out.extend(pre)
                    out.append(o)
                    out.append("cmp 0 0")
                    hid += 1
    return out


def limit_grid(cfg):
    """C08: every size in the neighbourhood of the limit x every growing operation x position x count."""
    out = []
    hid = 0
    lim = cfg.limit
    if lim > 70000:
        return out
    lo = max(0, lim - 4)
    for s in range(lo, lim + 1):
        pre = ["ctor_n 0 %d" % s] if lim > 40 else build_state(cfg, 0, s, "fresh")
        ops = ["push_back 0 v7", "push_back_rv 0 v7", "emplace_back 0 v7", "at 0 %d" % s, "at 0 %d" % (s + 3)]
        if s:
            ops += ["push_back 0 o0", "at 0 %d" % (s - 1)]
            # rvalue references to own elements: a failing call must not consume them
            ops += ["push_back_rv 0 o0", "push_back_rv 0 o%d" % (s - 1), "emplace_back 0 o0", "insert_rv 0 0 o%d" % (s - 1),
                    "insert_rv 0 %d o0" % (s // 2), "emplace 0 %d o%d" % (s // 2, s - 1)]
        for p in sorted(set([0, s // 2, s])):
            ops += ["insert 0 %d v7" % p, "insert_rv 0 %d v7" % p, "emplace 0 %d v7" % p]
            for n in range(0, 7):
                ops.append("insert_n 0 %d %d v7" % (p, n))
                ops.append("insert_range 0 %d fwd %s" % (p, ",".join(["7"] * n) or "-"))
                if n in (1, 5):
                    ops.append("insert_range 0 %d inp %s" % (p, ",".join(["7"] * n) or "-"))
        for n in range(0, 7):
            ops += ["append_n 0 %d" % n, "append_nv 0 %d v7" % n, "append_range 0 fwd %s" % (",".join(["7"] * n) or "-")]
        if lim < 300 or cfg.flavour == "fcv":
            for n in sorted(set([lim - 1, lim, lim + 1, lim + 5])):
                if n < 0 or (cfg.flavour != "fcv" and n > cfg.M):
                    continue
                ops += ["resize 0 %d" % n, "resize_v 0 %d v7" % n, "assign_n 0 %d v7" % n, "reserve 0 %d" % n]
        for o in ops:
            out.append("H l%d" % hid)
            out.extend(pre)
            out.append(o)
            out += ["pop_back 0" if s else "cmp 0 0", "push_back 0 v9" if s else "cmp 0 0", "cmp 0 0"]
            hid += 1
    # far jumps: one bulk operation takes a dynamic vector from a small or medium size (where the geometric growth still
    # fits the size_type) to beyond the limit; counts stay within the size_type themselves
    if cfg.flavour != "fcv":
        small = lim < 300
        sizes = sorted(set([0, 1, cfg.N, cfg.N + 1, 40, 100, lim // 2, (2 * lim) // 3 - 1, (2 * lim) // 3 + 1]))
        for s in sizes:
            if s < 0 or s > lim:
                continue
            for pre in ([["ctor_n 0 %d" % s], ["ctor_n 0 %d" % s, "reserve 0 %d" % min(lim, s + 9)]] if s else [["ctor_default 0"]]):
                ops = []
                for total in (lim + 1, lim + 2, lim + 45, min(s + lim, 2 * lim)):
                    n = total - s
                    if n <= 0 or n > cfg.M:
                        continue
                    for p in sorted(set([0, s // 2, s])):
                        ops.append("insert_n 0 %d %d v7" % (p, n))
                        if small:
                            ops.append("insert_range 0 %d fwd %s" % (p, ",".join(["7"] * n)))
                    ops += ["append_n 0 %d" % n, "append_nv 0 %d v7" % n]
                    if small:
                        ops += ["append_range 0 fwd %s" % ",".join(["7"] * n), "append_range 0 inp %s" % ",".join(["7"] * n)]
                if small:
                    ops += ["assign_range 0 fwd %s" % ",".join(["7"] * (lim + 1)), "assign_range 0 fwd %s" % ",".join(["7"] * (lim + 40))]
                for o in sorted(set(ops)):
                    out.append("H l%d" % hid)
                    out.extend(pre)
                    out.append(o)
                    out += ["pop_back 0" if s else "cmp 0 0", "push_back 0 v9", "cmp 0 0"]
                    hid += 1
    return out


def fault_scenarios(cfg, maxsize):
    """C09: operation scenarios; the runner repeats each with throw index k = 0, 1, 2, ... until it completes."""
    sc = []
    top = min(maxsize, cfg.N) if cfg.flavour == "fcv" else maxsize
    sizes = sorted(set([0, 1, 2, min(cfg.N, top), min(cfg.N + 1, top), top - 1 if top > 1 else 0]))
    for s in sizes:
        if s < 0:
            continue
        for spare in ((True,) if cfg.flavour == "fcv" else (False, True)):
            pre = build_state(cfg, 0, s, "fresh")
            if cfg.flavour != "fcv":
                pre = pre + (["reserve 0 %d" % (s + 5)] if spare else ["shrink 0"])
            elif s + 3 > cfg.N:
                continue
            ops = ["push_back 0 v7", "push_back_rv 0 v7", "emplace_back 0 v7", "resize 0 %d" % (s + 2),
                   "resize_v 0 %d v7" % (s + 2), "append_n 0 2", "append_nv 0 2 v7", "append_range 0 fwd 7,8",
                   "append_range 0 inp 7,8", "assign_n 0 %d v7" % (s + 2), "assign_range 0 fwd %s" % ",".join(["7"] * (s + 2)),
                   "reserve 0 %d" % (s + 9), "shrink 0", "ctor_copy 1 0", "copy_assign 1 0", "ctor_n 1 3", "ctor_nv 1 3 7",
                   "ctor_range 1 fwd 7,8,9", "ctor_range 1 inp 7,8,9"]
            if s:
                ops += ["assign_n 0 %d v7" % max(s - 1, 0), "assign_range 0 fwd %s" % (",".join(["7"] * (s - 1)) or "-"),
                        "push_back 0 o0", "erase 0 0", "erase_range 0 0 1",
                        # the argument is an element of the vector itself (moved from / copied before the vector grows)
                        "push_back_rv 0 o0", "push_back_rv 0 o%d" % (s - 1), "emplace_back 0 o%d" % (s - 1),
                        "insert_rv 0 0 o%d" % (s - 1), "insert_rv 0 %d o0" % s, "insert 0 %d o0" % (s // 2), "emplace 0 0 o%d" % (s - 1)]
            for p in sorted(set([0, s // 2, s])):
                ops += ["insert 0 %d v7" % p, "insert_rv 0 %d v7" % p, "emplace 0 %d v7" % p, "insert_n 0 %d 2 v7" % p,
                        "insert_n 0 %d 3 v7" % p, "insert_range 0 %d fwd 7,8,9" % p, "insert_range 0 %d inp 7,8" % p]
            # transfers of whole contents: move construction / move assignment / swap (element by element between inline
            # storages), also into and from a second container of another size
            ops += ["ctor_move 1 0", "move_assign 1 0", "swap 0 1", "swap 1 0"]
            for o in ops:
                if o.startswith(("move_assign", "swap")):
                    sc.append((pre + ["ctor_range 1 fwd 1,2"], o))
                    sc.append((pre + ["ctor_default 1"], o))
                    if top >= 4:
                        sc.append((pre + ["ctor_range 1 fwd 1,2,3,4"], o))
                elif o.startswith("copy_assign"):
                    sc.append((pre + ["ctor_range 1 fwd 1,2"], o))
                    sc.append((pre + ["ctor_range 1 fwd 1,2,3,4,5,6,7"][: 1 if top >= 7 else 0] + (["ctor_default 1"] if top < 7 else []), o))
                else:
                    sc.append((pre, o))
    return sc
