"""Correspondence between the extracted set model (coq/SetModel.v) and the implementation (harness/cpp/setdrv.cpp)."""
import os
import tempfile
from concurrent.futures import ThreadPoolExecutor

from . import common as C
from . import extract, setrun
from .setgen import SCfg


def run_set_model(cfg, lines, exe):
    with tempfile.NamedTemporaryFile("w", suffix=".mscript", dir=C.CACHE, delete=False) as f:
        f.write("\n".join(lines) + "\n")
        path = f.name
    try:
        rc, out, err = C.run([exe, cfg.kind, str(cfg.N), cfg.cmp, path], timeout=1800)
    finally:
        os.unlink(path)
    if rc != 0:
        raise RuntimeError("set model runner failed: " + err[-2000:])
    hists = {}
    for line in out.split("\n"):
        if not line.startswith("M "):
            continue
        parts = line.split(" | ")
        head = parts[0].split(" ")
        st = {}
        if len(parts) >= 2 and parts[1] == "unmodelled":
            st["unmodelled"] = True
        else:
            st["res"] = parts[1]
            st["conts"] = parts[2:5]
        hists.setdefault(head[1], []).append(st)
    return hists


def norm_res(r):
    return "skip" if r.startswith("skip") else r


def small_sorted(cont):
    """An inline SmallSet iterates in insertion order; compared as is (the model follows the same order)."""
    return cont


def compare(msteps, csteps):
    n = min(len(msteps), len(csteps))
    compared = 0
    for i in range(n):
        m, s = msteps[i], csteps[i]
        if m.get("unmodelled") or s.res.startswith("threw"):
            break
        # a step the driver skipped for a reason the model does not know (capacity of a fixed vector, unavailable op):
        # the model must skip too, otherwise stop comparing this history
        if s.res.startswith("skip") and not m["res"].startswith("skip"):
            if s.res in ("skip:na", "skip:cap", "skip:il-size", "skip:notTR"):
                break
            return (i, "res", m["res"], s.res), compared
        compared += 1
        if norm_res(m["res"]) != norm_res(s.res):
            return (i, "res", m["res"], s.res), compared
        for k in range(3):
            if m["conts"][k] != s.conts[k]:
                mf, cf = m["conts"][k].split(";"), s.conts[k].split(";")
                if len(mf) == len(cf) == 3:
                    for name, a, b in zip(("size", "state", "vals"), mf, cf):
                        if a != b:
                            return (i, "%s[%d]" % (name, k), a, b), compared
                return (i, "set[%d]" % k, m["conts"][k], s.conts[k]), compared
    return None, compared


def run(prop, report, jobs, cxx_results, fields=None):
    ok, exe = extract.build_runner("setrun")
    if not ok:
        raise RuntimeError(exe)

    def model(job):
        name, lines = job
        return run_set_model(SCfg(name), lines, exe)

    with ThreadPoolExecutor(max_workers=C.NCPU) as ex:
        models = list(ex.map(model, jobs))
    diffs = []
    steps = hists = 0
    for (name, lines), mh, (cn, hs, err, berr) in zip(jobs, models, cxx_results):
        if berr:
            continue
        scripts = setrun.split_histories(lines)
        for h in hs:
            if h.crash:
                continue
            d, n = compare(mh.get(h.hid, []), h.steps)
            steps += n
            hists += 1
            if d:
                i, f, mv, cv = d
                if fields is None or f.split("[")[0] in fields:
                    diffs.append({"config": name, "hid": h.hid, "field": f, "model": mv, "impl": cv, "script": scripts.get(h.hid, [])[: i + 1]})
    return diffs, {"traces_validated_against_impl": hists, "correspondence_steps_compared": steps, "correspondence_differences": len(diffs)}
