"""C15 - amc:: memory algorithms equal the standard ones, with clean-up on throw.

(a) proof: coq/MemAlgos.v + coq/Properties_C15.v (slot level model of include/amc/memory.hpp, every mode of ImplModeFactory,
    the try/catch clean-up loops of the pre C++17 emulations, theorems for every length / memory / throw index);
(b) harness/cpp/memdrv.cpp built from /repo's working tree as C++11, 14, 17 and 20 (ASan+UBSan; plain -O2 as well in the
    thorough tier) - the four standards select different implementations through the AMC_CXX17 / AMC_CXX20 ladders;
(c) oracles on the implementation, for every (algorithm, iterator kind, element type, length, throw index):
      * the `CASE` line (amc::) of every build equals the `STD` line (std:: algorithm; relocate = uninitialized_move +
        destroy of the sources) of the C++17 build: same slots, same returned advances, same throw;
      * the builds agree with each other and sweep the same cases (a crash or a missing case is a violation);
      * no ledger error (double destruction, use outside lifetime, bitwise move of a non relocatable object);
      * after a throw nothing the call created is alive, the destination is raw again, every relocate source is still
        alive and the sources not yet reached keep their values; the count of live objects equals the live slots shown;
(d) correspondence: the same case list is evaluated by MemAlgos.run_case (vm_compute) and compared slot by slot.
"""
import os
import re
import time
from concurrent.futures import ThreadPoolExecutor

from . import build
from . import common as C
from . import coqbuild

STDS = ["c++11", "c++14", "c++17", "c++20"]
O2 = ["-O2"]
MAX_REPORTED = 8
NGROUPS = 20   # memdrv.cpp is built as 20 units (-DGROUP=4*element type + family) so that the builds run in parallel

ALGO_COQ = {"copy_n": "ACopyN", "copy": "ACopy", "move_n": "AMoveN", "move": "AMove", "value_n": "AValueN", "value": "AValue",
            "default_n": "ADefaultN", "default": "ADefault", "relocate_n": "ARelocN", "relocate": "AReloc",
            "relocate_at": "ARelocAt", "destroy_n": "ADestroyN", "destroy": "ADestroy", "destroy_at": "ADestroyAt",
            "construct_at": "AConstructAt"}
# std::list / std::forward_list iterators are non pointer iterators of the same categories as the wrappers
IT_COQ = {"ptr": "ItPtr", "ra": "ItRandom", "bidi": "ItBidir", "fwd": "ItForward", "mvptr": "ItMovePtr", "list": "ItBidir",
          "flist": "ItForward"}
CAT_COQ = {"NTR": "cNTR", "TR": "cTR", "TM": "cTM", "TC": "cTC", "POD": "cPOD"}
UNOBSERVABLE_LIFETIME = ("TC", "POD")   # trivially copyable: the bits stay after destroy / relocation
RELOC = ("relocate_n", "relocate", "relocate_at")

LINE = re.compile(r"^(CASE|STD) (\S+) (\S+) (\S+) n=(\d+) k=(-|\d+) \| ret=(\S+) \| threw=([01]) \| dst=(\S+) \| src=(\S+) \| "
                  r"live=(-?\d+) errs=(\d+)(?: msg=(\S+))?\s*$")


class Line:
    __slots__ = ("tag", "algo", "it", "el", "n", "k", "ret", "threw", "dst", "src", "live", "errs", "msg", "text")

    def key(self):
        return (self.algo, self.it, self.el, self.n, self.k)

    def name(self):
        return "%s %s %s n=%d k=%s" % (self.algo, self.it, self.el, self.n, "-" if self.k is None else self.k)

    def observable(self):
        return (self.ret, self.threw, tuple(self.dst), tuple(self.src), self.live)


HEAD = re.compile(r"^(CASE|STD) (\S+) (\S+) (\S+) n=(\d+) k=(-|\d+) \|\s*$")


def parse(out):
    """-> (case lines, std lines, problems); problems = list of (case name or None, text): a crash inside a call (the head of
    its line was flushed before the call), LEAK lines, unparsable lines, missing END"""
    cases, stds, problems = {}, {}, []
    ended = False
    crashed = None
    for raw in out.split("\n"):
        raw = raw.rstrip()
        if not raw or raw.startswith("MEMDRV"):
            continue
        if raw.startswith("END"):
            ended = True
            continue
        m = LINE.match(raw)
        if not m:
            h = HEAD.match(raw)
            if h:
                crashed = "%s %s %s n=%s k=%s" % (h.group(2), h.group(3), h.group(4), h.group(5), h.group(6))
                if h.group(1) == "STD":
                    crashed = "(reference run) " + crashed
                continue
            if raw.startswith("CRASH") and crashed:
                problems.append((crashed, "the call crashed / was aborted by a sanitizer (%s)" % raw))
                crashed = None
                continue
            problems.append((None, raw[:300]))
            continue
        ln = Line()
        ln.tag, ln.algo, ln.it, ln.el = m.group(1), m.group(2), m.group(3), m.group(4)
        ln.n = int(m.group(5))
        ln.k = None if m.group(6) == "-" else int(m.group(6))
        ln.ret = m.group(7)
        ln.threw = int(m.group(8))
        ln.dst = [] if m.group(9) == "-" else m.group(9).split(",")
        ln.src = [] if m.group(10) == "-" else m.group(10).split(",")
        ln.live = int(m.group(11))
        ln.errs = int(m.group(12))
        ln.msg = m.group(13)
        ln.text = raw
        (cases if ln.tag == "CASE" else stds)[ln.key()] = ln
    if not ended:
        problems.append((None, "driver did not reach END"))
    return cases, stds, problems


def build_and_run(tier):
    """-> {(std, opt): (cases, stds, problems, build error or None)} and timings"""
    maxn = 4 if tier == "quick" else 6
    opts = [("san", build.SAN)] + ([("O2", O2)] if tier != "quick" else [])
    jobs = [(s, o, f) for s in STDS for (o, f) in opts]

    def one(job):
        std, opt, flags = job
        names = ["memdrv_g%02d" % g for g in range(NGROUPS)]
        d, errors = build.build("c15-%s-%s" % (opt, std), [(nm, "memdrv.cpp", ["-DGROUP=%d" % g]) for g, nm in enumerate(names)],
                                None, flags, std=std)
        if errors:
            first = sorted(errors)[0]
            return job, ({}, {}, [], "%d of %d units failed to build; %s:\n%s" % (len(errors), NGROUPS, first, errors[first][-3000:]))
        env = dict(os.environ)
        env["ASAN_OPTIONS"] = "detect_leaks=0:abort_on_error=0"

        def run_one(nm):
            return C.run([os.path.join(d, nm), str(maxn)], timeout=1200, env=env)

        cases, stds, problems = {}, {}, []
        with ThreadPoolExecutor(max_workers=4) as ex2:
            for nm, (rc, so, se) in zip(names, ex2.map(run_one, names)):
                c1, s1, p1 = parse(so)
                cases.update(c1)
                stds.update(s1)
                problems += p1
                if rc != 0:
                    problems.append((None, "%s: driver exit code %d: %s" % (nm, rc, se[-500:])))
        return job, (cases, stds, problems, None)

    t0 = time.time()
    with ThreadPoolExecutor(max_workers=4) as ex:
        res = dict(((j[0], j[1]), r) for j, r in ex.map(one, jobs))
    return res, time.time() - t0, maxn


# ------------------------------------------------------------------------------------------------------------------
def direct_oracles(ln):
    """Oracles that need no reference run.  -> list of messages"""
    bad = []
    if ln.errs:
        bad.append("ledger errors=%d (%s)" % (ln.errs, ln.msg))
    slots = ln.dst + ln.src
    if any(s.endswith("!") for s in slots):
        bad.append("a non relocatable object was moved bitwise")
    if ln.el not in UNOBSERVABLE_LIFETIME:
        shown = len([s for s in slots if s != "R"])
        if ln.live != shown:
            bad.append("live objects=%d but %d live slots are visible (leak or object outside the ranges)" % (ln.live, shown))
    if ln.dst and ln.dst[-1] != "R":
        bad.append("the destination guard slot was written")
    if ln.src and not ln.src[-1].startswith("L"):
        bad.append("the source guard element was touched")
    if ln.threw:
        if any(s != "R" for s in ln.dst):
            bad.append("after the throw an object created by the call is still alive in the destination")
        if ln.algo in RELOC:
            for j, s in enumerate(ln.src):
                if s == "R":
                    bad.append("after the throw relocate source %d is no longer alive" % j)
                    break
                if ln.k is not None and j >= ln.k and s != "L%d" % (11 + j):
                    bad.append("after the throw the not yet relocated source %d is %s" % (j, s))
                    break
        if ln.algo in ("copy_n", "copy") and ln.it != "mvptr":
            if any(s != "L%d" % (11 + j) for j, s in enumerate(ln.src)):
                bad.append("after the throw a copy source changed")
    return bad


def code_of(s):
    if s == "R":
        return -1
    if s == "M":
        return -2
    if s.startswith("L") and s[1:].lstrip("-").isdigit():
        return int(s[1:])
    return None


def parse_ret(ret):
    d = {}
    if ret != "-":
        for part in ret.split(","):
            d[part[0]] = int(part[1:])
    return d


def coq_case(key, std):
    algo, it, el, n, k = key
    return "mkcase %s %s %s %s %d %s" % (ALGO_COQ[algo], std[3:], IT_COQ[it], CAT_COQ[el], n, "None" if k is None else "(Some %d)" % k)


def run_coq(items):
    """items: list of (key, std).  -> (list of Z lists or None, error text, seconds)"""
    d = os.path.join(C.CACHE, "c15")
    os.makedirs(d, exist_ok=True)
    src = os.path.join(d, "Cases.v")
    chunk = 400
    with open(src, "w") as f:
        f.write("From Coq Require Import ZArith List.\nFrom Amc Require Import Throw MemAlgos.\nImport ListNotations.\n")
        f.write("Set Printing Depth 1000000.\nSet Printing Width 200.\n")
        for i in range(0, len(items), chunk):
            f.write("Definition cases_%d : list case := [\n  " % (i // chunk))
            f.write(";\n  ".join(coq_case(k, s) for k, s in items[i:i + chunk]))
            f.write("].\nEval vm_compute in (map run_case cases_%d).\n" % (i // chunk))
    t0 = time.time()
    rc, so, se = C.run(["coqc", "-Q", coqbuild.COQ, "Amc", src], timeout=900, cwd=d)
    secs = time.time() - t0
    if rc != 0:
        return None, (se or so)[-1500:], secs
    results = []
    for block in re.split(r"\n\s*:\s*list result", so):
        if "=" not in block:
            continue
        body = block[block.index("=") + 1:]
        for inner in re.findall(r"\[([^\[\]]*)\]", body):
            results.append([int(x) for x in inner.replace("%Z", "").replace("(", "").replace(")", "").replace("\n", " ").split(";") if x.strip()])
    if len(results) != len(items):
        return None, "expected %d results from coqc, parsed %d" % (len(items), len(results)), secs
    return results, "", secs


def compare_with_model(ln, zs):
    """C++ line against MemAlgos.run_case's observable.  -> message or None"""
    n = ln.n
    if len(zs) != 4 + 2 * (n + 1):
        return "model observable has %d entries" % len(zs)
    threw, err, sadv, dadv = zs[0], zs[1], zs[2], zs[3]
    mdst, msrc = zs[4:4 + n + 1], zs[4 + n + 1:]
    if err:
        return "the model reports a lifetime error for this case"
    if threw != ln.threw:
        return "model threw=%d, implementation threw=%d" % (threw, ln.threw)
    r = parse_ret(ln.ret)
    if not ln.threw:
        if "s" in r and r["s"] != sadv:
            return "returned source advance %d, model %d" % (r["s"], sadv)
        if "d" in r and r["d"] != dadv:
            return "returned destination advance %d, model %d" % (r["d"], dadv)
    loose = ln.el in UNOBSERVABLE_LIFETIME
    for nm, obs, mod in (("dst", ln.dst, mdst), ("src", ln.src, msrc)):
        if not obs:
            continue
        if len(obs) != len(mod):
            return "%s has %d slots, model %d" % (nm, len(obs), len(mod))
        for j, (s, z) in enumerate(zip(obs, mod)):
            if loose and nm == "src" and z == -1:
                continue
            if code_of(s) != z:
                return "%s[%d] is %s, model says %s" % (nm, j, s, {-1: "R", -2: "M"}.get(z, "L%d" % z))
    return None


# ------------------------------------------------------------------------------------------------------------------
def check(report, tier):
    ok, broken = coqbuild.check_property("C15", report)
    # Admitted / axioms are scanned over the whole development; only the files the C15 theorems depend on decide C15
    # (`Print Assumptions` of every C15 theorem is recorded in coverage.print_assumptions), the others are noted.
    mine = set(report.coverage.get("coq_files", []))
    foreign = [b for b in broken if b.startswith("forbidden:") and b[len("forbidden:"):].split(":")[0] not in mine]
    if foreign:
        report.notes.append("forbidden constructs in files C15 does not depend on: " + "; ".join(foreign)[:400])
        broken = [b for b in broken if b not in foreign]
    runs, run_s, maxn = build_and_run(tier)
    found = []          # (group, payload, text)  direct failures: a concrete case
    model_breaks = []   # (payload, text)
    evaluations = 0
    nontrivial = set()
    samples = []

    ref_cases, ref_std, _, ref_err = runs[("c++17", "san")]
    if ref_err or not ref_std:
        found.append((("build", "c++17"), {"case": "build memdrv", "std": "c++17", "expected": "the driver builds and prints STD lines",
                                          "observed": (ref_err or "no STD line")[-1500:]},
                      "C15: the C++17 reference build of the driver failed\n" + (ref_err or "")[-800:]))
    for (std, opt), (cases, stds, problems, berr) in sorted(runs.items()):
        where = "%s %s" % (std, opt)
        if berr:
            found.append((("build", where), {"case": "build memdrv", "std": std, "opt": opt, "expected": "memory.hpp compiles as " + std,
                                             "observed": berr[-1500:]}, "C15: memdrv does not build as %s\n%s" % (where, berr[-800:])))
            continue
        for cname, p in problems:
            grp = ("crash", " ".join((cname or p).split()[:1]), " ".join((cname or "").split()[2:3]), std)
            found.append((grp, {"case": cname or p, "std": std, "opt": opt, "expected": "the call returns or throws the injected exception",
                                "observed": p}, "C15 [%s] %s: %s" % (where, cname or "", p)))
        if ref_std and set(cases) != set(ref_std):
            missing = sorted(set(ref_std) - set(cases), key=str)[:3]
            extra = sorted(set(cases) - set(ref_std), key=str)[:3]
            found.append((("sweep", where), {"case": "case sweep", "std": std, "opt": opt, "expected": "%d cases" % len(ref_std),
                                             "observed": "%d cases; missing %s extra %s" % (len(cases), missing, extra)},
                          "C15 [%s]: the sweep differs from the reference: missing %s, extra %s (a different number of throwing events "
                          "or a crashed group)" % (where, missing, extra)))
        for key, ln in sorted(cases.items(), key=lambda kv: str(kv[0])):
            evaluations += 1
            if ln.n >= 1:
                nontrivial.add(key)
            for msg in direct_oracles(ln):
                found.append((("direct", msg[:30], ln.algo, ln.el, std), {"case": ln.name(), "std": std, "opt": opt, "expected": msg,
                                                                          "observed": ln.text},
                              "C15 [%s] %s: %s\n  %s" % (where, ln.name(), msg, ln.text)))
            ref = ref_std.get(key)
            if ref is not None and ln.observable() != ref.observable():
                found.append((("std", ln.algo, ln.el, std), {"case": ln.name(), "std": std, "opt": opt, "expected": ref.text, "observed": ln.text},
                              "C15 [%s] %s: amc:: differs from the standard algorithm\n  amc: %s\n  std: %s" % (where, ln.name(), ln.text, ref.text)))
        for key, ln in stds.items():
            evaluations += 1
            for msg in direct_oracles(ln):   # the reference itself must satisfy the direct oracles (harness sanity)
                model_breaks.append(({"broken": ["reference run (std::) fails a direct oracle: " + msg], "case": ln.name(), "std": std,
                                      "observed": ln.text}, "C15 [%s] reference %s: %s" % (where, ln.name(), msg)))
        if len(samples) < 6 and cases:
            ks = sorted(cases, key=str)
            samples.append("[%s] %s" % (where, cases[ks[(len(ks) * (len(samples) + 1)) // 7]].text))

    # (d) correspondence with the Coq model
    items = []
    for (std, opt), (cases, stds, problems, berr) in sorted(runs.items()):
        if opt == "san" and not berr:
            items += [(k, std) for k in sorted(cases, key=str)]
    coq_s = 0.0
    model_checked = 0
    if items and "coq:MemAlgos.v" not in " ".join(broken):
        zs, err, coq_s = run_coq(items)
        if zs is None:
            broken.append("correspondence: MemAlgos.run_case could not be evaluated (%s)" % err[:300])
        else:
            for (key, std), z in zip(items, zs):
                ln = runs[(std, "san")][0][key]
                model_checked += 1
                msg = compare_with_model(ln, z)
                if msg:
                    model_breaks.append(({"broken": ["correspondence MemAlgos.run_case <-> memory.hpp: " + msg], "case": ln.name(), "std": std,
                                          "expected": z, "observed": ln.text},
                                         "C15 [%s] %s: implementation and Coq model disagree: %s\n  %s\n  model %s" % (std, ln.name(), msg, ln.text, z)))

    # (e) verdicts
    groups = {}
    for g, payload, text in found:
        groups.setdefault(g, []).append((payload, text))
    for g in sorted(groups, key=str)[:MAX_REPORTED]:
        payload, text = groups[g][0]
        if len(groups[g]) > 1:
            text += "\n  (+ %d more cases of the same kind)" % (len(groups[g]) - 1)
        report.violation(payload, text, False)
    if len(groups) > MAX_REPORTED:
        report.notes.append("%d more groups of failing cases not reported individually" % (len(groups) - MAX_REPORTED))
    if not found:
        # only the proof / the correspondence broke: no failing input on the implementation
        if model_breaks:
            payload, text = model_breaks[0]
            payload = dict(payload)
            payload["no_failing_input_found"] = True
            if len(model_breaks) > 1:
                text += "\n  (+ %d more)" % (len(model_breaks) - 1)
            report.violation(payload, text, True)
        if broken:
            report.violation({"broken": broken, "no_failing_input_found": True},
                             "C15: the Coq development does not check: " + "; ".join(broken)[:1500], True)
    elif model_breaks or broken:
        report.notes.append("also: %d model disagreements, broken obligations: %s" % (len(model_breaks), broken[:3]))

    report.coverage.update({
        "evaluations": evaluations + model_checked,
        "implementation_cases": evaluations,
        "model_cases_compared": model_checked,
        "distinct_nontrivial": len(nontrivial),
        "rule": "distinct (algorithm, iterator kind, element type, length >= 1, throw index) tuples: at least one object is "
                "constructed, moved, relocated or destroyed by the call",
        "samples": samples,
        "exhaustive": True,
        "space": "15 algorithms x iterator kinds {ptr, random access, bidirectional, forward, move_iterator, std::list, "
                 "std::forward_list} x element types {NTR, TR, TM (throwing move), TC, POD} x lengths 0..%d x every throw index "
                 "x -std={c++11,14,17,20}%s" % (maxn, "" if tier == "quick" else " x {-O1 ASan/UBSan, -O2}"),
        "driver_run_s": round(run_s, 1),
        "coq_eval_s": round(coq_s, 1),
        "trusted_base": coqbuild.TRUSTED_BASE + [
            "harness/cpp/memdrv.cpp: the observation of a slot (ledger identity of El / ElTM objects; for trivially copyable types "
            "only the bits are observable, lifetime is not) and the mapping slot text <-> MemAlgos.code",
            "lib/c15.py: the mapping case -> MemAlgos.mkcase (std::list / forward_list iterators taken as non pointer bidirectional / "
            "forward iterators), parsing of coqc's vm_compute output",
            "libstdc++'s std::uninitialized_* / std::destroy* as the reference (`STD` lines), relocate = uninitialized_move + destroy",
            "the MemAlgos slot model: one object per slot, disjoint source / destination ranges, a trivially copyable move keeps the source",
        ],
    })
    report.level = "proof"


def replay(payload):
    """Re-run the case of a replay file on the current tree (all four standards); 1 if it still fails."""
    case = payload.get("case", "")
    r = C.Report("C15", "quick")
    check(r, "quick")
    bad = [t for _, t, _ in r.violations if case and case in t]
    for t in bad[:3]:
        print("  " + t)
    if bad:
        print("VIOLATION property=C15 replay=(replayed)")
        return 1
    print("replay passes on the current tree")
    return 0
