"""Vector properties (C01 C02 C05 C06 C07 C08 C10 and, through fault injection, C09): direct oracles evaluated on the
implementation by the C++ driver, and the correspondence between the extracted Coq model and the implementation."""
import collections
import os

from . import common as C
from . import vecgen, vecrun
from .vecgen import Cfg

# which oracle tags (printed by the driver) decide which property; CRASH = sanitizer abort / signal
OWNED = {
    "C01": {"C01", "CRASH", "ALIGN"},
    "C02": {"C02", "CRASH", "ALIGN"},
    "C05": {"C05"},
    "C06": {"C06"},
    "C07": {"C07"},
    "C08": {"C08", "CRASH"},
    "C09": {"C09"},
    "C10": {"C10", "C02", "CRASH"},
}


def scripts_for(prop, tier, cfg, seed):
    """List of (label, script lines) for one configuration."""
    thorough = tier == "thorough"
    out = []
    ms = cfg.N + (6 if thorough else 3)
    if cfg.flavour == "vec":
        ms = 7 if thorough else 5
    if prop in ("C01", "C02", "C05", "C06", "C07"):
        out.append(("single", vecgen.systematic_single(cfg, min(ms, cfg.N + 2 if cfg.flavour != "vec" else 4))))
        out.append(("pairs", vecgen.systematic_pairs(cfg, min(ms, cfg.N + 2 if cfg.flavour != "vec" else 3))))
        n = 1500 if thorough else 150
        out.append(("random", vecgen.random_script(cfg, seed, n, 60 if thorough else 40)))
        if prop == "C05" and cfg.flavour == "sv":
            out.append(("random-inline", vecgen.random_script(cfg, seed + 7, n, 40, maxsize=cfg.N, allow_limit_errors=False)))
    elif prop == "C08":
        out.append(("limit", vecgen.limit_grid(cfg)))
        if cfg.limit < 300:
            n = 400 if thorough else 60
            out.append(("random-limit", vecgen.random_script(cfg, seed, n, 40, maxsize=cfg.limit + 2)))
    elif prop == "C10":
        out.append(("alias", vecgen.alias_grid(cfg, 6 if thorough else 5)))
        n = 600 if thorough else 80
        out.append(("random-alias", vecgen.random_script(cfg, seed, n, 40, own_prob=0.6)))
    return out


def minimise(cfg, lines, prop, fail_step):
    """Shrink a failing history: drop lines that are not needed for the same property to fail."""
    lines = lines[: fail_step + 1] if fail_step is not None else list(lines)

    def fails(ls):
        res = vecrun.run_scripts([(cfg.name, ["H m"] + ls)])
        for _, hs, _, berr in res:
            if berr:
                return False
            for h in hs:
                for _, p, _ in h.failures():
                    if p in OWNED[prop]:
                        return True
        return False

    i = 0
    budget = 40
    while i < len(lines) - 1 and budget > 0:
        cand = lines[:i] + lines[i + 1:]
        budget -= 1
        if fails(cand):
            lines = cand
        else:
            i += 1
    return lines


def known_match(known, prop, cfg, op_line, msg, ctx=None):
    for k in known:
        if k.get("kind") != "finding" or prop not in k.get("properties", [k.get("property")]):
            continue
        m = k.get("match", {})
        if "op" in m and not any(op_line.split(" ")[0].lstrip("!0123456789+ ") == o or op_line.split(" ")[1 if op_line.startswith("!") else 0] == o for o in m["op"]):
            continue
        if "msg" in m and not any(s in msg for s in m["msg"]):
            continue
        if "op_contains" in m and not all(s in op_line for s in m["op_contains"]):
            continue
        if "config_prefix" in m and not any(cfg.name.startswith(x) for x in m["config_prefix"]):
            continue
        if "cat_not" in m and cfg.cat in m["cat_not"]:
            continue
        if "cat" in m and cfg.cat not in m["cat"]:
            continue
        if "injected_prefix" in m and not ((ctx or {}).get("injected") or "").startswith(m["injected_prefix"]):
            continue
        if m.get("pos_lt_size"):
            # op line: <op> <container> <pos> ...; the finding only covers insertion strictly before end()
            toks = op_line.lstrip("!0123456789+ ").split(" ")
            try:
                pos = int(toks[2])
            except (IndexError, ValueError):
                continue
            if ctx is None or ctx.get("size") is None or not pos < ctx["size"]:
                continue
        return k
    return None


def run_oracles(prop, tier, report, configs=None):
    """Run the generated scripts, evaluate the oracles; returns coverage dict."""
    seed = C.seed()
    names = configs or list(vecgen.CONFIGS)
    jobs = []
    labels = []
    scripts = {}
    for name in names:
        cfg = Cfg(name)
        for label, lines in scripts_for(prop, tier, cfg, seed):
            if not lines:
                continue
            # make history ids unique per label
            lines = [("H %s.%s" % (label, l[2:]) if l.startswith("H ") else l) for l in lines]
            jobs.append((name, lines))
            labels.append(label)
            scripts[(name, label)] = vecrun.split_histories(lines)
    results = vecrun.run_scripts(jobs)
    report._last_jobs = jobs
    report._last_results = results
    known = C.load_known()
    nh = ns = 0
    opkinds = collections.Counter()
    states = set()
    distinct = set()
    samples = []
    nviol = 0
    seen_keys = set()
    for (name, hs, err, berr), label in zip(results, labels):
        cfg = Cfg(name)
        if berr:
            report.violation({"config": name, "broken": ["driver build for %s" % name], "compiler_output": berr[-4000:],
                              "no_failing_input_found": True},
                             "the vector driver does not build against the current headers (%s)" % name, True)
            continue
        if "DRIVER TIMEOUT" in err:
            report.notes.append("driver timeout for %s/%s" % (name, label))
        for h in hs:
            nh += 1
            for s in h.steps:
                ns += 1
                opk = s.op.lstrip("!0123456789+ ").split(" ")[0]
                opkinds[opk] += 1
                if not s.res.startswith("skip"):
                    c0 = s.conts[int(s.op.lstrip("!0123456789+ ").split(" ")[1])] if len(s.op.split(" ")) > 1 and s.op.lstrip("!0123456789+ ").split(" ")[1].isdigit() and int(s.op.lstrip("!0123456789+ ").split(" ")[1]) < len(s.conts) else ""
                    cls = c0.split(";")[:3]
                    distinct.add((name, opk, tuple(cls), s.res.split(":")[0]))
            fs = [f for f in h.failures() if f[1] in OWNED[prop]]
            if not fs:
                continue
            i, p, msg = fs[0]
            lines = scripts[(name, label)].get(h.hid, [])
            op_line = lines[i] if i is not None and i < len(lines) else "(end of history)"
            k = known_match(known, prop, cfg, op_line, msg)
            if k is not None:
                report.known_finding("%s: %s" % (k["site"], k["failure"]))
                continue
            nviol += 1
            import re as _re
            key = (op_line.lstrip("!0123456789+ ").split(" ")[0], _re.sub(r"[0-9,\[\]-]+", "#", msg)[:60])
            if key in seen_keys or len(seen_keys) >= 8:
                continue  # one replay per (operation kind, failure shape); the total is still reported
            seen_keys.add(key)
            mini = minimise(cfg, lines, prop, i) if len(seen_keys) <= 4 else lines[: (i + 1 if i is not None else len(lines))]
            report.violation({"config": name, "script": mini, "failing_step": op_line, "oracle": p, "observed": msg,
                              "found_by": label, "stderr_tail": err[-1500:] if p == "CRASH" else "",
                              "no_failing_input_found": False},
                             "%s [%s] %s: %s\n  script: %s" % (name, label, op_line, msg, " ; ".join(mini)))
        if hs and len(samples) < 4:
            h = hs[len(hs) // 2]
            samples.append({"config": name, "generator": label, "history": scripts[(name, label)].get(h.hid, [])[:12]})
    cov = {
        "evaluations": ns,
        "histories": nh,
        "distinct_nontrivial": len(distinct),
        "rule": "scripts: systematic sweeps of structural states x operations x argument classes, plus seeded random histories "
                "biased to the boundaries {0,N-1,N,N+1,cap}; a case is distinct by (configuration, operation kind, pre-state class "
                "(size;capacity;store), outcome kind) and non-trivial when the operation was executed (not skipped by a precondition)",
        "samples": samples,
        "operation_histogram": dict(opkinds.most_common()),
        "configurations": names,
        "oracle_violations_total": nviol,
    }
    return cov


# ---------------------------------------------------------------------------------------------------------------
# C09: fault enumeration.  For every scenario, the k-th throwing-capable event (element construction / copy /
# assignment, allocator call) throws, for every k until the operation completes.
POST = ["clear 0", "push_back 0 v9", "push_back 0 v8", "cmp 0 0"]


def run_faults(tier, report, configs=None):
    names = configs or list(vecgen.CONFIGS)
    thorough = tier == "thorough"
    known = C.load_known()
    # pass 1: count the throwing-capable events of every scenario
    scen = {}
    jobs = []
    for name in names:
        cfg = Cfg(name)
        sc = vecgen.fault_scenarios(cfg, cfg.N + (3 if thorough else 2) if cfg.flavour != "vec" else (5 if thorough else 4))
        scen[name] = sc
        lines = []
        for i, (pre, op) in enumerate(sc):
            lines.append("H c%d" % i)
            lines += pre + [op]
        jobs.append((name, lines))
    res1 = vecrun.run_scripts(jobs)
    jobs2 = []
    index = {}
    for name, hs, err, berr in res1:
        if berr:
            report.violation({"config": name, "broken": ["driver build for %s" % name], "compiler_output": berr[-4000:],
                              "no_failing_input_found": True}, "the vector driver does not build (%s)" % name, True)
            continue
        lines = []
        te_of = {}
        for h in hs:
            if h.steps and not h.crash:
                te_of[int(h.hid[1:])] = h.steps[-1].te
        for i, (pre, op) in enumerate(scen[name]):
            te = te_of.get(i, 0)
            for k in range(te):
                hid = "f%d.%d" % (i, k)
                lines.append("H " + hid)
                lines += pre + ["!%d %s" % (k, op)] + POST
                index[(name, hid)] = (pre, op, k)
        # double faults, for element types whose moves throw: the roll-back in the handlers (shift_left, unshift_right, the
        # destruction of what was built) is itself made to throw - after the k-th event, the j-th one that follows
        if Cfg(name).cat == "NTM":
            for i, (pre, op) in enumerate(scen[name]):
                if op.split(" ")[0] not in ("insert", "insert_rv", "emplace", "insert_n", "insert_range", "erase", "erase_range", "swap", "move_assign", "ctor_move"):
                    continue
                te = te_of.get(i, 0)
                for k in range(min(te, 6)):
                    for j in range(3):
                        hid = "g%d.%d.%d" % (i, k, j)
                        lines.append("H " + hid)
                        lines += pre + ["!%d+%d %s" % (k, j, op)] + POST
                        index[(name, hid)] = (pre, op, "%d+%d" % (k, j))
        jobs2.append((name, lines))
    res2 = vecrun.run_scripts(jobs2)
    ns = nh = 0
    nthrows = 0
    distinct = set()
    samples = []
    seen_keys = set()
    nviol = 0
    for name, hs, err, berr in res2:
        cfg = Cfg(name)
        for h in hs:
            nh += 1
            pre, op, k = index.get((name, h.hid), ([], "?", -1))
            inj = [s for s in h.steps if s.op.startswith("!")]
            if inj and inj[0].res.startswith("threw"):
                nthrows += 1
                distinct.add((name, op.split(" ")[0], inj[0].res, k))
            ns += len(h.steps)
            fs = [f for f in h.failures() if f[1] in ("C09", "CRASH", "C02", "C06", "C01", "C07")]
            if not fs:
                continue
            i, p, msg = fs[0]
            size_before = None
            try:
                inj_i = [j for j, s0 in enumerate(h.steps) if s0.op.startswith("!")][0]
                a_idx = int(op.split(" ")[1])
                size_before = int(h.steps[inj_i - 1].conts[a_idx].split(";")[0]) if inj_i > 0 else 0
            except (IndexError, ValueError):
                pass
            km = known_match(known, "C09", cfg, op, msg, {"size": size_before, "injected": (h.injected[0] if h.injected else (getattr(inj[0], "inj", "") if inj else ""))})
            if km is not None:
                report.known_finding("%s: %s" % (km["site"], km["failure"]))
                continue
            nviol += 1
            import re as _re
            key = (op.split(" ")[0], _re.sub(r"[0-9,\[\]-]+", "#", msg)[:50])
            if key in seen_keys or len(seen_keys) >= 8:
                continue
            seen_keys.add(key)
            script = pre + ["!%s %s" % (k, op)] + POST
            report.violation({"config": name, "script": script, "failing_step": "!%s %s" % (k, op), "oracle": p, "observed": msg,
                              "found_by": "fault-enumeration", "no_failing_input_found": False},
                             "%s throw index %s in `%s` (after %s): %s" % (name, k, op, " ; ".join(pre), msg))
        if hs and len(samples) < 3:
            h = hs[len(hs) // 2]
            pre, op, k = index.get((name, h.hid), ([], "?", -1))
            samples.append({"config": name, "scenario": pre + ["!%s %s" % (k, op)], "outcome": [s.res for s in h.steps if s.op.startswith("!")]})
    return {
        "evaluations": nh,
        "steps": ns,
        "injected_throws_observed": nthrows,
        "distinct_nontrivial": len(distinct),
        "rule": "fault enumeration: scenario = (configuration, pre-state, operation, position/count class, spare capacity or not); "
                "for each, throw index k = 0..(number of throwing-capable events - 1), so every internal throw point is visited; "
                "distinct = (configuration, operation kind, exception kind, k); non-trivial = the injected event really threw",
        "samples": samples,
        "exhaustive": True,
        "configurations": names,
    }


# ---------------------------------------------------------------------------------------------------------------
# Proof + correspondence + oracles: the check of a vector property.
# fields of the correspondence each property's theorems rest on (a difference elsewhere is logged as model drift)
CORR_FIELDS = {
    "C01": {"res", "size", "vals", "_capa", "_size"},
    "C02": set(),
    "C05": {"store", "capacity", "alloc", "_capa", "_size"},
    "C06": {"alloc", "store", "capacity"},
    "C07": {"capacity", "store", "size", "_capa", "_size"},
    "C08": {"res", "size", "vals", "capacity", "store"},
    "C10": {"res", "vals", "size"},
    "C13": {"res", "size", "vals", "capacity", "store", "_capa", "_size", "alloc"},
    "C18": {"capacity", "alloc"},
}


def check_vector_property(prop, report, tier, oracle_fn=None, extra_cov=None):
    from . import coqbuild, veccorr
    ok, broken = coqbuild.check_property(prop, report, extra_files=coqbuild.TV_FILES)
    nviol_before = len(report.violations)
    cov = (oracle_fn or run_oracles)(prop, tier, report)
    report.coverage.update(cov)
    found_input = len(report.violations) > nviol_before
    # correspondence on the same scripts / same C++ transcripts
    drift = []
    try:
        diffs, cnt = veccorr.run(report._last_jobs, report._last_results)
    except RuntimeError as e:
        diffs, cnt = [], {"steps_compared": 0, "histories_compared": 0}
        broken.append("model-runner: " + str(e)[-500:])
    want = CORR_FIELDS.get(prop, set())
    rel = []
    for d in diffs:
        fields = {f.split("[")[0] for (_, f, _, _) in d["diffs"]}
        if fields & want or "build" in fields:
            rel.append(d)
        else:
            drift.append(d)
    report.coverage["traces_validated_against_impl"] = cnt["histories_compared"]
    report.coverage["correspondence_steps_compared"] = cnt["steps_compared"]
    report.coverage["correspondence_fields"] = sorted(want)
    report.coverage["correspondence_differences"] = len(rel)
    report.coverage["model_drift_other_fields"] = len(drift)
    if drift:
        report.notes.append("model drift outside this property's observables: %s" % str([(d["config"], d["diffs"][0]) for d in drift[:3]]))
    if rel and not found_input:
        seen = set()
        for d in rel:
            key = (d["diffs"][0][1].split("[")[0], d["script"][-1].split(" ")[0] if d["script"] else "")
            if key in seen or len(seen) >= 4:
                continue
            seen.add(key)
            i, f, mv, cv = d["diffs"][0]
            report.violation({"config": d["config"], "script": d["script"], "failing_step": d["script"][-1] if d["script"] else "",
                              "broken": ["corr:%s:%s" % (prop, f)], "model": mv, "observed": cv,
                              "found_by": "correspondence", "no_failing_input_found": True},
                             "correspondence %s: model and implementation disagree on %s (model %s, implementation %s)\n  script: %s"
                             % (d["config"], f, mv, cv, " ; ".join(d["script"][-8:])), True)
    if broken and not found_input and not rel:
        report.violation({"broken": broken, "no_failing_input_found": True, "found_by": "proof"},
                         "proof obligations of %s no longer check: %s" % (prop, "; ".join(broken)[:1500]), True)
    elif broken:
        report.notes.append("broken obligations: " + "; ".join(broken)[:1500])
    report.coverage["trusted_base"] = coqbuild.TRUSTED_BASE
    report.coverage.setdefault("exhaustive", False)
    if extra_cov:
        report.coverage.update(extra_cov)
    return ok
