"""Dispatch of ./check."""
import json
import os
import sys
import traceback

from . import common as C


def main(argv):
    if not argv:
        print(__doc__)
        return 2
    prop = argv[0]
    tier = os.environ.get("VERIF_TIER", "quick")
    replay = None
    i = 1
    while i < len(argv):
        if argv[i] == "--tier":
            tier = argv[i + 1]
            i += 2
        elif argv[i] == "--replay":
            replay = argv[i + 1]
            i += 2
        else:
            i += 1
    if tier not in ("quick", "thorough"):
        tier = "quick"
    os.makedirs(C.CACHE, exist_ok=True)
    from . import props
    fn = props.REGISTRY.get(prop)
    if fn is None:
        print("unknown property %s" % prop)
        return 2
    if replay:
        with open(replay) as f:
            payload = json.load(f)
        return props.replay(prop, payload)
    report = C.Report(prop, tier)
    try:
        fn(report, tier)
    except Exception:  # a crash of the machinery itself must not look like a pass
        traceback.print_exc()
        report.violation({"broken": ["check machinery raised an exception"], "trace": traceback.format_exc()[-3000:],
                          "no_failing_input_found": True}, "internal error in the check", True)
    return report.finish()
