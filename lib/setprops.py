"""Set properties (C03 C04 C11 C12 C19): Coq theorems + direct oracles evaluated by the C++ set driver on the implementation
(real std::set side by side, comparator counters) + correspondence with the extracted set models."""
import collections
import re

from . import common as C
from . import coqbuild, setgen, setrun
from .setgen import SCfg

OWNED = {
    "C03": {"C03", "CRASH"},
    "C04": {"C04", "C05", "CRASH"},
    "C11": {"C11", "CRASH"},
    "C12": {"C12", "CRASH"},
    "C19": {"C19"},
    "C02": {"C02", "CRASH"},
    "C06": {"C06"},
    "C05": {"C05"},
}


def fs_configs():
    return [n for n in setgen.CONFIGS if SCfg(n).kind == "FS"]


def ss_configs():
    return [n for n in setgen.CONFIGS if SCfg(n).kind == "SS"]


def jobs_for(prop, tier, seed):
    """List of (config, label, lines, chunk)."""
    th = tier == "thorough"
    out = []
    if prop == "C03":
        for n in fs_configs():
            cfg = SCfg(n)
            out.append((n, "random", setgen.random_script(cfg, seed, 2500 if th else 300, 60), None))
            out.append((n, "bulk", setgen.bulk_script(cfg, seed, 600 if th else 120), None))
            out.append((n, "hints", setgen.hint_enumeration(cfg, 5), None))
    elif prop == "C04":
        for n in ss_configs():
            cfg = SCfg(n)
            out.append((n, "random", setgen.random_script(cfg, seed, 2500 if th else 300, 60), None))
            out.append((n, "exhaustive", setgen.smallset_exhaustive(cfg, None if not th else cfg.default_domain + 1, pairs=th), 400))
            out.append((n, "merges", setgen.random_script(cfg, seed + 5, 400, 30, weights={"merge": 6, "merge_other": 3, "insert": 5, "erase_key": 3, "insert_range": 3, "ctor": 2, "cmp": 3, "swap": 1, "move_assign": 1, "clear": 1}) if not th else [], None))
    elif prop == "C11":
        for n in ss_configs():
            cfg = SCfg(n)
            out.append((n, "exhaustive", setgen.smallset_exhaustive(cfg, None if not th else cfg.default_domain + 1, pairs=False), 400))
            out.append((n, "random", setgen.random_script(cfg, seed + 11, 1500 if th else 200, 60), None))
    elif prop == "C12":
        for n in fs_configs() + ss_configs():
            cfg = SCfg(n)
            out.append((n, "hints", setgen.hint_enumeration(cfg, 8 if th else 6), 400))
    elif prop in ("C02", "C06", "C05"):
        for n in setgen.CONFIGS:
            cfg = SCfg(n)
            if prop == "C02" and not cfg.instrumented:
                continue
            out.append((n, "random", setgen.random_script(cfg, seed + 3, 1500 if th else 150, 50), None))
            out.append((n, "bulk", setgen.bulk_script(cfg, seed + 3, 200 if th else 30), None))
            if prop == "C05" and cfg.kind == "SS":
                # the inline promise of a SmallSet: every (content, state) x operation of the small scope, and merge-heavy histories
                out.append((n, "exhaustive", setgen.smallset_exhaustive(cfg, None if not th else cfg.default_domain + 1, pairs=th), 400))
                out.append((n, "merges", setgen.random_script(cfg, seed + 5, 1500 if th else 400, 30, weights={"merge": 8, "insert": 5, "erase_key": 3, "insert_range": 3, "ctor": 2, "swap": 1, "move_assign": 1, "copy_assign": 1, "clear": 1, "insert_node": 1, "extract_key": 1}), None))
    elif prop == "C19":
        for n in setgen.CONFIGS:
            cfg = SCfg(n)
            out.append((n, "sweep", setgen.lookup_sweep(cfg, 80 if th else 48, extra_sizes=(128, 200, 300) if th else (128,)), 200))
            out.append((n, "hints", setgen.hint_enumeration(cfg, 5), None))
    return out


def known_match(known, prop, cfg, op_line, msg):
    for k in known:
        if k.get("kind") != "finding" or prop not in k.get("properties", []):
            continue
        m = k.get("match")
        if not m:
            continue
        if "op" in m and op_line.split(" ")[0].lstrip("!0123456789") not in m["op"] and (len(op_line.split(" ")) < 2 or op_line.split(" ")[1] not in m["op"]):
            continue
        if "msg" in m and not any(s in msg for s in m["msg"]):
            continue
        if "config_contains" in m and not any(s in cfg.name for s in m["config_contains"]):
            continue
        return k
    return None


def minimise(name, lines, prop, fail_step):
    lines = lines[: fail_step + 1] if fail_step is not None else list(lines)

    def fails(ls):
        res = setrun.run_scripts([(name, ["H m"] + ls)])
        for _, hs, _, berr in res:
            if berr:
                return False
            for h in hs:
                for _, p, _ in h.failures():
                    if p in OWNED[prop]:
                        return True
        return False

    i = 0
    budget = 30
    while i < len(lines) - 1 and budget > 0:
        cand = lines[:i] + lines[i + 1:]
        budget -= 1
        if fails(cand):
            lines = cand
        else:
            i += 1
    return lines


def run_oracles(prop, tier, report):
    seed = C.seed()
    spec = jobs_for(prop, tier, seed)
    jobs = [(n, lines) for (n, _, lines, _) in spec]
    # chunked jobs run their histories in parallel pieces
    results = []
    by_chunk = collections.defaultdict(list)
    for i, (n, label, lines, chunk) in enumerate(spec):
        by_chunk[chunk].append(i)
    results = [None] * len(spec)
    for chunk, idxs in by_chunk.items():
        rs = setrun.run_scripts([jobs[i] for i in idxs], chunk=chunk)
        for i, r in zip(idxs, rs):
            results[i] = r
    report._last_jobs = jobs
    report._last_results = results
    known = C.load_known()
    nh = ns = 0
    opk = collections.Counter()
    distinct = set()
    samples = []
    seen = set()
    nviol = 0
    cmpmax = collections.defaultdict(int)
    hintmax = -1
    for (name, label, lines, chunk), (cn, hs, err, berr) in zip(spec, results):
        cfg = SCfg(name)
        if berr:
            report.violation({"config": name, "broken": ["driver build for %s" % name], "compiler_output": berr[-4000:], "no_failing_input_found": True},
                             "the set driver does not build against the current headers (%s)" % name, True)
            continue
        scripts = setrun.split_histories(lines)
        for h in hs:
            nh += 1
            hintmax = max(hintmax, getattr(h, "hintmax", -1))
            for s in h.steps:
                ns += 1
                toks = s.op.lstrip("!0123456789+ ").split(" ")
                opk[toks[0]] += 1
                if not s.res.startswith("skip"):
                    a = int(toks[1]) if len(toks) > 1 and toks[1].isdigit() and int(toks[1]) < 3 else 0
                    c0 = s.conts[a].split(";")
                    distinct.add((name, toks[0], tuple(c0[:2]), s.res.split(":")[0], s.res.split(":")[-1] if s.res.startswith(("ins", "nins", "b:", "n:")) else ""))
                    if prop == "C19":
                        cmpmax[(name, toks[0])] = max(cmpmax[(name, toks[0])], s.cmp)
            fs = [f for f in h.failures() if f[1] in OWNED[prop]]
            if not fs:
                continue
            i, p, msg = fs[0]
            hl = scripts.get(h.hid, [])
            op_line = hl[i] if i is not None and i < len(hl) else "(end of history)"
            k = known_match(known, prop, cfg, op_line, msg)
            if k is not None:
                report.known_finding("%s: %s" % (k["site"], k["failure"]))
                continue
            nviol += 1
            key = (op_line.lstrip("!0123456789+ ").split(" ")[0], re.sub(r"[0-9,\[\]-]+", "#", msg)[:60])
            if key in seen or len(seen) >= 8:
                continue
            seen.add(key)
            mini = minimise(name, hl, prop, i) if len(seen) <= 4 else hl[: (i + 1 if i is not None else len(hl))]
            report.violation({"config": name, "script": mini, "failing_step": op_line, "oracle": p, "observed": msg, "found_by": label,
                              "stderr_tail": err[-1500:] if p == "CRASH" else "", "no_failing_input_found": False},
                             "%s [%s] %s: %s\n  script: %s" % (name, label, op_line, msg, " ; ".join(mini)))
        if hs and len(samples) < 5:
            h = hs[len(hs) // 2]
            samples.append({"config": name, "generator": label, "history": scripts.get(h.hid, [])[:10]})
    cov = {
        "evaluations": ns, "histories": nh, "distinct_nontrivial": len(distinct),
        "rule": "generators: " + ", ".join(sorted({l for _, l, _, _ in spec})) + "; a case is distinct by (configuration, operation kind, pre-state "
                "(size; flat/small/large), kind of result, boolean/count outcome) and non-trivial when the driver executed it (not skipped by a precondition)",
        "samples": samples, "operation_histogram": dict(opk.most_common()), "configurations": sorted({n for n, _, _, _ in spec}),
        "oracle_violations_total": nviol,
    }
    if prop == "C19":
        cov["max_comparator_calls"] = {"%s %s" % k: v for k, v in sorted(cmpmax.items()) if k[1] in ("find", "count", "contains", "lb", "ub", "eqr", "insert", "erase_key", "insert_hint")}
        cov["max_calls_with_correct_hint"] = hintmax
    return cov


def check_set_property(prop, report, tier, corr=None, extra_files=()):
    ok, broken = coqbuild.check_property(prop, report, extra_files=extra_files)
    n0 = len(report.violations)
    cov = run_oracles(prop, tier, report)
    report.coverage.update(cov)
    found = len(report.violations) > n0
    rel = []
    if corr is not None:
        try:
            rel, cnt = corr(prop, report, report._last_jobs, report._last_results)
            report.coverage.update(cnt)
        except RuntimeError as e:
            broken.append("model-runner: " + str(e)[-500:])
        if rel and not found:
            shown = set()
            for d in rel:
                key = (d["field"], d["script"][-1].split(" ")[0] if d["script"] else "")
                if key in shown or len(shown) >= 4:
                    continue
                shown.add(key)
                report.violation({"config": d["config"], "script": d["script"], "failing_step": d["script"][-1] if d["script"] else "",
                                  "broken": ["corr:%s:%s" % (prop, d["field"])], "model": d["model"], "observed": d["impl"],
                                  "found_by": "correspondence", "no_failing_input_found": True},
                                 "correspondence %s: model and implementation disagree on %s (model %s, implementation %s)\n  script: %s"
                                 % (d["config"], d["field"], d["model"], d["impl"], " ; ".join(d["script"][-8:])), True)
    if broken and not found and not rel:
        report.violation({"broken": broken, "no_failing_input_found": True, "found_by": "proof"},
                         "proof obligations of %s no longer check: %s" % (prop, "; ".join(broken)[:1500]), True)
    elif broken:
        report.notes.append("broken obligations: " + "; ".join(broken)[:1500])
    report.coverage["trusted_base"] = coqbuild.TRUSTED_BASE
    report.coverage.setdefault("exhaustive", prop in ("C12",))
    return ok


def replay(prop, payload):
    res = setrun.run_scripts([(payload["config"], ["H replay"] + payload["script"])])
    for name, hs, err, berr in res:
        if berr:
            print(berr[-2000:])
            print("VIOLATION property=%s replay=%s no-failing-input-found" % (prop, "(driver does not build)"))
            return 1
        for h in hs:
            for s in h.steps:
                print("  %s -> %s | %s | cmp=%d" % (s.op, s.res, " | ".join(s.conts), s.cmp))
            fs = [f for f in h.failures() if f[1] in OWNED.get(prop, {prop}) or f[1] == "CRASH" or (prop == "C09" and any(s.res.startswith("threw") for s in h.steps))]
            if fs:
                for f in fs[:5]:
                    print("  FAIL step=%s %s: %s" % f)
                print("VIOLATION property=%s replay=%s" % (prop, "(replayed)"))
                return 1
    print("replay passes on the current tree")
    return 0
