#!/usr/bin/env python3
"""Regenerates /verif/MANIFEST.json from the table below (kept here so that the manifest stays consistent and valid)."""
import json
import os

ROOT = os.path.dirname(os.path.dirname(os.path.abspath(__file__)))
ALL = ["C%02d" % i for i in range(1, 21)]

CLAIMED = {
    "C01": {
        "technique": "Coq proof (invariant by induction over operation histories of an executable model) + lock-step correspondence of the extracted model with the implementation + translation validation of the word functions",
        "text": "Theorems C01_invariant_every_history / C01_observables_agree_with_sequence (coq/Properties_C01.v): for every flavour, size_type maximum, inline capacity, element category, allocator kind and every operation history of the model, size()/empty()/capacity() computed from the two size words agree with the element sequence, which the model updates with std::vector's list semantics. The model is tied to the code on every run: its word functions are proved equal (Gen/TV_<S>.v) to definitions regenerated from clang's AST of the current headers, and the extracted model runs in lock-step with the real vectors (result, size, capacity, storage class, both words, contents, allocator events after every step) on systematic and random histories; real std::vector runs side by side as the direct oracle.",
        "note": "Trusted: Coq kernel; translator amc2coq.py + clang AST; extraction (ExtrOcamlBasic) + OCaml; the C++ driver and generators. Modelled, not verified: element-level work of the shifting helpers is abstracted to list operations in this model (slot-level models in Slots.v/Throw.v); the correspondence is sampled (systematic small scope + random), not exhaustive.",
        "design": "5 C01"},
    "C08": {
        "technique": "Coq proof over the executable model (every throwing step leaves the pool unchanged; throws exactly at the limit) + exhaustive limit-neighbourhood correspondence and direct oracle",
        "text": "Theorem C08_threw_unchanged: in the model, any operation that throws (FixedCapacityVector beyond N -> out_of_range, dynamic vector beyond the size_type maximum -> overflow_error, at(i>=size) -> out_of_range) leaves every container identical (words, contents) with no allocator request (swap2: contents identical, first operand may have grown); C08_throws_exactly_at_the_limit_*: the growing combinators throw exactly when the resulting size exceeds the limit, sizes are unbounded Z so no wrap is hidden, the word updates are proved in range. Tied by correspondence on the exhaustive limit grid (8-bit size types, small N: every size near the limit x every growing op x positions x counts) and by the direct oracle (contents/size/capacity before = after, exception type, live-object count).",
        "note": "Known findings (known_findings.json): single-pass input ranges longer than the limit (assign: contents replaced; insert/append on a dynamic vector: capacity already grown). Trusted base as C01.",
        "design": "5 C08"},
    "C18": {
        "technique": "Coq proof (geometric growth bound by induction, for every n) + translation validation of SafeNextCapacity + reallocation-count sweep and capacity-sequence correspondence",
        "text": "Theorems C18_reallocs (appending n elements one by one performs at most 2*ceil(log2 n)+4 growths, for every n), C18_two_steps (two growths at least double the capacity), C18_growth_is_safe_next (the growth function of the proof is the library's SafeNextCapacity as modelled in Words.safe_next, which Gen/TV_<S>.v prove equal to the definition regenerated from smallvector.hpp for six size types). The check counts reallocations and relocated elements of the real vectors for every prefix n of long append runs from four starting states, checks reserve (single allocation, capacity >= n) and shrink_to_fit (capacity = size or N), and compares the capacity/allocator-event sequence with the extracted model step by step.",
        "note": "The clamp to the size_type maximum is covered by the correspondence (8-bit configurations run to the limit), the theorem is about the unclamped recurrence. Trusted base as C01.",
        "design": "5 C18"},
}

CLAIMED["C17"] = {
    "technique": "Coq proof over type descriptors (trait rules, smallest size_type, Itanium layout arithmetic, noexcept rules) + every instance of a large matrix decided by the compiler and compared with the vm_compute'd model",
    "text": "Theorems in coq/Properties_C17.v, all for unbounded parameters: C17_trait (is_trivially_relocatable = declaration if any, else trivially copyable; pair rule), C17_smallest_size_type (least of 8/16/32/64 bits holding N), C17_layout_small (N*sizeof(T) <= 8 -> sizeof(SmallVector) = sizeof(vector)), C17_layout_large (otherwise at most N slots + 6 bytes of padding more; bound tight), C17_layout_fcv, C17_fcv_triv_dtor, C17_container_tr_conjunction, C17_noexcept. The tie: a generated probe (46 size/alignment shapes x 12 element kinds x N in 0..40 and the 255/256/65535/65536 boundaries x 4 size types, 38 compiler-decided constants per row, under -std=c++17 in quick and c++11/14/17/20 in thorough) is compiled against /repo's headers; every row must equal the model's value (evaluated by coqc vm_compute) and satisfy the property's inequalities directly.",
    "note": "LP64 / Itanium ABI only (pointer size 8). Known finding: a non-relocatable user allocator is not part of the trait (known_findings.json). Trusted: g++ as the decision procedure of each instance, the probe generator, the row transcription.",
    "design": "5 C17"}
CLAIMED["C20"] = {
    "technique": "Coq proof (read-only threads: every interleaving is conflict-free and returns sequential results) whose premise is a write-site table regenerated from clang's AST of the const members (obligation checked by vm_compute); ThreadSanitizer reader/writer runs as supporting search",
    "text": "PARTIAL (logical half). Theorems C20_racefree (for every set of read-only threads and every interleaving: no two steps conflict, the shared state is unchanged, each read returns its sequential value), C20_footprint_readonly (forallb no_writes Footprint.table = true, where Gen/Footprint.v is regenerated on every run by translator/footprint.py from clang's AST of every const member function, copy constructor/assignment and comparison helper of the instantiated containers: assignments/++/non-const calls rooted in shared memory, const-dropping casts, writable pointers escaping, static locals, mutable members) and C20_table_racefree (combination). A const member that starts writing shared or static state makes the table non-empty and the obligation fail; the TSan driver (16 container kinds/states, 265 kind/operation pairs, readers + writers on distinct objects) then exhibits the race as the replay.",
    "note": "Outside the model: the C++ memory model below sequential consistency, compiler-introduced accesses, libstdc++/malloc internals; the footprint extractor is trusted for completeness of write sites (hypothesis `respects` of C20_table_racefree). A clean TSan run proves nothing; it only supplies failing schedules.",
    "design": "5 C20"}

CLAIMED["C12"] = {
    "technique": "Coq proof (hinted insertion = plain insertion for every strict weak order, sorted list, hint and value) transferred by translation validation to the decision tree regenerated from clang's AST of FlatSet::insert_hint; complete enumeration of a small key domain on the implementation",
    "text": "Theorems C12_hint_irrelevant (the nine-exit decision tree of flatset.hpp returns the same list AND position as plain insertion, for every comparator that is a strict weak order, every sorted content of any length, every hint in [begin,end], every value), C12_result_sorted (result stays sorted, returned position holds an element equivalent to the value) and C12_hint_irrelevant_regenerated: the same statement about Gen/HintGen.v, which translator/hint2coq.py regenerates on every run from clang's AST of the instantiated FlatSet<int>::insert_hint and which HintTV.v proves equal to the hand model (a pure program equivalence). An edit of any exit changes the generated program and breaks insert_hint_tv unless it is semantically neutral. The check also enumerates all subsets of a 6-key (thorough 8) domain x all hints x all values on all 16 set configurations (four underlying vectors, less/greater/coarse/stateful comparators, SmallSet on top) against plain insert and std::set::insert(hint,v).",
    "note": "Trusted: Coq kernel, hint2coq.py + clang AST (iterators as offsets, std::lower_bound and the vector insert as primitives specified in HintPrims.v), the set driver. std::lower_bound is modelled by its specification (partition point).",
    "design": "5 C12"}
CLAIMED["C15"] = {
    "technique": "Coq proof over a slot-level model with a throw oracle (every algorithm x implementation variant x length x throw index) + exhaustive small-scope correspondence of the model's run_case with the real algorithms built under C++11/14/17/20, compared with the std algorithms",
    "text": "Theorems C15_* (coq/Properties_C15.v): for uninitialized_copy/_n, uninitialized_move/_n, value/default construct (_n), relocate_at and uninitialized_relocate/_n, in each implementation variant selected by the #if ladder / ImplModeFactory (generic loop with its try/catch clean-up, memcpy in a loop, memcpy, std-delegating): without a throw the result equals the specification (same slots, same returned advances); if the k-th construction throws, everything the call built is destroyed, relocate sources stay alive, nothing else is touched; bitwise variants agree with the generic one and are never selected for a category that forbids bit copies - for every length, memory, throw index. The executable run_case of the model is evaluated by coqc on the same finite case list (lengths 0..4, thorough 0..6; 7 iterator kinds; 5 element types; every throw index) that the C++ driver runs under -std=c++11/14/17/20 (sanitized, thorough also -O2); every line must agree with the model, with the std algorithms (C++17 build) and across standards.",
    "note": "Trusted: the driver's instrumented element types and ledger; lifetime of trivially copyable elements is not observable (only bits). std algorithms' own behaviour is the reference, not verified.",
    "design": "5 C15"}
CLAIMED["C19"] = {
    "technique": "Coq proof (comparison count of the binary-search loop <= floor(log2 n)+1 for every n and comparator outcome; two searches + 4 within the property's bound) + comparator-call counters on the implementation for every n, key rank and correct hint",
    "text": "Theorems C19_lower_bound_log (the halving loop of std::lower_bound as implemented by libstdc++, with ANY comparator outcome function, performs at most floor(log2 n)+1 comparisons on n elements), C19_bound_form and C19_lookup_bound (two searches plus four comparisons stay within 2*ceil(log2(n+1))+4). The check counts the comparator calls of every FlatSet lookup / insert / erase-by-key for every n up to 48 (thorough 300) and every key rank, of hinted insertion for every correct hint (bounded by a constant: 4 observed, 6 allowed) and of inline SmallSet lookups (<= 2N+2), on all 16 configurations; the decision tree of insert_hint is the regenerated one (HintTV.v).",
    "note": "The halving loop is libstdc++'s, modelled not regenerated: the tie is the counter comparison on the implementation. Constants added by callers (equivalence tests) are bounded by inspection and by the counters.",
    "design": "5 C19"}

CLAIMED["C03"] = {
    "technique": "Coq proof over an executable FlatSet model (sortedness invariant by induction over operation histories, bulk insertion = repeated insertion, lookups = linear specification, merges) for every strict weak order + lock-step correspondence of the extracted model + real std::set oracle",
    "text": "Theorems of coq/Properties_C03.v, for EVERY comparator that is a strict weak order (instances proved for less/greater/coarse/stateful): C03_sorted_every_history (after any history over the driver's alphabet every FlatSet is strictly sorted under the comparator it holds, hence duplicate free), C03_bulk_is_repeated_insertion (append + stable_sort + inplace_merge + unique = inserting the range one by one, first of equivalent elements wins - unbounded lengths), C03_find_is_scan / C03_lower_bound_is_count (binary-search lookups = linear specification), C03_insert_membership, C03_merge, C03_merge_other_comparator. Tie: the extracted model runs in lock-step with the real FlatSet (every result - booleans, counts, bounds, positions, node ownership -, size and contents in iteration order) over 8 configurations (amc::vector / SmallVector / FixedCapacityVector / std::vector underneath; less, greater, transparent, coarse and stateful comparators; instrumented elements), insert_hint additionally regenerated from the source (C12); a real std::set with the same comparator object runs side by side as direct oracle.",
    "note": "std::stable_sort / inplace_merge / unique / lower_bound are modelled by implementations meeting the standard's specification, not verified; heterogeneous lookup and merge_other are covered by oracle + (merge_other) theorem but excluded from the lock-step comparison; comparison operators are executable in the model and compared, not separately proved.",
    "design": "5 C03"}
CLAIMED["C04"] = {
    "technique": "Coq proof over an executable SmallSet model (invariant over histories for every N; abstraction to std::set as the fold of the specification's insert; insertion through the inline/large transition; lookups) + exhaustive small-scope lock-step correspondence + real std::set oracle",
    "text": "Theorems of coq/Properties_C04.v for every strict weak order and every N: C04_invariant_every_history (backing set strictly sorted, inline vector free of equivalent elements and at most N long, never both non-empty, after any history incl. growth past N, draining to empty and refilling, merges), C04_insert_is_set_insert (inline, at the N boundary, large: abstraction' = std::set insert of abstraction; inserted flag = absence; returned position holds an equivalent element), C04_insert_range, C04_find_is_membership. Tie: every reachable (content, state) of a small key domain x every operation and argument (quick; thorough also every pair for two-set operations) plus random histories and merge-heavy histories run in lock-step with the real SmallSet on 8 configurations (N in 1..4, std::set and FlatSet backing, four comparators, instrumented elements), std::set side by side.",
    "note": "Iteration order of an inline SmallSet is unspecified by the property; the model follows the implementation's insertion order and the oracle compares as a set. Comparison operators (sorted pointer snapshot) are executable in the model and compared, not separately proved.",
    "design": "5 C04"}
CLAIMED["C11"] = {
    "technique": "Coq proof over the SmallSet model (walk visits size() distinct elements; erase(position) returns a valid position incl. the large->inline fallback; the erase-while-iterating loop terminates with the right result, by an explicit loop function and its closed form) + exhaustive lock-step correspondence + iterator oracles on the implementation",
    "text": "Theorems of coq/Properties_C11.v for every N: C11_walk (in either state the walk has size() elements, none twice, exactly the abstract set), C11_erase_returns_valid_position (same index = the following element, end() exactly when nothing follows, also when the erasure empties the backing set and begin()/end() flip to the inline vector), C11_erase_loop_terminates (the standard loop performs size() iterations, erases exactly the selected elements, keeps the others, in any state and across the transition), with C04's insert/find theorems for the returned iterators of insert/emplace/find. Tie: exhaustive (content, state) x iterator-taking/returning operation at every position on 8 SmallSet configurations, compared step by step with the model; the driver checks == end(), dereferenced values, walk counts and loop termination (bad_variant_access is a verdict).",
    "note": "Iterators are modelled as positions in the active container; the std::variant alternative mismatch itself is observed by the driver (returned iterator neither end() nor an element), not modelled.",
    "design": "5 C11"}

CLAIMED["C02"] = {
    "technique": "Coq proofs over slot-level models (every slot Out|Raw|Live|Moved, primitives return lifetime-error values) of the element-moving helpers + identity-carrying element types and ASan/UBSan on the implementation over all vector and set histories",
    "text": "PARTIAL. Theorems of coq/Properties_C02.v, for every size, capacity, position, count, value: insert(pos,count,v) (shift_right(count)+fill_after_shift), insert(pos, own element) in both aliasing branches, and erase(first,last) of a non-empty range, for element types that are not trivially relocatable, execute without any lifetime error (no construct over a live object, no assignment/destroy/read of a dead one, nothing outside the block), leave slots [0,size) live and not moved-from and [size,cap) raw - so every object exists exactly once - and produce the std::vector result; the memory algorithms pick a raw byte copy only for categories that allow it (C02_bitwise_only_when_allowed; relocation itself: C15). What the theorems do not cover (trivially-relocatable overloads, whole histories, sets) is decided on the implementation: element types carrying their own identity and address (a bitwise move of a non-relocatable element is caught at its next use), per-object status ledger (double destroy, use outside lifetime, self-move-assignment), live count = sum of sizes after every step and 0 at the end, visible elements never moved-from, under ASan/UBSan, over the systematic and random histories of C01 (20 vector configurations) and of the instrumented set configurations.",
    "note": "Alignment, strict aliasing and the byte overlay of heap pointer and first inline slot are outside the model (sanitizers support, do not prove). The slot models are hand-written from the helper code; their tie to the code is the event/ledger behaviour observed by the driver, not a lock-step comparison.",
    "design": "5 C02"}
CLAIMED["C05"] = {
    "technique": "Coq proof over the vector model (an inline SmallVector stays inline, capacity N, no allocator event, for every operation whose result fits N; FixedCapacityVector has no allocator event at all) + lock-step correspondence (storage class, capacity, allocator events) + allocation counters on the implementation",
    "text": "Theorems of coq/Properties_C05.v for every N, size_type maximum, element category, allocator kind: C05_smallvector_inline_promise (any growing/erasing/assigning operation, ranges incl. single-pass, copy assignment: if the vector is inline and the resulting size is within N it stays inline, reports capacity N and the operation's allocator-event list is empty), C05_inline_pairs (move assignment between two inline SmallVectors keeps both inline, no event - the lemma the historic move-assignment defect broke), C05_fixedcapacity_never_allocates. Tie: the model's storage class, capacity word and allocator events are compared step by step with the implementation (data() inside the object, capacity(), ledger allocator events) on histories generated inside and across the inline region; the driver's own ghost 'tainted' flag evaluates the promise directly, allocator and operator new counters included; SmallSet: allocator requests while every set is inline are flagged by the set driver.",
    "note": "That an empty std::set allocates nothing is a libstdc++ fact (observed). swap / swap2 between inline vectors: covered by correspondence and C13's lemmas rather than a C05 theorem.",
    "design": "5 C05"}
CLAIMED["C06"] = {
    "technique": "Coq proofs per storage-base function that the emitted allocator events transform the owned blocks correctly (ledger interpretation), Reallocate dispatch by definition + lock-step correspondence of allocator event lists + ledger allocators on the implementation (vectors and sets)",
    "text": "PARTIAL. Theorems of coq/Properties_C06.v: C06_reallocate_dispatch (allocator reallocate only for trivially relocatable types with an allocator offering it, with true old capacity and live count; otherwise allocate + deallocate(old capacity)), C06_grow_ledger (growth returns the old block with the capacity it was obtained with and owns exactly the new one; deallocate(nullptr,0) of an empty amc::vector is a no-op), C06_free_ledger, C06_move_assign_ledger (the target's old block is returned, the source's block changes owner with the capacity word, nothing allocated or left). Composition over whole operations and histories: the model's event list of EVERY step is compared with the implementation's (kinds, element counts, live counts) in the lock-step correspondence, and the drivers' ledger allocators (pointer -> count; unknown/double free, size mismatch, realloc for a non-relocatable type, blocks outstanding after all containers are gone) decide the protocol directly over all vector and set configurations (four allocator kinds).",
    "note": "Allocators in scope are stateless / all-instances-equal (the library never propagates an allocator object). Ownership transfer through swap2 buffer exchange, FlatSet(vector&&), steal_vector: by correspondence and ledger, not by theorem.",
    "design": "5 C06"}
CLAIMED["C07"] = {
    "technique": "Coq proof over the vector model (size <= capacity <= max_size in every reachable state; capacity monotone and no reallocation when the result fits, for every growing-policy operation; reserve; buffer hand-over on move/swap) + lock-step correspondence + data()/capacity()/element identity oracles",
    "text": "Theorems of coq/Properties_C07.v for every flavour and configuration: C07_size_capacity_max (every reachable state), C07_fits_no_reallocation (every single-container operation through the growing policy never decreases capacity, and when the resulting size fits the capacity before the call, capacity and storage are unchanged and the allocator-event list is empty), C07_reserve (capacity >= n, contents unchanged), C07_move_hands_over_buffer (move from a heap-backed vector: the target takes the source's words, nothing allocated, source left without heap block), C07_swap_exchanges_buffers. Tie: capacity, storage class and allocator events compared step by step; on the implementation data(), capacity(), the identity of every element before the insertion/erasure point and the element-operation counters (zero on buffer hand-over) are checked after every step.",
    "note": "'References before the point of insertion stay valid' is a statement about element addresses; the model gives 'same block', the slot-level lemmas (Slots.v) that slots below the position are untouched, and the driver compares element identities.",
    "design": "5 C07"}
CLAIMED["C10"] = {
    "technique": "Coq proof at slot level (insert with a reference to an own element, read when the code reads it, both branches of the aliasing test) + operation-model lemma (own argument = its value) + complete small-scope aliasing grid in lock-step with the model and against std::vector under ASan",
    "text": "Theorems of coq/Properties_C10.v: C10_insert_own_element_slot_level (for every size, position and source index - before, at or after the insertion point - the result is std::vector's, with no lifetime error; Alias.insert_own_old_refuted shows the pre-repair order fails), C10_model_own_argument_as_if_copied (push_back, insert, insert(count), emplace, emplace_back, resize(n,v), assign(n,v), append(n,v) with an own-element argument are the same model step as with the external value). Tie: the complete grid (size <= 5, every position, source index, count <= 3, spare capacity or not, lvalue and rvalue forms) on all 20 vector configurations is compared step by step with the model and with std::vector doing the same aliased call, under ASan (a dangling reference after reallocation is a sanitizer verdict).",
    "note": "Slot-level theorem for the single-element insert of non-relocatable types; the other operations are covered at model level + exhaustive correspondence. For rvalue references to own elements the moved-from source value is unspecified and not compared.",
    "design": "5 C10"}

CLAIMED["C09"] = {
    "technique": "Coq proofs over a slot-level model with a throw oracle (strong guarantee of growing resize / append / insertion at the end, basic guarantee of assign(n,v), clean-up of uninitialized_fill_n, refutation witness for the known finding) + complete fault enumeration on the implementation (every throw index of every scenario) with element and allocator ledgers",
    "text": "PARTIAL. Theorems of coq/Properties_C09.v for every size, capacity, count, value and throw index: C09_resize_grow_strong and C09_insert_count_at_end_strong (either all elements are built or memory is exactly as before, never a lifetime error), C09_assign_grow_basic (repaired order: size kept, elements live, nothing alive beyond size after a throw at any point), C09_uninitialized_fill_cleanup; C09_insert_count_middle_refuted is the machine-checked witness of the recorded known finding (insert of several elements before end(): moved-from elements visible and live objects beyond size()). All other operations, flavours, allocation failures and the sets are decided by fault enumeration on the implementation: every scenario (operation x position x count x spare capacity or not x inline/heap x element category x flavour, 22 vector configurations) is re-run with the k-th throwing-capable event (element construction / copy / assignment, allocator call) throwing, for every k until the operation completes; after each injected throw: live-object ledger, allocator ledger, contents unchanged for the documented strong operations, container still usable; sets: random histories with injected exceptions judged by the same ledgers and the std::set comparison.",
    "note": "Known finding F11 (known_findings.json). Strong guarantee is read on the value interface (capacity/data() may change). Theorems cover the algorithms named; the rest is fault enumeration (finite scenarios, exhaustive in the throw index).",
    "design": "5 C09"}

REASONS = {}


def main():
    checks = []
    for pid in ALL:
        if pid not in CLAIMED:
            continue
        c = CLAIMED[pid]
        checks.append({
            "property_id": pid,
            "quick_cmd": "./check %s" % pid,
            "thorough_cmd": "./check %s --tier thorough" % pid,
            "evidence_file": "evidence/%s.json" % pid,
            "replay_cmd_template": "./check %s --replay {path}" % pid,
            "engine": "coq+correspondence",
            "level_claimed": {"category": c.get("category", "proof"), "text": c["text"], "design_ref": "DESIGN.md section " + c["design"]},
            "level_note": c["note"],
            "technique": c["technique"],
        })
    na = [{"property_id": pid, "reason": REASONS.get(pid, "check under construction in this round: no sound check is registered yet (see DESIGN.md section 11 for the state of the build)")}
          for pid in ALL if pid not in CLAIMED]
    m = {
        "version": 1,
        "setup_cmd": "./setup",
        "hooks": {
            "guard": "AMC_VERIF",
            "enable": "no source hooks are needed: drivers include the headers of /repo's working tree directly (private members read through '#define private public' in the driver translation units only)",
            "baseline_off_cmd": "./baseline_off",
            "source_commits": [],
            "add_only": True,
        },
        "engines": [
            {"name": "coq+correspondence", "path": "coq/ lib/ harness/ translator/",
             "serves_properties": sorted(CLAIMED),
             "kind_free_text": "Coq 8.16.1 development (model, theorems), translators regenerating definitions from clang's AST, extracted OCaml model runners, C++ drivers with direct oracles"}],
        "checks": checks,
        "notes": "Every check: regenerate Coq definitions from /repo's headers, full .vo build of the property's theorems, build the C++ drivers from /repo's working tree, run oracles + correspondence; exit 1 with VIOLATION lines otherwise 0. known_findings.json lists recorded findings and the defects repaired by fix: commits.",
        "not_applicable": na,
    }
    with open(os.path.join(ROOT, "MANIFEST.json"), "w") as f:
        json.dump(m, f, indent=1)
        f.write("\n")


if __name__ == "__main__":
    main()
