#!/usr/bin/env python3
"""Seeded changes: confirm a change produced by an independent sub-agent (still compiles, pinned test suite passes, its
demonstration fails with the change and passes without), store it under /verif/seeded/<name>/, run checks against it.

  tools/seed.py confirm <src dir with patch.diff demo.cpp meta.json> <name>
  tools/seed.py detect <name> <property> [<property> ...]      (runs ./check P against a scratch worktree with the patch)
"""
import json
import os
import shutil
import subprocess
import sys
import time

ROOT = os.path.dirname(os.path.dirname(os.path.abspath(__file__)))
SEEDED = os.path.join(ROOT, "seeded")


def sh(cmd, **kw):
    p = subprocess.run(cmd, shell=isinstance(cmd, str), stdout=subprocess.PIPE, stderr=subprocess.STDOUT, universal_newlines=True, **kw)
    return p.returncode, p.stdout


def worktree(path, rev="HEAD"):
    sh(["git", "-C", "/repo", "worktree", "remove", "--force", path])
    rc, out = sh(["git", "-C", "/repo", "worktree", "add", "-q", "--detach", path, rev])
    if rc != 0:
        raise SystemExit(out)


def confirm(src, name):
    wt = "/tmp/confirm_%s" % name
    worktree(wt)
    res = {"name": name, "at": time.strftime("%Y-%m-%d %H:%M:%S")}
    try:
        rc, out = sh(["git", "-C", wt, "apply", os.path.join(src, "patch.diff")])
        if rc != 0:
            # written against an earlier fix commit of /repo: use the revision the author's worktree is at
            rcb, base = sh(["git", "-C", src, "rev-parse", "HEAD"])
            if rcb == 0:
                worktree(wt, base.strip())
                res["base"] = base.strip()
                rc, out = sh(["git", "-C", wt, "apply", os.path.join(src, "patch.diff")])
        res["patch_applies"] = rc == 0
        if rc != 0:
            res["error"] = out[-1000:]
            return res
        b = os.path.join(wt, "_b")
        rc, out = sh("cmake -G Ninja -S %s -B %s -DCMAKE_BUILD_TYPE=RelWithDebInfo -DAMC_ENABLE_BENCHMARKS=OFF >/dev/null 2>&1 && cmake --build %s -j12 2>&1 | tail -5 && ctest --test-dir %s -j4 2>&1 | tail -6" % (wt, b, b, b))
        res["suite_output"] = out[-600:]
        res["tests_pass"] = "100% tests passed" in out
        shutil.rmtree(b, ignore_errors=True)
        demo = os.path.join(src, "demo.cpp")
        exe = os.path.join(wt, "demo_bin")
        flags = "-std=c++17 -O1 -g -fsanitize=address,undefined -fno-sanitize-recover=all"
        try:
            with open(os.path.join(src, "meta.json")) as f:
                cmds = " ".join(str(c) for c in json.load(f).get("commands", []))
            if "-fsanitize=thread" in cmds:   # a data race needs ThreadSanitizer to be observed
                flags = "-std=c++17 -O1 -g -fsanitize=thread -pthread"
        except (OSError, ValueError):
            pass
        try:
            with open(os.path.join(src, "meta.json")) as f:
                dstd = json.load(f).get("demo_std")
            if dstd:   # the change only shows under another language level than the default one
                flags = flags.replace("-std=c++17", "-std=" + dstd)
        except (OSError, ValueError):
            pass
        res["demo_flags"] = flags
        rc1, o1 = sh("g++ %s -I%s/include %s -o %s && %s" % (flags, wt, demo, exe, exe))
        rc2, o2 = sh("g++ %s -I/repo/include %s -o %s && %s" % (flags, demo, exe, exe))
        res["demo_with_change_exit"] = rc1
        res["demo_without_change_exit"] = rc2
        res["demo_with_change_tail"] = o1[-400:]
        res["confirmed"] = bool(res["tests_pass"] and rc1 != 0 and rc2 == 0)
    finally:
        sh(["git", "-C", "/repo", "worktree", "remove", "--force", wt])
    if res.get("confirmed"):
        d = os.path.join(SEEDED, name)
        os.makedirs(d, exist_ok=True)
        shutil.copy(os.path.join(src, "patch.diff"), d)
        shutil.copy(os.path.join(src, "demo.cpp"), d)
        meta = {}
        try:
            with open(os.path.join(src, "meta.json")) as f:
                meta = json.load(f)
        except (OSError, ValueError):
            pass
        meta["confirmation"] = res
        if res.get("base"):
            meta["base"] = res["base"]
        with open(os.path.join(d, "meta.json"), "w") as f:
            json.dump(meta, f, indent=1)
    return res


def detect(name, props):
    d = os.path.join(SEEDED, name)
    wt = "/tmp/detect_%s" % name
    base = "HEAD"
    try:
        with open(os.path.join(d, "meta.json")) as f:
            base = json.load(f).get("base", "HEAD")
    except (OSError, ValueError):
        pass
    worktree(wt, base)
    out = {}
    try:
        rc, o = sh(["git", "-C", wt, "apply", os.path.join(d, "patch.diff")])
        if rc != 0:
            raise SystemExit("patch does not apply: " + o)
        env = dict(os.environ)
        env["AMC_REPO"] = wt
        for p in props:
            t0 = time.time()
            rc, o = sh(["./check", p], cwd=ROOT, env=env)
            lines = [l for l in o.split("\n") if l.startswith("VIOLATION") or l.startswith("KNOWN-FINDING")]
            first = [l for l in o.split("\n") if l.strip() and not l.startswith(("WARNING", "VIOLATION", "KNOWN"))][:3]
            out[p] = {"exit": rc, "violations": lines[:4], "first_lines": [l[:300] for l in first], "seconds": round(time.time() - t0)}
            print(p, "exit", rc, lines[:2], first[:1])
    finally:
        sh(["git", "-C", "/repo", "worktree", "remove", "--force", wt])
        # the generated Coq files now correspond to the scratch tree: force regeneration for /repo at the next run
        try:
            os.unlink(os.path.join(ROOT, "coq", "Gen", ".stamp"))
        except OSError:
            pass
    mp = os.path.join(d, "meta.json")
    with open(mp) as f:
        meta = json.load(f)
    meta.setdefault("detection", {}).update(out)
    with open(mp, "w") as f:
        json.dump(meta, f, indent=1)
    return out


def table():
    """Markdown table of the seeded changes and what the checks reported (for DESIGN.md)."""
    rows = ["| seeded change | what it does | needs | checks run -> result |", "|---|---|---|---|"]
    for name in sorted(os.listdir(SEEDED)):
        mp = os.path.join(SEEDED, name, "meta.json")
        if not os.path.exists(mp):
            continue
        with open(mp) as f:
            m = json.load(f)
        summ = " ".join(str(m.get("summary", "")).split())[:230]
        needs = " ".join(str(m.get("needs", "")).split())[:200]
        res = []
        for p, r in sorted(m.get("detection", {}).items()):
            v = [x for x in r.get("violations", []) if x.startswith("VIOLATION")]
            if not v:
                res.append("%s: not reported" % p)
            elif all("no-failing-input-found" in x for x in v):
                first = (r.get("first_lines") or [""])[0].strip()
                kind = "proof obligation" if "proof obligations" in first or "translator" in first else "correspondence"
                res.append("%s: VIOLATION (%s broken, no-failing-input-found)" % (p, kind))
            else:
                first = (r.get("first_lines") or [""])[0].strip()
                res.append("%s: VIOLATION with failing input (`%s`)" % (p, first[:110].replace("|", "/")))
        rows.append("| `%s` | %s | %s | %s |" % (name, summ.replace("|", "/"), needs.replace("|", "/"), "<br>".join(res)))
    return "\n".join(rows)


def write_table():
    """Replace the table between the markers of DESIGN.md."""
    p = os.path.join(ROOT, "DESIGN.md")
    with open(p) as f:
        s = f.read()
    a, b = "<!-- SEEDED_TABLE_BEGIN -->", "<!-- SEEDED_TABLE_END -->"
    i, j = s.index(a) + len(a), s.index(b)
    with open(p, "w") as f:
        f.write(s[:i] + "\n" + table() + "\n" + s[j:])


if __name__ == "__main__":
    if sys.argv[1] == "write-table":
        write_table()
    elif sys.argv[1] == "confirm":
        r = confirm(sys.argv[2], sys.argv[3])
        print(json.dumps(r, indent=1))
        sys.exit(0 if r.get("confirmed") else 1)
    elif sys.argv[1] == "detect":
        detect(sys.argv[2], sys.argv[3:])
    elif sys.argv[1] == "table":
        print(table())
