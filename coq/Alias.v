(* C10 at slot level: insert(pos, v) where v is a reference to element i of the SAME vector, non trivially relocatable
   element type, within capacity (after a growth the elements sit at the same indices of the new block and adjustCapacity
   re-bases the reference by index, so the block below is the one the operation works in).
   vectorcommon.hpp: insert(const_iterator, const_reference) = if the argument lies in [pos, end) copy it first and emplace
   (emplace_n builds the element, shifts, relocates it into place); otherwise shift_right then assign_after_shift reads the
   reference (its slot lies before pos: untouched by the shift).  The reference is modelled as an index that is read
   when the code reads it.  [insert_own_old] is the pre-repair behaviour (always read after the shift). *)
From Coq Require Import ZArith Lia Bool List Arith.
Require Import ZifyBool.
From Amc Require Import Slots.
Import ListNotations.

Definition read (m : mem) (i : nat) : err + Z := match m i with Live v => inr v | _ => inl ReadDead end.
(* move-assign a temporary holding x into slot pos (relocate_after_shift: *pos = move(e); destroy e) *)
Definition assign_from_temp (m : mem) (pos : nat) (x : Z) : R :=
  match m pos with Raw => inl AssignDead | Out => inl OutOfBlock | _ => inr (upd m pos (Live x)) end.

Definition insert_own (m : mem) (size pos i : nat) : R :=
  let n := size - pos in
  if n =? 0 then match read m i with inl e => inl e | inr x => copy_construct m pos x end
  else if pos <=? i then
    (* the argument is one of the elements about to be shifted: copied first *)
    match read m i with
    | inl e => inl e
    | inr x => bind (shift_right_cnt m pos n 1) (fun m1 => assign_from_temp m1 pos x)
    end
  else
    bind (shift_right_cnt m pos n 1) (fun m1 => match read m1 i with inl e => inl e | inr x => copy_assign m1 pos x end).

Definition insert_own_old (m : mem) (size pos i : nat) : R :=
  let n := size - pos in
  if n =? 0 then match read m i with inl e => inl e | inr x => copy_construct m pos x end
  else bind (shift_right_cnt m pos n 1) (fun m1 => match read m1 i with inl e => inl e | inr x => copy_assign m1 pos x end).

Lemma live_val (m : mem) (i : nat) : is_live (m i) = true -> m i = Live (val (m i)).
Proof. destruct (m i); cbn; congruence. Qed.

Theorem insert_own_correct m size cap pos i :
  Inv m size cap -> pos <= size -> i < size -> size + 1 <= cap ->
  exists m', insert_own m size pos i = inr m' /\ Inv m' (size + 1) cap /\
             abs m' (size + 1) = spec_insert (abs m size) pos 1 (nth i (abs m size) 0%Z).
Proof.
  intros (Hsc & Hlive & Hraw & Hout) Hp Hi Hcap. unfold insert_own.
  pose proof (live_val m i (Hlive i Hi)) as Hvi. rewrite (abs_nth m size i Hi).
  assert (Hfin : forall m', m' pos = Live (val (m i)) ->
            (forall j, pos + 1 <= j < size + 1 -> m' j = m (j - 1)) -> (forall j, ~ (pos <= j < size + 1) -> m' j = m j) ->
            Inv m' (size + 1) cap /\ abs m' (size + 1) = spec_insert (abs m size) pos 1 (val (m i))).
  { intros m' F1 F2 F3. split.
    - repeat split; [lia| | |].
      + intros k Hk. destruct (le_lt_dec pos k) as [Hge|Hlt]; [destruct (Nat.eq_dec k pos) as [->|Hne]|].
        * rewrite F1. reflexivity.
        * rewrite F2 by lia. apply Hlive. lia.
        * rewrite F3 by lia. apply Hlive. lia.
      + intros k Hk Hkc. rewrite F3 by lia. apply Hraw; lia.
      + intros k Hk. rewrite F3 by lia. apply Hout; lia.
    - apply list_ext.
      + unfold spec_insert. rewrite !app_length, repeat_length, firstn_length, skipn_length, !abs_length. lia.
      + rewrite abs_length. intros k Hk. rewrite abs_nth by lia. rewrite spec_insert_nth by (rewrite abs_length; lia).
        destruct (Nat.ltb_spec k pos); [|destruct (Nat.ltb_spec k (pos + 1))].
        * rewrite abs_nth by lia. rewrite F3 by lia. reflexivity.
        * assert (k = pos) by lia. subst k. rewrite F1. reflexivity.
        * rewrite abs_nth by lia. rewrite F2 by lia. reflexivity. }
  destruct (Nat.eqb_spec (size - pos) 0) as [Hz|Hnz].
  - assert (pos = size) by lia. subst pos. unfold read. rewrite Hvi. unfold copy_construct. rewrite (Hraw size ltac:(lia) ltac:(lia)).
    eexists. split; [reflexivity|]. apply Hfin; [unfold upd; rewrite Nat.eqb_refl; reflexivity| |].
    + intros j Hj. lia.
    + intros j Hj. unfold upd. destruct (Nat.eqb_spec size j); [lia|reflexivity].
  - destruct (shift_right_cnt_spec m pos (size - pos) 1 ltac:(lia) ltac:(lia)) as [m1 (E1 & S1 & S2 & S3 & S4)].
    { intros k Hk. apply Hlive. lia. } { intros k Hk. apply Hraw; lia. }
    assert (Hpos1 : m1 pos = Moved) by (apply S2; lia).
    destruct (Nat.leb_spec pos i) as [Hle|Hgt].
    + unfold read. rewrite Hvi. rewrite E1. cbn [bind]. unfold assign_from_temp. rewrite Hpos1.
      eexists. split; [reflexivity|]. apply Hfin; [unfold upd; rewrite Nat.eqb_refl; reflexivity| |].
      * intros j Hj. unfold upd. destruct (Nat.eqb_spec pos j); [lia|]. rewrite S1 by lia. reflexivity.
      * intros j Hj. unfold upd. destruct (Nat.eqb_spec pos j); [lia|]. apply S3. lia.
    + rewrite E1. cbn [bind]. unfold read. rewrite (S3 i ltac:(lia)), Hvi. unfold copy_assign. rewrite Hpos1.
      eexists. split; [reflexivity|]. apply Hfin; [unfold upd; rewrite Nat.eqb_refl; reflexivity| |].
      * intros j Hj. unfold upd. destruct (Nat.eqb_spec pos j); [lia|]. rewrite S1 by lia. reflexivity.
      * intros j Hj. unfold upd. destruct (Nat.eqb_spec pos j); [lia|]. apply S3. lia.
Qed.

(* the pre-repair code read the reference after the shift: for an argument at or after the insertion point it finds a
   moved-from element (i = pos) or the neighbour's value (i > pos) *)
Definition m0 : mem := fun j => match j with 0 => Live 10%Z | 1 => Live 11%Z | 2 => Live 12%Z | 3 => Raw | _ => Out end.
Lemma insert_own_old_refuted :
  Inv m0 3 4 /\ insert_own_old m0 3 1 1 = inl ReadDead /\
  (exists m', insert_own_old m0 3 0 2 = inr m' /\ abs m' 4 = [11; 10; 11; 12]%Z /\ spec_insert (abs m0 3) 0 1 12%Z = [12; 10; 11; 12]%Z).
Proof. split; [|split].
  - unfold Inv, m0. repeat split; try lia; intros [|[|[|[|k]]]]; cbn; intros; try lia; reflexivity.
  - reflexivity.
  - eexists. split; [reflexivity|]. split; reflexivity. Qed.
