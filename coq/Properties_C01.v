(* C01 - vector flavours behave as std::vector for every operation history.
   The model (VecModel.v) follows the control flow of VectorImpl / the three storage bases; its element sequence is
   updated by the list operations that define std::vector's behaviour (insert = firstn ++ new ++ skipn, ...), so "same
   element sequence and results as std::vector" is by construction of the model; what has to be PROVED is that the
   observables the library computes from its two size words agree with that sequence after ANY history:
   size() is its length, empty() holds exactly when it is empty, the words stay well formed (so that begin(), capacity()
   and the inline/heap discriminator read the right thing), for every flavour, every size_type maximum M, every inline
   capacity N, every element category and allocator kind (cfg_ok), and every operation sequence - including operations
   that throw at the capacity limit.  The model itself is tied to the code by the lock-step correspondence run of the check
   (every step: result, size, capacity, storage class, both words, contents, allocator events) and the word functions by
   translation validation (Gen/TV_<S>.v). *)
From Coq Require Import ZArith List Bool.
From Amc Require Import GenPrelude Words VecModel VecProofs.
Import ListNotations.
Local Open Scope Z_scope.

Theorem C01_invariant_every_history :
  forall (c : vcfg), cfg_ok c -> forall (ops : list op) (p : pool), PInv c p -> PInv c (run c p ops).
Proof. exact run_inv. Qed.

Theorem C01_observables_agree_with_sequence :
  forall (c : vcfg), cfg_ok c -> forall (ops : list op) (k : nat) (v : vec),
    get (run c init_pool ops) k = Some v ->
    b_size c (w v) = len (els v) /\ (b_size c (w v) = 0 <-> els v = []) /\
    len (els v) <= b_capacity c (w v) /\ b_capacity c (w v) <= b_limit c /\ b_limit c <= cM c.
Proof. exact reachable_observables. Qed.

(* non-vacuity: a SmallVector<_,4> with an 8-bit size type goes inline -> full -> heap -> back inline *)
Example C01_example :
  let c := {| fl := FSV; cN := 4; cM := 255; csigned := false; ccat := NTR; calloc := ALed |} in
  map (fun o => option_map (describe c) (get (run c init_pool o) 0))
      [ [CtorRange 0 RFwd [1;2;3;4]];
        [CtorRange 0 RFwd [1;2;3;4]; PushBack 0 (AOwn 1)];
        [CtorRange 0 RFwd [1;2;3;4]; PushBack 0 (AOwn 1); PopBack 0; PopBack 0; Shrink 0] ]
  = [ Some (4, 4, SInl, 4, 255, [1;2;3;4]);
      Some (5, 6, SHeap, 6, 5, [1;2;3;4;2]);
      Some (3, 4, SInl, 3, 4, [1;2;3]) ].
Proof. vm_compute. reflexivity. Qed.
