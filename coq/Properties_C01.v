(* C01 - vector flavours behave as std::vector for every operation history.
   The model (VecModel.v) follows the control flow of VectorImpl / the three storage bases; its element sequence is
   updated by the list operations that define std::vector's behaviour (insert = firstn ++ new ++ skipn, ...), so "same
   element sequence and results as std::vector" is by construction of the model; what has to be PROVED is that the
   observables the library computes from its two size words agree with that sequence after ANY history:
   size() is its length, empty() holds exactly when it is empty, the words stay well formed (so that begin(), capacity()
   and the inline/heap discriminator read the right thing), for every flavour, every size_type maximum M, every inline
   capacity N, every element category and allocator kind (cfg_ok), and every operation sequence - including operations
   that throw at the capacity limit.  The model itself is tied to the code by the lock-step correspondence run of the check
   (every step: result, size, capacity, storage class, both words, contents, allocator events) and the word functions by
   translation validation (Gen/TV_<S>.v). *)
From Coq Require Import ZArith List Bool.
From Amc Require Import GenPrelude Words VecModel VecProofs.
Import ListNotations.
Local Open Scope Z_scope.

Theorem C01_invariant_every_history :
  forall (c : vcfg), cfg_ok c -> forall (ops : list op) (p : pool), PInv c p -> PInv c (run c p ops).
Proof. exact run_inv. Qed.

Theorem C01_observables_agree_with_sequence :
  forall (c : vcfg), cfg_ok c -> forall (ops : list op) (k : nat) (v : vec),
    get (run c init_pool ops) k = Some v ->
    b_size c (w v) = len (els v) /\ (b_size c (w v) = 0 <-> els v = []) /\
    len (els v) <= b_capacity c (w v) /\ b_capacity c (w v) <= b_limit c /\ b_limit c <= cM c.
Proof. exact reachable_observables. Qed.

(* non-vacuity: a SmallVector<_,4> with an 8-bit size type goes inline -> full -> heap -> back inline *)
Example C01_example :
  let c := {| fl := FSV; cN := 4; cM := 255; csigned := false; ccat := NTR; calloc := ALed |} in
  map (fun o => option_map (describe c) (get (run c init_pool o) 0))
      [ [CtorRange 0 RFwd [1;2;3;4]];
        [CtorRange 0 RFwd [1;2;3;4]; PushBack 0 (AOwn 1)];
        [CtorRange 0 RFwd [1;2;3;4]; PushBack 0 (AOwn 1); PopBack 0; PopBack 0; Shrink 0] ]
  = [ Some (4, 4, SInl, 4, 255, [1;2;3;4]);
      Some (5, 6, SHeap, 6, 5, [1;2;3;4;2]);
      Some (3, 4, SInl, 3, 4, [1;2;3]) ].
Proof. vm_compute. reflexivity. Qed.

(* The bookkeeping of the operation model is the code's.  [step] computes the words of resize / assign(n, v) / append(n) through
   [grow_set] (adjustCapacity when needed, then setSize), of clear / pop_back through setSize / decrSize; these are proved equal
   (Gen/BaseTV_<S>.v) to VectorImpl::resize, assign, append, clear, pop_back as regenerated on every run by translator/base2coq.py
   from clang's AST (on top of the regenerated adjustCapacity, grow, SafeNextCapacity, setSize ...), for SmallVector, amc::vector
   and FixedCapacityVector, size types uint8_t and uint32_t; the overloads taking a value do the same bookkeeping. *)
From Amc.Gen Require BaseTV_u8 BaseTV_u32.
Theorem C01_grow_set_words :
  forall c st xs cond n ys, BaseTV_u8.proj (grow_set c {| w := st; els := xs |} cond n ys) = BaseTV_u8.w_grow_set c st cond n.
Proof. exact BaseTV_u8.grow_set_proj. Qed.
Theorem C01_resize_is_the_regenerated_one_smallvector_u8 :
  forall c, cM c = 255 -> cfg_ok c -> 255 < 2 ^ 62 -> mk_wrap c = wrap_u8 -> forall st n, fl c = FSV -> Words.WInv 255 (cN c) st -> 0 <= n <= 255 ->
    BaseTV_u8.one c (Base_u8.sv_resize st n) = BaseTV_u8.w_grow_set c st (b_size c st <? n) n.
Proof. exact BaseTV_u8.sv_resize_tv. Qed.
Theorem C01_assign_is_the_regenerated_one_smallvector_u8 :
  forall c, cM c = 255 -> cfg_ok c -> 255 < 2 ^ 62 -> mk_wrap c = wrap_u8 -> forall st n, fl c = FSV -> Words.WInv 255 (cN c) st -> 0 <= n <= 255 ->
    BaseTV_u8.one c (Base_u8.sv_assign_n st n) = BaseTV_u8.w_grow_set c st (b_size c st <? n) n.
Proof. exact BaseTV_u8.sv_assign_n_tv. Qed.
Theorem C01_append_is_the_regenerated_one_smallvector_u8 :
  forall c, cM c = 255 -> cfg_ok c -> 255 < 2 ^ 62 -> mk_wrap c = wrap_u8 -> forall st n, fl c = FSV -> Words.WInv 255 (cN c) st -> 0 <= n <= 255 ->
    BaseTV_u8.one c (Base_u8.sv_append_n st n) = BaseTV_u8.w_grow_set c st true (b_size c st + n).
Proof. exact BaseTV_u8.sv_append_n_tv. Qed.
Theorem C01_pop_back_is_the_regenerated_one_smallvector_u8 :
  forall c, cM c = 255 -> mk_wrap c = wrap_u8 -> forall st, fl c = FSV -> Words.WInv 255 (cN c) st ->
    BaseTV_u8.one c (Base_u8.sv_pop_back st) = Some (b_decrSize c st, []).
Proof. exact BaseTV_u8.sv_pop_back_tv. Qed.
Theorem C01_resize_is_the_regenerated_one_vector_u32 :
  forall c, cM c = 4294967295 -> cfg_ok c -> 4294967295 < 2 ^ 62 -> mk_wrap c = wrap_u32 -> forall st n, fl c = FVec -> BaseTV_u32.InRange st ->
    size_ st <= capa_ st -> 0 <= n <= 4294967295 ->
    BaseTV_u32.one c (Base_u32.std_resize st n) = BaseTV_u32.w_grow_set c st (b_size c st <? n) n.
Proof. exact BaseTV_u32.std_resize_tv. Qed.
Theorem C01_resize_is_the_regenerated_one_fixedcapacity_u8 :
  forall c st n, fl c = FFCV -> BaseTV_u8.InRange st -> 0 <= n <= 255 ->
    BaseTV_u8.one c (Base_u8.fcv_resize st n) = BaseTV_u8.w_grow_set c st (b_size c st <? n) n.
Proof. exact BaseTV_u8.fcv_resize_tv. Qed.
