(* Slot level models of the element-moving helpers of include/amc/vectorcommon.hpp / memory.hpp for a non trivially relocatable
   element whose MOVES CAN THROW (the instrumented element vf::El<2>, "NTM": move construction and move assignment are
   throwing-capable events like copy construction and copy assignment).  Every catch branch of the code is live here
   (Throw.v / EmplaceGrow.v model the same helpers for noexcept moves: several of their catch branches are dead code).

     std::move_backward / std::move                         -> [move_backward] [move_forward]
     amc::uninitialized_move_n (roll-back: destroys what it built, memory.hpp / libstdc++) -> [uninit_move_n]
     vec::shift_right (first, n)  + catch                   -> [shift_right1]        (fx = false: the code BEFORE the commit
     vec::shift_right (first, n, count)  + catch            -> [shift_right_cnt]      "fix: shift_right destroys the elements it
                                                                                      built beyond the end when a later move throws")
     vec::shift_left (first, n)                             -> [shift_left]
     amc::relocate_at, vec::relocate_after_shift            -> [relocate_at] [relocate_after_shift]
     vec::emplace_n (pos, n, args...) + both catch blocks   -> [emplace_n]
     vec::insert_n (pos, n, const T&) + catch               -> [insert_n]
     vec::erase_n (first, n, count)                         -> [erase_n]

   A throwing move changes nothing (El<2> ticks before it touches source or destination).  ONE injected fault: [tick (Some 0)]
   throws and leaves [None], so the handlers (`catch (...) { ...; throw; }`) run with no further fault; they are written with
   the oracle [None] ([rethrow]).  (A second exception inside the handler of emplace_n - shift_left uses throwing moves too - is
   outside this single fault model; the scope guards of shift_left and of the handlers take care of it: [emplace_n_second_fault_ex].)

   Memory effect of a move that does not throw: EmplaceGrow.mv_construct / mv_assign (a moved-from source is accepted).

   Results, for every size / position / count / throw index (no axiom: Print Assumptions at the end):
     slot level  [move_backward_kept] [move_forward_kept] [uninit_move_n_kept] [shift_right1_kept] [shift_right_cnt_kept] [shift_left_kept]
                 [relocate_at_spec] [relocate_after_shift_spec] [shift_relocate_kept]: never a lifetime error; after a throw the slots of
                 the range are alive, every other slot is exactly as before ([Kept]); a run that completes is the run of the noexcept model
     vector      [shift_right1_basic] [shift_right_cnt_basic] [emplace_n_basic] [insert_n_basic] [erase_n_basic]: from Inv m size cap, after
                 a throw the vector keeps its size: every slot below it is alive (Live or Moved), every slot from size on is exactly as
                 before (Raw / Out: NO LEAK), the temporary e is Raw  ([Basic]); erase keeps the OLD size, nothing destroyed
     completion  [*_none] (oracle None: equal to EmplaceGrow.shift_right1 / shift_left / relocate_at / relocate_after_shift / emplace_n /
                 insert_n), the Done branches, [emplace_n_done] [insert_n_done] (prefix, element, suffix, Inv for size + 1),
                 [shift_right_cnt_done] (= Throw.shift_right_cnt), [erase_n_basic] Done branch (Inv for size - n, prefix, shifted suffix),
                 [erase_n_done_abs] (the sequence of Erase.spec_erase)
     refuted     [insert_n_strong_refuted] [emplace_n_strong_refuted] [erase_n_strong_refuted]: Inv (every slot below size Live) does NOT
                 survive a throw: a moved-from element is visible (finding F25);  [shift_right1_nofix_refuted] [shift_right_cnt_nofix_refuted]
                 [insert_n_nofix_refuted] [emplace_n_nofix_refuted]: fx = false (before the fix) leaves a Live slot at index >= size (leak) *)
From Coq Require Import ZArith Lia Bool List Arith.
From Amc Require Import Throw EmplaceGrow.
From Amc Require Slots Erase.
Import ListNotations.

Definition lift (r : mem + err) (th : option nat) : out := match r with inl m => Done m th | inr e => Err e end.

(* ---- moves as throwing-capable events ------------------------------------------------------------------------------------ *)
(* El(El &&o): o.chk (lifetime), then G().tick("move-construct") BEFORE anything is written: a throw leaves both slots as they were *)
Definition move_construct (m : mem) (th : option nat) (dst src : nat) : out :=
  match mv_construct m dst src with
  | inr x => Err x
  | inl m1 => let (t, th') := tick th in if t then Threw m else Done m1 th' end.
Definition move_assign (m : mem) (th : option nat) (dst src : nat) : out :=
  match mv_assign m dst src with
  | inr x => Err x
  | inl m1 => let (t, th') := tick th in if t then Threw m else Done m1 th' end.

Lemma move_construct_ok m th dst src : m dst = Raw -> alive (m src) = true ->
  move_construct m th dst src = if fst (tick th) then Threw m else Done (upd (upd m dst (m src)) src Moved) (snd (tick th)).
Proof. intros Hd Hs. unfold move_construct. rewrite (mv_construct_ok m dst src Hd Hs). destruct (tick th) as [[|] th']; reflexivity. Qed.
Lemma move_assign_ok m th dst src : alive (m dst) = true -> alive (m src) = true ->
  move_assign m th dst src = if fst (tick th) then Threw m else Done (upd (upd m dst (m src)) src Moved) (snd (tick th)).
Proof. intros Hd Hs. unfold move_assign. rewrite (mv_assign_ok m dst src Hd Hs). destruct (tick th) as [[|] th']; reflexivity. Qed.
Lemma move_construct_none m dst src : move_construct m None dst src = lift (mv_construct m dst src) None.
Proof. unfold move_construct. destruct (mv_construct m dst src); reflexivity. Qed.
Lemma move_assign_none m dst src : move_assign m None dst src = lift (mv_assign m dst src) None.
Proof. unfold move_assign. destruct (mv_assign m dst src); reflexivity. Qed.

(* ---- what a throw may leave behind ------------------------------------------------------------------------------------------ *)
(* the slots of [first, first + n) are still alive (Live or Moved: some may have lost their value), EVERY other slot is exactly as before *)
Definition Kept (m m' : mem) (first n : nat) : Prop :=
  (forall j, first <= j < first + n -> alive (m' j) = true) /\ (forall j, ~ (first <= j < first + n) -> m' j = m j).
Lemma Kept_refl m first n : (forall j, first <= j < first + n -> alive (m j) = true) -> Kept m m first n.
Proof. intros H. split; [exact H|reflexivity]. Qed.
Lemma Kept_trans m m1 m' f n f1 n1 : Kept m m1 f n -> Kept m1 m' f1 n1 -> f <= f1 -> f1 + n1 <= f + n -> Kept m m' f n.
Proof.
  intros [A1 F1] [A2 F2] H1 H2. split; intros j Hj.
  - destruct (le_lt_dec f1 j) as [L1|L1]; [destruct (le_lt_dec (f1 + n1) j) as [L2|L2]|].
    + rewrite F2 by lia. apply A1; exact Hj.
    + apply A2; lia.
    + rewrite F2 by lia. apply A1; exact Hj.
  - rewrite F2 by lia. apply F1; exact Hj.
Qed.
Lemma Kept_move m dst src f n : (forall j, f <= j < f + n -> alive (m j) = true) -> f <= dst < f + n -> f <= src < f + n ->
  Kept m (upd (upd m dst (m src)) src Moved) f n.
Proof.
  intros Ha Hd Hs. split; intros j Hj.
  - pose proof (Ha j Hj) as W. pose proof (Ha src Hs) as Ws. updsimp; assumption.
  - updsimp.
Qed.

(* ---- std::move_backward (first, first + n, dlast), std::move (src, src + n, dst) ------------------------------------------- *)
Fixpoint move_backward (m : mem) (th : option nat) (first n dlast : nat) : out :=
  match n with 0 => Done m th
  | S k => match move_assign m th (dlast - 1) (first + k) with
           | Done m1 th1 => move_backward m1 th1 first k (dlast - 1)
           | o => o end end.
Fixpoint move_forward (m : mem) (th : option nat) (src n dst : nat) : out :=
  match n with 0 => Done m th
  | S k => match move_assign m th dst src with
           | Done m1 th1 => move_forward m1 th1 (S src) k (S dst)
           | o => o end end.
Lemma move_backward_none : forall c m first dlast, move_backward m None first c dlast = lift (mv_backward m first c dlast) None.
Proof.
  induction c as [|c IH]; intros m first dlast; cbn [move_backward mv_backward]; [reflexivity|].
  rewrite move_assign_none. destruct (mv_assign m (dlast - 1) (first + c)) as [m1|x]; cbn [lift]; [apply IH|reflexivity].
Qed.
Lemma move_forward_none : forall c m src dst, move_forward m None src c dst = lift (mv_forward m src c dst) None.
Proof.
  induction c as [|c IH]; intros m src dst; cbn [move_forward mv_forward]; [reflexivity|].
  rewrite move_assign_none. destruct (mv_assign m dst src) as [m1|x]; cbn [lift]; [apply IH|reflexivity].
Qed.

(* only alive slots are assigned: whatever happens (completion or a throw at any step) every slot of the range stays alive and
   nothing outside it changes; a completed run is the run of the noexcept model *)
Lemma move_backward_kept : forall c m th first dlast, first + c <= dlast ->
  (forall j, first <= j < dlast -> alive (m j) = true) ->
  match move_backward m th first c dlast with
  | Done m' _ => mv_backward m first c dlast = inl m' /\ Kept m m' first (dlast - first)
  | Threw m' => Kept m m' first (dlast - first)
  | Err _ => False end.
Proof.
  induction c as [|c IH]; intros m th first dlast Hd Ha; cbn [move_backward mv_backward].
  - split; [reflexivity|]. apply Kept_refl. intros j Hj. apply Ha; lia.
  - rewrite (move_assign_ok m th (dlast - 1) (first + c)) by (apply Ha; lia).
    rewrite (mv_assign_ok m (dlast - 1) (first + c)) by (apply Ha; lia).
    destruct (tick th) as [[|] th1]; cbn [fst snd].
    + apply Kept_refl. intros j Hj. apply Ha; lia.
    + assert (K1 : Kept m (upd (upd m (dlast - 1) (m (first + c))) (first + c) Moved) first (dlast - first)).
      { apply Kept_move; [intros j Hj; apply Ha; lia|lia|lia]. }
      specialize (IH (upd (upd m (dlast - 1) (m (first + c))) (first + c) Moved) th1 first (dlast - 1) ltac:(lia)).
      assert (A1 : forall j, first <= j < dlast - 1 -> alive (upd (upd m (dlast - 1) (m (first + c))) (first + c) Moved j) = true).
      { intros j Hj. apply (proj1 K1). lia. }
      specialize (IH A1).
      destruct (move_backward (upd (upd m (dlast - 1) (m (first + c))) (first + c) Moved) th1 first c (dlast - 1)) as [m' th2|m'|x].
      * destruct IH as [E K]. split; [exact E|]. apply (Kept_trans _ _ _ _ _ _ _ K1 K); lia.
      * apply (Kept_trans _ _ _ _ _ _ _ K1 IH); lia.
      * exact IH.
Qed.
Lemma move_forward_kept : forall c m th src dst, dst <= src ->
  (forall j, dst <= j < src + c -> alive (m j) = true) ->
  match move_forward m th src c dst with
  | Done m' _ => mv_forward m src c dst = inl m' /\ Kept m m' dst (src + c - dst)
  | Threw m' => Kept m m' dst (src + c - dst)
  | Err _ => False end.
Proof.
  induction c as [|c IH]; intros m th src dst Hd Ha; cbn [move_forward mv_forward].
  - split; [reflexivity|]. apply Kept_refl. intros j Hj. apply Ha; lia.
  - rewrite (move_assign_ok m th dst src) by (apply Ha; lia).
    rewrite (mv_assign_ok m dst src) by (apply Ha; lia).
    destruct (tick th) as [[|] th1]; cbn [fst snd].
    + apply Kept_refl. intros j Hj. apply Ha; lia.
    + assert (K1 : Kept m (upd (upd m dst (m src)) src Moved) dst (src + S c - dst)).
      { apply Kept_move; [intros j Hj; apply Ha; lia|lia|lia]. }
      specialize (IH (upd (upd m dst (m src)) src Moved) th1 (S src) (S dst) ltac:(lia)).
      assert (A1 : forall j, S dst <= j < S src + c -> alive (upd (upd m dst (m src)) src Moved j) = true).
      { intros j Hj. apply (proj1 K1). lia. }
      specialize (IH A1).
      destruct (move_forward (upd (upd m dst (m src)) src Moved) th1 (S src) c (S dst)) as [m' th2|m'|x].
      * destruct IH as [E K]. split; [exact E|]. apply (Kept_trans _ _ _ _ _ _ _ K1 K); lia.
      * apply (Kept_trans _ _ _ _ _ _ _ K1 IH); lia.
      * exact IH.
Qed.

(* ---- amc::uninitialized_move_n (src, n, dst) ----------------------------------------------------------------------------------- *)
(* OutputIt current = dest; try { for (; count > 0; ++first, ++current, --count) construct_at (current, std::move (first[0])); }
   catch (...) { amc::destroy (dest, current); throw; }          (C++17: std::uninitialized_move_n, the same roll-back)
   the sources already moved stay moved-from *)
Fixpoint uninit_move_loop (m : mem) (th : option nat) (src dst0 cur n : nat) : out :=
  match n with
  | 0 => Done m th
  | S k => match move_construct m th cur src with
           | Done m1 th1 => uninit_move_loop m1 th1 (S src) dst0 (S cur) k
           | Threw m1 => match destroy_n m1 dst0 (cur - dst0) with inl m2 => Threw m2 | inr e => Err e end
           | Err e => Err e end
  end.
Definition uninit_move_n (m : mem) (th : option nat) (src n dst : nat) : out := uninit_move_loop m th src dst dst n.
Lemma uninit_move_loop_none : forall n m src dst0 cur, uninit_move_loop m None src dst0 cur n = lift (mv_uninit_n m src n cur) None.
Proof.
  induction n as [|n IH]; intros m src dst0 cur; cbn [uninit_move_loop mv_uninit_n]; [reflexivity|].
  rewrite move_construct_none. destruct (mv_construct m cur src) as [m1|x]; cbn [lift]; [apply IH|reflexivity].
Qed.
Lemma uninit_move_n_none m src n dst : uninit_move_n m None src n dst = lift (mv_uninit_n m src n dst) None.
Proof. apply uninit_move_loop_none. Qed.

(* [dst0, cur) is what the loop has built so far; a throw destroys it: those slots are Raw again, the sources are alive (the ones
   already moved are moved-from), every other slot (the raw destinations not reached included) is as before *)
Lemma uninit_move_loop_spec : forall n m th src dst0 cur,
  dst0 <= cur -> (src + n <= dst0 \/ cur + n <= src) ->
  (forall j, dst0 <= j < cur -> alive (m j) = true) -> (forall k, k < n -> m (cur + k) = Raw) ->
  (forall k, k < n -> alive (m (src + k)) = true) ->
  match uninit_move_loop m th src dst0 cur n with
  | Done m' _ => mv_uninit_n m src n cur = inl m'
  | Threw m' => (forall j, dst0 <= j < cur -> m' j = Raw) /\ (forall j, src <= j < src + n -> alive (m' j) = true) /\
                (forall j, ~ (dst0 <= j < cur) -> ~ (src <= j < src + n) -> m' j = m j)
  | Err _ => False end.
Proof.
  induction n as [|n IH]; intros m th src dst0 cur Hdc Hdis Hb Hr Ha; cbn [uninit_move_loop mv_uninit_n]; [reflexivity|].
  pose proof (Ha 0 ltac:(lia)) as A0. pose proof (Hr 0 ltac:(lia)) as R0. rewrite Nat.add_0_r in A0, R0.
  rewrite (move_construct_ok m th cur src R0 A0). rewrite (mv_construct_ok m cur src R0 A0).
  destruct (tick th) as [[|] th1]; cbn [fst snd].
  - destruct (destroy_n_alive (cur - dst0) m dst0) as [m2 (E & P1 & P2)]; [intros k Hk; apply Hb; lia|].
    rewrite E. split; [intros j Hj; apply P1; lia|]. split.
    + intros j Hj. rewrite P2 by lia. replace j with (src + (j - src)) by lia. apply Ha. lia.
    + intros j H1 H2. apply P2. lia.
  - specialize (IH (upd (upd m cur (m src)) src Moved) th1 (S src) dst0 (S cur) ltac:(lia) ltac:(lia)).
    assert (B1 : forall j, dst0 <= j < S cur -> alive (upd (upd m cur (m src)) src Moved j) = true).
    { intros j Hj. destruct (Nat.eq_dec j cur) as [->|Hne]; [updsimp; exact A0|]. pose proof (Hb j ltac:(lia)) as W. updsimp; exact W. }
    assert (R1 : forall k, k < n -> upd (upd m cur (m src)) src Moved (S cur + k) = Raw).
    { intros k Hk. pose proof (Hr (S k) ltac:(lia)) as W. replace (cur + S k) with (S cur + k) in W by lia. updsimp; exact W. }
    assert (A1 : forall k, k < n -> alive (upd (upd m cur (m src)) src Moved (S src + k)) = true).
    { intros k Hk. pose proof (Ha (S k) ltac:(lia)) as W. replace (src + S k) with (S src + k) in W by lia. updsimp; exact W. }
    specialize (IH B1 R1 A1).
    destruct (uninit_move_loop (upd (upd m cur (m src)) src Moved) th1 (S src) dst0 (S cur) n) as [m' th2|m'|x]; [exact IH| |exact IH].
    destruct IH as (P1 & P2 & P3). split; [intros j Hj; apply P1; lia|]. split.
    + intros j Hj. destruct (Nat.eq_dec j src) as [->|Hne]; [rewrite P3 by lia; updsimp|apply P2; lia].
    + intros j H1 H2. destruct (Nat.eq_dec j cur) as [->|Hne]; [rewrite P1 by lia; symmetry; exact R0|]. rewrite P3 by lia. updsimp.
Qed.
(* uninitialized_move_n on its own: a throw leaves the destination Raw as before and the sources alive, nothing else touched *)
Lemma uninit_move_n_kept m th src n dst : (src + n <= dst \/ dst + n <= src) ->
  (forall k, k < n -> alive (m (src + k)) = true) -> (forall k, k < n -> m (dst + k) = Raw) ->
  match uninit_move_n m th src n dst with
  | Done m' _ => mv_uninit_n m src n dst = inl m'
  | Threw m' => Kept m m' src n
  | Err _ => False end.
Proof.
  intros Hdis Ha Hr. unfold uninit_move_n.
  pose proof (uninit_move_loop_spec n m th src dst dst ltac:(lia) Hdis ltac:(intros; lia) Hr Ha) as S.
  destruct (uninit_move_loop m th src dst dst n) as [m' th'|m'|x]; [exact S| |exact S].
  destruct S as (_ & P2 & P3). split; [exact P2|]. intros j Hj. apply P3; lia.
Qed.
(* the last 2 of 4 elements to the raw slots 4, 5 *)
Example uninit_move_n_kept_ex :
  let m : mem := fun i => if i <? 4 then Live (Z.of_nat (10 + i)) else if i <? 7 then Raw else Out in
  (2 + 2 <= 4 \/ 4 + 2 <= 2) /\ (forall k, k < 2 -> alive (m (2 + k)) = true) /\ (forall k, k < 2 -> m (4 + k) = Raw).
Proof. cbv zeta. split; [left; lia|]. split; intros k Hk; assert (k = 0 \/ k = 1) as [-> | ->] by lia; reflexivity. Qed.

(* ---- vec::shift_right (first, n), n != 0 ----------------------------------------------------------------------------------------- *)
(* T *last = first + n;  construct_at (last, std::move (last[-1]));
   try { std::move_backward (first, last - 1, last); } catch (...) { destroy_at (last); throw; }        fx = false: no try / catch *)
Definition shift_right1 (fx : bool) (m : mem) (th : option nat) (first n : nat) : out :=
  match move_construct m th (first + n) (first + n - 1) with
  | Done m1 th1 =>
      match move_backward m1 th1 first (n - 1) (first + n) with
      | Threw m2 => if fx then match destroy m2 (first + n) with inl m3 => Threw m3 | inr x => Err x end else Threw m2
      | o => o end
  | o => o end.
Lemma shift_right1_none fx m first n : shift_right1 fx m None first n = lift (EmplaceGrow.shift_right1 m first n) None.
Proof.
  unfold shift_right1, EmplaceGrow.shift_right1. rewrite move_construct_none.
  destruct (mv_construct m (first + n) (first + n - 1)) as [m1|x]; cbn [lift]; [|reflexivity].
  rewrite move_backward_none. destruct (mv_backward m1 first (n - 1) (first + n)); reflexivity.
Qed.
Lemma shift_right1_kept m th first n : 1 <= n -> (forall j, first <= j < first + n -> alive (m j) = true) -> m (first + n) = Raw ->
  match shift_right1 true m th first n with
  | Done m' _ => EmplaceGrow.shift_right1 m first n = inl m'
  | Threw m' => Kept m m' first n
  | Err _ => False end.
Proof.
  intros Hn Ha Hr. unfold shift_right1, EmplaceGrow.shift_right1.
  rewrite (move_construct_ok m th (first + n) (first + n - 1) Hr) by (apply Ha; lia).
  rewrite (mv_construct_ok m (first + n) (first + n - 1) Hr) by (apply Ha; lia).
  destruct (tick th) as [[|] th1]; cbn [fst snd]; [apply Kept_refl; exact Ha|].
  set (m1 := upd (upd m (first + n) (m (first + n - 1))) (first + n - 1) Moved).
  assert (A1 : forall j, first <= j < first + n -> alive (m1 j) = true).
  { intros j Hj. pose proof (Ha j Hj) as W. unfold m1. updsimp; exact W. }
  assert (F1 : forall j, ~ (first <= j <= first + n) -> m1 j = m j) by (intros j Hj; unfold m1; updsimp).
  assert (L1 : alive (m1 (first + n)) = true) by (unfold m1; updsimp; apply Ha; lia).
  pose proof (move_backward_kept (n - 1) m1 th1 first (first + n) ltac:(lia) A1) as B.
  destruct (move_backward m1 th1 first (n - 1) (first + n)) as [m2 th2|m2|x]; [exact (proj1 B)| |exact B].
  destruct B as [B1 B2]. rewrite destroy_ok by (rewrite B2 by lia; exact L1).
  split; intros j Hj.
  - pose proof (B1 j ltac:(lia)) as W. updsimp; exact W.
  - destruct (Nat.eq_dec j (first + n)) as [->|Hne]; [updsimp|]. rewrite <- F1 by lia. rewrite <- B2 by lia. updsimp.
Qed.

(* ---- vec::shift_right (first, n, count) -------------------------------------------------------------------------------------------- *)
(* count < n:  T *last = first + n;  uninitialized_move_n (last - count, count, last);
               try { std::move_backward (first, last - count, last); } catch (...) { destroy_n (last, count); throw; }
   else:       uninitialized_move_n (first, n, first + count) *)
Definition shift_right_cnt (fx : bool) (m : mem) (th : option nat) (first n count : nat) : out :=
  if count <? n then
    match uninit_move_n m th (first + n - count) count (first + n) with
    | Done m1 th1 =>
        match move_backward m1 th1 first (n - count) (first + n) with
        | Threw m2 => if fx then match destroy_n m2 (first + n) count with inl m3 => Threw m3 | inr x => Err x end else Threw m2
        | o => o end
    | o => o end
  else uninit_move_n m th first n (first + count).
(* the same without events, from the noexcept moves of EmplaceGrow.v *)
Definition shift_right_cnt_nx (m : mem) (first n count : nat) : mem + err :=
  if count <? n then
    match mv_uninit_n m (first + n - count) count (first + n) with
    | inl m1 => mv_backward m1 first (n - count) (first + n)
    | inr x => inr x end
  else mv_uninit_n m first n (first + count).
Lemma shift_right_cnt_none fx m first n count : shift_right_cnt fx m None first n count = lift (shift_right_cnt_nx m first n count) None.
Proof.
  unfold shift_right_cnt, shift_right_cnt_nx. destruct (count <? n); [|apply uninit_move_n_none].
  rewrite uninit_move_n_none. destruct (mv_uninit_n m (first + n - count) count (first + n)) as [m1|x]; cbn [lift]; [|reflexivity].
  rewrite move_backward_none. destruct (mv_backward m1 first (n - count) (first + n)); reflexivity.
Qed.
Lemma shift_right_cnt_kept m th first n count :
  (forall j, first <= j < first + n -> alive (m j) = true) -> (forall k, k < count -> m (first + n + k) = Raw) ->
  match shift_right_cnt true m th first n count with
  | Done m' _ => shift_right_cnt_nx m first n count = inl m'
  | Threw m' => Kept m m' first n
  | Err _ => False end.
Proof.
  intros Ha Hr. unfold shift_right_cnt, shift_right_cnt_nx. destruct (Nat.ltb_spec count n) as [Hc|Hc].
  - pose proof (uninit_move_n_kept m th (first + n - count) count (first + n) ltac:(lia)
                  ltac:(intros k Hk; apply Ha; lia) Hr) as U.
    destruct (uninit_move_n m th (first + n - count) count (first + n)) as [m1 th1|m1|x]; [| |exact U].
    + rewrite U.
      destruct (mv_uninit_n_spec count m (first + n - count) (first + n) ltac:(lia)
                  ltac:(intros k Hk; apply Ha; lia) Hr) as [m1' (E & P1 & P2 & P3)].
      rewrite U in E. injection E as <-.
      assert (A1 : forall j, first <= j < first + n -> alive (m1 j) = true).
      { intros j Hj. destruct (le_lt_dec (first + n - count) j) as [L|L].
        - replace j with (first + n - count + (j - (first + n - count))) by lia. rewrite P2 by lia. reflexivity.
        - rewrite P3 by lia. apply Ha; lia. }
      pose proof (move_backward_kept (n - count) m1 th1 first (first + n) ltac:(lia) A1) as B.
      destruct (move_backward m1 th1 first (n - count) (first + n)) as [m2 th2|m2|x]; [exact (proj1 B)| |exact B].
      destruct B as [B1 B2].
      destruct (destroy_n_alive count m2 (first + n)) as [m3 (E3 & Q1 & Q2)].
      { intros k Hk. rewrite B2 by lia. rewrite P1 by lia. apply Ha; lia. }
      rewrite E3. split; intros j Hj.
      * rewrite Q2 by lia. apply B1; lia.
      * destruct (le_lt_dec (first + n) j) as [L|L]; [destruct (le_lt_dec (first + n + count) j) as [L2|L2]|].
        -- rewrite Q2 by lia. rewrite B2 by lia. apply P3; lia.
        -- rewrite Q1 by lia. replace j with (first + n + (j - (first + n))) by lia. symmetry. apply Hr. lia.
        -- rewrite Q2 by lia. rewrite B2 by lia. apply P3; lia.
    + destruct U as [U1 U2]. split; intros j Hj; [|apply U2; lia].
      destruct (le_lt_dec (first + n - count) j) as [L|L]; [apply U1; lia|rewrite U2 by lia; apply Ha; lia].
  - pose proof (uninit_move_n_kept m th first n (first + count) ltac:(lia)
                  ltac:(intros k Hk; apply Ha; lia)) as U.
    assert (R' : forall k, k < n -> m (first + count + k) = Raw).
    { intros k Hk. replace (first + count + k) with (first + n + (count - n + k)) by lia. apply Hr. lia. }
    exact (U R').
Qed.

(* ---- vec::shift_left (first, n), n != 0 ---------------------------------------------------------------------------------------------- *)
(* DestroyGuard guard (first + n - 1, 1);  first[-1] = std::move (first[0]);  std::move (first + 1, first + n, first);
   the guard destroys the last slot when the moves are done AND when one of them throws (it is beyond the size the caller keeps) *)
Definition guard_destroy (o : out) (i : nat) : out :=
  match o with
  | Done m th => lift (destroy m i) th
  | Threw m => match destroy m i with inl m' => Threw m' | inr e => Err e end
  | Err e => Err e end.
Definition shift_left (m : mem) (th : option nat) (first n : nat) : out :=
  guard_destroy (match move_assign m th (first - 1) first with
                 | Done m1 th1 => move_forward m1 th1 (first + 1) (n - 1) first
                 | o => o end) (first + n - 1).
Lemma shift_left_none m first n : shift_left m None first n = lift (EmplaceGrow.shift_left m first n) None.
Proof.
  unfold shift_left, EmplaceGrow.shift_left. rewrite move_assign_none.
  destruct (mv_assign m (first - 1) first) as [m1|x]; cbn [lift]; [|reflexivity].
  rewrite move_forward_none. destruct (mv_forward m1 (first + 1) (n - 1) first) as [m2|x]; reflexivity.
Qed.
(* on what shift_right (pos, n) left ([pos, pos + n] alive): a throw at any step leaves the n + 1 slots alive (the extra slot
   pos + n is NOT destroyed: shift_left is only called from catch handlers) *)
Lemma shift_left_kept m th pos n : 1 <= n -> (forall j, pos <= j <= pos + n -> alive (m j) = true) ->
  match shift_left m th (pos + 1) n with
  | Done m' _ => EmplaceGrow.shift_left m (pos + 1) n = inl m'
  | Threw m' => exists m1, Kept m m1 pos (n + 1) /\ m' = upd m1 (pos + n) Raw
  | Err _ => False end.
Proof.
  intros Hn Ha. unfold shift_left, EmplaceGrow.shift_left, guard_destroy. replace (pos + 1 - 1) with pos by lia. replace (pos + 1 + n - 1) with (pos + n) by lia.
  rewrite (move_assign_ok m th pos (pos + 1)) by (apply Ha; lia). rewrite (mv_assign_ok m pos (pos + 1)) by (apply Ha; lia).
  destruct (tick th) as [[|] th1]; cbn [fst snd].
  { rewrite destroy_ok by (apply Ha; lia). exists m. split; [apply Kept_refl; intros j Hj; apply Ha; lia|reflexivity]. }
  assert (K1 : Kept m (upd (upd m pos (m (pos + 1))) (pos + 1) Moved) pos (n + 1)).
  { apply Kept_move; [intros j Hj; apply Ha; lia|lia|lia]. }
  pose proof (move_forward_kept (n - 1) (upd (upd m pos (m (pos + 1))) (pos + 1) Moved) th1 (pos + 1 + 1) (pos + 1) ltac:(lia)
                ltac:(intros j Hj; apply (proj1 K1); lia)) as F.
  destruct (move_forward (upd (upd m pos (m (pos + 1))) (pos + 1) Moved) th1 (pos + 1 + 1) (n - 1) (pos + 1)) as [m2 th2|m2|x]; [| |exact F].
  - destruct F as [E K]. rewrite E. rewrite destroy_ok by (apply (proj1 K); lia). reflexivity.
  - pose proof (Kept_trans _ _ _ _ _ _ _ K1 F ltac:(lia) ltac:(lia)) as K2.
    rewrite destroy_ok by (apply (proj1 K2); lia). exists m2. split; [exact K2|reflexivity].
Qed.
(* [moved-from, 10, 11, 12, raw]: what shift_right (0, 3) leaves of [10, 11, 12] *)
Example shift_left_kept_ex :
  let m : mem := fun i => if i =? 0 then Moved else if i <? 4 then Live (Z.of_nat (9 + i)) else if i <? 5 then Raw else Out in
  1 <= 3 /\ (forall j, 0 <= j <= 0 + 3 -> alive (m j) = true).
Proof. cbv zeta. split; [lia|]. intros j Hj. assert (j = 0 \/ j = 1 \/ j = 2 \/ j = 3) as [-> | [-> | [-> | ->]]] by lia; reflexivity. Qed.

(* ---- amc::relocate_at (e, dest), vec::relocate_after_shift (e, dest) -------------------------------------------------------------- *)
(* construct_at (dest, std::move (e[0])); destroy_at (e)          a throw leaves e ALIVE: the caller's handler destroys it *)
Definition relocate_at (m : mem) (th : option nat) (e dst : nat) : out :=
  match move_construct m th dst e with
  | Done m1 th1 => lift (destroy m1 e) th1
  | o => o end.
(* dest[0] = std::move (e[0]); destroy_at (e) *)
Definition relocate_after_shift (m : mem) (th : option nat) (e dst : nat) : out :=
  match move_assign m th dst e with
  | Done m1 th1 => lift (destroy m1 e) th1
  | o => o end.
Lemma relocate_at_none m e dst : relocate_at m None e dst = lift (EmplaceGrow.relocate_at m e dst) None.
Proof. unfold relocate_at, EmplaceGrow.relocate_at. rewrite move_construct_none. destruct (mv_construct m dst e); reflexivity. Qed.
Lemma relocate_after_shift_none m e dst : relocate_after_shift m None e dst = EmplaceGrow.relocate_after_shift m None e dst.
Proof. unfold relocate_after_shift, EmplaceGrow.relocate_after_shift. rewrite move_assign_none. destruct (mv_assign m dst e); reflexivity. Qed.
Lemma relocate_at_spec m th e dst : m dst = Raw -> alive (m e) = true ->
  relocate_at m th e dst = if fst (tick th) then Threw m else Done (upd (upd (upd m dst (m e)) e Moved) e Raw) (snd (tick th)).
Proof.
  intros Hd He. assert (Hne : dst <> e) by (intros ->; rewrite Hd in He; discriminate).
  unfold relocate_at. rewrite (move_construct_ok m th dst e Hd He). destruct (tick th) as [[|] th1]; cbn [fst snd]; [reflexivity|].
  rewrite destroy_ok by updsimp. reflexivity.
Qed.
Lemma relocate_after_shift_spec m th e dst : alive (m dst) = true -> alive (m e) = true ->
  relocate_after_shift m th e dst = if fst (tick th) then Threw m else Done (upd (upd (upd m dst (m e)) e Moved) e Raw) (snd (tick th)).
Proof.
  intros Hd He. unfold relocate_after_shift. rewrite (move_assign_ok m th dst e Hd He).
  destruct (tick th) as [[|] th1]; cbn [fst snd]; [reflexivity|]. rewrite destroy_ok by updsimp. reflexivity.
Qed.
(* e = slot 6 holds the new element (the layout init_lay 3 5 after construct_at (e, 99)); slot 3 is raw, slot 0 alive *)
Example relocate_spec_ex :
  let m := upd (init_lay 3 5 99) 6 (Live 99) in m 3 = Raw /\ alive (m 0) = true /\ alive (m 6) = true.
Proof. cbv zeta. repeat split. Qed.

(* ---- the new element: construct_at (dst, args...) from an lvalue (copy: one event) or an rvalue (move: one event NOW) ------------- *)
Definition construct_arg (m : mem) (th : option nat) (dst a : nat) (k : argkind) : out :=
  match k with
  | Rvalue => move_construct m th dst a
  | Lvalue => match m a with
              | Live v => copy_construct m th dst v
              | Out => Err OutOfBlock
              | _ => Err AssignDead
              end
  end.
Lemma construct_arg_none m dst a k : construct_arg m None dst a k = EmplaceGrow.construct_arg m None dst a k.
Proof. destruct k; cbn [construct_arg EmplaceGrow.construct_arg]; [reflexivity|]. rewrite move_construct_none. reflexivity. Qed.
Lemma construct_arg_none_th m dst a k m1 th1 : EmplaceGrow.construct_arg m None dst a k = Done m1 th1 -> th1 = None.
Proof.
  destruct k; cbn [EmplaceGrow.construct_arg].
  - destruct (m a); try discriminate. unfold copy_construct. destruct (m dst); try discriminate. cbn [tick]. congruence.
  - destruct (mv_construct m dst a); congruence.
Qed.
Lemma construct_arg_spec m th dst a k va : m dst = Raw -> m a = Live va ->
  match construct_arg m th dst a k with
  | Done m1 _ => m1 dst = Live va /\ m1 a = arg_after k va /\ (forall j, j <> dst -> j <> a -> m1 j = m j) /\
                 EmplaceGrow.construct_arg m None dst a k = Done m1 None
  | Threw m1 => m1 = m
  | Err _ => False end.
Proof.
  intros Hd Ha. assert (Hne : dst <> a) by congruence. destruct k; cbn [construct_arg EmplaceGrow.construct_arg arg_after].
  - rewrite Ha. unfold copy_construct. rewrite Hd. cbn [tick]. destruct (tick th) as [[|] th1]; [reflexivity|].
    split; [updsimp|]. split; [rewrite <- Ha; updsimp|]. split; [intros; updsimp|reflexivity].
  - assert (Al : alive (m a) = true) by (rewrite Ha; reflexivity).
    rewrite (move_construct_ok m th dst a Hd Al). rewrite (mv_construct_ok m dst a Hd Al).
    destruct (tick th) as [[|] th1]; cbn [fst snd]; [reflexivity|].
    split; [rewrite Ha; updsimp|]. split; [updsimp|]. split; [intros; updsimp|reflexivity].
Qed.

(* ---- vec::emplace_n (pos, n, args...) ------------------------------------------------------------------------------------------------- *)
(* try { shift_right (pos, n); } catch (...) { destroy_at (e); throw; }
   try { relocate_after_shift (e, pos); } catch (...) { DestroyGuard guard (e, 1); shift_left (pos + 1, n); throw; }
   the handlers run after the one injected fault: oracle None (the guard then destroys e when the handler rethrows). *)
Definition shift_relocate (fx : bool) (m : mem) (th : option nat) (pos n e : nat) : out :=
  match shift_right1 fx m th pos n with
  | Threw m2 => match destroy m2 e with inl m3 => Threw m3 | inr x => Err x end
  | Done m2 th2 =>
      match relocate_after_shift m2 th2 e pos with
      | Threw m3 => match shift_left m3 None (pos + 1) n with
                    | Done m4 _ => match destroy m4 e with inl m5 => Threw m5 | inr x => Err x end
                    | o => o end
      | o => o end
  | Err x => Err x end.
(* n == 0: construct_at (pos, args...);   else ElemStorage e; construct_at (e.ptr (), args...); then the two try blocks *)
Definition emplace_n (fx : bool) (m : mem) (th : option nat) (pos n e a : nat) (k : argkind) : out :=
  if n =? 0 then construct_arg m th pos a k
  else match construct_arg m th e a k with
       | Done m1 th1 => shift_relocate fx m1 th1 pos n e
       | o => o end.
Lemma shift_relocate_none fx m pos n e : shift_relocate fx m None pos n e = EmplaceGrow.shift_relocate m None pos n e.
Proof.
  unfold shift_relocate, EmplaceGrow.shift_relocate. rewrite shift_right1_none.
  destruct (EmplaceGrow.shift_right1 m pos n) as [m2|x]; cbn [lift]; [|reflexivity].
  rewrite relocate_after_shift_none.
  destruct (EmplaceGrow.relocate_after_shift m2 None e pos) as [m3 th3|m3|x] eqn:R; [reflexivity| |reflexivity].
  exfalso. exact (relocate_after_shift_no_throw _ _ _ _ _ R).
Qed.
Lemma emplace_n_none fx m pos n e a k : emplace_n fx m None pos n e a k = EmplaceGrow.emplace_n m None pos n e a k.
Proof.
  unfold emplace_n, EmplaceGrow.emplace_n. destruct (n =? 0); [apply construct_arg_none|]. rewrite construct_arg_none.
  destruct (EmplaceGrow.construct_arg m None e a k) as [m1 th1|m1|x] eqn:C; [|reflexivity|reflexivity].
  rewrite (construct_arg_none_th _ _ _ _ _ _ C). apply shift_relocate_none.
Qed.

(* the temporary e (alive, outside [pos, pos + n]) goes to pos after the shift; a throw (in shift_right: handler 1; in the move
   assignment of relocate_after_shift: handler 2) leaves the n slots alive, e Raw, every other slot as before *)
Lemma shift_relocate_kept m th pos n e : 1 <= n -> (forall j, pos <= j < pos + n -> alive (m j) = true) -> m (pos + n) = Raw ->
  alive (m e) = true -> (e < pos \/ pos + n < e) ->
  match shift_relocate true m th pos n e with
  | Done m' _ => EmplaceGrow.shift_relocate m None pos n e = Done m' None
  | Threw m' => (forall j, pos <= j < pos + n -> alive (m' j) = true) /\ m' e = Raw /\
                (forall j, ~ (pos <= j < pos + n) -> j <> e -> m' j = m j)
  | Err _ => False end.
Proof.
  intros Hn Ha Hr He Hsep. unfold shift_relocate, EmplaceGrow.shift_relocate.
  pose proof (shift_right1_kept m th pos n Hn Ha Hr) as S.
  destruct (shift_right1 true m th pos n) as [m2 th2|m2|x]; [| |exact S].
  - rewrite S. destruct (shift_right1_spec m pos n Hn Ha Hr) as [m2' (E & P0 & P1 & P2)]. rewrite S in E. injection E as <-.
    assert (E2 : m2 e = m e) by (apply P2; lia).
    rewrite (relocate_after_shift_spec m2 th2 e pos) by (rewrite ?P0, ?E2; auto).
    unfold EmplaceGrow.relocate_after_shift. rewrite (mv_assign_ok m2 pos e) by (rewrite ?P0, ?E2; auto).
    rewrite destroy_ok by updsimp.
    destruct (tick th2) as [[|] th3]; cbn [fst snd]; [|reflexivity].
    rewrite shift_left_none. destruct (shift_left_spec m2 pos n Hn) as [m4 (E4 & Q1 & Q0 & Q2)].
    { intros j Hj. destruct (Nat.eq_dec j pos) as [->|Hne]; [rewrite P0; reflexivity|]. rewrite P1 by lia. apply Ha; lia. }
    rewrite E4. cbn [lift]. rewrite destroy_ok by (rewrite Q2 by lia; rewrite E2; exact He).
    split; [|split].
    + intros j Hj. replace (upd m4 e Raw j) with (m4 j) by updsimp. rewrite Q1 by lia. rewrite P1 by lia.
      replace (j + 1 - 1) with j by lia. apply Ha; exact Hj.
    + updsimp.
    + intros j Hj Hne. replace (upd m4 e Raw j) with (m4 j) by updsimp.
      destruct (Nat.eq_dec j (pos + n)) as [->|Hne2]; [rewrite Q0; symmetry; exact Hr|]. rewrite Q2 by lia. apply P2; lia.
  - destruct S as [S1 S2]. rewrite destroy_ok by (rewrite S2 by lia; exact He).
    split; [|split].
    + intros j Hj. pose proof (S1 j Hj) as W. updsimp; exact W.
    + updsimp.
    + intros j Hj Hne. rewrite <- S2 by exact Hj. updsimp.
Qed.
Example shift_relocate_kept_ex :
  let m := upd (init_lay 3 5 99) 6 (Live 99) in
  1 <= 2 /\ (forall j, 1 <= j < 1 + 2 -> alive (m j) = true) /\ m (1 + 2) = Raw /\ alive (m 6) = true /\ (6 < 1 \/ 1 + 2 < 6).
Proof.
  cbv zeta. split; [lia|]. split; [|split; [reflexivity|split; [reflexivity|lia]]].
  intros j Hj. assert (j = 1 \/ j = 2) as [-> | ->] by lia; reflexivity.
Qed.

(* ---- vec::insert_n (pos, n, const T &v), v not an element of the block ------------------------------------------------------------------ *)
(* n == 0: construct_at (pos, v);  else shift_right (pos, n) [outside the try: it cleans up after itself];
   try { pos[0] = v; } catch (...) { shift_left (pos + 1, n); throw; } *)
Definition insert_n (fx : bool) (m : mem) (th : option nat) (pos n : nat) (v : Z) : out :=
  if n =? 0 then copy_construct m th pos v
  else match shift_right1 fx m th pos n with
       | Done m1 th1 =>
           match copy_assign_alive m1 th1 pos v with
           | Threw m2 => match shift_left m2 None (pos + 1) n with Done m3 _ => Threw m3 | o => o end
           | o => o end
       | o => o end.
Lemma insert_n_none fx m pos n v : insert_n fx m None pos n v = EmplaceGrow.insert_n m None pos n v.
Proof.
  unfold insert_n, EmplaceGrow.insert_n. destruct (n =? 0); [reflexivity|]. rewrite shift_right1_none.
  destruct (EmplaceGrow.shift_right1 m pos n) as [m1|x]; cbn [lift]; [|reflexivity].
  destruct (copy_assign_alive m1 None pos v) as [m2 th2|m2|x] eqn:C; [reflexivity| |reflexivity].
  unfold copy_assign_alive in C. destruct (m1 pos); cbn [tick] in C; discriminate.
Qed.

(* ---- vec::erase_n (first, n, count):  destroy_n (std::move (first + n, first + n + count, first), n) ------------------------------- *)
Definition erase_n (m : mem) (th : option nat) (first n count : nat) : out :=
  match move_forward m th (first + n) count first with
  | Done m1 th1 => lift (destroy_n m1 (first + count) n) th1
  | o => o end.
Definition erase_n_nx (m : mem) (first n count : nat) : mem + err :=
  match mv_forward m (first + n) count first with inl m1 => destroy_n m1 (first + count) n | inr x => inr x end.
Lemma erase_n_none m first n count : erase_n m None first n count = lift (erase_n_nx m first n count) None.
Proof. unfold erase_n, erase_n_nx. rewrite move_forward_none. destruct (mv_forward m (first + n) count first); reflexivity. Qed.
(* c elements move down over a gap of src - dst >= 1 slots *)
Lemma mv_forward_gap : forall c m src dst, dst < src -> (forall j, dst <= j < src + c -> alive (m j) = true) ->
  exists m', mv_forward m src c dst = inl m' /\ (forall j, dst <= j < dst + c -> m' j = m (j + (src - dst))) /\
    (forall j, ~ (dst <= j < src + c) -> m' j = m j).
Proof.
  induction c as [|c IH]; intros m src dst Hd Ha; cbn [mv_forward].
  - exists m. repeat split; intros; try lia; reflexivity.
  - rewrite (mv_assign_ok m dst src) by (apply Ha; lia).
    destruct (IH (upd (upd m dst (m src)) src Moved) (S src) (S dst) ltac:(lia)) as [m' (E & P1 & P2)].
    { intros j Hj. pose proof (Ha j ltac:(lia)) as W. updsimp; exact W. }
    exists m'. split; [exact E|]. split.
    + intros j Hj. destruct (Nat.eq_dec j dst) as [->|Hne].
      * rewrite P2 by lia. replace (dst + (src - dst)) with src by lia. updsimp.
      * rewrite P1 by lia. replace (j + (S src - S dst)) with (j + (src - dst)) by lia. updsimp.
    + intros j Hj. rewrite P2 by lia. updsimp.
Qed.

(* ==== the vector after a throw ================================================================================================================ *)
(* the basic guarantee in std::vector's sense: the vector keeps [size]; every slot below it is alive (Live, or Moved: a
   moved-from but destructible element), every slot from size on is Raw (nothing alive beyond the end: NO LEAK), Out beyond cap.
   [Inv] (Throw.v) is the same with every slot below size Live. *)
Definition Basic (m : mem) (size cap : nat) : Prop :=
  size <= cap /\ (forall i, i < size -> alive (m i) = true) /\ (forall i, size <= i -> i < cap -> m i = Raw) /\ (forall i, cap <= i -> m i = Out).
Lemma Inv_Basic m size cap : Inv m size cap -> Basic m size cap.
Proof. intros (H1 & H2 & H3 & H4). repeat split; try assumption. intros i Hi. apply live_alive, H2, Hi. Qed.
Lemma Basic_ext m m' size cap : (forall j, m' j = m j) -> Basic m size cap -> Basic m' size cap.
Proof. intros E (H1 & H2 & H3 & H4). repeat split; [exact H1| | |]; intros; rewrite E; auto. Qed.
Lemma Kept_Basic m m' size cap pos : Inv m size cap -> pos <= size -> Kept m m' pos (size - pos) ->
  Basic m' size cap /\ (forall j, j < pos -> m' j = m j) /\ (forall j, size <= j -> m' j = m j).
Proof.
  intros (Hsc & Hl & Hr & Ho) Hp [K1 K2]. split; [|split; intros j Hj; apply K2; lia].
  repeat split; [exact Hsc| | |].
  - intros i Hi. destruct (le_lt_dec pos i) as [L|L]; [apply K1; lia|rewrite K2 by lia; apply live_alive, Hl, Hi].
  - intros i H1 H2. rewrite K2 by lia. apply Hr; assumption.
  - intros i Hi. rewrite K2 by lia. apply Ho; assumption.
Qed.
(* a moved-from element below size: Basic holds, Inv does not *)
Lemma Moved_not_Inv m size cap j : j < size -> m j = Moved -> ~ Inv m size cap.
Proof. intros Hj Hm (_ & Hl & _). specialize (Hl j Hj). rewrite Hm in Hl. discriminate. Qed.

(* the initial memory of the examples and of the correspondence check: size elements 10, 11, ... then raw slots up to cap *)
Definition init (size cap : nat) : mem :=
  fun i => if i <? size then Live (Z.of_nat (10 + i)) else if i <? cap then Raw else Out.
Lemma init_inv size cap : size <= cap -> Inv (init size cap) size cap.
Proof.
  intros H. unfold Inv, init. repeat split; [exact H| | |].
  - intros i Hi. destruct (Nat.ltb_spec i size); [reflexivity|lia].
  - intros i H1 H2. destruct (Nat.ltb_spec i size); [lia|]. destruct (Nat.ltb_spec i cap); [reflexivity|lia].
  - intros i Hi. destruct (Nat.ltb_spec i size); [lia|]. destruct (Nat.ltb_spec i cap); [lia|reflexivity].
Qed.
Lemma Inv_alive m size cap pos : Inv m size cap -> forall j, pos <= j < pos + (size - pos) -> alive (m j) = true.
Proof. intros (_ & Hl & _) j Hj. apply live_alive, Hl. lia. Qed.

(* ---- shift_right (pos, n) of the tail of a vector with room for one more element -------------------------------------------------------- *)
Theorem shift_right1_basic m th size cap pos :
  Inv m size cap -> size < cap -> pos < size ->
  match shift_right1 true m th pos (size - pos) with
  | Threw m' => Basic m' size cap /\ (forall j, j < pos -> m' j = m j) /\ (forall j, size <= j -> m' j = m j)
  | Done m' _ => EmplaceGrow.shift_right1 m pos (size - pos) = inl m'
  | Err _ => False end.
Proof.
  intros HI Hroom Hpos. pose proof HI as (_ & _ & Hr & _).
  pose proof (shift_right1_kept m th pos (size - pos) ltac:(lia) (Inv_alive m size cap pos HI) ltac:(apply Hr; lia)) as S.
  destruct (shift_right1 true m th pos (size - pos)) as [m' th'|m'|x]; [exact S| |exact S].
  apply (Kept_Basic m m' size cap pos HI ltac:(lia) S).
Qed.
Example shift_right1_basic_ex : Inv (init 3 5) 3 5 /\ 3 < 5 /\ 1 < 3.
Proof. split; [apply init_inv; lia|lia]. Qed.
(* the slot level hypotheses of [shift_right1_kept], on the same memory: tail [1, 3), slot 3 raw *)
Example shift_right1_kept_ex : 1 <= 2 /\ (forall j, 1 <= j < 1 + 2 -> alive (init 3 5 j) = true) /\ init 3 5 (1 + 2) = Raw.
Proof. split; [lia|]. split; [|reflexivity]. intros j Hj. assert (j = 1 \/ j = 2) as [-> | ->] by lia; reflexivity. Qed.

(* ---- shift_right (pos, n, count) with room for count more elements ------------------------------------------------------------------------ *)
Theorem shift_right_cnt_basic m th size cap pos count :
  Inv m size cap -> size + count <= cap -> pos <= size ->
  match shift_right_cnt true m th pos (size - pos) count with
  | Threw m' => Basic m' size cap /\ (forall j, j < pos -> m' j = m j) /\ (forall j, size <= j -> m' j = m j)
  | Done m' _ => shift_right_cnt_nx m pos (size - pos) count = inl m'
  | Err _ => False end.
Proof.
  intros HI Hroom Hpos. pose proof HI as (_ & _ & Hr & _).
  pose proof (shift_right_cnt_kept m th pos (size - pos) count (Inv_alive m size cap pos HI) ltac:(intros k Hk; apply Hr; lia)) as S.
  destruct (shift_right_cnt true m th pos (size - pos) count) as [m' th'|m'|x]; [exact S| |exact S].
  apply (Kept_Basic m m' size cap pos HI ltac:(lia) S).
Qed.
Example shift_right_cnt_basic_ex : Inv (init 4 7) 4 7 /\ 4 + 2 <= 7 /\ 1 <= 4.
Proof. split; [apply init_inv; lia|lia]. Qed.
Example shift_right_cnt_kept_ex : (forall j, 1 <= j < 1 + 3 -> alive (init 4 7 j) = true) /\ (forall k, k < 2 -> init 4 7 (1 + 3 + k) = Raw).
Proof.
  split; [intros j Hj; assert (j = 1 \/ j = 2 \/ j = 3) as [-> | [-> | ->]] by lia; reflexivity|].
  intros k Hk. assert (k = 0 \/ k = 1) as [-> | ->] by lia; reflexivity.
Qed.

(* ---- emplace_n: single element emplace / insert (pos, T&&) / insert of an own element, within capacity ---------------------------------- *)
(* EmplaceNPre (EmplaceGrow.v): the block [0, cap) satisfies Inv with room for one element, pos <= size, the temporary e (Raw) and
   the argument a (Live va) are two different slots outside the block.
   Throw (the construction of the new element - a copy OR a move -, any move of shift_right, the move assignment of
   relocate_after_shift): the vector keeps size with alive elements, nothing alive from size on, the temporary e is Raw (no leak),
   the prefix is untouched, no other slot changed; the argument kept its value, or is moved-from when it was passed as an rvalue
   (emplace_n has no give-back).  Completion: as EmplaceGrow.emplace_n. *)
Theorem emplace_n_basic m th size cap pos e a k va :
  EmplaceNPre m size cap pos e a va ->
  match emplace_n true m th pos (size - pos) e a k with
  | Threw m' => Basic (blockview m' 0 cap) size cap /\ (forall j, j < pos -> m' j = m j) /\ m' e = Raw /\
                (m' a = Live va \/ (k = Rvalue /\ m' a = Moved)) /\ (forall j, size <= j -> j <> a -> m' j = m j)
  | Done m' _ => EmplaceGrow.emplace_n m None pos (size - pos) e a k = Done m' None
  | Err _ => False end.
Proof.
  intros (HI & Hroom & Hpos & Hec & Hac & Hea & He & Ha). pose proof HI as HB. apply Inv_Basic in HB.
  apply blockview_inv in HI. destruct HI as (_ & Hl & Hr). cbn [Nat.add] in Hl, Hr.
  assert (Same : forall m', (forall j, j <> a -> m' j = m j) -> (m' a = Live va \/ (k = Rvalue /\ m' a = Moved)) ->
            Basic (blockview m' 0 cap) size cap /\ (forall j, j < pos -> m' j = m j) /\ m' e = Raw /\
            (m' a = Live va \/ (k = Rvalue /\ m' a = Moved)) /\ (forall j, size <= j -> j <> a -> m' j = m j)).
  { intros m' F Fa. split; [|split; [intros; apply F; lia|split; [rewrite F by lia; exact He|split; [exact Fa|intros; apply F; lia]]]].
    apply (Basic_ext (blockview m 0 cap)); [|exact HB]. intros j. unfold blockview. destruct (j <? cap) eqn:Hj; [|reflexivity].
    apply Nat.ltb_lt in Hj. apply F. cbn [Nat.add]. lia. }
  unfold emplace_n, EmplaceGrow.emplace_n. destruct (Nat.eqb_spec (size - pos) 0) as [Hz|Hnz].
  - assert (pos = size) by lia. subst pos.
    pose proof (construct_arg_spec m th size a k va (Hr size ltac:(lia) Hroom) Ha) as C.
    destruct (construct_arg m th size a k) as [m1 th1|m1|x]; [exact (proj2 (proj2 (proj2 C)))| |exact C].
    subst m1. apply Same; [reflexivity|left; exact Ha].
  - pose proof (construct_arg_spec m th e a k va He Ha) as C.
    destruct (construct_arg m th e a k) as [m1 th1|m1|x]; [| |exact C].
    2: { subst m1. apply Same; [reflexivity|left; exact Ha]. }
    destruct C as (C1 & C2 & C3 & C4). rewrite C4.
    pose proof (shift_relocate_kept m1 th1 pos (size - pos) e ltac:(lia)) as S.
    assert (A1 : forall j, pos <= j < pos + (size - pos) -> alive (m1 j) = true).
    { intros j Hj. rewrite C3 by lia. apply live_alive, Hl. lia. }
    assert (R1 : m1 (pos + (size - pos)) = Raw) by (rewrite C3 by lia; apply Hr; lia).
    specialize (S A1 R1 ltac:(rewrite C1; reflexivity) ltac:(lia)).
    destruct (shift_relocate true m1 th1 pos (size - pos) e) as [m' th'|m'|x]; [exact S| |exact S].
    destruct S as (S1 & S2 & S3).
    assert (Fa : m' a = Live va \/ (k = Rvalue /\ m' a = Moved)).
    { rewrite S3 by lia. rewrite C2. destruct k; cbn [arg_after]; [left; reflexivity|right; split; reflexivity]. }
    split; [|split; [|split; [exact S2|split; [exact Fa|]]]].
    + repeat split; [lia| | |].
      * intros i Hi. unfold blockview. destruct (Nat.ltb_spec i cap); [|lia]. cbn [Nat.add].
        destruct (le_lt_dec pos i) as [L|L]; [apply S1; lia|]. rewrite S3 by lia. rewrite C3 by lia. apply live_alive, Hl, Hi.
      * intros i H1 H2. unfold blockview. destruct (Nat.ltb_spec i cap); [|lia]. cbn [Nat.add].
        rewrite S3 by lia. rewrite C3 by lia. apply Hr; assumption.
      * intros i Hi. unfold blockview. destruct (Nat.ltb_spec i cap); [lia|reflexivity].
    + intros j Hj. rewrite S3 by lia. apply C3; lia.
    + intros j H1 H2. destruct (Nat.eq_dec j e) as [->|Hne]; [rewrite S2; symmetry; exact He|]. rewrite S3 by lia. apply C3; lia.
Qed.
(* block [0, 5) with 3 elements, e = slot 6, the argument = slot 7 *)
Example emplace_n_basic_ex : EmplaceNPre (init_lay 3 5 99) 3 5 1 6 7 99.
Proof. exact emplace_n_pre_ex. Qed.
(* what a completed emplace_n leaves: the statement of EmplaceGrow.emplace_n_spec *)
Corollary emplace_n_done m th size cap pos e a k va m' th' :
  EmplaceNPre m size cap pos e a va -> emplace_n true m th pos (size - pos) e a k = Done m' th' ->
  (forall j, j < pos -> m' j = m j) /\ m' pos = Live va /\ (forall j, pos <= j < size -> m' (S j) = m j) /\
  m' e = Raw /\ m' a = arg_after k va /\ Inv (blockview m' 0 cap) (size + 1) cap.
Proof.
  intros HP E. pose proof (emplace_n_basic m th size cap pos e a k va HP) as B. rewrite E in B.
  pose proof (emplace_n_spec m None size cap pos e a k va HP) as S. rewrite B in S.
  destruct S as (S1 & S2 & S3 & S4 & S5 & S6 & _). exact (conj S1 (conj S2 (conj S3 (conj S4 (conj S5 S6))))).
Qed.
(* rvalue emplace at 1 of 3 elements: events e, slot 3, one assignment, pos <- e; event 4 does not exist: the run completes *)
Example emplace_n_done_ex : EmplaceNPre (init_lay 3 5 99) 3 5 1 6 7 99 /\
  exists m' th', emplace_n true (init_lay 3 5 99) (Some 4) 1 (3 - 1) 6 7 Rvalue = Done m' th'.
Proof. split; [exact emplace_n_pre_ex|]. eexists. eexists. vm_compute. reflexivity. Qed.

(* ---- insert_n: insert (pos, const T&) of an external value within capacity ------------------------------------------------------------------ *)
(* Throw in shift_right: the vector keeps size, alive elements (one of them moved-from, the last value destroyed), nothing alive
   beyond; throw of the copy (construction at the end / assignment at pos after the shift, undone by shift_left): every slot as before *)
Theorem insert_n_basic m th size cap pos v :
  Inv m size cap -> size < cap -> pos <= size ->
  match insert_n true m th pos (size - pos) v with
  | Threw m' => Basic m' size cap /\ (forall j, j < pos -> m' j = m j) /\ (forall j, size <= j -> m' j = m j)
  | Done m' _ => EmplaceGrow.insert_n m None pos (size - pos) v = Done m' None
  | Err _ => False end.
Proof.
  intros HI Hroom Hpos. pose proof HI as (_ & Hl & Hr & Ho).
  assert (Same : forall m', (forall j, m' j = m j) ->
            Basic m' size cap /\ (forall j, j < pos -> m' j = m j) /\ (forall j, size <= j -> m' j = m j)).
  { intros m' F. split; [apply (Basic_ext m); [exact F|apply Inv_Basic, HI]|split; intros; apply F]. }
  unfold insert_n, EmplaceGrow.insert_n. destruct (Nat.eqb_spec (size - pos) 0) as [Hz|Hnz].
  - assert (pos = size) by lia. subst pos. unfold copy_construct. rewrite (Hr size) by lia. cbn [tick].
    destruct (tick th) as [[|] th1]; [apply Same; reflexivity|reflexivity].
  - pose proof (shift_right1_kept m th pos (size - pos) ltac:(lia) (Inv_alive m size cap pos HI) ltac:(apply Hr; lia)) as S.
    destruct (shift_right1 true m th pos (size - pos)) as [m1 th1|m1|x]; [| |exact S].
    2: { apply (Kept_Basic m m1 size cap pos HI Hpos S). }
    rewrite S. destruct (shift_right1_spec m pos (size - pos) ltac:(lia) (Inv_alive m size cap pos HI) ltac:(apply Hr; lia))
      as [m1' (E & P0 & P1 & P2)]. rewrite S in E. injection E as <-.
    unfold copy_assign_alive. rewrite P0. cbn [tick]. destruct (tick th1) as [[|] th2]; [|reflexivity].
    rewrite shift_left_none. destruct (shift_left_spec m1 pos (size - pos) ltac:(lia)) as [m3 (E3 & Q1 & Q0 & Q2)].
    { intros j Hj. destruct (Nat.eq_dec j pos) as [->|Hne]; [rewrite P0; reflexivity|]. rewrite P1 by lia. apply live_alive, Hl. lia. }
    rewrite E3. cbn [lift]. apply Same. intros j.
    destruct (le_lt_dec pos j) as [H1|H1]; [destruct (le_lt_dec (pos + (size - pos)) j) as [H2|H2]|].
    + destruct (Nat.eq_dec j (pos + (size - pos))) as [->|Hne]; [rewrite Q0; symmetry; apply Hr; lia|].
      rewrite Q2 by lia. apply P2. lia.
    + rewrite Q1 by lia. rewrite P1 by lia. f_equal. lia.
    + rewrite Q2 by lia. apply P2. lia.
Qed.
Example insert_n_basic_ex : Inv (init 3 5) 3 5 /\ 3 < 5 /\ 1 <= 3.
Proof. split; [apply init_inv; lia|lia]. Qed.
Corollary insert_n_done m th size cap pos v m' th' :
  Inv m size cap -> size < cap -> pos <= size -> insert_n true m th pos (size - pos) v = Done m' th' ->
  (forall j, j < pos -> m' j = m j) /\ m' pos = Live v /\ (forall j, pos <= j < size -> m' (S j) = m j) /\ Inv m' (size + 1) cap.
Proof.
  intros HI Hroom Hpos E. pose proof (insert_n_basic m th size cap pos v HI Hroom Hpos) as B. rewrite E in B.
  pose proof (insert_n_strong m None size cap pos v HI Hroom Hpos) as S. rewrite B in S. exact S.
Qed.
Example insert_n_done_ex : Inv (init 3 5) 3 5 /\ 3 < 5 /\ 1 <= 3 /\ exists m' th', insert_n true (init 3 5) (Some 3) 1 (3 - 1) 99%Z = Done m' th'.
Proof. split; [apply init_inv; lia|]. split; [lia|]. split; [lia|]. eexists. eexists. vm_compute. reflexivity. Qed.

(* ---- erase_n: erase (first, last) of a non empty range ------------------------------------------------------------------------------------ *)
(* `erase_n (mfirst, n, size - last); setSize (size - n);`: after a throw (a move assignment of std::move) setSize is not reached:
   the vector keeps its OLD size, NO element has been destroyed: every slot below the old size is alive (the elements already moved
   down sit at their new place, their sources are moved-from), nothing changed from size on.
   Completion: the n last slots are Raw, the invariant holds for size - n, prefix and shifted suffix as std::vector. *)
Theorem erase_n_basic m th size cap pos n :
  Inv m size cap -> 0 < n -> pos + n <= size ->
  match erase_n m th pos n (size - pos - n) with
  | Threw m' => Basic m' size cap /\ (forall j, j < pos -> m' j = m j) /\ (forall j, size <= j -> m' j = m j)
  | Done m' _ => erase_n_nx m pos n (size - pos - n) = inl m' /\ Inv m' (size - n) cap /\
                 (forall j, j < pos -> m' j = m j) /\ (forall j, pos <= j < size - n -> m' j = m (j + n))
  | Err _ => False end.
Proof.
  intros HI Hn Hp. pose proof HI as (Hsc & Hl & Hr & Ho). unfold erase_n, erase_n_nx. set (cnt := size - pos - n).
  assert (Al : forall j, pos <= j < pos + n + cnt -> alive (m j) = true) by (intros j Hj; apply live_alive, Hl; lia).
  pose proof (move_forward_kept cnt m th (pos + n) pos ltac:(lia) Al) as F.
  destruct (move_forward m th (pos + n) cnt pos) as [m1 th1|m1|x]; [| |exact F].
  - destruct F as [E K]. rewrite E. destruct (mv_forward_gap cnt m (pos + n) pos ltac:(lia) Al) as [m1' (E' & P1 & P2)].
    rewrite E in E'. injection E' as <-. replace (pos + n - pos) with n in P1 by lia.
    destruct (destroy_n_alive n m1 (pos + cnt)) as [m2 (E2 & Q1 & Q2)]; [intros k Hk; apply (proj1 K); lia|].
    rewrite E2. cbn [lift]. split; [reflexivity|]. split; [|split].
    + repeat split; [lia| | |].
      * intros i Hi. rewrite Q2 by lia. destruct (le_lt_dec pos i) as [L|L]; [rewrite P1 by lia; apply Hl; lia|rewrite P2 by lia; apply Hl; lia].
      * intros i H1 H2. destruct (le_lt_dec size i) as [L|L]; [rewrite Q2 by lia; rewrite P2 by lia; apply Hr; lia|apply Q1; lia].
      * intros i Hi. rewrite Q2 by lia. rewrite P2 by lia. apply Ho; exact Hi.
    + intros j Hj. rewrite Q2 by lia. apply P2; lia.
    + intros j Hj. rewrite Q2 by lia. apply P1; lia.
  - apply (Kept_Basic m m1 size cap pos HI ltac:(lia)). destruct F as [F1 F2]. split; intros j Hj; [apply F1; lia|apply F2; lia].
Qed.
Example erase_n_basic_ex : Inv (init 5 6) 5 6 /\ 0 < 2 /\ 1 + 2 <= 5.
Proof. split; [apply init_inv; lia|lia]. Qed.
(* a completed erase_n yields the sequence Erase.erase_n_correct proves for the noexcept model (Slots.v / Erase.v have their own
   slot type: compared through the abstraction Slots.abs, the list of the values) *)
Definition toS (s : slot) : Slots.slot :=
  match s with Out => Slots.Out | Raw => Slots.Raw | Live v => Slots.Live v | Moved => Slots.Moved end.
Definition toSm (m : mem) : Slots.mem := fun i => toS (m i).
Theorem erase_n_done_abs m th size cap pos n m' th' :
  Inv m size cap -> 0 < n -> pos + n <= size -> erase_n m th pos n (size - pos - n) = Done m' th' ->
  Slots.abs (toSm m') (size - n) = Erase.spec_erase (Slots.abs (toSm m) size) pos n.
Proof.
  intros HI Hn Hp E. pose proof (erase_n_basic m th size cap pos n HI Hn Hp) as B. rewrite E in B. destruct B as (_ & _ & B1 & B2).
  apply Slots.list_ext.
  - unfold Erase.spec_erase. rewrite app_length, firstn_length, skipn_length, !Slots.abs_length. lia.
  - rewrite Slots.abs_length. intros i Hi. rewrite Slots.abs_nth by lia. rewrite Erase.spec_erase_nth by (rewrite Slots.abs_length; lia).
    destruct (Nat.ltb_spec i pos).
    + rewrite Slots.abs_nth by lia. unfold toSm. rewrite B1 by lia. reflexivity.
    + rewrite Slots.abs_nth by lia. unfold toSm. rewrite B2 by lia. reflexivity.
Qed.
Example erase_n_done_abs_ex : Inv (init 5 6) 5 6 /\ 0 < 2 /\ 1 + 2 <= 5 /\ exists m' th', erase_n (init 5 6) (Some 2) 1 2 (5 - 1 - 2) = Done m' th'.
Proof. split; [apply init_inv; lia|]. split; [lia|]. split; [lia|]. eexists. eexists. vm_compute. reflexivity. Qed.

(* ---- shift_right (first, n, count) without a throw is Throw.shift_right_cnt (the strict moves of Throw.v: Live sources only) ---------- *)
Lemma mv_uninit_n_Throw : forall n m src dst, src + n <= dst -> (forall k, k < n -> is_live (m (src + k)) = true) ->
  mv_uninit_n m src n dst = Throw.uninit_move_n m src n dst.
Proof.
  induction n as [|n IH]; intros m src dst Hd Hl; cbn [mv_uninit_n Throw.uninit_move_n]; [reflexivity|].
  pose proof (Hl 0 ltac:(lia)) as L0. rewrite Nat.add_0_r in L0. destruct (m src) as [| |v|] eqn:Es; try discriminate.
  rewrite (mv_construct_eq m dst src v Es).
  destruct (Throw.move_construct m dst src) as [m1|x] eqn:E; [|reflexivity].
  unfold Throw.move_construct in E. rewrite Es in E. destruct (m dst); try discriminate. injection E as <-.
  apply IH; [lia|]. intros k Hk. pose proof (Hl (S k) ltac:(lia)) as W. replace (src + S k) with (S src + k) in W by lia. updsimp; exact W.
Qed.
Lemma mv_backward_Throw : forall c m first dlast, first + c <= dlast -> (forall j, first <= j < first + c -> is_live (m j) = true) ->
  mv_backward m first c dlast = Throw.move_backward m first c dlast.
Proof.
  induction c as [|c IH]; intros m first dlast Hd Hl; cbn [mv_backward Throw.move_backward]; [reflexivity|].
  pose proof (Hl (first + c) ltac:(lia)) as L0. destruct (m (first + c)) as [| |v|] eqn:Es; try discriminate.
  rewrite (mv_assign_eq m (dlast - 1) (first + c) v Es).
  destruct (Throw.move_assign m (dlast - 1) (first + c)) as [m1|x] eqn:E; [|reflexivity].
  unfold Throw.move_assign in E. rewrite Es in E. destruct (m (dlast - 1)); try discriminate; injection E as <-.
  all: apply IH; [lia|]; intros j Hj; pose proof (Hl j ltac:(lia)) as W; updsimp; exact W.
Qed.
Lemma shift_right_cnt_nx_Throw m first n count :
  (forall j, first <= j < first + n -> is_live (m j) = true) -> (forall k, k < count -> m (first + n + k) = Raw) ->
  shift_right_cnt_nx m first n count = Throw.shift_right_cnt m first n count.
Proof.
  intros Hl Hr. unfold shift_right_cnt_nx, Throw.shift_right_cnt. destruct (Nat.ltb_spec count n) as [Hc|Hc].
  - rewrite <- mv_uninit_n_Throw by (try lia; intros k Hk; apply Hl; lia).
    destruct (mv_uninit_n_spec count m (first + n - count) (first + n) ltac:(lia)
                ltac:(intros k Hk; apply live_alive, Hl; lia) Hr) as [m1 (E & P1 & P2 & P3)].
    rewrite E. apply mv_backward_Throw; [lia|]. intros j Hj. rewrite P3 by lia. apply Hl; lia.
  - apply mv_uninit_n_Throw; [lia|]. intros k Hk. apply Hl; lia.
Qed.
(* completion of shift_right (pos, n, count) on a vector: any run that does not throw computes what Throw.shift_right_cnt does *)
Theorem shift_right_cnt_done m th size cap pos count m' th' :
  Inv m size cap -> size + count <= cap -> pos <= size -> shift_right_cnt true m th pos (size - pos) count = Done m' th' ->
  Throw.shift_right_cnt m pos (size - pos) count = inl m'.
Proof.
  intros HI Hroom Hpos E. pose proof (shift_right_cnt_basic m th size cap pos count HI Hroom Hpos) as B. rewrite E in B.
  destruct HI as (_ & Hl & Hr & _). rewrite <- shift_right_cnt_nx_Throw; [exact B| |].
  - intros j Hj. apply Hl; lia.
  - intros k Hk. apply Hr; lia.
Qed.
Example shift_right_cnt_done_ex : Inv (init 4 7) 4 7 /\ 4 + 2 <= 7 /\ 1 <= 4 /\
  exists m' th', shift_right_cnt true (init 4 7) None 1 (4 - 1) 2 = Done m' th'.
Proof. split; [apply init_inv; lia|]. split; [lia|]. split; [lia|]. eexists. eexists. vm_compute. reflexivity. Qed.

(* ==== what does NOT hold ====================================================================================================================== *)
Local Open Scope Z_scope.
(* F25: the strong statement "after a throw the vector is as before" - even the weaker "no moved-from element is visible" (Inv) - is
   FALSE for the single element insertion helpers when a MOVE throws.  insert (begin (), v) on [10, 11, 12] with capacity 5:
   shift_right builds slot 3 from slot 2 (event 0), the move assignment slot 2 <- slot 1 (event 1) throws, the handler of
   shift_right destroys slot 3: the vector still has size 3, slot 2 is moved-from and the value 12 is gone. *)
Example insert_n_move_throw_ex : show (insert_n true (init 3 5) (Some 1%nat) 0 3 99) 6 = Some (true, [Live 10; Live 11; Moved; Raw; Raw; Out]).
Proof. vm_compute. reflexivity. Qed.
Lemma insert_n_strong_refuted : exists m', Inv (init 3 5) 3 5 /\ insert_n true (init 3 5) (Some 1%nat) 0 (3 - 0) 99 = Threw m' /\
  Basic m' 3 5 /\ m' 2%nat = Moved /\ ~ Inv m' 3 5.
Proof.
  assert (E : exists m', insert_n true (init 3 5) (Some 1%nat) 0 (3 - 0) 99 = Threw m' /\ m' 2%nat = Moved)
    by (eexists; split; [vm_compute; reflexivity|reflexivity]).
  destruct E as (m' & E & H2). exists m'. pose proof (init_inv 3 5 ltac:(lia)) as HI.
  pose proof (insert_n_basic (init 3 5) (Some 1%nat) 3 5 0 99 HI ltac:(lia) ltac:(lia)) as B. rewrite E in B.
  split; [exact HI|]. split; [exact E|]. split; [exact (proj1 B)|]. split; [exact H2|]. apply (Moved_not_Inv m' 3 5 2); [lia|exact H2].
Qed.
(* the same through emplace_n with an rvalue argument (insert (pos, T&&), emplace): event 0 builds e from the argument, event 1 is the
   construction of slot 3, event 2 (slot 2 <- slot 1) throws: slot 2 moved-from, 12 gone, e destroyed - and the caller's object is
   moved-from: its value (99) is gone as well *)
Example emplace_n_move_throw_ex : show (emplace_n true (init_lay 3 5 99) (Some 2%nat) 0 3 6 7 Rvalue) 8
  = Some (true, [Live 10; Live 11; Moved; Raw; Raw; Out; Raw; Moved]).
Proof. vm_compute. reflexivity. Qed.
Lemma emplace_n_strong_refuted : exists m', EmplaceNPre (init_lay 3 5 99) 3 5 0 6 7 99 /\
  emplace_n true (init_lay 3 5 99) (Some 2%nat) 0 (3 - 0) 6 7 Rvalue = Threw m' /\
  Basic (blockview m' 0 5) 3 5 /\ m' 6%nat = Raw /\ m' 2%nat = Moved /\ m' 7%nat = Moved /\ ~ Inv (blockview m' 0 5) 3 5.
Proof.
  assert (E : exists m', emplace_n true (init_lay 3 5 99) (Some 2%nat) 0 (3 - 0) 6 7 Rvalue = Threw m' /\ m' 2%nat = Moved /\ m' 7%nat = Moved)
    by (eexists; split; [vm_compute; reflexivity|split; reflexivity]).
  destruct E as (m' & E & H2 & H7). exists m'. pose proof (init_lay_emplace_n_pre 3 5 0 99 ltac:(lia) ltac:(lia)) as HP.
  pose proof (emplace_n_basic (init_lay 3 5 99) (Some 2%nat) 3 5 0 6 7 Rvalue 99 HP) as B. rewrite E in B.
  destruct B as (B1 & _ & B3 & _).
  split; [exact HP|]. split; [exact E|]. split; [exact B1|]. split; [exact B3|]. split; [exact H2|]. split; [exact H7|].
  apply (Moved_not_Inv _ 3 5 2); [lia|]. unfold blockview. cbn [Nat.ltb Nat.leb Nat.add]. exact H2.
Qed.
(* F25 for erase: erase (begin ()) on [10, 11, 12, 13]: slot 0 <- slot 1 (event 0) succeeds, slot 1 <- slot 2 (event 1) throws; setSize is
   not reached: the vector still has size 4 = [11, moved-from, 12, 13]: nothing destroyed, nothing leaked, the value 10 is gone *)
Example erase_n_move_throw_ex : show (erase_n (init 4 4) (Some 1%nat) 0 1 3) 5 = Some (true, [Live 11; Moved; Live 12; Live 13; Out]).
Proof. vm_compute. reflexivity. Qed.
Lemma erase_n_strong_refuted : exists m', Inv (init 4 4) 4 4 /\ erase_n (init 4 4) (Some 1%nat) 0 1 (4 - 0 - 1) = Threw m' /\
  Basic m' 4 4 /\ m' 1%nat = Moved /\ ~ Inv m' 4 4.
Proof.
  assert (E : exists m', erase_n (init 4 4) (Some 1%nat) 0 1 (4 - 0 - 1) = Threw m' /\ m' 1%nat = Moved)
    by (eexists; split; [vm_compute; reflexivity|reflexivity]).
  destruct E as (m' & E & H1). exists m'. pose proof (init_inv 4 4 ltac:(lia)) as HI.
  pose proof (erase_n_basic (init 4 4) (Some 1%nat) 4 4 0 1 HI ltac:(lia) ltac:(lia)) as B. rewrite E in B.
  split; [exact HI|]. split; [exact E|]. split; [exact (proj1 B)|]. split; [exact H1|]. apply (Moved_not_Inv m' 4 4 1); [lia|exact H1].
Qed.

(* the code BEFORE "fix: shift_right destroys the elements it built beyond the end when a later move throws" (fx = false: no try / catch
   in shift_right): the same throw leaves slot 3 - beyond size () = 3 - Live: an object nobody will destroy *)
Example shift_right1_prefix_ex : show (shift_right1 false (init 3 5) (Some 1%nat) 0 3) 6 = Some (true, [Live 10; Live 11; Moved; Live 12; Raw; Out]).
Proof. vm_compute. reflexivity. Qed.
Lemma shift_right1_nofix_refuted : exists m', Inv (init 3 5) 3 5 /\ shift_right1 false (init 3 5) (Some 1%nat) 0 (3 - 0) = Threw m' /\
  m' 3%nat = Live 12 /\ ~ Basic m' 3 5.
Proof.
  eexists. split; [apply init_inv; lia|]. split; [vm_compute; reflexivity|]. split; [reflexivity|].
  intros (_ & _ & Hraw & _). specialize (Hraw 3%nat ltac:(lia) ltac:(lia)). discriminate Hraw.
Qed.
(* shift_right (first, n, count): [10, 11, 12, 13], count 2: slots 4, 5 are built (events 0, 1), slot 3 <- slot 1 (event 2) throws *)
Example shift_right_cnt_prefix_ex : show (shift_right_cnt false (init 4 7) (Some 2%nat) 0 4 2) 8
  = Some (true, [Live 10; Live 11; Moved; Moved; Live 12; Live 13; Raw; Out]).
Proof. vm_compute. reflexivity. Qed.
Lemma shift_right_cnt_nofix_refuted : exists m', Inv (init 4 7) 4 7 /\ shift_right_cnt false (init 4 7) (Some 2%nat) 0 (4 - 0) 2 = Threw m' /\
  m' 4%nat = Live 12 /\ m' 5%nat = Live 13 /\ ~ Basic m' 4 7.
Proof.
  eexists. split; [apply init_inv; lia|]. split; [vm_compute; reflexivity|]. split; [reflexivity|]. split; [reflexivity|].
  intros (_ & _ & Hraw & _). specialize (Hraw 4%nat ltac:(lia) ltac:(lia)). discriminate Hraw.
Qed.
(* and so did insert (pos, v) / emplace (pos, ...) built on it *)
Lemma insert_n_nofix_refuted : exists m', Inv (init 3 5) 3 5 /\ insert_n false (init 3 5) (Some 1%nat) 0 (3 - 0) 99 = Threw m' /\
  m' 3%nat = Live 12 /\ ~ Basic m' 3 5.
Proof.
  eexists. split; [apply init_inv; lia|]. split; [vm_compute; reflexivity|]. split; [reflexivity|].
  intros (_ & _ & Hraw & _). specialize (Hraw 3%nat ltac:(lia) ltac:(lia)). discriminate Hraw.
Qed.
Lemma emplace_n_nofix_refuted : exists m', EmplaceNPre (init_lay 3 5 99) 3 5 0 6 7 99 /\
  emplace_n false (init_lay 3 5 99) (Some 2%nat) 0 (3 - 0) 6 7 Rvalue = Threw m' /\ m' 3%nat = Live 12 /\ ~ Basic (blockview m' 0 5) 3 5.
Proof.
  eexists. split; [apply (init_lay_emplace_n_pre 3 5 0 99); lia|]. split; [vm_compute; reflexivity|]. split; [reflexivity|].
  intros (_ & _ & Hraw & _). specialize (Hraw 3%nat ltac:(lia) ltac:(lia)). discriminate Hraw.
Qed.
(* with the fix the same cases: slot 3 (4, 5) Raw again *)
Example shift_right1_fix_same_case : show (shift_right1 true (init 3 5) (Some 1%nat) 0 3) 6 = Some (true, [Live 10; Live 11; Moved; Raw; Raw; Out]).
Proof. vm_compute. reflexivity. Qed.
Example shift_right_cnt_fix_same_case : show (shift_right_cnt true (init 4 7) (Some 2%nat) 0 4 2) 8
  = Some (true, [Live 10; Live 11; Moved; Moved; Raw; Raw; Raw; Out]).
Proof. vm_compute. reflexivity. Qed.
(* relocate_after_shift throws (event 4 of an rvalue emplace at 0 of 3 elements: e, slot 3, two assignments, then pos <- e): handler 2
   shifts back and destroys e: the block is as before *)
Example emplace_n_relocate_throw_ex : show (emplace_n true (init_lay 3 5 99) (Some 4%nat) 0 3 6 7 Rvalue) 8
  = Some (true, [Live 10; Live 11; Live 12; Raw; Raw; Out; Raw; Moved]).
Proof. vm_compute. reflexivity. Qed.
Example emplace_n_complete_ex : show (emplace_n true (init_lay 3 5 99) (Some 5%nat) 0 3 6 7 Rvalue) 8
  = Some (false, [Live 99; Live 10; Live 11; Live 12; Raw; Out; Raw; Moved]).
Proof. vm_compute. reflexivity. Qed.
(* shift_left on its own (on what shift_right (0, 3) left), second move assignment throws: the guard destroys the last slot *)
Example shift_left_throw_ex :
  show (match shift_right1 true (init 3 5) None 0 3 with Done m1 _ => shift_left m1 (Some 1%nat) 1 3 | o => o end) 6
  = Some (true, [Live 10; Moved; Live 11; Raw; Raw; Out]).
Proof. vm_compute. reflexivity. Qed.

(* OUTSIDE the single fault model (every theorem above: ONE injected exception): the handlers of emplace_n / insert_n call shift_left,
   whose move assignments can throw as well.  Before the scope guards, a SECOND exception left handler 2 of emplace_n before
   `destroy_at (e)` and before the last slot was destroyed (two objects nobody destroyed).  Now the guard of shift_left destroys the
   last slot and the guard of the handler destroys e.  emplace (begin (), std::move (x)) on [10, 11], capacity 3 (e = slot 4, x = slot
   5): the shift completed, the move assignment of relocate_after_shift throws, then the first move assignment of shift_left throws:
   the vector keeps its size 2 with [moved-from, 10], nothing is alive beyond, the temporary is destroyed (11 is lost: basic guarantee) *)
Example emplace_n_second_fault_ex :
  show (match construct_arg (init_lay 2 3 99) None 4 5 Rvalue with
        | Done m1 _ => match shift_right1 true m1 None 0 2 with
                       | Done m2 _ => match relocate_after_shift m2 (Some 0%nat) 4 0 with
                                      | Threw m3 => guard_destroy (shift_left m3 (Some 0%nat) 1 2) 4   (* the handler, with a second fault *)
                                      | o => o end
                       | o => o end
        | o => o end) 6
  = Some (true, [Moved; Live 10; Raw; Out; Raw; Moved]).
Proof. vm_compute. reflexivity. Qed.

Print Assumptions shift_right1_basic.
Print Assumptions shift_right_cnt_basic.
Print Assumptions shift_right_cnt_done.
Print Assumptions shift_left_kept.
Print Assumptions emplace_n_basic.
Print Assumptions emplace_n_done.
Print Assumptions insert_n_basic.
Print Assumptions insert_n_done.
Print Assumptions erase_n_basic.
Print Assumptions erase_n_done_abs.
Print Assumptions insert_n_strong_refuted.
Print Assumptions emplace_n_strong_refuted.
Print Assumptions erase_n_strong_refuted.
Print Assumptions shift_right1_nofix_refuted.
Print Assumptions shift_right_cnt_nofix_refuted.
Print Assumptions insert_n_nofix_refuted.
Print Assumptions emplace_n_nofix_refuted.
Print Assumptions emplace_n_none.
Print Assumptions insert_n_none.
Print Assumptions erase_n_none.
Print Assumptions shift_right_cnt_none.
