(* Primitives in which the program regenerated from FlatSet::insert_hint (Gen/HintGen.v) is expressed:
   iterators are Z offsets from begin(), the vector is a list. *)
From Coq Require Import ZArith Arith Lia List Bool.
From Amc Require Import Hint.
From Amc Require SetModel.
Import ListNotations.
Local Open Scope Z_scope.
(* primitives the generated program is expressed in *)
Definition deref (l : list Z) (i : Z) : Z := nth (Z.to_nat i) l 0.
Definition vec_insert (l : list Z) (i : Z) (v : Z) : list Z * Z := (insert_at (Z.to_nat i) v l, i).
Definition lower_bound (cmp : Z -> Z -> bool) (l : list Z) (lo hi : Z) (v : Z) : Z :=
  lo + Z.of_nat (lb cmp (firstn (Z.to_nat (hi - lo)) (skipn (Z.to_nat lo) l)) v).
Definition set_insert (cmp : Z -> Z -> bool) (l : list Z) (v : Z) : list Z * Z :=
  let (l', i) := insert_val cmp l v in (l', Z.of_nat i).
Definition vec_erase (l : list Z) (i : Z) : list Z := firstn (Z.to_nat i) l ++ skipn (S (Z.to_nat i)) l.
Definition vlen (l : list Z) : Z := Z.of_nat (length l).
(* _sortedVector.insert(end(), first, last): returns the position of the first inserted element *)
Definition vec_append (l vs : list Z) : list Z * Z := (l ++ vs, Z.of_nat (length l)).
Definition sub (l : list Z) (a b : Z) : list Z := firstn (Z.to_nat (b - a)) (skipn (Z.to_nat a) l).
(* std::stable_sort(begin()+a, begin()+b, comp), std::inplace_merge(begin()+a, begin()+m, begin()+b, comp): by the algorithms
   SetModel.ssort / smerge, which meet the standard's specification (stability; merge takes from the second range only when
   strictly less) *)
Definition stable_sort_range (cmp : Z -> Z -> bool) (l : list Z) (a b : Z) : list Z :=
  firstn (Z.to_nat a) l ++ SetModel.ssort cmp (sub l a b) ++ skipn (Z.to_nat b) l.
Definition inplace_merge_range (cmp : Z -> Z -> bool) (l : list Z) (a m b : Z) : list Z :=
  firstn (Z.to_nat a) l ++ SetModel.smerge cmp (sub l a m) (sub l m b) ++ skipn (Z.to_nat b) l.
(* std::adjacent_find(begin()+a, begin()+b, p): position of the first element whose successor satisfies p with it, b if none *)
Fixpoint adj_find (p : Z -> Z -> bool) (l : list Z) : nat :=
  match l with
  | a :: ((b :: _) as t) => if p a b then O else S (adj_find p t)
  | _ => length l
  end.
Definition adjacent_find_z (l : list Z) (a b : Z) (p : Z -> Z -> bool) : Z := a + Z.of_nat (adj_find p (sub l a b)).
(* _sortedVector.erase(std::unique(begin(), end(), pred), end()): the first element of every run of pred-equal neighbours *)
Fixpoint erase_unique (eq : Z -> Z -> bool) (l : list Z) : list Z :=
  match l with
  | [] => []
  | x :: t => x :: match erase_unique eq t with
                   | [] => []
                   | y :: t' => if eq x y then t' else y :: t'
                   end
  end.
