(* Primitives in which the program regenerated from FlatSet::insert_hint (Gen/HintGen.v) is expressed:
   iterators are Z offsets from begin(), the vector is a list. *)
From Coq Require Import ZArith Arith Lia List Bool.
From Amc Require Import Hint.
Import ListNotations.
Local Open Scope Z_scope.
(* primitives the generated program is expressed in *)
Definition deref (l : list Z) (i : Z) : Z := nth (Z.to_nat i) l 0.
Definition vec_insert (l : list Z) (i : Z) (v : Z) : list Z * Z := (insert_at (Z.to_nat i) v l, i).
Definition lower_bound (cmp : Z -> Z -> bool) (l : list Z) (lo hi : Z) (v : Z) : Z :=
  lo + Z.of_nat (lb cmp (firstn (Z.to_nat (hi - lo)) (skipn (Z.to_nat lo) l)) v).
Definition set_insert (cmp : Z -> Z -> bool) (l : list Z) (v : Z) : list Z * Z :=
  let (l', i) := insert_val cmp l v in (l', Z.of_nat i).
Definition vec_erase (l : list Z) (i : Z) : list Z := firstn (Z.to_nat i) l ++ skipn (S (Z.to_nat i)) l.
