From Coq Require Import Arith Lia List PeanoNat.
Import ListNotations.
(* libstdc++ __lower_bound: len halving loop, one comparator call per iteration; fuel = len *)
Section LB.
Variable lt_at : nat -> bool.   (* comp of element at begin+i against val *)
Fixpoint lb (fuel first len : nat) : nat * nat :=   (* returns (position, #comparisons) *)
  match fuel with 0 => (first, 0) | S f =>
    if len =? 0 then (first, 0) else
    let half := len / 2 in
    if lt_at (first + half) then let (p, c) := lb f (first + half + 1) (len - half - 1) in (p, S c)
    else let (p, c) := lb f first half in (p, S c)
  end.
Lemma lb_count : forall fuel first len, len <= fuel -> 0 < len -> snd (lb fuel first len) <= Nat.log2 len + 1.
Proof.
  induction fuel as [|f IH]; intros first len Hf Hl; [lia|]. cbn [lb].
  destruct (Nat.eqb_spec len 0) as [->|Hne]; [lia|].
  assert (Hh : len / 2 < len) by (apply Nat.div_lt; lia).
  assert (Hlog : forall k, 0 < k -> k <= len / 2 -> Nat.log2 k + 1 <= Nat.log2 len).
  { intros k Hk Hk2. assert (2 * k <= len). { pose proof (Nat.div_mod_eq len 2). pose proof (Nat.mod_upper_bound len 2). lia. }
    pose proof (Nat.log2_double k ltac:(lia)) as Hd. pose proof (Nat.log2_le_mono (2*k) len ltac:(lia)). lia. }
  destruct (lt_at (first + len / 2)).
  - destruct (lb f (first + len / 2 + 1) (len - len / 2 - 1)) as [p c] eqn:E. cbn [snd].
    destruct (Nat.eq_dec (len - len / 2 - 1) 0) as [Hz|Hz].
    + rewrite Hz in E. destruct f; cbn in E; inversion E; subst; lia.
    + specialize (IH (first + len / 2 + 1) (len - len / 2 - 1)). rewrite E in IH. cbn [snd] in IH.
      assert (len - len / 2 - 1 <= len / 2). { pose proof (Nat.div_mod_eq len 2). pose proof (Nat.mod_upper_bound len 2). lia. }
      specialize (IH ltac:(lia) ltac:(lia)). specialize (Hlog (len - len / 2 - 1) ltac:(lia) ltac:(lia)). lia.
  - destruct (lb f first (len / 2)) as [p c] eqn:E. cbn [snd].
    destruct (Nat.eq_dec (len / 2) 0) as [Hz|Hz].
    + rewrite Hz in E. destruct f; cbn in E; inversion E; subst; lia.
    + specialize (IH first (len / 2)). rewrite E in IH. cbn [snd] in IH.
      specialize (IH ltac:(lia) ltac:(lia)). specialize (Hlog (len / 2) ltac:(lia) ltac:(lia)). lia.
Qed.
End LB.
(* bound in the property's form: floor(log2 n)+1 = ceil(log2 (n+1)) for n>0 *)
Lemma log2_up_succ n : 0 < n -> Nat.log2_up (S n) = S (Nat.log2 n).
Proof. intros H. rewrite Nat.log2_up_eqn by lia. reflexivity. Qed.


Lemma two_searches_bound (lt1 lt2 : nat -> bool) n : 0 < n ->
  snd (lb lt1 n 0 n) + snd (lb lt2 n 0 n) + 4 <= 2 * Nat.log2_up (S n) + 4.
Proof. intros H. pose proof (lb_count lt1 n 0 n (le_n _) H). pose proof (lb_count lt2 n 0 n (le_n _) H).
  rewrite log2_up_succ by assumption. lia. Qed.
