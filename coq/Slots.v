From Coq Require Import ZArith Lia Bool List Arith.
Require Import ZifyBool.
Import ListNotations.
Inductive slot := Out | Raw | Live (v : Z) | Moved.      (* Out = beyond the block *)
Definition mem := nat -> slot.
Definition upd (m : mem) (i : nat) (s : slot) : mem := fun j => if Nat.eqb i j then s else m j.
Inductive err := ConstructOverLive | ReadDead | AssignDead | DestroyDead | OutOfBlock.
Definition R := sum err mem.
Definition bind (r : R) (f : mem -> R) : R := match r with inl e => inl e | inr m => f m end.
Notation "x <- r ;; k" := (bind r (fun x => k)) (at level 61, r at next level, right associativity).
Definition move_construct (m : mem) (dst src : nat) : R :=
  match m dst, m src with
  | Raw, Live v => inr (upd (upd m dst (Live v)) src Moved)
  | Out, _ | _, Out => inl OutOfBlock
  | Raw, _ => inl ReadDead | _, _ => inl ConstructOverLive end.
Definition move_assign (m : mem) (dst src : nat) : R :=
  match m dst, m src with
  | Out, _ | _, Out => inl OutOfBlock
  | Raw, _ => inl AssignDead
  | _, Live v => inr (upd (upd m dst (Live v)) src Moved)
  | _, _ => inl ReadDead end.
Definition copy_construct (m : mem) (dst : nat) (v : Z) : R :=
  match m dst with Raw => inr (upd m dst (Live v)) | Out => inl OutOfBlock | _ => inl ConstructOverLive end.
Definition copy_assign (m : mem) (dst : nat) (v : Z) : R :=
  match m dst with Raw => inl AssignDead | Out => inl OutOfBlock | _ => inr (upd m dst (Live v)) end.
Fixpoint uninit_move_n (m : mem) (src n dst : nat) : R :=
  match n with 0 => inr m | S k => m1 <- move_construct m dst src ;; uninit_move_n m1 (S src) k (S dst) end.
Fixpoint move_backward (m : mem) (first n dlast : nat) : R :=
  match n with 0 => inr m | S k => m1 <- move_assign m (dlast - 1) (first + k) ;; move_backward m1 first k (dlast - 1) end.
Fixpoint uninit_fill_n (m : mem) (dst n : nat) (v : Z) : R :=
  match n with 0 => inr m | S k => m1 <- copy_construct m dst v ;; uninit_fill_n m1 (S dst) k v end.
Fixpoint fill_n (m : mem) (dst n : nat) (v : Z) : R :=
  match n with 0 => inr m | S k => m1 <- copy_assign m dst v ;; fill_n m1 (S dst) k v end.
Definition shift_right_cnt (m : mem) (first n count : nat) : R :=
  if count <? n then
    let last := first + n in
    m1 <- uninit_move_n m (last - count) count last ;; move_backward m1 first (n - count) last
  else uninit_move_n m first n (first + count).
(* the alive part is assigned BEFORE the raw part is built (the order since the repair of insert(pos, count, v), finding F11:
   Throw.fill_after_shift_fix is the same text with the throw oracle) *)
Definition fill_after_shift (m : mem) (first n count : nat) (v : Z) : R :=
  if n <? count then m1 <- fill_n m first n v ;; uninit_fill_n m1 (first + n) (count - n) v
  else fill_n m first count v.
Definition insert_cnt (m : mem) (size pos count : nat) (v : Z) : R * nat :=
  if count =? 0 then (inr m, size) else
  let n := size - pos in
  if n =? 0 then (uninit_fill_n m pos count v, size + count)
  else (m1 <- shift_right_cnt m pos n count ;; fill_after_shift m1 pos n count v, size + count).
Definition is_live (s : slot) := match s with Live _ => true | _ => false end.
Definition alive (s : slot) := match s with Live _ | Moved => true | _ => false end.
Definition Inv (m : mem) (size cap : nat) : Prop :=
  size <= cap /\ (forall i, i < size -> is_live (m i) = true) /\ (forall i, size <= i -> i < cap -> m i = Raw) /\ (forall i, cap <= i -> m i = Out).
Definition val (s : slot) : Z := match s with Live v => v | _ => 0%Z end.
Definition abs (m : mem) (size : nat) : list Z := map (fun i => val (m i)) (seq 0 size).

Ltac updsimp := unfold upd; repeat match goal with |- context [Nat.eqb ?a ?b] => destruct (Nat.eqb_spec a b) end; try lia; try reflexivity; try congruence.

Lemma uninit_move_n_spec : forall n m src dst,
  src + n <= dst -> (forall k, k < n -> is_live (m (src + k)) = true) -> (forall k, k < n -> m (dst + k) = Raw) ->
  exists m', uninit_move_n m src n dst = inr m' /\
    (forall j, dst <= j < dst + n -> m' j = m (j - dst + src)) /\
    (forall j, src <= j < src + n -> m' j = Moved) /\
    (forall j, ~ (dst <= j < dst + n) -> ~ (src <= j < src + n) -> m' j = m j).
Proof.
  induction n as [|n IH]; intros m src dst Hd Hs Hr; cbn [uninit_move_n].
  - exists m; repeat split; intros; try lia; reflexivity.
  - pose proof (Hs 0 ltac:(lia)) as Hv. rewrite Nat.add_0_r in Hv. pose proof (Hr 0 ltac:(lia)) as Hr0. rewrite Nat.add_0_r in Hr0.
    unfold move_construct. rewrite Hr0. destruct (m src) as [| |v|] eqn:Es; try discriminate. cbn [bind].
    destruct (IH (upd (upd m dst (Live v)) src Moved) (S src) (S dst)) as [m' (E & P1 & P2 & P3)]; [lia| | |].
    + intros k Hk. pose proof (Hs (S k) ltac:(lia)) as Hw. replace (src + S k) with (S src + k) in Hw by lia. updsimp.
    + intros k Hk. pose proof (Hr (S k) ltac:(lia)) as Hw. replace (dst + S k) with (S dst + k) in Hw by lia. updsimp.
    + exists m'; split; [exact E|]. split; [|split].
      * intros j Hj. destruct (Nat.eq_dec j dst) as [->|Hne].
        -- rewrite P3 by lia. replace (dst - dst + src) with src by lia. updsimp.
        -- rewrite P1 by lia. replace (j - S dst + S src) with (j - dst + src) by lia. updsimp.
      * intros j Hj. destruct (Nat.eq_dec j src) as [->|Hne]; [rewrite P3 by lia; updsimp|apply P2; lia].
      * intros j H1 H2. rewrite P3 by lia. updsimp.
Qed.

Lemma alive_of_live s : is_live s = true -> alive s = true. Proof. destruct s; cbn; congruence. Qed.

(* moves [first, first+n) up by d > 0 slots, highest element first (std::move_backward on overlapping ranges) *)
Lemma move_backward_spec : forall n m first d,
  0 < d -> (forall k, k < n -> is_live (m (first + k)) = true) -> (forall k, k < n -> alive (m (first + d + k)) = true) ->
  exists m', move_backward m first n (first + d + n) = inr m' /\
    (forall j, first + d <= j < first + d + n -> m' j = m (j - d)) /\
    (forall j, first <= j < first + n -> j < first + d -> m' j = Moved) /\
    (forall j, ~ (first + d <= j < first + d + n) -> ~ (first <= j < first + n) -> m' j = m j).
Proof.
  induction n as [|n IH]; intros m first d Hd Hs Ha; cbn [move_backward].
  - exists m; repeat split; intros; try lia; reflexivity.
  - replace (first + d + S n - 1) with (first + d + n) by lia.
    pose proof (Hs n ltac:(lia)) as Hv. pose proof (Ha n ltac:(lia)) as Hdst.
    unfold move_assign. destruct (m (first + n)) as [| |v|] eqn:Es; try discriminate.
    destruct (m (first + d + n)) eqn:Ed; try discriminate; cbn [bind].
    all: match goal with |- context [move_backward ?m1 _ _ _] =>
      destruct (IH m1 first d Hd) as [m' (E & P1 & P2 & P3)];
      [ intros k Hk; pose proof (Hs k ltac:(lia)); updsimp
      | intros k Hk; pose proof (Ha k ltac:(lia)); unfold upd;
        destruct (Nat.eqb_spec (first + n) (first + d + k)); [reflexivity|];
        destruct (Nat.eqb_spec (first + d + n) (first + d + k)); [lia|assumption]
      | exists m'; split; [exact E|]; split; [|split] ] end.
    all: try (intros j Hj; destruct (Nat.eq_dec j (first + d + n)) as [->|Hne];
              [ rewrite P3 by lia; replace (first + d + n - d) with (first + n) by lia; updsimp
              | rewrite P1 by lia; updsimp ]).
    all: try (intros j Hj Hlt; destruct (Nat.eq_dec j (first + n)) as [->|Hne]; [rewrite P3 by lia; updsimp|apply P2; lia]).
    all: try (intros j H1 H2; rewrite P3 by lia; updsimp).
Qed.

Lemma uninit_fill_n_spec : forall n m dst v,
  (forall k, k < n -> m (dst + k) = Raw) ->
  exists m', uninit_fill_n m dst n v = inr m' /\
    (forall j, dst <= j < dst + n -> m' j = Live v) /\ (forall j, ~ (dst <= j < dst + n) -> m' j = m j).
Proof.
  induction n as [|n IH]; intros m dst v Hr; cbn [uninit_fill_n].
  - exists m; repeat split; intros; try lia; reflexivity.
  - pose proof (Hr 0 ltac:(lia)) as H0. rewrite Nat.add_0_r in H0. unfold copy_construct. rewrite H0. cbn [bind].
    destruct (IH (upd m dst (Live v)) (S dst) v) as [m' (E & P1 & P2)].
    + intros k Hk. pose proof (Hr (S k) ltac:(lia)) as Hw. replace (dst + S k) with (S dst + k) in Hw by lia. updsimp.
    + exists m'; split; [exact E|]. split.
      * intros j Hj. destruct (Nat.eq_dec j dst) as [->|Hne]; [rewrite P2 by lia; updsimp|apply P1; lia].
      * intros j Hj. rewrite P2 by lia. updsimp.
Qed.

Lemma fill_n_spec : forall n m dst v,
  (forall k, k < n -> alive (m (dst + k)) = true) ->
  exists m', fill_n m dst n v = inr m' /\
    (forall j, dst <= j < dst + n -> m' j = Live v) /\ (forall j, ~ (dst <= j < dst + n) -> m' j = m j).
Proof.
  induction n as [|n IH]; intros m dst v Hr; cbn [fill_n].
  - exists m; repeat split; intros; try lia; reflexivity.
  - pose proof (Hr 0 ltac:(lia)) as H0. rewrite Nat.add_0_r in H0. unfold copy_assign.
    destruct (m dst) eqn:Ed; try discriminate; cbn [bind].
    all: destruct (IH (upd m dst (Live v)) (S dst) v) as [m' (E & P1 & P2)];
      [ intros k Hk; pose proof (Hr (S k) ltac:(lia)) as Hw; replace (dst + S k) with (S dst + k) in Hw by lia; updsimp
      | exists m'; split; [exact E|]; split;
        [ intros j Hj; destruct (Nat.eq_dec j dst) as [->|Hne]; [rewrite P2 by lia; updsimp|apply P1; lia]
        | intros j Hj; rewrite P2 by lia; updsimp ] ].
Qed.

(* vectorcommon.hpp:55-65 (non trivially relocatable overload) *)
Lemma shift_right_cnt_spec m first n count :
  0 < n -> 0 < count ->
  (forall k, k < n -> is_live (m (first + k)) = true) -> (forall k, k < count -> m (first + n + k) = Raw) ->
  exists m', shift_right_cnt m first n count = inr m' /\
    (forall j, first + count <= j < first + count + n -> m' j = m (j - count)) /\
    (forall j, first <= j < first + count -> j < first + n -> m' j = Moved) /\
    (forall j, ~ (first <= j < first + count + n) -> m' j = m j) /\
    (forall j, first + n <= j < first + count -> m' j = m j).
Proof.
  intros Hn Hc Hs Hr. unfold shift_right_cnt. destruct (Nat.ltb_spec count n) as [Hlt|Hge].
  - destruct (uninit_move_n_spec count m (first + n - count) (first + n)) as [m1 (E1 & A1 & A2 & A3)]; [lia| | |].
    + intros k Hk. replace (first + n - count + k) with (first + (n - count + k)) by lia. apply Hs. lia.
    + intros k Hk. apply Hr. lia.
    + rewrite E1. cbn [bind].
      destruct (move_backward_spec (n - count) m1 first count Hc) as [m2 (E2 & B1 & B2 & B3)].
      * intros k Hk. rewrite A3 by lia. apply Hs. lia.
      * intros k Hk. destruct (le_lt_dec (first + n - count) (first + count + k)) as [Hin|Hout].
        -- rewrite A2 by lia. reflexivity.
        -- rewrite A3 by lia. apply alive_of_live. replace (first + count + k) with (first + (count + k)) by lia. apply Hs. lia.
      * replace (first + count + (n - count)) with (first + n) in E2 by lia.
        exists m2. split; [exact E2|]. repeat split.
        -- intros j Hj. destruct (le_lt_dec (first + n) j) as [Hhi|Hlo].
           ++ rewrite B3 by lia. rewrite A1 by lia. f_equal. lia.
           ++ rewrite B1 by lia. apply A3; lia.
        -- intros j Hj Hjn. destruct (le_lt_dec (first + n - count) j) as [Hhi|Hlo].
           ++ rewrite B3 by lia. apply A2. lia.
           ++ apply B2; lia.
        -- intros j Hj. rewrite B3 by lia. apply A3; lia.
        -- intros j Hj. lia.
  - destruct (uninit_move_n_spec n m first (first + count)) as [m1 (E1 & A1 & A2 & A3)]; [lia|assumption| |].
    + intros k Hk. replace (first + count + k) with (first + n + (count - n + k)) by lia. apply Hr. lia.
    + exists m1. split; [exact E1|]. repeat split.
      * intros j Hj. rewrite A1 by lia. f_equal. lia.
      * intros j Hj Hjn. apply A2. lia.
      * intros j Hj. apply A3; lia.
      * intros j Hj. apply A3; lia.
Qed.

Lemma fill_after_shift_spec m first n count v :
  (forall j, first <= j < first + count -> j < first + n -> alive (m j) = true) ->
  (forall j, first + n <= j < first + count -> m j = Raw) ->
  exists m', fill_after_shift m first n count v = inr m' /\
    (forall j, first <= j < first + count -> m' j = Live v) /\ (forall j, ~ (first <= j < first + count) -> m' j = m j).
Proof.
  intros Ha Hr. unfold fill_after_shift. destruct (Nat.ltb_spec n count) as [Hlt|Hge].
  - destruct (fill_n_spec n m first v) as [m1 (E1 & A1 & A2)]; [intros k Hk; apply Ha; lia|].
    rewrite E1. cbn [bind]. destruct (uninit_fill_n_spec (count - n) m1 (first + n) v) as [m2 (E2 & B1 & B2)].
    + intros k Hk. rewrite A2 by lia. apply Hr; lia.
    + exists m2. split; [exact E2|]. split.
      * intros j Hj. destruct (le_lt_dec (first + n) j); [apply B1; lia|rewrite B2 by lia; apply A1; lia].
      * intros j Hj. rewrite B2 by lia. apply A2. lia.
  - destruct (fill_n_spec count m first v) as [m1 (E1 & A1 & A2)]; [intros k Hk; apply Ha; lia|].
    exists m1. split; [exact E1|]. split; assumption.
Qed.

(* list plumbing *)
Lemma abs_length m s : length (abs m s) = s. Proof. unfold abs. rewrite map_length, seq_length. reflexivity. Qed.
Lemma abs_nth m s i : i < s -> nth i (abs m s) 0%Z = val (m i).
Proof. intros H. unfold abs. rewrite (nth_indep _ 0%Z (val (m 0))) by (rewrite map_length, seq_length; lia).
  change (val (m 0)) with ((fun i => val (m i)) 0). rewrite map_nth. rewrite seq_nth by lia. reflexivity. Qed.
Lemma list_ext (l1 l2 : list Z) : length l1 = length l2 -> (forall i, i < length l1 -> nth i l1 0%Z = nth i l2 0%Z) -> l1 = l2.
Proof. revert l2. induction l1 as [|x l1 IH]; intros [|y l2] Hl Hn; cbn in Hl; try discriminate; [reflexivity|].
  f_equal; [apply (Hn 0); cbn; lia|apply IH; [lia|intros i Hi; apply (Hn (S i)); cbn; lia]]. Qed.
Definition spec_insert (l : list Z) (pos count : nat) (v : Z) := firstn pos l ++ repeat v count ++ skipn pos l.
Lemma nth_repeat' (v : Z) c i : i < c -> nth i (repeat v c) 0%Z = v.
Proof. revert i. induction c; intros [|i] H; cbn; try lia; auto. apply IHc. lia. Qed.
Lemma nth_firstn' (l : list Z) k j : j < k -> nth j (firstn k l) 0%Z = nth j l 0%Z.
Proof. revert k j. induction l as [|x l IH]; intros [|k] [|j] H; cbn; try reflexivity; try lia. apply IH. lia. Qed.
Lemma nth_skipn' (l : list Z) k j : nth j (skipn k l) 0%Z = nth (k + j) l 0%Z.
Proof. revert k. induction l as [|x l IH]; intros [|k]; cbn; try reflexivity; [destruct j; reflexivity|apply IH]. Qed.
Lemma spec_insert_nth l pos count v i : pos <= length l ->
  nth i (spec_insert l pos count v) 0%Z = if i <? pos then nth i l 0%Z else if i <? pos + count then v else nth (i - count) l 0%Z.
Proof. intros Hp. unfold spec_insert. assert (Hf : length (firstn pos l) = pos) by (rewrite firstn_length; lia).
  destruct (Nat.ltb_spec i pos).
  - rewrite app_nth1 by lia. apply nth_firstn'. assumption.
  - rewrite app_nth2 by lia. rewrite Hf. destruct (Nat.ltb_spec i (pos + count)).
    + rewrite app_nth1 by (rewrite repeat_length; lia). apply nth_repeat'. lia.
    + rewrite app_nth2 by (rewrite repeat_length; lia). rewrite repeat_length. rewrite nth_skipn'. f_equal. lia. Qed.

(* VectorImpl::insert(pos, count, v) within capacity, value not aliasing, non-relocatable element type *)
Theorem insert_cnt_correct m size cap pos count v :
  Inv m size cap -> pos <= size -> size + count <= cap ->
  exists m', fst (insert_cnt m size pos count v) = inr m' /\ snd (insert_cnt m size pos count v) = size + count /\
    Inv m' (size + count) cap /\ abs m' (size + count) = spec_insert (abs m size) pos count v.
Proof.
  intros (Hsc & Hlive & Hraw & Hout) Hp Hcap. unfold insert_cnt.
  assert (Hfin : forall m', (forall j, pos <= j < pos + count -> m' j = Live v) ->
            (forall j, pos + count <= j < size + count -> m' j = m (j - count)) ->
            (forall j, ~ (pos <= j < size + count) -> m' j = m j) ->
            Inv m' (size + count) cap /\ abs m' (size + count) = spec_insert (abs m size) pos count v).
  { intros m' F1 F2 F3. split.
    - repeat split; [lia| | |].
      + intros i Hi. destruct (le_lt_dec pos i) as [Hge|Hlt]; [destruct (le_lt_dec (pos + count) i)|].
        * rewrite F2 by lia. apply Hlive. lia.
        * rewrite F1 by lia. reflexivity.
        * rewrite F3 by lia. apply Hlive. lia.
      + intros i Hi Hic. rewrite F3 by lia. apply Hraw; lia.
      + intros i Hi. rewrite F3 by lia. apply Hout; lia.
    - apply list_ext.
      + unfold spec_insert. rewrite !app_length, repeat_length, firstn_length, skipn_length, !abs_length. lia.
      + rewrite abs_length. intros i Hi. rewrite abs_nth by lia. rewrite spec_insert_nth by (rewrite abs_length; lia).
        destruct (Nat.ltb_spec i pos); [|destruct (Nat.ltb_spec i (pos + count))].
        * rewrite abs_nth by lia. rewrite F3 by lia. reflexivity.
        * rewrite F1 by lia. reflexivity.
        * rewrite abs_nth by lia. rewrite F2 by lia. reflexivity. }
  destruct (Nat.eqb_spec count 0) as [->|Hc0].
  - exists m. cbn [fst snd]. split; [reflexivity|]. split; [lia|]. replace (size + 0) with size by lia.
    split; [repeat split; assumption|]. unfold spec_insert. cbn [repeat app]. rewrite firstn_skipn. reflexivity.
  - destruct (Nat.eqb_spec (size - pos) 0) as [Hz|Hnz]; cbn [fst snd].
    + assert (pos = size) by lia. subst pos.
      destruct (uninit_fill_n_spec count m size v) as [m' (E & A1 & A2)]; [intros k Hk; apply Hraw; lia|].
      exists m'. split; [exact E|]. split; [reflexivity|]. apply Hfin; [assumption|intros; lia|assumption].
    + destruct (shift_right_cnt_spec m pos (size - pos) count ltac:(lia) ltac:(lia)) as [m1 (E1 & S1 & S2 & S3 & S4)].
      * intros k Hk. apply Hlive. lia.
      * intros k Hk. apply Hraw; lia.
      * rewrite E1. cbn [bind]. destruct (fill_after_shift_spec m1 pos (size - pos) count v) as [m2 (E2 & F1 & F2)].
        -- intros j Hj Hjn. rewrite S2 by lia. reflexivity.
        -- intros j Hj. rewrite S4 by lia. apply Hraw; lia.
        -- exists m2. split; [exact E2|]. split; [reflexivity|]. apply Hfin; [assumption| |].
           ++ intros j Hj. rewrite F2 by lia. apply S1. lia.
           ++ intros j Hj. rewrite F2 by lia. apply S3. lia.
Qed.


