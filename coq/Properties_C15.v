(* C15 - amc:: memory algorithms equal the standard ones, with clean-up on throw.
   Model: MemAlgos.v = include/amc/memory.hpp at slot level (one address space, destination and source blocks are
   disjoint index ranges), loop order and the try/catch clean-up loops of the pre-C++17 emulations preserved, the three
   modes of ImplModeFactory (Generic = Default, MemMoveInALoop, MemMove) plus the std-delegating C++17/20 versions
   modelled by their specification (StdSpec).  [pre] = disjoint ranges, raw destination, live sources.
   Every theorem quantifies over the length n, the memory, the throw oracle / throw index and the element category.
   The correspondence with the real code is checked by lib/c15.py: harness/cpp/memdrv.cpp built as C++11/14/17/20
   prints one observable line per case, [MemAlgos.run_case] computes the same observable. *)
From Coq Require Import ZArith Lia Bool List Arith.
From Amc Require Import Throw MemAlgos.
Import ListNotations.

(* ---- uninitialized_copy_n ---- *)
Theorem C15_uninit_copy_n_equal : forall v c n m th dst src,
  allowed (tc c) v = true -> pre m dst src n -> throws (copy_throws c) th n = false ->
  exists m' th', uninit_copy_n v c m th dst src n = DoneR m' th' (src + n) (dst + n) /\
    (forall j, dst <= j < dst + n -> m' j = m (j - dst + src)) /\
    (forall j, ~ (dst <= j < dst + n) -> m' j = m j).
Proof. exact uninit_copy_n_equal. Qed.
Theorem C15_uninit_copy_n_cleanup : forall v c n m k dst src,
  throwing_variant v -> pre m dst src n -> copy_throws c = true -> k < n ->
  exists m', uninit_copy_n v c m (Some k) dst src n = ThrewR m' /\ (forall j, m' j = m j).
Proof. exact uninit_copy_n_cleanup. Qed.
(* the loop itself, source given as a list of values *)
Theorem C15_copy_loop : forall vals can m th first cur si,
  first <= cur -> (forall j, first <= j < cur -> is_live (m j) = true) -> (forall k, k < length vals -> m (cur + k) = Raw) ->
  (exists m' th', copy_loop can m th first cur si vals = DoneR m' th' (si + length vals) (cur + length vals) /\
      throws can th (length vals) = false /\
      (forall j, cur <= j < cur + length vals -> m' j = Live (nth (j - cur) vals 0%Z)) /\
      (forall j, ~ (cur <= j < cur + length vals) -> m' j = m j)) \/
  (exists m', copy_loop can m th first cur si vals = ThrewR m' /\ throws can th (length vals) = true /\
      (forall j, first <= j < cur + length vals -> m' j = Raw) /\
      (forall j, ~ (first <= j < cur + length vals) -> m' j = m j)).
Proof. exact copy_loop_spec. Qed.

(* ---- uninitialized_move_n ---- *)
Theorem C15_uninit_move_n_equal : forall v c n m th dst src,
  allowed (tc c) v = true -> pre m dst src n -> throws (move_throws c) th n = false ->
  exists m' th', uninit_move_n v c m th dst src n = DoneR m' th' (src + n) (dst + n) /\
    (forall j, dst <= j < dst + n -> m' j = m (j - dst + src)) /\
    (forall j, src <= j < src + n -> m' j = src_after (tc c) (m j)) /\
    (forall j, ~ (dst <= j < dst + n) -> ~ (src <= j < src + n) -> m' j = m j).
Proof. exact uninit_move_n_equal. Qed.
(* the k sources already moved stay moved-from (no roll-back of moves, as in std::uninitialized_move_n); every other slot,
   the destination included, is exactly as before *)
Theorem C15_uninit_move_n_cleanup : forall v c n m k dst src,
  throwing_variant v -> pre m dst src n -> move_throws c = true -> k < n ->
  exists m', uninit_move_n v c m (Some k) dst src n = ThrewR m' /\
    (forall j, src <= j < src + k -> m' j = src_after (tc c) (m j)) /\
    (forall j, ~ (src <= j < src + k) -> m' j = m j).
Proof. exact uninit_move_n_cleanup. Qed.

(* ---- uninitialized_value_construct_n / uninitialized_default_construct_n ---- *)
Theorem C15_uninit_value_n_equal : forall v c n m th dst,
  (forall k, k < n -> m (dst + k) = Raw) -> throws (ctor_throws c) th n = false ->
  exists m' th', uninit_value_n v c m th dst n = DoneR m' th' 0 (dst + n) /\
    (forall j, dst <= j < dst + n -> m' j = Live 0%Z) /\ (forall j, ~ (dst <= j < dst + n) -> m' j = m j).
Proof. exact uninit_value_n_equal. Qed.
Theorem C15_uninit_value_n_cleanup : forall v c n m k dst,
  td c = false -> (forall j, j < n -> m (dst + j) = Raw) -> ctor_throws c = true -> k < n ->
  exists m', uninit_value_n v c m (Some k) dst n = ThrewR m' /\ (forall j, m' j = m j).
Proof. exact uninit_value_n_cleanup. Qed.
Theorem C15_uninit_default_n_equal : forall v c n m th dst,
  td c = false -> (forall k, k < n -> m (dst + k) = Raw) -> throws (ctor_throws c) th n = false ->
  exists m' th', uninit_default_n v c m th dst n = DoneR m' th' 0 (dst + n) /\
    (forall j, dst <= j < dst + n -> m' j = Live 0%Z) /\ (forall j, ~ (dst <= j < dst + n) -> m' j = m j).
Proof. exact uninit_default_n_equal. Qed.
Theorem C15_uninit_default_n_trivial : forall v c n m th dst,
  td c = true -> uninit_default_n v c m th dst n = DoneR m th 0 (dst + n).
Proof. exact uninit_default_n_trivial. Qed.
Theorem C15_uninit_default_n_cleanup : forall v c n m k dst,
  td c = false -> (forall j, j < n -> m (dst + j) = Raw) -> ctor_throws c = true -> k < n ->
  exists m', uninit_default_n v c m (Some k) dst n = ThrewR m' /\ (forall j, m' j = m j).
Proof. exact uninit_default_n_cleanup. Qed.

(* ---- uninitialized_relocate_n / relocate_at ---- *)
Theorem C15_relocate_n_equal : forall v inner c n m th dst src,
  allowed (tr c) v = true -> allowed (tc c) inner = true -> pre m dst src n -> throws (move_throws c) th n = false ->
  exists m' th', uninit_relocate_n v inner c m th dst src n = DoneR m' th' (src + n) (dst + n) /\
    (forall j, dst <= j < dst + n -> m' j = m (j - dst + src)) /\
    (forall j, src <= j < src + n -> m' j = Raw) /\
    (forall j, ~ (dst <= j < dst + n) -> ~ (src <= j < src + n) -> m' j = m j).
Proof. exact uninit_relocate_n_equal. Qed.
(* memory.hpp:469-474 has no try/catch of its own: the throw comes out of uninitialized_move_n, which has destroyed what
   it created; destroy_n of the sources is not reached.  So: every slot outside the k already moved sources is exactly
   as before (destination raw, other sources live with their values), those k sources are moved-from, and all n sources
   are still alive (none destroyed).  The full statement of the property holds with "alive" = not destroyed; a
   roll-back of the values does not (MemAlgos.ex_relocate_no_rollback), exactly as for the std specification. *)
Theorem C15_relocate_n_cleanup : forall v inner c n m k dst src,
  throwing_variant v -> throwing_variant inner -> cat_ok c -> pre m dst src n -> move_throws c = true -> k < n ->
  exists m', uninit_relocate_n v inner c m (Some k) dst src n = ThrewR m' /\
    (forall j, src <= j < src + k -> m' j = Moved) /\
    (forall j, ~ (src <= j < src + k) -> m' j = m j) /\
    (forall j, src <= j < src + n -> alive (m' j) = true).
Proof. exact uninit_relocate_n_cleanup. Qed.
Theorem C15_relocate_at : forall c m th dst src v,
  m dst = Raw -> m src = Live v -> dst <> src -> cat_ok c ->
  (throws (move_throws c) th 1 = false \/ tr c = true ->
     exists m' th', relocate_at c m th dst src = DoneR m' th' (S src) (S dst) /\ m' dst = Live v /\ m' src = Raw /\
       (forall j, j <> dst -> j <> src -> m' j = m j)) /\
  (tr c = false -> move_throws c = true -> th = Some 0 -> exists m', relocate_at c m th dst src = ThrewR m' /\ forall j, m' j = m j).
Proof. exact relocate_at_spec. Qed.

(* ---- the modes agree whenever the category allows bit copies ---- *)
Theorem C15_variants_agree : forall v1 i1 v2 i2 c n m th dst src,
  allowed (tr c) v1 = true -> allowed (tc c) i1 = true -> allowed (tr c) v2 = true -> allowed (tc c) i2 = true ->
  pre m dst src n -> throws (move_throws c) th n = false ->
  exists m1 th1 m2 th2, uninit_relocate_n v1 i1 c m th dst src n = DoneR m1 th1 (src + n) (dst + n) /\
    uninit_relocate_n v2 i2 c m th dst src n = DoneR m2 th2 (src + n) (dst + n) /\ (forall j, m1 j = m2 j).
Proof. exact variants_agree_relocate. Qed.
Theorem C15_variants_agree_copy : forall v1 v2 c n m th dst src,
  allowed (tc c) v1 = true -> allowed (tc c) v2 = true -> pre m dst src n -> throws (copy_throws c) th n = false ->
  exists m1 th1 m2 th2, uninit_copy_n v1 c m th dst src n = DoneR m1 th1 (src + n) (dst + n) /\
    uninit_copy_n v2 c m th dst src n = DoneR m2 th2 (src + n) (dst + n) /\ (forall j, m1 j = m2 j).
Proof. exact variants_agree_copy. Qed.
Theorem C15_variants_agree_move : forall v1 v2 c n m th dst src,
  allowed (tc c) v1 = true -> allowed (tc c) v2 = true -> pre m dst src n -> throws (move_throws c) th n = false ->
  exists m1 th1 m2 th2, uninit_move_n v1 c m th dst src n = DoneR m1 th1 (src + n) (dst + n) /\
    uninit_move_n v2 c m th dst src n = DoneR m2 th2 (src + n) (dst + n) /\ (forall j, m1 j = m2 j).
Proof. exact variants_agree_move. Qed.
(* ImplModeFactory never selects a bit copy for a category that does not allow it *)
Theorem C15_impl_mode_guard : forall b it, allowed b (impl_mode b it) = true.
Proof. exact impl_mode_allowed. Qed.

(* ---- concrete instances ---- *)
Example C15_example_copy : run_case (mkcase ACopyN 11 ItForward cNTR 3 None) = [0; 0; 3; 3; 11; 12; 13; -1; 11; 12; 13; 14]%Z.
Proof. exact ex_copy_generic. Qed.
Example C15_example_copy_throw : run_case (mkcase ACopyN 14 ItPtr cNTR 3 (Some 2)) = [1; 0; -1; -1; -1; -1; -1; -1; 11; 12; 13; 14]%Z.
Proof. exact ex_copy_throw. Qed.
Example C15_example_move_throw : run_case (mkcase AMoveN 11 ItPtr cTM 3 (Some 2)) = [1; 0; -1; -1; -1; -1; -1; -1; -2; -2; 13; 14]%Z.
Proof. exact ex_move_throw. Qed.
Example C15_example_value : run_case (mkcase AValueN 14 ItPtr cTR 3 (Some 1)) = [1; 0; -1; -1; -1; -1; -1; -1; 11; 12; 13; 14]%Z
  /\ run_case (mkcase AValueN 14 ItPtr cTR 3 None) = [0; 0; 0; 3; 0; 0; 0; -1; 11; 12; 13; 14]%Z.
Proof. exact ex_value_throw. Qed.
Example C15_example_relocate : run_case (mkcase ARelocN 11 ItPtr cNTR 3 None) = [0; 0; 3; 3; 11; 12; 13; -1; -1; -1; -1; 14]%Z
  /\ run_case (mkcase ARelocN 11 ItPtr cTR 3 None) = run_case (mkcase ARelocN 11 ItPtr cNTR 3 None)
  /\ run_case (mkcase ARelocN 20 ItForward cTR 3 None) = run_case (mkcase ARelocN 11 ItPtr cNTR 3 None).
Proof. exact ex_relocate. Qed.
Example C15_example_relocate_throw : run_case (mkcase ARelocN 11 ItPtr cTM 3 (Some 2)) = [1; 0; -1; -1; -1; -1; -1; -1; -2; -2; 13; 14]%Z
  /\ run_case (mkcase ARelocN 17 ItPtr cTM 3 (Some 2)) = run_case (mkcase ARelocN 11 ItPtr cTM 3 (Some 2)).
Proof. exact ex_relocate_throw. Qed.
