(* C13 - swap2 between any two vector flavours (vectorcommon.hpp: VectorImpl::swap2 = adjustEachOtherCapacity + swap2_impl,
   canSwapDynStorage / swapDynStorage of the three bases, swap_sizetype), as a function on the size words of two vectors with
   DIFFERENT configurations (flavour, inline capacity, size_type, allocator type), over the base interface of VecModel.v.
   Element sequences are exchanged by the step (swap_deep or buffer exchange); what is modelled and proved here is the part
   where the historic defects lived: which path is taken, when it throws, and what the words are afterwards. *)
From Coq Require Import ZArith List Bool Lia.
Require Import ZifyBool.
From Amc Require Import GenPrelude Words VecModel VecProofs.
Import ListNotations.
Local Open Scope Z_scope.

Definition akind_eqb (a b : akind) : bool :=
  match a, b with ANone, ANone | AAmc, AAmc | ALed, ALed | ALedR, ALedR => true | _, _ => false end.

Section X.
Variables c1 c2 : vcfg.

Definition can_swap_dyn_x (t o : words) : bool :=
  akind_eqb (calloc c1) (calloc c2) &&
  match fl c1, fl c2 with
  | FFCV, _ | _, FFCV => false
  | FVec, FVec => true
  | FVec, FSV => negb (isSmall o)
  | FSV, FVec => negb (isSmall t)
  | FSV, FSV => negb (isSmall t) && negb (isSmall o)
  end.
(* swap_sizetype(lhs, rhs): overflow_error when a value does not fit the other size_type (compared by the maxima) *)
Definition st_throws (l r : Z) : bool :=
  ((cM c1 <? cM c2) && (cM c1 <? r)) || ((cM c2 <? cM c1) && (cM c2 <? l)).

Definition exchange_buffers (t o : words) : (words * words) + exn :=
  if st_throws (capa_ t) (capa_ o) then inr OverflowError
  else if st_throws (size_ t) (size_ o) then inr OverflowError   (* cannot happen once the capacities fit: see below *)
  else inl ({| capa_ := capa_ o; size_ := size_ o |}, {| capa_ := capa_ t; size_ := size_ t |}).

Definition swap2x (t o : words) : (words * words * list aevent * list aevent) + (exn * words * words * list aevent * list aevent) :=
  let adjusted :=
    if can_swap_dyn_x t o then inl (t, o, [], [])
    else match adjust c1 t (b_size c2 o) with
         | inr e => inr (e, t, o, [], [])
         | inl (t1, ev1) =>
             match adjust c2 o (b_size c1 t1) with
             | inr e => inr (e, t1, o, ev1, [])          (* the first operand has possibly grown already *)
             | inl (o1, ev2) => inl (t1, o1, ev1, ev2)
             end
         end in
  match adjusted with
  | inr r => inr r
  | inl (t1, o1, ev1, ev2) =>
      if can_swap_dyn_x t1 o1 then
        match exchange_buffers t1 o1 with
        | inr e => inr (e, t1, o1, ev1, ev2)
        | inl (t', o') => inl (t', o', ev1, ev2)
        end
      else inl (b_setSize c1 t1 (b_size c2 o1), b_setSize c2 o1 (b_size c1 t1), ev1, ev2)
  end.

Hypothesis H1 : cfg_ok c1.
Hypothesis H2 : cfg_ok c2.

Lemma dyn_words_heap c x : cfg_ok c -> BInv c x -> fl c <> FFCV -> (fl c = FSV -> isSmall x = false) ->
  0 <= size_ x <= capa_ x /\ capa_ x <= cM c /\ b_size c x = size_ x /\ b_capacity c x = capa_ x.
Proof. intros Hc H Hf Hs. unfold BInv, b_size, b_capacity in *. destruct (fl c) eqn:E; try congruence.
  - unfold p_size, p_capacity. lia.
  - specialize (Hs eq_refl). destruct (heap_view (cM c) (cN c) x H Hs) as (A & B & C). pose proof (size_le_capacity (cM c) (cN c) x H).
    rewrite A, B in *. lia. Qed.

Lemma heap_words_BInv c n s : cfg_ok c -> fl c <> FFCV -> 0 <= s <= n -> n <= cM c -> (fl c = FSV -> s < cM c \/ cN c <= n) ->
  BInv c {| capa_ := n; size_ := s |} /\ b_size c {| capa_ := n; size_ := s |} = s.
Proof. intros Hc Hf Hs Hn Hsv. pose proof Hc as [HM0 HN0]. unfold BInv, b_size. destruct (fl c) eqn:E; try congruence.
  - unfold p_size; cbn. lia.
  - unfold WInv, Words.size, isSmall; cbn [capa_ size_]. assert (n <? s = false) as -> by lia. specialize (Hsv eq_refl). split; [|reflexivity]. lia. Qed.

(* the buffer-exchange path: both vectors own (or may own) a dynamic buffer *)
Lemma exchange_ok t o : BInv c1 t -> BInv c2 o -> can_swap_dyn_x t o = true ->
  match exchange_buffers t o with
  | inl (t', o') => BInv c1 t' /\ BInv c2 o' /\ b_size c1 t' = b_size c2 o /\ b_size c2 o' = b_size c1 t
  | inr e => e = OverflowError /\ (cM c1 < capa_ o \/ cM c2 < capa_ t)
  end.
Proof. intros Ht Ho Hcan. unfold can_swap_dyn_x in Hcan. apply andb_true_iff in Hcan. destruct Hcan as [_ Hcan].
  assert (Hf1 : fl c1 <> FFCV) by (destruct (fl c1); [discriminate|discriminate|discriminate Hcan]).
  assert (Hf2 : fl c2 <> FFCV) by (destruct (fl c1), (fl c2); try discriminate; discriminate Hcan).
  assert (Hs1 : fl c1 = FSV -> isSmall t = false).
  { intros E. rewrite E in Hcan. destruct (fl c2); try congruence; [apply negb_true_iff in Hcan; assumption|apply andb_true_iff in Hcan; destruct Hcan as [A _]; apply negb_true_iff in A; assumption]. }
  assert (Hs2 : fl c2 = FSV -> isSmall o = false).
  { intros E. rewrite E in Hcan. destruct (fl c1); try congruence; [apply negb_true_iff in Hcan; assumption|apply andb_true_iff in Hcan; destruct Hcan as [_ A]; apply negb_true_iff in A; assumption]. }
  destruct (dyn_words_heap c1 t H1 Ht Hf1 Hs1) as (A1 & A2 & A3 & A4). destruct (dyn_words_heap c2 o H2 Ho Hf2 Hs2) as (B1 & B2 & B3 & B4).
  unfold exchange_buffers, st_throws.
  destruct (((cM c1 <? cM c2) && (cM c1 <? capa_ o)) || ((cM c2 <? cM c1) && (cM c2 <? capa_ t))) eqn:Ec.
  - split; [reflexivity|]. lia.
  - assert (((cM c1 <? cM c2) && (cM c1 <? size_ o)) || ((cM c2 <? cM c1) && (cM c2 <? size_ t)) = false) as -> by lia.
    assert (Ho1 : capa_ o <= cM c1) by lia. assert (Ht2 : capa_ t <= cM c2) by lia.
    (* a SmallVector takes a buffer of any capacity: the words only have to be ordered (an adopted buffer may be smaller than N) *)
    destruct (heap_words_BInv c1 (capa_ o) (size_ o) H1 Hf1 ltac:(lia) Ho1) as [X1 X2].
    { intros E. destruct (Z.eq_dec (size_ o) (cM c1)); [right|left; lia]. pose proof H1 as [_ HN]. rewrite E in HN. lia. }
    destruct (heap_words_BInv c2 (capa_ t) (size_ t) H2 Hf2 ltac:(lia) Ht2) as [Y1 Y2].
    { intros E. destruct (Z.eq_dec (size_ t) (cM c2)); [right|left; lia]. pose proof H2 as [_ HN]. rewrite E in HN. lia. }
    repeat split; try assumption; lia.
Qed.

(* C13: swap2 either exchanges the sizes leaving both vectors well formed, or throws the limit exception of the side that
   cannot hold the other's elements; the element sequences are exchanged / left alone accordingly by the step *)
Theorem swap2x_ok t o : BInv c1 t -> BInv c2 o ->
  match swap2x t o with
  | inl (t', o', _, _) => BInv c1 t' /\ BInv c2 o' /\ b_size c1 t' = b_size c2 o /\ b_size c2 o' = b_size c1 t
  | inr (e, t', o', _, _) =>
      BInv c1 t' /\ BInv c2 o' /\ b_size c1 t' = b_size c1 t /\ b_size c2 o' = b_size c2 o /\
      (e = lim_exn c1 \/ e = lim_exn c2 \/ e = OverflowError)
  end.
Proof. intros Ht Ho. unfold swap2x.
  pose proof (b_size_cap c1 H1 t Ht) as Hst. pose proof (b_size_cap c2 H2 o Ho) as Hso.
  assert (Hfin : forall t1 o1 ev1 ev2, BInv c1 t1 -> BInv c2 o1 -> b_size c1 t1 = b_size c1 t -> b_size c2 o1 = b_size c2 o ->
            (can_swap_dyn_x t1 o1 = false -> b_size c2 o <= b_capacity c1 t1 /\ b_size c1 t <= b_capacity c2 o1) ->
            match (if can_swap_dyn_x t1 o1
                   then match exchange_buffers t1 o1 with inr e => inr (e, t1, o1, ev1, ev2) | inl (t', o') => inl (t', o', ev1, ev2) end
                   else inl (b_setSize c1 t1 (b_size c2 o1), b_setSize c2 o1 (b_size c1 t1), ev1, ev2))
                  : (words * words * list aevent * list aevent) + (exn * words * words * list aevent * list aevent) with
            | inl (t', o', _, _) => BInv c1 t' /\ BInv c2 o' /\ b_size c1 t' = b_size c2 o /\ b_size c2 o' = b_size c1 t
            | inr (e, t', o', _, _) => BInv c1 t' /\ BInv c2 o' /\ b_size c1 t' = b_size c1 t /\ b_size c2 o' = b_size c2 o /\
                                       (e = lim_exn c1 \/ e = lim_exn c2 \/ e = OverflowError) end).
  { intros t1 o1 ev1 ev2 A1 A2 S1 S2 C. destruct (can_swap_dyn_x t1 o1) eqn:Ec.
    - pose proof (exchange_ok t1 o1 A1 A2 Ec) as X. destruct (exchange_buffers t1 o1) as [[t' o']|e].
      + destruct X as (X1 & X2 & X3 & X4). repeat split; try assumption; lia.
      + destruct X as [-> _]. repeat split; try assumption. right; right; reflexivity.
    - destruct (C eq_refl) as [C1 C2].
      destruct (b_setSize_ok c1 H1 t1 (b_size c2 o1) A1 ltac:(lia)) as (X1 & X2 & _).
      destruct (b_setSize_ok c2 H2 o1 (b_size c1 t1) A2 ltac:(lia)) as (Y1 & Y2 & _).
      repeat split; try assumption; lia. }
  destruct (can_swap_dyn_x t o) eqn:Ec.
  - apply Hfin; try assumption; try reflexivity. intros X. congruence.
  - pose proof (adjust_ok c1 H1 t (b_size c2 o) Ht ltac:(lia)) as HA.
    destruct (adjust c1 t (b_size c2 o)) as [[t1 ev1]|e].
    + destruct HA as (A & B & C & _).
      pose proof (adjust_ok c2 H2 o (b_size c1 t1) Ho ltac:(lia)) as HB.
      destruct (adjust c2 o (b_size c1 t1)) as [[o1 ev2]|e].
      * destruct HB as (A' & B' & C' & _). apply Hfin; try assumption; try lia.
      * destruct HB as [_ ->]. repeat split; try assumption; try lia. right; left; reflexivity.
    + destruct HA as [_ ->]. repeat split; try assumption; try lia. left; reflexivity.
Qed.
End X.
