(* C13 - proofs about the cross-configuration swap2 model (Swap2Model.v). *)
From Coq Require Import ZArith List Bool Lia.
Require Import ZifyBool.
From Amc Require Import GenPrelude Words VecModel VecProofs.
From Amc Require Export Swap2Model.
Import ListNotations.
Local Open Scope Z_scope.

Section X.
Variables c1 c2 : vcfg.
Local Notation can_swap_dyn_x := (can_swap_dyn_x c1 c2).
Local Notation can_exchange_x := (can_exchange_x c1 c2).
Local Notation st_throws := (st_throws c1 c2).
Local Notation exchange_buffers := (exchange_buffers c1 c2).
Local Notation swap2x := (swap2x c1 c2).

Hypothesis H1 : cfg_ok c1.
Hypothesis H2 : cfg_ok c2.

Lemma dyn_words_heap c x : cfg_ok c -> BInv c x -> fl c <> FFCV -> (fl c = FSV -> isSmall x = false) ->
  0 <= size_ x <= capa_ x /\ capa_ x <= cM c /\ b_size c x = size_ x /\ b_capacity c x = capa_ x.
Proof. intros Hc H Hf Hs. unfold BInv, b_size, b_capacity in *. destruct (fl c) eqn:E; try congruence.
  - unfold p_size, p_capacity. lia.
  - specialize (Hs eq_refl). destruct (heap_view (cM c) (cN c) x H Hs) as (A & B & C). pose proof (size_le_capacity (cM c) (cN c) x H).
    rewrite A, B in *. lia. Qed.

Lemma heap_words_BInv c n s : cfg_ok c -> fl c <> FFCV -> 0 <= s <= n -> n <= cM c -> (fl c = FSV -> s < cM c \/ cN c <= n) ->
  BInv c {| capa_ := n; size_ := s |} /\ b_size c {| capa_ := n; size_ := s |} = s.
Proof. intros Hc Hf Hs Hn Hsv. pose proof Hc as [HM0 HN0]. unfold BInv, b_size. destruct (fl c) eqn:E; try congruence.
  - unfold p_size; cbn. lia.
  - unfold WInv, Words.size, isSmall; cbn [capa_ size_]. assert (n <? s = false) as -> by lia. specialize (Hsv eq_refl). split; [|reflexivity]. lia. Qed.

(* the buffer-exchange path: both vectors own (or may own) a dynamic buffer *)
Lemma exchange_ok t o : BInv c1 t -> BInv c2 o -> can_swap_dyn_x t o = true ->
  match exchange_buffers t o with
  | inl (t', o') => BInv c1 t' /\ BInv c2 o' /\ b_size c1 t' = b_size c2 o /\ b_size c2 o' = b_size c1 t
  | inr e => e = OverflowError /\ (cM c1 < capa_ o \/ cM c2 < capa_ t)
  end.
Proof. intros Ht Ho Hcan. unfold can_swap_dyn_x in Hcan. apply andb_true_iff in Hcan. destruct Hcan as [_ Hcan].
  assert (Hf1 : fl c1 <> FFCV) by (destruct (fl c1); [discriminate|discriminate|discriminate Hcan]).
  assert (Hf2 : fl c2 <> FFCV) by (destruct (fl c1), (fl c2); try discriminate; discriminate Hcan).
  assert (Hs1 : fl c1 = FSV -> isSmall t = false).
  { intros E. rewrite E in Hcan. destruct (fl c2); try congruence; [apply negb_true_iff in Hcan; assumption|apply andb_true_iff in Hcan; destruct Hcan as [A _]; apply negb_true_iff in A; assumption]. }
  assert (Hs2 : fl c2 = FSV -> isSmall o = false).
  { intros E. rewrite E in Hcan. destruct (fl c1); try congruence; [apply negb_true_iff in Hcan; assumption|apply andb_true_iff in Hcan; destruct Hcan as [_ A]; apply negb_true_iff in A; assumption]. }
  destruct (dyn_words_heap c1 t H1 Ht Hf1 Hs1) as (A1 & A2 & A3 & A4). destruct (dyn_words_heap c2 o H2 Ho Hf2 Hs2) as (B1 & B2 & B3 & B4).
  unfold exchange_buffers, st_throws.
  destruct (((cM c1 <? cM c2) && (cM c1 <? capa_ o)) || ((cM c2 <? cM c1) && (cM c2 <? capa_ t))) eqn:Ec.
  - split; [reflexivity|]. lia.
  - assert (((cM c1 <? cM c2) && (cM c1 <? size_ o)) || ((cM c2 <? cM c1) && (cM c2 <? size_ t)) = false) as -> by lia.
    assert (Ho1 : capa_ o <= cM c1) by lia. assert (Ht2 : capa_ t <= cM c2) by lia.
    (* a SmallVector takes a buffer of any capacity: the words only have to be ordered (an adopted buffer may be smaller than N) *)
    destruct (heap_words_BInv c1 (capa_ o) (size_ o) H1 Hf1 ltac:(lia) Ho1) as [X1 X2].
    { intros E. destruct (Z.eq_dec (size_ o) (cM c1)); [right|left; lia]. pose proof H1 as [_ HN]. rewrite E in HN. lia. }
    destruct (heap_words_BInv c2 (capa_ t) (size_ t) H2 Hf2 ltac:(lia) Ht2) as [Y1 Y2].
    { intros E. destruct (Z.eq_dec (size_ t) (cM c2)); [right|left; lia]. pose proof H2 as [_ HN]. rewrite E in HN. lia. }
    repeat split; try assumption; lia.
Qed.

(* once canExchangeDynStorage holds the two swap_sizetype calls cannot throw *)
Lemma exchange_never_throws t o : BInv c1 t -> BInv c2 o -> can_exchange_x t o = true ->
  exists t' o', exchange_buffers t o = inl (t', o') /\ BInv c1 t' /\ BInv c2 o' /\ b_size c1 t' = b_size c2 o /\ b_size c2 o' = b_size c1 t.
Proof. intros Ht Ho Hcan. unfold can_exchange_x in Hcan. apply andb_true_iff in Hcan. destruct Hcan as [Hcan Hb]. apply andb_true_iff in Hcan. destruct Hcan as [Hcan Ha].
  pose proof (exchange_ok t o Ht Ho Hcan) as X.
  assert (Hheap : b_capacity c1 t = capa_ t /\ b_capacity c2 o = capa_ o).
  { unfold can_swap_dyn_x in Hcan. apply andb_true_iff in Hcan. destruct Hcan as [_ Hcan]. unfold b_capacity.
    destruct (fl c1) eqn:E1, (fl c2) eqn:E2; try discriminate Hcan; unfold p_capacity, Words.capacity; split; try reflexivity.
    - apply negb_true_iff in Hcan. rewrite Hcan. reflexivity.
    - apply negb_true_iff in Hcan. rewrite Hcan. reflexivity.
    - apply andb_true_iff in Hcan. destruct Hcan as [A _]. apply negb_true_iff in A. rewrite A. reflexivity.
    - apply andb_true_iff in Hcan. destruct Hcan as [_ A]. apply negb_true_iff in A. rewrite A. reflexivity. }
  destruct Hheap as [E1 E2]. rewrite E1 in Ha. rewrite E2 in Hb.
  destruct (exchange_buffers t o) as [[t' o']|e].
  - exists t', o'. split; [reflexivity|]. exact X.
  - destruct X as [_ X]. lia.
Qed.

(* C13: swap2 either exchanges the sizes leaving both vectors well formed, or throws the limit exception of the side that
   cannot hold the other's elements - and only then; the element sequences are exchanged / left alone accordingly by the step *)
Theorem swap2x_ok t o : BInv c1 t -> BInv c2 o ->
  match swap2x t o with
  | inl (t', o', _, _) => BInv c1 t' /\ BInv c2 o' /\ b_size c1 t' = b_size c2 o /\ b_size c2 o' = b_size c1 t
  | inr (e, t', o', _, _) =>
      BInv c1 t' /\ BInv c2 o' /\ b_size c1 t' = b_size c1 t /\ b_size c2 o' = b_size c2 o /\
      ((e = lim_exn c1 /\ b_limit c1 < b_size c2 o) \/ (e = lim_exn c2 /\ b_limit c2 < b_size c1 t))
  end.
Proof. intros Ht Ho. unfold swap2x.
  pose proof (b_size_cap c1 H1 t Ht) as Hst. pose proof (b_size_cap c2 H2 o Ho) as Hso.
  assert (Hfin : forall t1 o1 ev1 ev2, BInv c1 t1 -> BInv c2 o1 -> b_size c1 t1 = b_size c1 t -> b_size c2 o1 = b_size c2 o ->
            (can_exchange_x t1 o1 = false -> b_size c2 o <= b_capacity c1 t1 /\ b_size c1 t <= b_capacity c2 o1) ->
            match (if can_exchange_x t1 o1
                   then match exchange_buffers t1 o1 with inr e => inr (e, t1, o1, ev1, ev2) | inl (t', o') => inl (t', o', ev1, ev2) end
                   else inl (b_setSize c1 t1 (b_size c2 o1), b_setSize c2 o1 (b_size c1 t1), ev1, ev2))
                  : (words * words * list aevent * list aevent) + (exn * words * words * list aevent * list aevent) with
            | inl (t', o', _, _) => BInv c1 t' /\ BInv c2 o' /\ b_size c1 t' = b_size c2 o /\ b_size c2 o' = b_size c1 t
            | inr (e, t', o', _, _) => BInv c1 t' /\ BInv c2 o' /\ b_size c1 t' = b_size c1 t /\ b_size c2 o' = b_size c2 o /\
                                       ((e = lim_exn c1 /\ b_limit c1 < b_size c2 o) \/ (e = lim_exn c2 /\ b_limit c2 < b_size c1 t)) end).
  { intros t1 o1 ev1 ev2 A1 A2 S1 S2 C. destruct (can_exchange_x t1 o1) eqn:Ec.
    - destruct (exchange_never_throws t1 o1 A1 A2 Ec) as (t' & o' & -> & X1 & X2 & X3 & X4). repeat split; try assumption; lia.
    - destruct (C eq_refl) as [C1 C2].
      destruct (b_setSize_ok c1 H1 t1 (b_size c2 o1) A1 ltac:(lia)) as (X1 & X2 & _).
      destruct (b_setSize_ok c2 H2 o1 (b_size c1 t1) A2 ltac:(lia)) as (Y1 & Y2 & _).
      repeat split; try assumption; lia. }
  destruct (can_exchange_x t o) eqn:Ec.
  - apply Hfin; try assumption; try reflexivity. intros X. congruence.
  - pose proof (adjust_ok c1 H1 t (b_size c2 o) Ht ltac:(lia)) as HA.
    destruct (adjust c1 t (b_size c2 o)) as [[t1 ev1]|e].
    + destruct HA as (A & B & C & _).
      pose proof (adjust_ok c2 H2 o (b_size c1 t1) Ho ltac:(lia)) as HB.
      destruct (adjust c2 o (b_size c1 t1)) as [[o1 ev2]|e].
      * destruct HB as (A' & B' & C' & _). apply Hfin; try assumption; try lia.
      * destruct HB as [HB ->]. repeat split; try assumption; try lia. right; split; [reflexivity|lia].
    + destruct HA as [HA ->]. repeat split; try assumption; try lia. left; split; [reflexivity|lia].
Qed.

(* a swap2 that is possible (each size within the other's limit) succeeds *)
Corollary swap2x_total t o : BInv c1 t -> BInv c2 o -> b_size c2 o <= b_limit c1 -> b_size c1 t <= b_limit c2 ->
  exists t' o' e1 e2, swap2x t o = inl (t', o', e1, e2).
Proof. intros Ht Ho L1 L2. pose proof (swap2x_ok t o Ht Ho) as X. destruct (swap2x t o) as [[[[t' o'] e1] e2]|[[[[e t'] o'] e1] e2]].
  - exists t', o', e1, e2. reflexivity.
  - destruct X as (_ & _ & _ & _ & [[_ X]|[_ X]]); lia. Qed.
End X.

(* the guard of the model is the guard of the code: SwapGuardTV.v proves the definitions regenerated from swap_sizetype
   (four language standards, seven size-type pairs) equal to [SwapGuardTV.swap_st], whose condition is [st_throws] *)
From Amc Require SwapGuardTV.
Lemma st_throws_is_guard c1 c2 l r : st_throws c1 c2 l r = SwapGuardTV.st_guard (cM c1) (cM c2) l r.
Proof. reflexivity. Qed.
Lemma exchange_is_swap_st c1 c2 t o : exchange_buffers c1 c2 t o =
  match SwapGuardTV.swap_st (cM c1) (cM c2) (capa_ t) (capa_ o), SwapGuardTV.swap_st (cM c1) (cM c2) (size_ t) (size_ o) with
  | Some (ct, co), Some (st, so) => inl ({| capa_ := ct; size_ := st |}, {| capa_ := co; size_ := so |})
  | _, _ => inr OverflowError
  end.
Proof. unfold exchange_buffers, SwapGuardTV.swap_st. rewrite !st_throws_is_guard.
  destruct (SwapGuardTV.st_guard (cM c1) (cM c2) (capa_ t) (capa_ o)); [reflexivity|].
  destruct (SwapGuardTV.st_guard (cM c1) (cM c2) (size_ t) (size_ o)); reflexivity. Qed.
