(* vec::move_n with THROWING moves (vf::El<2>): the element part of a move assignment between two inline storages
   (StaticVectorBase::move_assign, SmallVectorBase::move_assign), whose callers write the size words only AFTER move_n returned:

     std::move (first, first + min (n, d_n), d_first);                                    move assignments, each one an event
     if (d_n < n) amc::uninitialized_move_n (first + d_n, n - d_n, d_first + d_n);         events; on a throw destroys what it built, rethrows
     else         amc::destroy_n (d_first + n, d_n - n);
     amc::destroy_n (first, n);

   Theorems (every length, capacity, base address, throw index; no axiom):
     [move_forward_disj]      std::move between two disjoint ranges: Done = the noexcept run; Threw: every element of both ranges alive
     [move_n_mt_basic]        Done  -> exactly what Transfer.move_n_spec gives (destination = the n values of the source in order, well
                                       formed for size n; EVERY slot of the source raw);
                              Threw -> source still a vector of n alive elements, destination still one of d_n alive elements (the sizes
                                       the untouched size words claim), every other slot of both ranges raw, nothing else touched;
                              never a lifetime error
     [move_n_mt_conserves]    Threw -> n + d_n objects alive over both ranges (nothing leaked, nothing destroyed twice); Done -> n
     [move_n_mt_none]         with no throw pending the model IS Transfer.move_n false *)
From Coq Require Import ZArith Lia Bool List Arith.
From Amc Require Import Throw EmplaceGrow Transfer SwapThrow.
From Amc Require ThrowMove.
Import ListNotations.

Definition move_n_mt (m : mem) (th : option nat) (first n d_first d_n : nat) : out :=
  match ThrowMove.move_forward m th first (Nat.min n d_n) d_first with
  | Done m1 th1 =>
      match (if d_n <? n then ThrowMove.uninit_move_n m1 th1 (first + d_n) (n - d_n) (d_first + d_n)
             else lift (destroy_n m1 (d_first + n) (d_n - n)) th1) with
      | Done m2 th2 => lift (destroy_n m2 first n) th2
      | o => o end
  | o => o end.

Lemma move_forward_disj : forall c m th src dst, (src + c <= dst \/ dst + c <= src) ->
  (forall k, k < c -> alive (m (src + k)) = true) -> (forall k, k < c -> alive (m (dst + k)) = true) ->
  match ThrowMove.move_forward m th src c dst with
  | Done m' _ => mv_forward m src c dst = inl m'
  | Threw m' => (forall k, k < c -> alive (m' (src + k)) = true) /\ (forall k, k < c -> alive (m' (dst + k)) = true) /\
                (forall j, ~ (src <= j < src + c) -> ~ (dst <= j < dst + c) -> m' j = m j)
  | Err _ => False end.
Proof.
  induction c as [|c IH]; intros m th src dst HD Hs Hd; cbn [ThrowMove.move_forward mv_forward]; [reflexivity|].
  pose proof (Hs 0 ltac:(lia)) as Hs0. pose proof (Hd 0 ltac:(lia)) as Hd0. rewrite Nat.add_0_r in Hs0, Hd0.
  rewrite (ThrowMove.move_assign_ok m th dst src Hd0 Hs0), (mv_assign_ok m dst src Hd0 Hs0).
  destruct (tick th) as [[|] th1]; cbn [fst snd].
  { split; [exact Hs|]. split; [exact Hd|reflexivity]. }
  set (m1 := upd (upd m dst (m src)) src Moved).
  assert (Hs' : forall k, k < c -> alive (m1 (S src + k)) = true).
  { intros k Hk. pose proof (Hs (S k) ltac:(lia)) as W. replace (src + S k) with (S src + k) in W by lia. unfold m1. updsimp. }
  assert (Hd' : forall k, k < c -> alive (m1 (S dst + k)) = true).
  { intros k Hk. pose proof (Hd (S k) ltac:(lia)) as W. replace (dst + S k) with (S dst + k) in W by lia. unfold m1. updsimp. }
  specialize (IH m1 th1 (S src) (S dst) ltac:(lia) Hs' Hd').
  destruct (ThrowMove.move_forward m1 th1 (S src) c (S dst)) as [m' th'|m'|e]; [exact IH| |exact IH].
  destruct IH as (Q1 & Q2 & Q3). split; [|split].
  - intros k Hk. destruct k as [|k].
    + rewrite Nat.add_0_r. rewrite Q3 by lia. unfold m1. updsimp.
    + replace (src + S k) with (S src + k) by lia. apply Q1. lia.
  - intros k Hk. destruct k as [|k].
    + rewrite Nat.add_0_r. rewrite Q3 by lia. unfold m1. pose proof Hs0. updsimp.
    + replace (dst + S k) with (S dst + k) by lia. apply Q2. lia.
  - intros j J1 J2. rewrite Q3 by lia. unfold m1. updsimp.
Qed.

Theorem move_n_mt_basic m th bs n caps bd dn capd :
  Rng m bs n caps -> Rng m bd dn capd -> Disj bs caps bd capd -> n <= capd ->
  match move_n_mt m th bs n bd dn with
  | Done m' _ => content m' bd n = content m bs n /\ Rng m' bd n capd /\ Rng m' bs 0 caps /\
                 (forall j, ~ inR bs caps j -> ~ inR bd capd j -> m' j = m j)
  | Threw m' => ARng m' bs n caps /\ ARng m' bd dn capd /\ (forall j, ~ inR bs caps j -> ~ inR bd capd j -> m' j = m j)
  | Err _ => False end.
Proof.
  intros RS RD HD Hfit. pose proof RS as (A1 & A2 & A3). pose proof RD as (B1 & B2 & B3). unfold Disj in HD.
  pose proof (move_n_spec false m None bs n caps bd dn capd RS RD HD Hfit) as MS. unfold move_n in MS.
  unfold move_n_mt. set (c := Nat.min n dn) in *.
  assert (Hs : forall k, k < c -> alive (m (bs + k)) = true) by (intros k Hk; apply live_alive, A2; unfold c in Hk; lia).
  assert (Hd : forall k, k < c -> alive (m (bd + k)) = true) by (intros k Hk; apply live_alive, B2; unfold c in Hk; lia).
  pose proof (move_forward_disj c m th bs bd ltac:(unfold c; lia) Hs Hd) as F.
  destruct (mv_forward_disj c m bs bd ltac:(unfold c; lia) Hs Hd) as [m1' (E1 & P1 & P2 & P3)].
  destruct (ThrowMove.move_forward m th bs c bd) as [m1 th1|m1|e]; [| |exact F].
  2:{ (* a move assignment of the common prefix throws *)
    destruct F as (Q1 & Q2 & Q3). split; [|split].
    - split; [exact A1|]. split; intros i Hi.
      + destruct (lt_dec i c) as [L|L]; [apply Q1; exact L|]. rewrite Q3 by lia. apply live_alive, A2, Hi.
      + rewrite Q3 by (unfold c; lia). apply A3, Hi.
    - split; [exact B1|]. split; intros i Hi.
      + destruct (lt_dec i c) as [L|L]; [apply Q2; exact L|]. rewrite Q3 by lia. apply live_alive, B2, Hi.
      + rewrite Q3 by (unfold c; lia). apply B3, Hi.
    - intros j J1 J2. unfold inR in J1, J2. apply Q3; unfold c; lia. }
  rewrite E1 in F. injection F as <-. rewrite E1 in MS. cbn [bindE] in MS.
  destruct (Nat.ltb_spec dn n) as [Hlt|Hge].
  - (* the source is longer: its tail is move-constructed behind the destination's elements *)
    assert (Ec : c = dn) by (unfold c; lia). rewrite Ec in P1, P2, P3.
    assert (Ta : forall k, k < n - dn -> alive (m1' (bs + dn + k)) = true).
    { intros k Hk. rewrite P3 by lia. replace (bs + dn + k) with (bs + (dn + k)) by lia. apply live_alive, A2. lia. }
    assert (Tr : forall k, k < n - dn -> m1' (bd + dn + k) = Raw).
    { intros k Hk. rewrite P3 by lia. replace (bd + dn + k) with (bd + (dn + k)) by lia. apply B3. lia. }
    pose proof (ThrowMove.uninit_move_n_kept m1' th1 (bs + dn) (n - dn) (bd + dn) ltac:(lia) Ta Tr) as U.
    destruct (ThrowMove.uninit_move_n m1' th1 (bs + dn) (n - dn) (bd + dn)) as [m2 th2|m2|e]; [| |exact U].
    + rewrite U in MS. cbn [bindE] in MS. destruct (destroy_n m2 bs n) as [m3|e]; cbn [lift ThrowMove.lift] in MS |- *; [|exact MS].
      destruct MS as (_ & MS). exact MS.
    + destruct U as (K1 & K2). split; [|split].
      * split; [exact A1|]. split; intros i Hi.
        -- destruct (lt_dec i dn) as [L|L]; [rewrite K2 by lia; rewrite P2 by exact L; reflexivity|].
           apply K1. lia.
        -- rewrite K2 by lia. rewrite P3 by lia. apply A3, Hi.
      * split; [exact B1|]. split; intros i Hi.
        -- rewrite K2 by lia. rewrite P1 by exact Hi. apply live_alive, A2. lia.
        -- rewrite K2 by lia. rewrite P3 by lia. apply B3, Hi.
      * intros j J1 J2. unfold inR in J1, J2. rewrite K2 by lia. apply P3; lia.
  - (* the destination is at least as long: its surplus is destroyed; no further event *)
    destruct (destroy_n m1' (bd + n) (dn - n)) as [m2|e]; cbn [lift ThrowMove.lift bindE] in MS |- *; [|exact MS].
    destruct (destroy_n m2 bs n) as [m3|e]; cbn [lift ThrowMove.lift] in MS |- *; [|exact MS].
    destruct MS as (_ & MS). exact MS.
Qed.

Theorem move_n_mt_conserves m th bs n caps bd dn capd :
  Rng m bs n caps -> Rng m bd dn capd -> Disj bs caps bd capd -> n <= capd ->
  match move_n_mt m th bs n bd dn with
  | Done m' _ => count_live m' bs caps + count_live m' bd capd = n
  | Threw m' => count_live m' bs caps + count_live m' bd capd = n + dn
  | Err _ => False end.
Proof.
  intros RS RD HD Hfit. pose proof (move_n_mt_basic m th bs n caps bd dn capd RS RD HD Hfit) as Sp.
  destruct (move_n_mt m th bs n bd dn) as [m' th'|m'|e]; [| |exact Sp].
  - destruct Sp as (_ & S1 & S2 & _). rewrite (Rng_count _ _ _ _ S1), (Rng_count _ _ _ _ S2). lia.
  - destruct Sp as (S1 & S2 & _). rewrite (ARng_count _ _ _ _ S1), (ARng_count _ _ _ _ S2). lia.
Qed.

Theorem move_n_mt_none m first n d_first d_n : move_n_mt m None first n d_first d_n = lift (Transfer.move_n false m first n d_first d_n) None.
Proof.
  unfold move_n_mt, Transfer.move_n. rewrite ThrowMove.move_forward_none.
  destruct (mv_forward m first (Nat.min n d_n) d_first) as [m1|e]; cbn [lift ThrowMove.lift bindE]; [|reflexivity].
  destruct (d_n <? n).
  - rewrite ThrowMove.uninit_move_n_none. destruct (mv_uninit_n m1 (first + d_n) (n - d_n) (d_first + d_n)) as [m2|e];
      cbn [lift ThrowMove.lift bindE]; reflexivity.
  - destruct (destroy_n m1 (d_first + n) (d_n - n)) as [m2|e]; cbn [lift ThrowMove.lift bindE]; reflexivity.
Qed.

(* ---- non-vacuity -------------------------------------------------------------------------------------------------------------------------
   source [10, 11, 12] (capacity 3) into destination [20, raw, raw, raw] (Transfer.init2 3 3 1 4: range 2 at 6): throw index 2 = the second
   move construction of the tail throws: the first one is rolled back (its value is lost); source [moved-from, moved-from, 12], destination [10]: sizes 3 and 1 *)
Example move_n_mt_ex :
  show (move_n_mt (init2 3 3 1 4) (Some 2) 0 3 6 1) 11
    = Some (true, [Moved; Moved; Live 12; Out; Raw; Out; Live 10; Raw; Raw; Raw; Out]%Z) /\
  show (move_n_mt (init2 3 3 1 4) (Some 0) 0 3 6 1) 11
    = Some (true, [Live 10; Live 11; Live 12; Out; Raw; Out; Live 20; Raw; Raw; Raw; Out]%Z) /\
  show (move_n_mt (init2 3 3 1 4) (Some 3) 0 3 6 1) 11
    = Some (false, [Raw; Raw; Raw; Out; Raw; Out; Live 10; Live 11; Live 12; Raw; Out]%Z).
Proof. repeat split; vm_compute; reflexivity. Qed.

Print Assumptions move_n_mt_basic.
Print Assumptions move_n_mt_conserves.
Print Assumptions move_n_mt_none.
