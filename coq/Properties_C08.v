(* C08 - capacity-limit errors are clean.
   [C08_threw_unchanged]: whenever an operation of the model throws (out_of_range of a FixedCapacityVector, overflow_error
   of a dynamic vector at its size_type maximum, out_of_range of at()), every container of the pool holds the element
   sequence it held before, and - except for swap2, whose first operand may already have grown - every container is
   IDENTICAL (same words: size, capacity, storage) and no allocator request was made; the exception is the flavour's
   (lim_exn).  Single-pass input ranges are excluded (known findings: their length is not known in advance), and so
   are constructors (a constructor that throws leaves no object).
   [C08_throws_exactly_at_the_limit_*]: the growing combinators every operation is made of throw exactly when the
   resulting size exceeds the limit (N, or the size_type maximum), and otherwise produce a well-formed container with the
   requested contents: no size computation wraps (sizes are Z; the word updates are proved in range by the invariant). *)
From Coq Require Import ZArith List Bool.
From Amc Require Import GenPrelude Words VecModel VecProofs.
Import ListNotations.
Local Open Scope Z_scope.

Theorem C08_threw_unchanged :
  forall (c : vcfg), cfg_ok c -> forall (p : pool) (o : op) (p' : pool) (e : exn) (ev : list aevent),
    PInv c p -> step c p o = (p', RThrew e, ev) -> single_pass o = false -> is_ctor o = false ->
    (forall k, contents p' k = contents p k) /\
    (match o with Swap2 _ _ => True | _ => (forall k, get p' k = get p k) /\ ev = [] end) /\
    e = match o with At _ _ => OutOfRange | _ => lim_exn c end.
Proof. exact step_threw. Qed.

Theorem C08_throws_exactly_at_the_limit_set :
  forall (c : vcfg), cfg_ok c -> forall (v : vec) (cond : bool) (n : Z) (els' : list Z),
    VInv c v -> 0 <= n -> len els' = n -> (cond = false -> n <= b_capacity c (w v)) ->
    ROk_post c v n els' (grow_set c v cond n els').
Proof. exact grow_set_ok. Qed.

Theorem C08_throws_exactly_at_the_limit_one :
  forall (c : vcfg), cfg_ok c -> forall (v : vec) (els' : list Z),
    VInv c v -> len els' = len (els v) + 1 -> ROk_post c v (len (els v) + 1) els' (one_incr c v els').
Proof. exact one_incr_ok. Qed.

(* non-vacuity: a full FixedCapacityVector<_,3> and a vector with an 8-bit size type holding 255 elements *)
Example C08_example_fcv :
  let c := {| fl := FFCV; cN := 3; cM := 255; csigned := false; ccat := NTR; calloc := ANone |} in
  let p := run c init_pool [CtorRange 0 RFwd [1;2;3]] in
  snd (fst (step c p (PushBack 0 (AExt 9)))) = RThrew OutOfRange /\ snd (fst (step c p (InsertN 0 1 2 (AExt 9)))) = RThrew OutOfRange.
Proof. vm_compute. split; reflexivity. Qed.
Example C08_example_u8 :
  let c := {| fl := FVec; cN := 0; cM := 255; csigned := false; ccat := TR; calloc := ALedR |} in
  let p := run c init_pool [CtorN 0 255] in
  snd (fst (step c p (EmplaceBack 0 (AExt 9)))) = RThrew OverflowError /\ snd (fst (step c p (PopBack 0))) = ROk.
Proof. vm_compute. split; reflexivity. Qed.

(* The capacity test of the growing policy is the code's: [adjust] (throwing exactly when the growth policy / the fixed capacity
   refuses) is proved equal (Gen/BaseTV_<S>.v) to adjustCapacity(uintmax_t) of DynamicVector / StaticVector as regenerated on
   every run from clang's AST, composed with the regenerated grow / SafeNextCapacity / ExceptionGrowingPolicy::Check. *)
From Amc.Gen Require BaseTV_u8 BaseTV_u32.
Theorem C08_adjust_is_the_regenerated_one_smallvector_u8 :
  forall c, cM c = 255 -> forall st need, fl c = FSV -> Words.WInv 255 (cN c) st -> 0 <= need < 2 ^ 63 -> 255 < 2 ^ 62 ->
    mk_wrap c = wrap_u8 -> BaseTV_u8.one c (Base_u8.sv_adjustCapacity st need) = BaseTV_u8.res1 (adjust c st need).
Proof. exact BaseTV_u8.sv_adjust_tv. Qed.
Theorem C08_adjust_is_the_regenerated_one_vector_u8 :
  forall c, cM c = 255 -> forall st need, fl c = FVec -> BaseTV_u8.InRange st -> 0 <= need < 2 ^ 63 -> 255 < 2 ^ 62 ->
    mk_wrap c = wrap_u8 -> BaseTV_u8.one c (Base_u8.std_adjustCapacity st need) = BaseTV_u8.res1 (adjust c st need).
Proof. exact BaseTV_u8.std_adjust_tv. Qed.
Theorem C08_adjust_is_the_regenerated_one_fixedcapacity :
  forall c st need, fl c = FFCV -> BaseTV_u8.InRange st ->
    BaseTV_u8.one c (Base_u8.fcv_adjustCapacity st need) = BaseTV_u8.res1 (adjust c st need).
Proof. exact BaseTV_u8.fcv_adjust_tv. Qed.
(* emplace_back / push_back at the limit: the capacity request of the regenerated code is the model's adjust_one / adjust.
   For uint32_t this obligation was NOT provable on the tree before the repair "emplace / emplace_back compute the needed size
   in uintmax_t": size() + 1U wrapped to 0 at size = max (known_findings.json, fixed entry with the 4 GiB witness). *)
Theorem C08_emplace_back_is_the_regenerated_one_vector_u32 :
  forall c, cM c = 4294967295 -> 4294967295 < 2 ^ 62 -> mk_wrap c = wrap_u32 -> forall st, fl c = FVec -> BaseTV_u32.InRange st -> size_ st <= capa_ st ->
    BaseTV_u32.one c (Base_u32.std_emplace_back st) = BaseTV_u32.w_incr c (adjust_one c st).
Proof. exact BaseTV_u32.std_emplace_back_tv. Qed.
Theorem C08_push_back_is_the_regenerated_one_smallvector_u8 :
  forall c, cM c = 255 -> cfg_ok c -> 255 < 2 ^ 62 -> mk_wrap c = wrap_u8 -> forall st, fl c = FSV -> Words.WInv 255 (cN c) st ->
    BaseTV_u8.one c (Base_u8.sv_push_back st) = BaseTV_u8.w_incr c (adjust c st (b_size c st + 1)).
Proof. exact BaseTV_u8.sv_push_back_tv. Qed.
