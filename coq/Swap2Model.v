(* C13 - swap2 between any two vector flavours (vectorcommon.hpp: VectorImpl::swap2 = adjustEachOtherCapacity + swap2_impl,
   canSwapDynStorage / swapDynStorage of the three bases, swap_sizetype), as a function on the size words of two vectors with
   DIFFERENT configurations (flavour, inline capacity, size_type, allocator type), over the base interface of VecModel.v.
   Element sequences are exchanged by the step (swap_deep or buffer exchange); what is modelled and proved here is the part
   where the historic defects lived: which path is taken, when it throws, and what the words are afterwards. *)
From Coq Require Import ZArith List Bool.
From Amc Require Import GenPrelude Words VecModel.
Import ListNotations.
Local Open Scope Z_scope.

Definition akind_eqb (a b : akind) : bool :=
  match a, b with ANone, ANone | AAmc, AAmc | ALed, ALed | ALedR, ALedR => true | _, _ => false end.

(* what the driver observes of the storage pointer: a SmallVector that was handed the (null, capacity 0) buffer of an empty
   amc::vector is 'large' with a null pointer (its release is deallocate(nullptr, 0), which [b_heap] accounts for) *)
Definition obs_store (c : vcfg) (x : words) : store :=
  match b_store c x with SHeap => if b_capacity c x =? 0 then SNull else SHeap | s => s end.

Section X.
Variables c1 c2 : vcfg.

Definition can_swap_dyn_x (t o : words) : bool :=
  akind_eqb (calloc c1) (calloc c2) &&
  match fl c1, fl c2 with
  | FFCV, _ | _, FFCV => false
  | FVec, FVec => true
  | FVec, FSV => negb (isSmall o)
  | FSV, FVec => negb (isSmall t)
  | FSV, FSV => negb (isSmall t) && negb (isSmall o)
  end.
(* canExchangeDynStorage: both use a dynamic buffer AND each capacity can be stored in the other size_type; otherwise swap2
   swaps element by element, which only needs the sizes to fit *)
Definition can_exchange_x (t o : words) : bool :=
  can_swap_dyn_x t o && (b_capacity c1 t <=? cM c2) && (b_capacity c2 o <=? cM c1).
(* swap_sizetype(lhs, rhs): overflow_error when a value does not fit the other size_type (compared by the maxima) *)
Definition st_throws (l r : Z) : bool :=
  ((cM c1 <? cM c2) && (cM c1 <? r)) || ((cM c2 <? cM c1) && (cM c2 <? l)).

Definition exchange_buffers (t o : words) : (words * words) + exn :=
  if st_throws (capa_ t) (capa_ o) then inr OverflowError
  else if st_throws (size_ t) (size_ o) then inr OverflowError   (* cannot happen once the capacities fit: see below *)
  else inl ({| capa_ := capa_ o; size_ := size_ o |}, {| capa_ := capa_ t; size_ := size_ t |}).

Definition swap2x (t o : words) : (words * words * list aevent * list aevent) + (exn * words * words * list aevent * list aevent) :=
  let adjusted :=
    if can_exchange_x t o then inl (t, o, [], [])
    else match adjust c1 t (b_size c2 o) with
         | inr e => inr (e, t, o, [], [])
         | inl (t1, ev1) =>
             match adjust c2 o (b_size c1 t1) with
             | inr e => inr (e, t1, o, ev1, [])          (* the first operand has possibly grown already *)
             | inl (o1, ev2) => inl (t1, o1, ev1, ev2)
             end
         end in
  match adjusted with
  | inr r => inr r
  | inl (t1, o1, ev1, ev2) =>
      if can_exchange_x t1 o1 then
        match exchange_buffers t1 o1 with
        | inr e => inr (e, t1, o1, ev1, ev2)
        | inl (t', o') => inl (t', o', ev1, ev2)
        end
      else inl (b_setSize c1 t1 (b_size c2 o1), b_setSize c2 o1 (b_size c1 t1), ev1, ev2)
  end.
End X.
