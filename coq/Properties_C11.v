(* C11 - SmallSet iteration and iterator contract holds in and across both states.
   Iterators are positions in the iteration order of the active container (inline vector or backing set).
   - [C11_walk]: in either state the sequence walked from begin() to end() has exactly size() elements, no element twice,
     and they are the elements of the abstract set;
   - [C11_erase_returns_valid_position]: erase(position) returns the position of the element that followed, or end()
     exactly when nothing followed - also when the erasure empties the backing set and the set falls back to inline;
   - [C11_erase_loop_terminates]: the standard erase-while-iterating loop terminates after size() iterations, having
     erased exactly the elements selected and kept the others, in any state and across the transition;
   - insert / emplace / find: C04_insert_is_set_insert and C04_find_is_membership give "designates an element equivalent to
     the value" resp. "== end() exactly when absent". *)
From Coq Require Import ZArith List Bool.
From Amc Require Import Hint SetModel SetProofs.
Import ListNotations.

Theorem C11_walk :
  forall cmp, swo cmp -> forall N s, SInv cmp N s ->
    length (ss_elems s) = ss_size s /\ NoDup (ss_elems s) /\ (forall y, In y (ss_elems s) <-> In y (abs cmp s)).
Proof. exact S_walk. Qed.

Theorem C11_erase_returns_valid_position :
  forall cmp N s i, SInv cmp N s -> i < ss_size s ->
    ss_size (ss_erase_at s i) = ss_size s - 1 /\
    (i < ss_size (ss_erase_at s i) -> nth i (ss_elems (ss_erase_at s i)) 0%Z = nth (S i) (ss_elems s) 0%Z) /\
    (i = ss_size (ss_erase_at s i) <-> S i = ss_size s).
Proof. exact S_erase_pos. Qed.

Theorem C11_erase_loop_terminates :
  forall cmp N s k, SInv cmp N s ->
    let '(s', iters, erased) := erase_loop (KSmall N) (2 * ss_size s + 2) s 0 0 0 k in
    ss_elems s' = filter (keep k) (ss_elems s) /\ iters = ss_size s /\ erased + length (ss_elems s') = ss_size s /\ SInv cmp N s'.
Proof. exact S_erase_loop. Qed.

(* non-vacuity: the loop that used to end in bad_variant_access (large set of 3, N = 2, everything erased) *)
Example C11_example :
  let c := cmp_of CKLess in
  let p := fold_left (fun q o => fst (sstep c (KSmall 2) q o)) [SCtorRange 0 [1; 2; 3]%Z] sinit in
  snd (sstep c (KSmall 2) p (SEraseLoop 0 1%Z)) = SRLoop 3 3.
Proof. reflexivity. Qed.
