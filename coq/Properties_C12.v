(* C12 - a hint is only a hint: hinted insertion equals plain insertion for every hint.
   Statement over the model of FlatSet::insert_hint (flatset.hpp, iterators as offsets from begin()):
   for every comparator that is a strict weak order, every sorted content, every hint position in [begin, end] and
   every value, the hinted insertion returns the same list AND the same position as the plain insertion.
   [C12_hint_irrelevant_regenerated] is the same statement about the program regenerated from clang's AST of the
   current flatset.hpp (Gen/HintGen.v), through the translation-validation lemma insert_hint_tv. *)
From Coq Require Import ZArith Arith List Bool.
From Amc Require Import Hint HintPrims HintTV.
From Amc.Gen Require Import HintGen.
Import ListNotations.

Theorem C12_hint_irrelevant :
  forall (cmp : Z -> Z -> bool),
    (forall x, cmp x x = false) ->
    (forall x y z, cmp x y = true -> cmp y z = true -> cmp x z = true) ->
    (forall x y z, cmp x y = false -> cmp y z = false -> cmp x z = false) ->
    forall (l : list Z) (h : nat) (v : Z),
      sorted cmp l -> h <= length l -> insert_hint cmp l h v = insert_val cmp l v.
Proof. exact hint_is_hint. Qed.

Theorem C12_hint_irrelevant_regenerated :
  forall (cmp : Z -> Z -> bool) (l : list Z) (h : nat) (v : Z),
    (forall x, cmp x x = false) ->
    (forall x y z, cmp x y = true -> cmp y z = true -> cmp x z = true) ->
    (forall x y z, cmp x y = false -> cmp y z = false -> cmp x z = false) ->
    sorted cmp l -> h <= length l ->
    insert_hint_gen cmp l (Z.of_nat h) v = lift (insert_val cmp l v).
Proof. exact C12_on_generated. Qed.

(* the plain insertion keeps the list sorted and contains the value: the hinted one therefore too *)
Theorem C12_result_sorted :
  forall (cmp : Z -> Z -> bool),
    (forall x, cmp x x = false) ->
    (forall x y z, cmp x y = true -> cmp y z = true -> cmp x z = true) ->
    (forall x y z, cmp x y = false -> cmp y z = false -> cmp x z = false) ->
    forall (l : list Z) (h : nat) (v : Z),
      sorted cmp l -> h <= length l ->
      sorted cmp (fst (insert_hint cmp l h v)) /\
      cmp (nth (snd (insert_hint cmp l h v)) (fst (insert_hint cmp l h v)) 0%Z) v = false /\
      cmp v (nth (snd (insert_hint cmp l h v)) (fst (insert_hint cmp l h v)) 0%Z) = false.
Proof. exact hint_result_ok. Qed.

(* non-vacuity: a concrete sorted list, a wrong hint *)
Example C12_example : insert_hint Z.ltb [1; 3; 5; 7]%Z 4 4%Z = ([1; 3; 4; 5; 7]%Z, 2).
Proof. reflexivity. Qed.
