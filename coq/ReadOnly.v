(* C20 - concurrent const access to one container is race-free (the logical half).

   Model.  The memory shared by the threads is a [state : loc -> val].  One const operation of the library is the list
   of its memory accesses in program order ([op := list step], a step is [Read l] or [Write l v]); a thread is a list of
   operations; an execution is ANY interleaving of the threads' steps (sequentially consistent: the C++ memory model
   gives that to race-free programs, and race-freedom is what is proved).  Two events [conflict] when they come from
   different threads, touch the same location and one of them is a write: that is the data race of the standard, minus
   the happens-before refinements that only remove races.

   [C20_racefree]: if every step of every thread is a read, then for every interleaving
     (1) no two events conflict,
     (2) the state is unchanged, and
     (3) every thread observes exactly the values it observes when it runs alone from the initial state: each
         operation returns its sequential result (its result is a function of the values it read).

   The premise "every step is a read" is not assumed for the library: translator/footprint.py regenerates from the
   instantiated const member functions (and the copy constructors / comparison operators and everything they reach)
   a [table] of write sites, [no_writes] is evaluated on it by the kernel (Properties_C20.C20_footprint_readonly), and
   [C20_from_table] connects the two: any semantics of the table's entries that only writes where the table lists a write
   site ([respects]: this is what the extractor is trusted for) yields read-only threads, hence race-free executions. *)
From Coq Require Import List String Bool Arith Lia PeanoNat.
Import ListNotations.

Definition loc := nat.
Definition val := nat.
Definition state := loc -> val.

Inductive step := Read (l : loc) | Write (l : loc) (v : val).
Definition op := list step.
Definition thread := list op.
Definition event := (nat * step)%type.          (* thread number, step *)

Definition loc_of (st : step) : loc := match st with Read l => l | Write l _ => l end.
Definition is_write (st : step) : bool := match st with Write _ _ => true | Read _ => false end.

Definition upd (s : state) (l : loc) (v : val) : state := fun l' => if Nat.eqb l' l then v else s l'.

Definition run_step (s : state) (st : step) : state * val :=
  match st with
  | Read l => (s, s l)
  | Write l v => (upd s l v, v)
  end.

(* runs a schedule; the trace records, per event, the thread and the value it observed *)
Fixpoint run (s : state) (sched : list event) : state * list (nat * val) :=
  match sched with
  | [] => (s, [])
  | (i, st) :: rest =>
      let (s1, v) := run_step s st in
      let (s2, tr) := run s1 rest in
      (s2, (i, v) :: tr)
  end.

Definition steps_of (t : thread) : list step := List.concat t.

Fixpoint replace {A} (i : nat) (x : A) (l : list A) : list A :=
  match l, i with
  | [], _ => []
  | _ :: t, 0 => x :: t
  | h :: t, S i' => h :: replace i' x t
  end.

(* [interleaving ts sched]: sched consumes the step lists ts completely, each in its own order, in any global order *)
Inductive interleaving : list (list step) -> list event -> Prop :=
| il_done : forall ts, Forall (fun t => t = []) ts -> interleaving ts []
| il_step : forall ts i st rest sched,
    nth_error ts i = Some (st :: rest) ->
    interleaving (replace i rest ts) sched ->
    interleaving ts ((i, st) :: sched).

Definition conflict (e1 e2 : event) : Prop :=
  fst e1 <> fst e2 /\ loc_of (snd e1) = loc_of (snd e2) /\ (is_write (snd e1) = true \/ is_write (snd e2) = true).

Definition read_only_op (o : op) : Prop := Forall (fun st => is_write st = false) o.
Definition read_only_thread (t : thread) : Prop := Forall read_only_op t.

(* what thread i observed in a trace *)
Definition observed (i : nat) (tr : list (nat * val)) : list val :=
  map snd (filter (fun e => Nat.eqb (fst e) i) tr).

(* thread i alone *)
Definition alone (s : state) (i : nat) (steps : list step) : list val :=
  observed i (snd (run s (map (fun st => (i, st)) steps))).

(* ---------------------------------------------------------------------------------------------- lemmas *)
Lemma nth_replace {A} (l : list A) i j x y d :
  nth_error l i = Some y -> nth j (replace i x l) d = if Nat.eqb j i then x else nth j l d.
Proof.
  revert i j. induction l as [|h t IH]; intros i j H.
  - destruct i; discriminate.
  - destruct i as [|i'].
    + destruct j; reflexivity.
    + destruct j as [|j']; [reflexivity|]. cbn. apply IH. exact H.
Qed.

Lemma nth_of_nth_error {A} (l : list A) i y d : nth_error l i = Some y -> nth i l d = y.
Proof. revert i. induction l; intros [|i] H; try discriminate; cbn in *; [congruence | auto]. Qed.

Lemma interleaving_in ts sched :
  interleaving ts sched -> forall i st, In (i, st) sched -> In st (nth i ts []).
Proof.
  induction 1 as [ts Hd | ts i st rest sched Hn Hi IH]; intros j st' Hin.
  - destruct Hin.
  - destruct Hin as [Heq | Hin].
    + inversion Heq; subst. rewrite (nth_of_nth_error _ _ _ _ Hn). left; reflexivity.
    + specialize (IH _ _ Hin). rewrite (nth_replace _ _ _ _ _ _ Hn) in IH.
      destruct (Nat.eqb_spec j i) as [->|Hne].
      * rewrite (nth_of_nth_error _ _ _ _ Hn). right; exact IH.
      * exact IH.
Qed.

Lemma all_empty_nth (ts : list (list step)) i : Forall (fun t => t = []) ts -> nth i ts [] = [].
Proof.
  intros H. revert i. induction H as [|t ts Ht _ IH]; intros [|i]; cbn; auto.
Qed.

Lemma interleaving_proj ts sched :
  interleaving ts sched -> forall i, map snd (filter (fun e => Nat.eqb (fst e) i) sched) = nth i ts [].
Proof.
  induction 1 as [ts Hd | ts i st rest sched Hn Hi IH]; intros j.
  - cbn. symmetry. apply all_empty_nth. exact Hd.
  - cbn [filter fst]. specialize (IH j). rewrite (nth_replace _ _ _ _ _ _ Hn) in IH.
    destruct (Nat.eqb_spec i j) as [->|Hne].
    + rewrite Nat.eqb_refl in IH. cbn. rewrite IH. symmetry. apply nth_of_nth_error. exact Hn.
    + cbn. destruct (Nat.eqb_spec j i) as [E|_]; [congruence|]. exact IH.
Qed.

Definition all_reads (sched : list event) : Prop := forall e, In e sched -> is_write (snd e) = false.

Lemma run_reads s sched :
  all_reads sched -> run s sched = (s, map (fun e => (fst e, s (loc_of (snd e)))) sched).
Proof.
  induction sched as [|[i st] rest IH]; intros H; [reflexivity|].
  assert (Hst : is_write st = false) by (apply (H (i, st)); left; reflexivity).
  destruct st as [l | l v]; [|discriminate].
  cbn. rewrite IH; [reflexivity|]. intros e He. apply H. right; exact He.
Qed.

Lemma observed_map s i sched :
  observed i (map (fun e : event => (fst e, s (loc_of (snd e)))) sched)
  = map (fun st => s (loc_of st)) (map snd (filter (fun e => Nat.eqb (fst e) i) sched)).
Proof.
  unfold observed. induction sched as [|[j st] rest IH]; [reflexivity|].
  cbn. destruct (Nat.eqb j i); cbn; rewrite IH; reflexivity.
Qed.

Lemma read_only_steps (t : thread) : read_only_thread t -> Forall (fun st => is_write st = false) (steps_of t).
Proof.
  unfold steps_of. induction 1 as [|o t Ho _ IH]; cbn; [constructor|].
  apply Forall_app. split; assumption.
Qed.

Lemma nth_map_steps (threads : list thread) i :
  Forall read_only_thread threads -> Forall (fun st => is_write st = false) (nth i (map steps_of threads) []).
Proof.
  intros H. revert i. induction H as [|t ts Ht _ IH]; intros [|i]; cbn; try constructor.
  - apply read_only_steps. exact Ht.
  - apply IH.
Qed.

Lemma sched_all_reads (threads : list thread) sched :
  Forall read_only_thread threads -> interleaving (map steps_of threads) sched -> all_reads sched.
Proof.
  intros Hro Hi [i st] Hin. cbn.
  pose proof (interleaving_in _ _ Hi _ _ Hin) as Hst.
  pose proof (nth_map_steps threads i Hro) as Hall.
  rewrite Forall_forall in Hall. apply Hall. exact Hst.
Qed.

Lemma filter_self i (steps : list step) :
  filter (fun e : event => Nat.eqb (fst e) i) (map (fun st => (i, st)) steps) = map (fun st => (i, st)) steps.
Proof. induction steps; cbn; [reflexivity|]. rewrite Nat.eqb_refl, IHsteps. reflexivity. Qed.

Lemma alone_reads s i steps :
  Forall (fun st => is_write st = false) steps -> alone s i steps = map (fun st => s (loc_of st)) steps.
Proof.
  intros H. unfold alone. rewrite run_reads.
  - cbn [snd]. rewrite observed_map, filter_self, !map_map. cbn. reflexivity.
  - intros e He. apply in_map_iff in He. destruct He as [st [<- Hst]]. cbn.
    rewrite Forall_forall in H. apply H. exact Hst.
Qed.

(* ---------------------------------------------------------------------------------------------- the theorem *)
Theorem C20_racefree :
  forall (threads : list thread) (sched : list event) (s : state),
    Forall read_only_thread threads ->
    interleaving (map steps_of threads) sched ->
    (forall e1 e2, In e1 sched -> In e2 sched -> ~ conflict e1 e2)
    /\ fst (run s sched) = s
    /\ (forall i, observed i (snd (run s sched)) = alone s i (nth i (map steps_of threads) [])).
Proof.
  intros threads sched s Hro Hi.
  pose proof (sched_all_reads _ _ Hro Hi) as Hr.
  split; [|split].
  - intros e1 e2 H1 H2 [_ [_ [Hw | Hw]]].
    + rewrite (Hr _ H1) in Hw. discriminate.
    + rewrite (Hr _ H2) in Hw. discriminate.
  - rewrite run_reads by exact Hr. reflexivity.
  - intros i. rewrite run_reads by exact Hr. cbn [snd].
    rewrite observed_map, (interleaving_proj _ _ Hi i).
    rewrite alone_reads; [reflexivity|]. apply nth_map_steps. exact Hro.
Qed.

(* and the converse sanity: with a writer on the same location a conflict exists (the definition can be violated) *)
Lemma conflict_possible : exists e1 e2 : event, conflict e1 e2.
Proof. exists (0, Read 5), (1, Write 5 7). repeat split; cbn; auto. Qed.

(* ---------------------------------------------------------------------------------------------- the footprint table *)
Record entry := {
  cls : string;                 (* class (or "(free)") *)
  meth : string;                (* member function; "(data members)" for the per-class entry *)
  role : string;                (* const | helper | mutator | class  (see translator/footprint.py) *)
  insts : nat;                  (* number of instantiated bodies analysed *)
  writes : list string;         (* write sites found in the bodies *)
  mutable_fields : list string  (* mutable data members of the class *)
}.

Definition is_nil {A} (l : list A) : bool := match l with [] => true | _ => false end.
Definition no_writes (e : entry) : bool := is_nil (writes e) && is_nil (mutable_fields e).

Lemma is_nil_true {A} (l : list A) : is_nil l = true -> l = [].
Proof. destruct l; [reflexivity | discriminate]. Qed.

Theorem C20_from_footprint :
  forall table : list entry,
    forallb no_writes table = true -> forall e, In e table -> writes e = [] /\ mutable_fields e = [].
Proof.
  intros table H e He. rewrite forallb_forall in H. specialize (H e He).
  unfold no_writes in H. apply andb_true_iff in H. destruct H as [H1 H2].
  split; apply is_nil_true; assumption.
Qed.

(* A semantics of the table's entries (which accesses does one call perform, given its inputs - abstracted as a nat)
   respects the table when it writes only where the table lists a write site.  This is what the extractor is trusted
   for.  Under it, a clean table gives read-only threads, hence the conclusion of C20_racefree. *)
Definition respects (sem : entry -> nat -> op) : Prop :=
  forall e arg l v, In (Write l v) (sem e arg) -> writes e <> [] \/ mutable_fields e <> [].

Definition call := (entry * nat)%type.
Definition thread_of (sem : entry -> nat -> op) (calls : list call) : thread := map (fun c => sem (fst c) (snd c)) calls.

Theorem C20_from_table :
  forall (table : list entry) (sem : entry -> nat -> op) (progs : list (list call)) (sched : list event) (s : state),
    forallb no_writes table = true ->
    respects sem ->
    (forall p c, In p progs -> In c p -> In (fst c) table) ->
    interleaving (map steps_of (map (thread_of sem) progs)) sched ->
    (forall e1 e2, In e1 sched -> In e2 sched -> ~ conflict e1 e2)
    /\ fst (run s sched) = s
    /\ (forall i, observed i (snd (run s sched)) = alone s i (nth i (map steps_of (map (thread_of sem) progs)) [])).
Proof.
  intros table sem progs sched s Htab Hsem Hin Hi.
  apply C20_racefree; [|exact Hi].
  apply Forall_forall. intros t Ht. apply in_map_iff in Ht. destruct Ht as [p [<- Hp]].
  unfold read_only_thread, thread_of. apply Forall_forall. intros o Ho.
  apply in_map_iff in Ho. destruct Ho as [c [<- Hc]].
  apply Forall_forall. intros st Hst.
  destruct st as [l | l v]; [reflexivity|]. exfalso.
  destruct (C20_from_footprint table Htab (fst c) (Hin p c Hp Hc)) as [Hw Hm].
  destruct (Hsem _ _ _ _ Hst) as [H | H]; [apply H; exact Hw | apply H; exact Hm].
Qed.

(* ---------------------------------------------------------------------------------------------- not vacuous *)
(* two reader threads over a 3-cell container: thread 0 does size() then operator[](1); thread 1 does find (two probes) *)
Definition ex_threads : list thread := [ [[Read 0]; [Read 2]] ; [[Read 0; Read 1; Read 2]] ].
Definition ex_sched : list event := [ (1, Read 0); (0, Read 0); (1, Read 1); (0, Read 2); (1, Read 2) ].
Definition ex_state : state := fun l => match l with 0 => 2 | 1 => 10 | 2 => 20 | _ => 0 end.

Example ex_is_interleaving : interleaving (map steps_of ex_threads) ex_sched.
Proof.
  unfold ex_sched. cbn.
  eapply il_step; [reflexivity|cbn].
  eapply il_step; [reflexivity|cbn].
  eapply il_step; [reflexivity|cbn].
  eapply il_step; [reflexivity|cbn].
  eapply il_step; [reflexivity|cbn].
  apply il_done. repeat constructor.
Qed.

Example ex_read_only : Forall read_only_thread ex_threads.
Proof. repeat constructor. Qed.

Example ex_observations :
  observed 0 (snd (run ex_state ex_sched)) = [2; 20] /\ observed 1 (snd (run ex_state ex_sched)) = [2; 10; 20]
  /\ alone ex_state 0 (nth 0 (map steps_of ex_threads) []) = [2; 20].
Proof. repeat split. Qed.

(* the same schedule with a writer in thread 1 (a cached lookup) is rejected by the premise and does have a conflict *)
Example ex_writer_conflicts :
  let sched := [ (1, Write 3 1); (0, Read 3) ] in
  exists e1 e2, In e1 sched /\ In e2 sched /\ conflict e1 e2.
Proof. cbn. exists (1, Write 3 1), (0, Read 3). repeat split; cbn; auto. Qed.

(* a table with a write site does not pass *)
Example ex_dirty_table :
  forallb no_writes [ {| cls := "FlatSet"; meth := "find"; role := "const"; insts := 1;
                         writes := ["assign to this [this->_cacheKey]"%string]; mutable_fields := [] |} ] = false.
Proof. reflexivity. Qed.
