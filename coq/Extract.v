(* Extraction of the executable models to OCaml (ExtrOcamlBasic only: bool, option, unit, prod, list, sumbool, sumor
   are mapped to the OCaml types; Z / positive / nat stay the extracted inductives). *)
Require Extraction.
Require Import ExtrOcamlBasic.
From Amc Require Import GenPrelude Words VecModel SetModel Swap2Model.
Extraction Language OCaml.
Extraction "../harness/ocaml/gen/vecmodel.ml" VecModel.step VecModel.describe VecModel.init_pool VecModel.mk_wrap.
Extraction "../harness/ocaml/gen/setmodel.ml" SetModel.sstep SetModel.sdescribe SetModel.sinit SetModel.cmp_of.
Extraction "../harness/ocaml/gen/swap2model.ml" Swap2Model.swap2x VecModel.b_size VecModel.b_capacity Swap2Model.obs_store.
