(* Invariants of the vector model (VecModel.v): the words always encode the length of the element sequence, the capacity
   contract, where begin() points; proved once for the base interface of the three flavours, then for every operation. *)
From Coq Require Import ZArith List Bool Lia.
Require Import ZifyBool.
From Amc Require Import GenPrelude Words VecModel.
Import ListNotations.
Local Open Scope Z_scope.
Ltac Zify.zify_post_hook ::= Z.div_mod_to_equations.

Definition cfg_ok (c : vcfg) : Prop :=
  0 < cM c /\
  match fl c with
  | FSV => 0 < cN c < cM c
  | FVec => cN c = 0
  | FFCV => 0 < cN c <= cM c
  end.

Lemma mk_wrap_id c x : 0 < cM c -> 0 <= x <= cM c -> mk_wrap c x = x.
Proof. intros HM Hx. unfold mk_wrap. destruct (csigned c); [|apply Z.mod_small; lia].
  rewrite Z.mod_small by lia. lia. Qed.

Section Base.
Variable c : vcfg.
Hypothesis Hc : cfg_ok c.
Local Notation M := (cM c).
Local Notation N := (cN c).

Definition BInv (x : words) : Prop :=
  match fl c with
  | FSV => WInv M N x
  | FVec => 0 <= size_ x <= capa_ x /\ capa_ x <= M
  | FFCV => capa_ x = N /\ 0 <= size_ x <= N
  end.

Lemma HM : 0 < M. Proof. apply Hc. Qed.
Lemma wrap_ok : forall x, 0 <= x <= M -> mk_wrap c x = x.
Proof. intros. apply mk_wrap_id; [apply Hc|assumption]. Qed.

Ltac flav := unfold BInv, b_size, b_capacity, b_setSize, b_incrSize, b_decrSize, b_store, b_heap, b_init in *;
  pose proof Hc as [HM0 HN0]; destruct (fl c) eqn:Efl.

Lemma b_init_ok : BInv (b_init c) /\ b_size c (b_init c) = 0.
Proof. flav.
  - unfold p_size; cbn. lia.
  - destruct (init_ok M N HN0) as (A & B & _). split; assumption.
  - unfold p_size; cbn. lia. Qed.

Lemma b_size_cap x : BInv x -> 0 <= b_size c x <= b_capacity c x /\ b_capacity c x <= M.
Proof. intros H. flav; unfold p_size, p_capacity; try lia.
  apply (size_le_capacity M N); assumption. Qed.

Lemma fcv_cap x : fl c = FFCV -> BInv x -> b_capacity c x = N.
Proof. intros E H. unfold BInv, b_capacity in *. rewrite E in *. unfold p_capacity. tauto. Qed.

Lemma b_setSize_ok x n : BInv x -> 0 <= n <= b_capacity c x ->
  BInv (b_setSize c x n) /\ b_size c (b_setSize c x n) = n /\ b_capacity c (b_setSize c x n) = b_capacity c x /\
  b_store c (b_setSize c x n) = b_store c x.
Proof. intros H Hn. flav; unfold p_size, p_capacity, p_setSize in *; cbn [capa_ size_]; try (repeat split; lia).
  destruct (setSize_ok M N HN0 x n H Hn) as (A & B & C & D). rewrite D. split; [exact A|split; [exact B|split; [exact C|reflexivity]]]. Qed.

Lemma b_incr_ok x : BInv x -> b_size c x < b_capacity c x ->
  BInv (b_incrSize c x) /\ b_size c (b_incrSize c x) = b_size c x + 1 /\ b_capacity c (b_incrSize c x) = b_capacity c x /\
  b_store c (b_incrSize c x) = b_store c x.
Proof. intros H Hn. flav; unfold p_size, p_capacity, p_incrSize in *; cbn [capa_ size_] in *.
  - rewrite wrap_ok by lia. repeat split; lia.
  - destruct (incr_ok M (mk_wrap c) N HN0 wrap_ok x H Hn) as (A & B & C & D). rewrite D. split; [exact A|split; [exact B|split; [exact C|reflexivity]]].
  - rewrite wrap_ok by lia. repeat split; lia. Qed.

Lemma b_decr_ok x : BInv x -> 0 < b_size c x ->
  BInv (b_decrSize c x) /\ b_size c (b_decrSize c x) = b_size c x - 1 /\ b_capacity c (b_decrSize c x) = b_capacity c x /\
  b_store c (b_decrSize c x) = b_store c x.
Proof. intros H Hn. flav; unfold p_size, p_capacity, p_decrSize in *; cbn [capa_ size_] in *.
  - rewrite wrap_ok by lia. repeat split; lia.
  - destruct (decr_ok M (mk_wrap c) N HN0 wrap_ok x H Hn) as (A & B & C & D). rewrite D. split; [exact A|split; [exact B|split; [exact C|reflexivity]]].
  - rewrite wrap_ok by lia. repeat split; lia. Qed.

(* ---- growth -------------------------------------------------------------------------------------------------- *)
Lemma safe_next_some old need : 0 <= old <= M -> 0 <= need ->
  match safe_next M (mk_wrap c) old need false with
  | None => M < need
  | Some n => need <= n <= M /\ old <= n
  end.
Proof. intros Ho Hn. pose proof (safe_next_spec M (mk_wrap c) wrap_ok old need Ho Hn) as H.
  destruct (safe_next M (mk_wrap c) old need false); [|assumption]. destruct H as [H1 H2]. split; [assumption|].
  rewrite H2. assert (old <= (3 * old + 1) / 2) by lia. lia. Qed.

Definition is_alloc (e : aevent) : bool := match e with EDealloc _ => false | _ => true end.

Lemma b_grow_ok x need exact : BInv x -> b_capacity c x < need -> (exact = true -> need <= M) -> fl c <> FFCV ->
  match b_grow c x need exact with
  | None => M < need /\ exact = false
  | Some (x', ev) => BInv x' /\ b_size c x' = b_size c x /\ need <= b_capacity c x' /\ b_store c x' = SHeap /\ ev <> []
  end.
Proof. intros H Hn He Hf. pose proof (b_size_cap x H) as Hsc. unfold b_grow.
  flav; try congruence; unfold p_size, p_capacity in *.
  - (* FVec *) destruct exact.
    + unfold safe_next. rewrite wrap_ok by lia. cbn [capa_ size_].
      assert (need =? 0 = false) as -> by lia. repeat split; try lia. unfold realloc_events. destruct (is_tr c && has_realloc c); discriminate.
    + pose proof (safe_next_some (capa_ x) need ltac:(lia) ltac:(lia)) as Hs.
      destruct (safe_next M (mk_wrap c) (capa_ x) need false) as [n|]; [|split; [assumption|reflexivity]].
      cbn [capa_ size_]. assert (n =? 0 = false) as -> by lia. repeat split; try lia. unfold realloc_events. destruct (is_tr c && has_realloc c); discriminate.
  - (* FSV *) destruct (isSmall x) eqn:Es.
    + destruct (inline_view M N HN0 x H Es) as (V1 & V2 & V3).
      assert (Hold : (if size_ x =? M then capa_ x else size_ x) <= N).
      { destruct x as [cx zx]. unfold WInv, isSmall in *. cbn [capa_ size_] in *. destruct (zx =? M) eqn:?; lia. }
      assert (Hold0 : 0 <= (if size_ x =? M then capa_ x else size_ x)).
      { destruct x as [cx zx]. unfold WInv, isSmall in *. cbn [capa_ size_] in *. destruct (zx =? M) eqn:?; lia. }
      set (old := if size_ x =? M then capa_ x else size_ x) in *.
      assert (Hres : forall n, need <= n <= M ->
                BInv {| capa_ := n; size_ := capa_ x |} /\ b_size c {| capa_ := n; size_ := capa_ x |} = Words.size x /\
                need <= b_capacity c {| capa_ := n; size_ := capa_ x |} /\ b_store c {| capa_ := n; size_ := capa_ x |} = SHeap).
      { intros n Hn'. assert (Hcx : 0 <= capa_ x <= N) by lia. unfold BInv, b_size, b_capacity, b_store. rewrite Efl.
        unfold isSmall in Es. unfold WInv, Words.size, Words.capacity, isSmall; cbn [capa_ size_]. rewrite Es.
        assert (n <? capa_ x = false) as -> by lia. cbn [andb]. repeat split; try lia. }
      destruct exact.
      * unfold safe_next. rewrite wrap_ok by lia.
        destruct (Hres need ltac:(lia)) as (A & B & C & D). unfold BInv, b_size, b_capacity, b_store in A, B, C, D. rewrite Efl in A, B, C, D.
        split; [exact A|split; [exact B|split; [exact C|split; [exact D|discriminate]]]].
      * pose proof (safe_next_some old need ltac:(lia) ltac:(lia)) as Hs.
        destruct (safe_next M (mk_wrap c) old need false) as [n|]; [|split; [assumption|reflexivity]].
        destruct (Hres n ltac:(lia)) as (A & B & C & D). unfold BInv, b_size, b_capacity, b_store in A, B, C, D. rewrite Efl in A, B, C, D.
        split; [exact A|split; [exact B|split; [exact C|split; [exact D|discriminate]]]].
    + destruct (heap_view M N x H Es) as (V1 & V2 & V3).
      assert (Hres : forall n, need <= n <= M ->
                BInv {| capa_ := n; size_ := size_ x |} /\ b_size c {| capa_ := n; size_ := size_ x |} = Words.size x /\
                need <= b_capacity c {| capa_ := n; size_ := size_ x |} /\ b_store c {| capa_ := n; size_ := size_ x |} = SHeap).
      { intros n Hn'. assert (Hcx : 0 <= size_ x <= capa_ x /\ capa_ x <= M /\ capa_ x < need) by lia.
        unfold BInv, b_size, b_capacity, b_store. rewrite Efl.
        unfold isSmall in Es. unfold WInv, Words.size, Words.capacity, isSmall; cbn [capa_ size_]. rewrite Es.
        assert (n <? size_ x = false) as -> by lia. cbn [andb]. repeat split; try lia. }
      destruct exact.
      * unfold safe_next. rewrite wrap_ok by lia.
        destruct (Hres need ltac:(lia)) as (A & B & C & D). unfold BInv, b_size, b_capacity, b_store in A, B, C, D. rewrite Efl in A, B, C, D.
        split; [exact A|split; [exact B|split; [exact C|split; [exact D|unfold realloc_events; destruct (is_tr c && has_realloc c); discriminate]]]].
      * pose proof (safe_next_some (capa_ x) need ltac:(lia) ltac:(lia)) as Hs.
        destruct (safe_next M (mk_wrap c) (capa_ x) need false) as [n|]; [|split; [assumption|reflexivity]].
        destruct (Hres n ltac:(lia)) as (A & B & C & D). unfold BInv, b_size, b_capacity, b_store in A, B, C, D. rewrite Efl in A, B, C, D.
        split; [exact A|split; [exact B|split; [exact C|split; [exact D|unfold realloc_events; destruct (is_tr c && has_realloc c); discriminate]]]].
Qed.
End Base.

(* ================================================================================================================ *)
Section Ops.
Variable c : vcfg.
Hypothesis Hc : cfg_ok c.
Local Notation M := (cM c).
Local Notation N := (cN c).
Local Notation BInv := (BInv c).

(* the largest size the flavour can hold, and the exception it raises beyond *)
Definition b_limit : Z := match fl c with FFCV => N | _ => M end.
Definition lim_exn : exn := match fl c with FFCV => OutOfRange | _ => OverflowError end.

Lemma cap_le_limit x : BInv x -> b_capacity c x <= b_limit.
Proof. intros H. pose proof (b_size_cap c Hc x H). unfold b_limit. destruct (fl c) eqn:E; try lia.
  rewrite (fcv_cap c x E H). lia. Qed.

Lemma adjust_ok x need : BInv x -> 0 <= need ->
  match adjust c x need with
  | inl (x', ev) => BInv x' /\ b_size c x' = b_size c x /\ need <= b_capacity c x' /\ b_capacity c x <= b_capacity c x' /\
                    need <= b_limit /\
                    (need <= b_capacity c x -> x' = x /\ ev = []) /\ (b_capacity c x < need -> b_store c x' = SHeap /\ ev <> [])
  | inr e => b_limit < need /\ e = lim_exn
  end.
Proof. intros H Hn. pose proof (b_size_cap c Hc x H) as Hsc. pose proof (cap_le_limit x H) as Hl. unfold adjust, b_limit, lim_exn in *.
  destruct (fl c) eqn:E.
  - destruct (Z.ltb_spec (b_capacity c x) need) as [Hlt|Hge].
    + pose proof (b_grow_ok c Hc x need false H Hlt ltac:(discriminate) ltac:(congruence)) as G.
      destruct (b_grow c x need false) as [[x' ev]|]; [|split; [tauto|reflexivity]].
      destruct G as (A & B & C & D & F). pose proof (b_size_cap c Hc x' A). repeat split; try assumption; try lia.
    + repeat split; try assumption; try lia.
  - destruct (Z.ltb_spec (b_capacity c x) need) as [Hlt|Hge].
    + pose proof (b_grow_ok c Hc x need false H Hlt ltac:(discriminate) ltac:(congruence)) as G.
      destruct (b_grow c x need false) as [[x' ev]|]; [|split; [tauto|reflexivity]].
      destruct G as (A & B & C & D & F). pose proof (b_size_cap c Hc x' A). repeat split; try assumption; try lia.
    + repeat split; try assumption; try lia.
  - unfold exc_check. pose proof (fcv_cap c x E H) as Hcap. destruct (Z.ltb_spec (b_capacity c x) need) as [Hlt|Hge].
    + split; [lia|reflexivity].
    + repeat split; try assumption; try lia.
Qed.

Lemma adjust_one_ok x : BInv x ->
  match adjust_one c x with
  | inl (x', ev) => BInv x' /\ b_size c x' = b_size c x /\ b_size c x + 1 <= b_capacity c x' /\ b_capacity c x <= b_capacity c x' /\
                    b_size c x + 1 <= b_limit /\
                    (b_size c x < b_capacity c x -> x' = x /\ ev = []) /\ (b_size c x = b_capacity c x -> b_store c x' = SHeap /\ ev <> [])
  | inr e => b_limit < b_size c x + 1 /\ e = lim_exn
  end.
Proof. intros H. pose proof (b_size_cap c Hc x H) as Hsc. pose proof (cap_le_limit x H) as Hl. unfold adjust_one, b_limit, lim_exn in *.
  destruct (fl c) eqn:E.
  - destruct (Z.eqb_spec (b_size c x) (b_capacity c x)) as [Heq|Hne].
    + pose proof (b_grow_ok c Hc x (b_size c x + 1) false H ltac:(lia) ltac:(discriminate) ltac:(congruence)) as G.
      destruct (b_grow c x (b_size c x + 1) false) as [[x' ev]|]; [|split; [tauto|reflexivity]].
      destruct G as (A & B & C & D & F). pose proof (b_size_cap c Hc x' A). repeat split; try assumption; try lia.
    + repeat split; try assumption; try lia.
  - destruct (Z.eqb_spec (b_size c x) (b_capacity c x)) as [Heq|Hne].
    + pose proof (b_grow_ok c Hc x (b_size c x + 1) false H ltac:(lia) ltac:(discriminate) ltac:(congruence)) as G.
      destruct (b_grow c x (b_size c x + 1) false) as [[x' ev]|]; [|split; [tauto|reflexivity]].
      destruct G as (A & B & C & D & F). pose proof (b_size_cap c Hc x' A). repeat split; try assumption; try lia.
    + repeat split; try assumption; try lia.
  - unfold exc_check. pose proof (fcv_cap c x E H) as Hcap. destruct (Z.ltb_spec (b_capacity c x) (b_size c x + 1)) as [Hlt|Hge].
    + split; [lia|reflexivity].
    + repeat split; try assumption; try lia.
Qed.
End Ops.

(* ================================================================================================================ *)
Section Containers.
Variable c : vcfg.
Hypothesis Hc : cfg_ok c.
Local Notation M := (cM c).
Local Notation N := (cN c).
Local Notation BInv := (BInv c).

(* the container invariant: the words are well formed and encode the length of the element sequence *)
Definition VInv (v : vec) : Prop := BInv (w v) /\ b_size c (w v) = len (els v).

Lemma len_nonneg l : 0 <= len l. Proof. unfold len. lia. Qed.
Lemma len_app a b : len (a ++ b) = len a + len b. Proof. unfold len. rewrite app_length. lia. Qed.
Lemma len_rep n x : 0 <= n -> len (rep n x) = n. Proof. intros. unfold len, rep. rewrite repeat_length. lia. Qed.
Lemma len_rep' n x : len (rep n x) = Z.max 0 n. Proof. unfold len, rep. rewrite repeat_length. lia. Qed.
Lemma len_take n l : 0 <= n -> len (take n l) = Z.min n (len l).
Proof. intros. unfold len, take. rewrite firstn_length. lia. Qed.
Lemma len_drop n l : 0 <= n -> len (drop n l) = Z.max 0 (len l - n).
Proof. intros. unfold len, drop. rewrite skipn_length. lia. Qed.
Lemma len_insert_list q xs l : 0 <= q <= len l -> len (insert_list q xs l) = len l + len xs.
Proof. intros. unfold insert_list. rewrite !len_app, len_take, len_drop by lia. lia. Qed.
Lemma len_set_nth l i x : len (set_nth l i x) = len l.
Proof. unfold len. f_equal. revert i. induction l as [|y l IH]; intros [|i]; cbn; auto. Qed.
Lemma len_after_move tc l g : len (after_move tc l g) = len l.
Proof. destruct g as [v|i]; cbn; [reflexivity|]. destruct tc; [reflexivity|apply len_set_nth]. Qed.
Lemma len_removelast l : 0 < len l -> len (removelast l) = len l - 1.
Proof. unfold len. intros H. destruct l as [|x l] using rev_ind; [cbn in H; lia|]. rewrite removelast_last, app_length. cbn [length]. lia. Qed.

Lemma fresh_ok : VInv (fresh c).
Proof. destruct (b_init_ok c Hc) as [A B]. split; [exact A|]. cbn. rewrite B. reflexivity. Qed.

(* outcome of the single-container combinators *)
Definition ROk_post (v : vec) (newsize : Z) (els' : list Z) (r : R) : Prop :=
  match r with
  | inl (v', ev) => VInv v' /\ els v' = els' /\ newsize <= b_limit c /\ b_capacity c (w v) <= b_capacity c (w v') /\
                    (newsize <= b_capacity c (w v) -> b_capacity c (w v') = b_capacity c (w v) /\ b_store c (w v') = b_store c (w v) /\ ev = []) /\
                    (b_capacity c (w v) < newsize -> b_store c (w v') = SHeap /\ ev <> [])
  | inr (e, v', ev) => v' = v /\ ev = [] /\ b_limit c < newsize /\ e = lim_exn c
  end.

Lemma grow_set_ok v cond n els' : VInv v -> 0 <= n -> len els' = n -> (cond = false -> n <= b_capacity c (w v)) ->
  ROk_post v n els' (grow_set c v cond n els').
Proof. intros [HB HS] Hn Hl Hcond. unfold grow_set, ROk_post.
  assert (Hnoadj : n <= b_capacity c (w v) ->
     VInv {| w := b_setSize c (w v) n; els := els' |} /\ n <= b_limit c /\
     b_capacity c (w {| w := b_setSize c (w v) n; els := els' |}) = b_capacity c (w v) /\
     b_store c (w {| w := b_setSize c (w v) n; els := els' |}) = b_store c (w v)).
  { intros Hle. destruct (b_setSize_ok c Hc (w v) n HB ltac:(lia)) as (A & B & C & D). pose proof (cap_le_limit c Hc (w v) HB).
    cbn [w els]. split; [split; [exact A|cbn [w els]; lia]|]. split; [lia|]. split; assumption. }
  destruct cond.
  - pose proof (adjust_ok c Hc (w v) n HB Hn) as HA. destruct (adjust c (w v) n) as [[w1 ev]|e].
    + destruct HA as (A & B & C & D & L & F & G).
      destruct (b_setSize_ok c Hc w1 n A ltac:(lia)) as (A' & B' & C' & D').
      split; [split; [exact A'|cbn [w els]; lia]|]. cbn [w els]. split; [reflexivity|]. split; [assumption|]. split; [lia|]. split.
      * intros Hle. destruct (F Hle) as [-> ->]. destruct (Hnoadj Hle) as (_ & _ & X & Y). cbn [w] in X, Y. repeat split; assumption.
      * intros Hlt. destruct (G Hlt) as [X Y]. split; [congruence|assumption].
    + destruct HA as [A ->]. repeat split; assumption.
  - specialize (Hcond eq_refl). destruct (Hnoadj Hcond) as (A & L & C & D). cbn [w] in C, D.
    split; [exact A|]. cbn [w els]. repeat split; try assumption; try lia.
Qed.

Lemma grow_incr_ok v els' : VInv v -> len els' = len (els v) + 1 ->
  ROk_post v (len (els v) + 1) els' (grow_incr c v els').
Proof. intros [HB HS] Hl. unfold grow_incr, ROk_post. pose proof (len_nonneg (els v)).
  pose proof (adjust_ok c Hc (w v) (b_size c (w v) + 1) HB ltac:(lia)) as HA. rewrite HS in *.
  destruct (adjust c (w v) (len (els v) + 1)) as [[w1 ev]|e].
  - destruct HA as (A & B & C & D & L & F & G).
    destruct (b_incr_ok c Hc w1 A ltac:(lia)) as (A' & B' & C' & D').
    split; [split; [exact A'|cbn [w els]; lia]|]. cbn [w els]. split; [reflexivity|]. split; [assumption|]. split; [lia|]. split.
    + intros Hle. destruct (F Hle) as [-> ->]. repeat split; congruence.
    + intros Hlt. destruct (G Hlt) as [X Y]. split; [congruence|assumption].
  - destruct HA as [A ->]. repeat split; assumption.
Qed.

Lemma one_incr_ok v els' : VInv v -> len els' = len (els v) + 1 ->
  ROk_post v (len (els v) + 1) els' (one_incr c v els').
Proof. intros [HB HS] Hl. unfold one_incr, ROk_post. pose proof (len_nonneg (els v)). pose proof (b_size_cap c Hc (w v) HB) as Hsc.
  pose proof (adjust_one_ok c Hc (w v) HB) as HA. rewrite HS in *.
  destruct (adjust_one c (w v)) as [[w1 ev]|e].
  - destruct HA as (A & B & C & D & L & F & G).
    destruct (b_incr_ok c Hc w1 A ltac:(lia)) as (A' & B' & C' & D').
    split; [split; [exact A'|cbn [w els]; lia]|]. cbn [w els]. split; [reflexivity|]. split; [assumption|]. split; [lia|]. split.
    + intros Hle. destruct (F ltac:(lia)) as [-> ->]. repeat split; congruence.
    + intros Hlt. destruct (G ltac:(lia)) as [X Y]. split; [congruence|assumption].
  - destruct HA as [A ->]. repeat split; assumption.
Qed.
End Containers.

(* ================================================================================================================ *)
Section Step.
Variable c : vcfg.
Hypothesis Hc : cfg_ok c.
Local Notation M := (cM c).
Local Notation N := (cN c).
Local Notation BInv := (BInv c).
Local Notation VInv := (VInv c).

Lemma append_input_ok rb : forall vs v0 v ev, VInv v0 -> VInv v -> b_capacity c (w v0) <= b_capacity c (w v) ->
  len (els v0) <= len (els v) ->
  match append_input c rb v0 v ev vs with
  | inl (v', ev') => VInv v' /\ els v' = els v ++ vs /\ b_capacity c (w v) <= b_capacity c (w v')
  | inr (e, v', ev') => VInv v' /\ e = lim_exn c /\ b_limit c < len (els v) + len vs /\ b_capacity c (w v0) <= b_capacity c (w v') /\
                        (rb = true -> els v' = els v0)
  end.
Proof. induction vs as [|x t IH]; intros v0 v ev H0 Hv Hcap Hlen; cbn [append_input].
  - split; [assumption|]. split; [rewrite app_nil_r; reflexivity|lia].
  - pose proof (one_incr_ok c Hc v (els v ++ [x]) Hv ltac:(rewrite len_app; reflexivity)) as P. unfold ROk_post in P.
    destruct (one_incr c v (els v ++ [x])) as [[v1 ev1]|[[e vx] evx]].
    + destruct P as (A & B & L & D & _). specialize (IH v0 v1 (ev ++ ev1) H0 A ltac:(lia) ltac:(rewrite B, len_app; pose proof (len_nonneg [x]); lia)).
      destruct (append_input c rb v0 v1 (ev ++ ev1) t) as [[v' ev']|[[e v'] ev']].
      * destruct IH as (I1 & I2 & I3). split; [assumption|]. split; [rewrite I2, B, <- app_assoc; reflexivity|lia].
      * destruct IH as (I1 & I2 & I3 & I4 & I5). rewrite B, len_app in I3. change (len [x]) with 1 in I3.
        split; [assumption|]. split; [assumption|]. split; [change (len (x :: t)) with (Z.of_nat (S (length t))); unfold len in *; lia|]. split; assumption.
    + destruct P as (-> & _ & L & ->). split.
      * destruct rb; [|assumption]. destruct Hv as [HB HS]. destruct H0 as [HB0 HS0].
        pose proof (b_size_cap c Hc (w v0) HB0). pose proof (len_nonneg (els v0)).
        destruct (b_setSize_ok c Hc (w v) (b_size c (w v0)) HB ltac:(lia)) as (A' & B' & C' & D').
        split; [exact A'|cbn [w els]; lia].
      * split; [reflexivity|]. split; [change (len (x :: t)) with (Z.of_nat (S (length t))); unfold len in *; lia|]. split.
        -- destruct rb; [|assumption]. cbn [w]. destruct Hv as [HB HS]. destruct H0 as [HB0 HS0].
           pose proof (b_size_cap c Hc (w v0) HB0). pose proof (len_nonneg (els v0)).
           destruct (b_setSize_ok c Hc (w v) (b_size c (w v0)) HB ltac:(lia)) as (A' & B' & C' & D'). lia.
        -- intros ->. reflexivity.
Qed.

(* ---- shrink_to_fit ------------------------------------------------------------------------------------------- *)
Lemma b_shrink_ok x : BInv x ->
  let '(x', ev) := b_shrink c x in
  BInv x' /\ b_size c x' = b_size c x /\ b_capacity c x' <= Z.max (b_capacity c x) N /\
  (fl c = FVec -> b_capacity c x' = b_size c x) /\
  (fl c = FSV -> b_store c x = SHeap -> if b_size c x <=? N then b_store c x' = SInl /\ b_capacity c x' = N else b_capacity c x' = b_size c x).
Proof. intros H. unfold b_shrink. pose proof Hc as [HM0 HN0]. pose proof (b_size_cap c Hc x H) as Hsc.
  unfold VecProofs.BInv, b_size, b_capacity, b_store in *. destruct (fl c) eqn:E.
  - unfold p_size, p_capacity in *. destruct (Z.eqb_spec (size_ x) (capa_ x)); cbn [negb].
    + repeat split; intros; try lia; try discriminate.
    + destruct (Z.eqb_spec (size_ x) 0); cbn [capa_ size_]; repeat split; intros; try lia; try discriminate.
  - destruct (isSmall x) eqn:Es; cbn [negb].
    + split; [assumption|]. repeat split; intros; try lia; try discriminate.
    + destruct (heap_view M N x H Es) as (V1 & V2 & V3). rewrite V1, V2 in *.
      destruct (Z.leb_spec (size_ x) N) as [Hle|Hgt].
      * destruct x as [cx zx]. cbn [capa_ size_] in *. unfold WInv, Words.size, Words.capacity, isSmall in *. cbn [capa_ size_] in *.
        destruct (Z.eqb_spec zx N) as [->|Hne]; cbn [capa_ size_].
        -- assert (N <? M = true) as -> by lia. assert (M =? M = true) as -> by lia. cbn [negb andb].
           repeat split; intros; try lia; try discriminate; try reflexivity.
        -- assert (zx <? N = true) as -> by lia. assert (N =? M = false) as -> by lia. cbn [negb andb].
           repeat split; intros; try lia; try discriminate; try reflexivity.
      * destruct (Z.eqb_spec (size_ x) (capa_ x)) as [Heq|Hne]; cbn [negb].
        -- split; [assumption|]. repeat split; intros; try lia; try discriminate.
        -- destruct x as [cx zx]. cbn [capa_ size_] in *. unfold WInv, Words.size, Words.capacity, isSmall in *. cbn [capa_ size_] in *.
           assert (zx <? zx = false) as -> by lia. cbn [andb].
           repeat split; intros; try lia; try discriminate; try reflexivity.
  - split; [assumption|]. repeat split; intros; try lia; try discriminate.
Qed.

(* ---- move construction / assignment, swap, swap2 --------------------------------------------------------------- *)
Lemma init_BInv : BInv (b_init c) /\ b_size c (b_init c) = 0 /\ b_store c (b_init c) <> SHeap.
Proof. destruct (b_init_ok c Hc) as [A B]. split; [exact A|]. split; [exact B|].
  unfold b_store, b_init. pose proof Hc as [HM0 HN0]. destruct (fl c) eqn:E; cbn [capa_ size_]; try discriminate.
  destruct (init_ok M N HN0) as (_ & _ & _ & I). rewrite I. discriminate. Qed.

Lemma sv_init_eq : fl c = FSV -> b_init c = {| capa_ := 0; size_ := N |}.
Proof. intros E. unfold b_init. rewrite E. reflexivity. Qed.

Lemma b_move_construct_ok o : BInv o ->
  let '(t', o') := b_move_construct c o in
  BInv t' /\ BInv o' /\ b_size c t' = b_size c o /\ b_size c o' = 0.
Proof. intros H. unfold b_move_construct. pose proof Hc as [HM0 HN0]. pose proof init_BInv as (I1 & I2 & _).
  destruct (fl c) eqn:E.
  - unfold b_init in I1, I2. rewrite E in I1, I2. repeat split; assumption.
  - rewrite <- (sv_init_eq E). repeat split; assumption.
  - unfold VecProofs.BInv, b_size, p_size in *. rewrite E in *. cbn [capa_ size_]. repeat split; lia.
Qed.

Lemma b_move_assign_ok t o : BInv t -> BInv o ->
  let '(t', o', ev) := b_move_assign c t o in
  BInv t' /\ BInv o' /\ b_size c t' = b_size c o /\ b_size c o' = 0.
Proof. intros Ht Ho. unfold b_move_assign. pose proof Hc as [HM0 HN0]. pose proof init_BInv as (I1 & I2 & _).
  destruct (fl c) eqn:E.
  - unfold b_init in I1, I2. rewrite E in I1, I2. repeat split; assumption.
  - rewrite <- (sv_init_eq E). destruct (isSmall o) eqn:Eo.
    + assert (Ho' : WInv M N o) by (unfold VecProofs.BInv in Ho; rewrite E in Ho; exact Ho).
      destruct (inline_view M N HN0 o Ho' Eo) as (V1 & V2 & V3).
      pose proof (b_size_cap c Hc o Ho) as Hso. pose proof (b_size_cap c Hc t Ht) as Hst.
      assert (Hsz : b_size c o = capa_ o) by (unfold b_size; rewrite E; exact V1).
      set (t1ev := if negb (isSmall t) && (capa_ t <? capa_ o) then (b_init c, [EDealloc (capa_ t)]) else (t, [])).
      assert (Ht1 : BInv (fst t1ev) /\ capa_ o <= b_capacity c (fst t1ev)).
      { unfold t1ev. destruct (isSmall t) eqn:Et; cbn [negb andb fst].
        - split; [assumption|]. assert (Ht' : WInv M N t) by (unfold VecProofs.BInv in Ht; rewrite E in Ht; exact Ht).
          destruct (inline_view M N HN0 t Ht' Et) as (_ & W2 & _). unfold b_capacity. rewrite E, W2. unfold Words.size in V1, V3. lia.
        - destruct (Z.ltb_spec (capa_ t) (capa_ o)); cbn [fst].
          + split; [assumption|]. unfold b_capacity, b_init. rewrite E. destruct (init_ok M N HN0) as (_ & _ & W & _). rewrite W. unfold Words.size in *. lia.
          + split; [assumption|]. assert (Ht' : WInv M N t) by (unfold VecProofs.BInv in Ht; rewrite E in Ht; exact Ht).
            destruct (heap_view M N t Ht' Et) as (_ & W2 & _). unfold b_capacity. rewrite E, W2. lia. }
      destruct t1ev as [t1 ev]. cbn [fst] in Ht1. destruct Ht1 as [Ht1 Hcap].
      assert (Hb : b_setSize c t1 (capa_ o) = setSize M t1 (capa_ o)) by (unfold b_setSize; rewrite E; reflexivity).
      assert (Hb0 : b_setSize c o 0 = setSize M o 0) by (unfold b_setSize; rewrite E; reflexivity).
      destruct (b_setSize_ok c Hc t1 (capa_ o) Ht1 ltac:(lia)) as (A & B & _).
      destruct (b_setSize_ok c Hc o 0 Ho ltac:(lia)) as (A0 & B0 & _).
      rewrite Hb in A, B. rewrite Hb0 in A0, B0. repeat split; try assumption; lia.
    + repeat split; assumption.
  - unfold VecProofs.BInv, b_size, p_size in *. rewrite E in *. cbn [capa_ size_]. repeat split; lia.
Qed.

Lemma b_swap_ok t o : BInv t -> BInv o ->
  let '(t', o') := b_swap c t o in BInv t' /\ BInv o' /\ b_size c t' = b_size c o /\ b_size c o' = b_size c t.
Proof. intros Ht Ho. unfold b_swap. destruct (fl c) eqn:E; try (repeat split; assumption).
  unfold VecProofs.BInv, b_size, p_size in *. rewrite E in *. cbn [capa_ size_]. repeat split; lia. Qed.

Lemma b_swap2_ok t o : BInv t -> BInv o ->
  match b_swap2 c t o with
  | inl (t', o', ev) => BInv t' /\ BInv o' /\ b_size c t' = b_size c o /\ b_size c o' = b_size c t
  | inr e => e = lim_exn c
  end.
Proof. intros Ht Ho. unfold b_swap2.
  pose proof (b_size_cap c Hc t Ht) as Hst. pose proof (b_size_cap c Hc o Ho) as Hso.
  assert (Hfin : forall t1 o1 ev, BInv t1 -> BInv o1 -> b_size c t1 = b_size c t -> b_size c o1 = b_size c o ->
            (can_swap_dyn c t1 o1 = false -> b_size c o <= b_capacity c t1 /\ b_size c t <= b_capacity c o1) ->
            match (if can_swap_dyn c t1 o1 then inl (o1, t1, ev) else inl (b_setSize c t1 (b_size c o1), b_setSize c o1 (b_size c t1), ev)) : (words * words * list aevent) + exn with
            | inl (t', o', _) => BInv t' /\ BInv o' /\ b_size c t' = b_size c o /\ b_size c o' = b_size c t
            | inr e => e = lim_exn c end).
  { intros t1 o1 ev A1 A2 S1 S2 C. destruct (can_swap_dyn c t1 o1) eqn:Ec.
    - repeat split; try assumption.
    - destruct (C eq_refl) as [C1 C2].
      destruct (b_setSize_ok c Hc t1 (b_size c o1) A1 ltac:(lia)) as (X1 & X2 & _).
      destruct (b_setSize_ok c Hc o1 (b_size c t1) A2 ltac:(lia)) as (Y1 & Y2 & _).
      repeat split; try assumption; lia. }
  destruct (can_swap_dyn c t o) eqn:Ec.
  - apply Hfin; try assumption; try reflexivity. intros X. congruence.
  - pose proof (adjust_ok c Hc t (b_size c o) Ht ltac:(lia)) as HA.
    destruct (adjust c t (b_size c o)) as [[t1 ev1]|e]; [|destruct HA as [_ ->]; reflexivity].
    destruct HA as (A & B & C & _).
    pose proof (adjust_ok c Hc o (b_size c t1) Ho ltac:(lia)) as HB.
    destruct (adjust c o (b_size c t1)) as [[o1 ev2]|e]; [|destruct HB as [_ ->]; reflexivity].
    destruct HB as (A' & B' & C' & _).
    apply Hfin; try assumption; try lia.
Qed.

(* ---- the pool ---------------------------------------------------------------------------------------------------- *)
Definition PInv (p : pool) : Prop := forall k v, get p k = Some v -> VInv v.

Lemma get_nil k : get [] k = None. Proof. unfold get. destruct k; reflexivity. Qed.
Lemma get_set_cases p a x k v : get (set p a x) k = Some v -> x = Some v \/ get p k = Some v.
Proof. unfold get. revert a k. induction p as [|y p IH]; intros a k H.
  - cbn [set] in H. destruct a, k; cbn in H; discriminate.
  - destruct a as [|a], k as [|k]; cbn [set nth] in *; auto. apply (IH a k). exact H. Qed.
Lemma PInv_set p a x : PInv p -> (forall v, x = Some v -> VInv v) -> PInv (set p a x).
Proof. intros Hp Hx k v H. destruct (get_set_cases p a x k v H) as [E|E]; [apply Hx; assumption|apply (Hp k); assumption]. Qed.
Lemma PInv_set_some p a v : PInv p -> VInv v -> PInv (set p a (Some v)).
Proof. intros Hp Hv. apply PInv_set; [assumption|]. intros v' [= <-]. assumption. Qed.
Lemma PInv_set_none p a : PInv p -> PInv (set p a None).
Proof. intros Hp. apply PInv_set; [assumption|]. intros v' [=]. Qed.
Lemma PInv_init : PInv init_pool.
Proof. intros k v H. unfold init_pool, get in H. destruct k as [|[|[|k]]]; cbn in H; try discriminate. destruct k; discriminate. Qed.

Definition pool_of (x : pool * res * list aevent) : pool := fst (fst x).

Lemma finish_inv p a r ok v n els' : PInv p -> ROk_post c v n els' r -> VInv v -> PInv (pool_of (finish p a r ok)).
Proof. intros Hp Hr Hv. unfold finish, pool_of, ROk_post in *. destruct r as [[v' ev]|[[e v'] ev]]; cbn [fst].
  - apply PInv_set_some; tauto.
  - destruct Hr as (-> & _). apply PInv_set_some; assumption. Qed.
Lemma finish_ctor_inv p a pre r v n els' : PInv p -> ROk_post c v n els' r -> PInv (pool_of (finish_ctor c p a pre r)).
Proof. intros Hp Hr. unfold finish_ctor, pool_of, ROk_post in *. destruct r as [[v' ev]|[[e v'] ev]]; cbn [fst].
  - apply PInv_set_some; tauto.
  - apply PInv_set_none; assumption. Qed.

Lemma arg_len l g tc : len (after_move tc l g ++ [argval l g]) = len l + 1.
Proof. rewrite len_app, len_after_move. reflexivity. Qed.

Theorem step_inv p o : PInv p -> PInv (pool_of (step c p o)).
Proof.
  intros Hp. unfold step.
  assert (Hskip : PInv (pool_of (p, RSkip, @nil aevent))) by exact Hp.
  assert (Hfresh := fresh_ok c Hc).
  destruct o; unfold on; cbv zeta;
    repeat match goal with
    | |- context [Nat.eqb ?a ?b] => destruct (Nat.eqb a b) eqn:?; cbn [orb]; try exact Hskip
    end;
    try match goal with
    | |- context [get p ?a] => destruct (get p a) as [v|] eqn:Ega; try exact Hskip
    end;
    try match goal with
    | |- context [get p ?b] => destruct (get p b) as [vb|] eqn:Egb; try exact Hskip
    end;
    try (pose proof (Hp _ _ Ega) as Hv; pose proof (len_nonneg (els v)); pose proof Hv as [HvB HvS]; pose proof (b_size_cap c Hc _ HvB));
    try (pose proof (Hp _ _ Egb) as Hvb; pose proof (len_nonneg (els vb)); pose proof Hvb as [HvbB HvbS]).
  - (* CtorDefault *) apply PInv_set_some; assumption.
  - (* CtorN *) destruct ((0 <=? n) && (n <=? M)) eqn:G; [|exact Hskip].
    apply (finish_ctor_inv p a _ _ (fresh c) n (rep n 0)); [assumption|]. apply (grow_set_ok c Hc); [assumption|lia|apply len_rep; lia|discriminate].
  - (* CtorNV *) destruct ((0 <=? n) && (n <=? M)) eqn:G; [|exact Hskip].
    apply (finish_ctor_inv p a _ _ (fresh c) n (rep n v)); [assumption|]. apply (grow_set_ok c Hc); [assumption|lia|apply len_rep; lia|discriminate].
  - (* CtorRange *) unfold append_range. destruct k.
    + apply (finish_ctor_inv p a _ _ (fresh c) (b_size c (w (fresh c)) + len vs) (els (fresh c) ++ vs)); [assumption|].
      destruct Hfresh as [FB FS]. apply (grow_set_ok c Hc); [split; assumption| | |discriminate].
      * pose proof (len_nonneg vs). pose proof (b_size_cap c Hc _ FB). lia.
      * rewrite len_app. rewrite FS. reflexivity.
    + pose proof (append_input_ok true vs (fresh c) (fresh c) [] Hfresh Hfresh ltac:(lia) ltac:(lia)) as P.
      unfold finish_ctor, pool_of. destruct (append_input c true (fresh c) (fresh c) [] vs) as [[v' ev']|[[e v'] ev']]; cbn [fst].
      * apply PInv_set_some; tauto.
      * apply PInv_set_none; assumption.
  - (* CtorCopy *) unfold append_range.
    apply (finish_ctor_inv p a _ _ (fresh c) (b_size c (w (fresh c)) + len (els v)) (els (fresh c) ++ els v)); [assumption|].
    destruct Hfresh as [FB FS]. apply (grow_set_ok c Hc); [split; assumption| | |discriminate].
    * pose proof (b_size_cap c Hc _ FB). lia.
    * rewrite len_app. rewrite FS. reflexivity.
  - (* CtorMove *) pose proof (b_move_construct_ok (w v) HvB) as MC. destruct (b_move_construct c (w v)) as [wt wo].
    destruct MC as (A & B & C & D). unfold pool_of; cbn [fst].
    apply PInv_set_some; [apply PInv_set_some; [assumption|]|]; split; cbn [w els]; try assumption; try lia.
  - (* Adopt *) destruct (fl c) eqn:E; try exact Hskip.
    set (srccap := if cap <=? len vs then len vs else cap).
    destruct (srccap <=? M) eqn:G; [|exact Hskip]. unfold pool_of; cbn [fst]. apply PInv_set_some; [assumption|].
    pose proof (len_nonneg vs). pose proof Hc as [HM0 HN0]. rewrite E in HN0.
    destruct (Z.eqb_spec srccap 0) as [Hz|Hnz].
    + destruct (b_init_ok c Hc) as [A B]. split; [exact A|]. cbn [w els]. rewrite B. unfold srccap in Hz. destruct (cap <=? len vs) eqn:?; lia.
    + split; cbn [w els].
      * unfold VecProofs.BInv. rewrite E. unfold WInv; cbn [capa_ size_]. unfold srccap in *. destruct (cap <=? len vs) eqn:?; lia.
      * unfold b_size. rewrite E. unfold Words.size, isSmall; cbn [capa_ size_]. unfold srccap in *. destruct (cap <=? len vs) eqn:?.
        -- assert (len vs <? len vs = false) as -> by lia. reflexivity.
        -- assert (cap <? len vs = false) as -> by lia. reflexivity.
  - (* Dtor *) unfold pool_of; cbn [fst]. apply PInv_set_none; assumption.
  - (* PushBack *) destruct (arg_ok (els v) g); [|exact Hskip].
    apply (finish_inv p a _ _ v (len (els v) + 1) (els v ++ [argval (els v) g])); [assumption| |assumption].
    apply (grow_incr_ok c Hc); [assumption|]. rewrite len_app. reflexivity.
  - (* PushBackRv *) destruct (arg_ok (els v) g); [|exact Hskip].
    apply (finish_inv p a _ _ v (len (els v) + 1) (after_move (is_tc c) (els v) g ++ [argval (els v) g])); [assumption| |assumption].
    apply (one_incr_ok c Hc); [assumption|]. apply arg_len.
  - (* EmplaceBack *) destruct (arg_ok (els v) g); [|exact Hskip].
    apply (finish_inv p a _ _ v (len (els v) + 1) (els v ++ [argval (els v) g])); [assumption| |assumption].
    apply (one_incr_ok c Hc); [assumption|]. rewrite len_app. reflexivity.
  - (* Insert *) destruct ((0 <=? p0) && (p0 <=? len (els v)) && arg_ok (els v) g) eqn:G; [|exact Hskip].
    apply (finish_inv p a _ _ v (len (els v) + 1) (insert_list p0 [argval (els v) g] (els v))); [assumption| |assumption].
    apply (grow_incr_ok c Hc); [assumption|]. rewrite len_insert_list by lia. reflexivity.
  - (* InsertRv *) destruct ((0 <=? p0) && (p0 <=? len (els v)) && arg_ok (els v) g) eqn:G; [|exact Hskip].
    apply (finish_inv p a _ _ v (len (els v) + 1) (insert_list p0 [argval (els v) g] (after_move (is_tc c) (els v) g))); [assumption| |assumption].
    apply (one_incr_ok c Hc); [assumption|]. rewrite len_insert_list by (rewrite len_after_move; lia). rewrite len_after_move. reflexivity.
  - (* Emplace *) destruct ((0 <=? p0) && (p0 <=? len (els v)) && arg_ok (els v) g) eqn:G; [|exact Hskip].
    apply (finish_inv p a _ _ v (len (els v) + 1) (insert_list p0 [argval (els v) g] (els v))); [assumption| |assumption].
    apply (one_incr_ok c Hc); [assumption|]. rewrite len_insert_list by lia. reflexivity.
  - (* InsertN *) destruct ((0 <=? p0) && (p0 <=? len (els v)) && (0 <=? n) && (n <=? M) && arg_ok (els v) g) eqn:G; [|exact Hskip].
    destruct (0 <? n) eqn:Gn.
    + apply (finish_inv p a _ _ v (b_size c (w v) + n) (insert_list p0 (rep n (argval (els v) g)) (els v))); [assumption| |assumption].
      apply (grow_set_ok c Hc); [assumption|lia| |discriminate]. rewrite len_insert_list by lia. rewrite len_rep by lia. lia.
    + unfold finish, pool_of; cbn [fst]. apply PInv_set_some; assumption.
  - (* InsertRange *) destruct ((0 <=? p0) && (p0 <=? len (els v))) eqn:G; [|exact Hskip]. destruct k.
    + destruct (0 <? len vs) eqn:Gn.
      * apply (finish_inv p a _ _ v (b_size c (w v) + len vs) (insert_list p0 vs (els v))); [assumption| |assumption].
        apply (grow_set_ok c Hc); [assumption|lia| |discriminate]. rewrite len_insert_list by lia. lia.
      * unfold finish, pool_of; cbn [fst]. apply PInv_set_some; assumption.
    + pose proof (append_input_ok true vs v v [] Hv Hv ltac:(lia) ltac:(lia)) as P.
      destruct (append_input c true v v [] vs) as [[v' ev']|[[e v'] ev']]; unfold pool_of; cbn [fst].
      * destruct P as ([PB PS] & PE & _). apply PInv_set_some; [assumption|]. split; cbn [w els]; [assumption|].
        rewrite PS, PE, len_app. rewrite len_insert_list by lia. reflexivity.
      * apply PInv_set_some; tauto.
  - (* Erase *) destruct ((0 <=? p0) && (p0 <? len (els v))) eqn:G; [|exact Hskip]. unfold pool_of; cbn [fst].
    apply PInv_set_some; [assumption|]. destruct (b_decr_ok c Hc (w v) HvB ltac:(lia)) as (A & B & _).
    split; cbn [w els]; [assumption|]. rewrite B, len_app, len_take, len_drop by lia. lia.
  - (* EraseRange *) destruct ((0 <=? p0) && (p0 <=? q) && (q <=? len (els v))) eqn:G; [|exact Hskip]. unfold pool_of; cbn [fst].
    apply PInv_set_some; [assumption|]. destruct (q - p0 =? 0) eqn:Gz; [assumption|].
    destruct (b_setSize_ok c Hc (w v) (b_size c (w v) - (q - p0)) HvB ltac:(lia)) as (A & B & _).
    split; cbn [w els]; [assumption|]. rewrite B, len_app, len_take, len_drop by lia. lia.
  - (* PopBack *) destruct (0 <? len (els v)) eqn:G; [|exact Hskip]. unfold pool_of; cbn [fst].
    apply PInv_set_some; [assumption|]. destruct (b_decr_ok c Hc (w v) HvB ltac:(lia)) as (A & B & _).
    split; cbn [w els]; [assumption|]. rewrite B, len_removelast by lia. lia.
  - (* PopBackVal *) destruct (0 <? len (els v)) eqn:G; [|exact Hskip]. unfold pool_of; cbn [fst].
    apply PInv_set_some; [assumption|]. destruct (b_decr_ok c Hc (w v) HvB ltac:(lia)) as (A & B & _).
    split; cbn [w els]; [assumption|]. rewrite B, len_removelast by lia. lia.
  - (* Clear *) unfold pool_of; cbn [fst]. apply PInv_set_some; [assumption|].
    destruct (b_setSize_ok c Hc (w v) 0 HvB ltac:(lia)) as (A & B & _). split; cbn [w els]; [assumption|]. rewrite B. reflexivity.
  - (* Resize *) destruct ((0 <=? n) && (n <=? M)) eqn:G; [|exact Hskip].
    apply (finish_inv p a _ _ v n (take n (els v) ++ rep (n - len (els v)) 0)); [assumption| |assumption].
    apply (grow_set_ok c Hc); [assumption|lia| |].
    + rewrite len_app, len_take, len_rep' by lia. lia.
    + intros G2. lia.
  - (* ResizeV *) destruct ((0 <=? n) && (n <=? M) && arg_ok (els v) g) eqn:G; [|exact Hskip].
    apply (finish_inv p a _ _ v n (take n (els v) ++ rep (n - len (els v)) (argval (els v) g))); [assumption| |assumption].
    apply (grow_set_ok c Hc); [assumption|lia| |].
    + rewrite len_app, len_take, len_rep' by lia. lia.
    + intros G2. lia.
  - (* AssignN *) destruct ((0 <=? n) && (n <=? M) && arg_ok (els v) g) eqn:G; [|exact Hskip].
    apply (finish_inv p a _ _ v n (rep n (argval (els v) g))); [assumption| |assumption].
    apply (grow_set_ok c Hc); [assumption|lia|apply len_rep; lia|]. intros G2. lia.
  - (* AssignRange *) unfold assign_range. destruct k.
    + apply (finish_inv p a _ _ v (len vs) vs); [assumption| |assumption].
      apply (grow_set_ok c Hc); [assumption|apply len_nonneg|reflexivity|]. intros G2. lia.
    + destruct (b_setSize_ok c Hc (w v) 0 HvB ltac:(lia)) as (A & B & C & _).
      assert (V0 : VInv {| w := b_setSize c (w v) 0; els := [] |}) by (split; cbn [w els]; [assumption|rewrite B; reflexivity]).
      pose proof (append_input_ok false vs _ _ [] V0 V0 ltac:(lia) ltac:(lia)) as P.
      unfold finish, pool_of.
      destruct (append_input c false {| w := b_setSize c (w v) 0; els := [] |} {| w := b_setSize c (w v) 0; els := [] |} [] vs) as [[v' ev']|[[e v'] ev']]; cbn [fst].
      * apply PInv_set_some; tauto.
      * apply PInv_set_some; tauto.
  - (* Reserve *) destruct ((0 <=? n) && (n <=? M)) eqn:G; [|exact Hskip].
    assert (Hdyn : fl c <> FFCV -> PInv (pool_of (if b_capacity c (w v) <? n
              then match b_grow c (w v) n true with
                   | Some (w1, ev) => (set p a (Some {| w := w1; els := els v |}), ROk, ev)
                   | None => (p, RThrew OverflowError, [])
                   end
              else (p, ROk, [])))).
    { intros Hf. destruct (b_capacity c (w v) <? n) eqn:Gc; [|exact Hp].
      pose proof (b_grow_ok c Hc (w v) n true HvB ltac:(lia) ltac:(intros; lia) Hf) as GR.
      destruct (b_grow c (w v) n true) as [[w1 ev]|]; [|exact Hp]. destruct GR as (A & B & _).
      unfold pool_of; cbn [fst]. apply PInv_set_some; [assumption|]. split; cbn [w els]; [assumption|lia]. }
    destruct (fl c) eqn:E.
    + apply Hdyn. discriminate.
    + apply Hdyn. discriminate.
    + destruct (exc_check n (b_capacity c (w v))); exact Hp.
  - (* Shrink *) pose proof (b_shrink_ok (w v) HvB) as S. destruct (b_shrink c (w v)) as [w1 ev]. destruct S as (A & B & _).
    unfold pool_of; cbn [fst]. apply PInv_set_some; [assumption|]. split; cbn [w els]; [assumption|lia].
  - (* AppendN *) destruct ((0 <=? n) && (n <=? M)) eqn:G; [|exact Hskip].
    apply (finish_inv p a _ _ v (b_size c (w v) + n) (els v ++ rep n 0)); [assumption| |assumption].
    apply (grow_set_ok c Hc); [assumption|lia| |discriminate]. rewrite len_app, len_rep by lia. lia.
  - (* AppendNV *) destruct ((0 <=? n) && (n <=? M) && arg_ok (els v) g) eqn:G; [|exact Hskip].
    apply (finish_inv p a _ _ v (b_size c (w v) + n) (els v ++ rep n (argval (els v) g))); [assumption| |assumption].
    apply (grow_set_ok c Hc); [assumption|lia| |discriminate]. rewrite len_app, len_rep by lia. lia.
  - (* AppendRange *) unfold append_range. destruct k.
    + apply (finish_inv p a _ _ v (b_size c (w v) + len vs) (els v ++ vs)); [assumption| |assumption].
      pose proof (len_nonneg vs). apply (grow_set_ok c Hc); [assumption|lia| |discriminate]. rewrite len_app. lia.
    + pose proof (append_input_ok true vs v v [] Hv Hv ltac:(lia) ltac:(lia)) as P.
      unfold finish, pool_of. destruct (append_input c true v v [] vs) as [[v' ev']|[[e v'] ev']]; cbn [fst]; apply PInv_set_some; tauto.
  - (* CopyAssign: destructed in order  a, then b *)
    unfold assign_range.
    apply (finish_inv p a _ _ v (len (els vb)) (els vb)); [assumption| |assumption].
    apply (grow_set_ok c Hc); [assumption|lia|reflexivity|]. intros G2. lia.
  - (* MoveAssign *) pose proof (b_move_assign_ok (w v) (w vb) HvB HvbB) as MA.
    destruct (b_move_assign c (w v) (w vb)) as [[wt wo] ev]. destruct MA as (A & B & C & D).
    unfold pool_of; cbn [fst]. apply PInv_set_some; [apply PInv_set_some; [assumption|]|]; split; cbn [w els]; try assumption; try lia.
  - (* Swap *) pose proof (b_swap_ok (w v) (w vb) HvB HvbB) as SW. destruct (b_swap c (w v) (w vb)) as [wt wo]. destruct SW as (A & B & C & D).
    unfold pool_of; cbn [fst]. apply PInv_set_some; [apply PInv_set_some; [assumption|]|]; split; cbn [w els]; try assumption; try lia.
  - (* Swap2 *) pose proof (b_swap2_ok (w v) (w vb) HvB HvbB) as SW.
    destruct (b_swap2 c (w v) (w vb)) as [[[wt wo] ev]|e].
    + destruct SW as (A & B & C & D).
      unfold pool_of; cbn [fst]. apply PInv_set_some; [apply PInv_set_some; [assumption|]|]; split; cbn [w els]; try assumption; try lia.
    + pose proof (adjust_ok c Hc (w v) (b_size c (w vb)) HvB ltac:(lia)) as HA.
      destruct (adjust c (w v) (b_size c (w vb))) as [[w1 ev]|e']; [|exact Hp]. destruct HA as (A & B & _).
      unfold pool_of; cbn [fst]. apply PInv_set_some; [assumption|]. split; cbn [w els]; [assumption|lia].
  - (* At *) destruct ((0 <=? i) && (i <=? M)); [|exact Hskip]. destruct (i <? b_size c (w v)); exact Hp.
  - (* Relocate *) destruct (container_tr c); [|exact Hskip]. unfold pool_of; cbn [fst]. apply PInv_set_none. apply PInv_set_some; assumption.
Qed.



(* ---- histories ------------------------------------------------------------------------------------------------- *)
Fixpoint run (p : pool) (ops : list op) : pool :=
  match ops with [] => p | o :: t => run (pool_of (step c p o)) t end.

Theorem run_inv ops : forall p, PInv p -> PInv (run p ops).
Proof. induction ops as [|o t IH]; intros p Hp; cbn [run]; [assumption|]. apply IH. apply step_inv. assumption. Qed.

(* what a user observes of a reachable container: size(), empty(), capacity() against the element sequence *)
Theorem reachable_observables ops k v : get (run init_pool ops) k = Some v ->
  b_size c (w v) = len (els v) /\ (b_size c (w v) = 0 <-> els v = []) /\
  len (els v) <= b_capacity c (w v) /\ b_capacity c (w v) <= b_limit c /\ b_limit c <= M.
Proof. intros H. pose proof (run_inv ops init_pool PInv_init k v H) as [HB HS].
  pose proof (b_size_cap c Hc (w v) HB). pose proof (cap_le_limit c Hc (w v) HB).
  split; [assumption|]. split; [|split; [lia|split; [assumption|]]].
  - rewrite HS. unfold len. destruct (els v); cbn; split; intros; try reflexivity; try discriminate; lia.
  - unfold b_limit. pose proof Hc as [HM0 HN0]. destruct (fl c); lia.
Qed.

(* ---- limit errors (C08): an operation that throws leaves every element sequence as it was ------------------------ *)
Definition single_pass (o : op) : bool :=
  match o with
  | CtorRange _ RInp _ | InsertRange _ _ RInp _ | AssignRange _ RInp _ | AppendRange _ RInp _ => true
  | _ => false
  end.
Definition is_ctor (o : op) : bool :=
  match o with CtorDefault _ | CtorN _ _ | CtorNV _ _ _ | CtorRange _ _ _ | CtorCopy _ _ | CtorMove _ _ | Adopt _ _ _ => true | _ => false end.
Definition contents (p : pool) (k : nat) : option (list Z) := option_map els (get p k).

Lemma get_set_same p a v : get p a = Some v -> forall k, get (set p a (Some v)) k = get p k.
Proof. unfold get. revert a. induction p as [|y p IH]; intros a H k.
  - destruct a; discriminate.
  - destruct a as [|a], k as [|k]; cbn [set nth] in *; auto. Qed.
Lemma contents_set_same p a v v' : get p a = Some v -> els v' = els v -> forall k, contents (set p a (Some v')) k = contents p k.
Proof. unfold contents, get. revert a. induction p as [|y p IH]; intros a H E k.
  - destruct a; discriminate.
  - destruct a as [|a], k as [|k]; cbn [set nth] in *; auto. rewrite H. cbn. rewrite E. reflexivity. Qed.

Lemma finish_threw p a r ok v n els' e p' ev : get p a = Some v -> ROk_post c v n els' r -> ok <> RThrew e ->
  finish p a r ok = (p', RThrew e, ev) -> (forall k, get p' k = get p k) /\ ev = [] /\ e = lim_exn c /\ b_limit c < n.
Proof. intros Hg Hr Hok H. unfold finish, ROk_post in *. destruct r as [[v' ev']|[[e' v'] ev']].
  - inversion H; subst. congruence.
  - destruct Hr as (-> & -> & L & ->). inversion H; subst. split; [apply get_set_same; assumption|]. repeat split; assumption. Qed.

Ltac close_threw P Hsame :=
  match goal with
  | H : finish ?p ?a ?r ?ok = (?p', RThrew ?e, ?ev), Ega : get ?p ?a = Some ?v |- _ =>
      let A := fresh "A" in let B := fresh "B" in let C := fresh "C" in
      destruct (finish_threw p a r ok v _ _ e p' ev Ega P ltac:(discriminate) H) as (A & B & C & _);
      split; [apply Hsame; assumption|]; split; [split; assumption|assumption]
  end.

Theorem step_threw p o p' e ev : PInv p -> step c p o = (p', RThrew e, ev) -> single_pass o = false -> is_ctor o = false ->
  (forall k, contents p' k = contents p k) /\
  (match o with Swap2 _ _ => True | _ => (forall k, get p' k = get p k) /\ ev = [] end) /\
  e = match o with At _ _ => OutOfRange | _ => lim_exn c end.
Proof.
  intros Hp H Hsp Hct. unfold step in H.
  assert (Hsame : forall (q : pool), (forall k, get q k = get p k) -> forall k, contents q k = contents p k)
    by (intros q Hq k; unfold contents; rewrite Hq; reflexivity).
  destruct o; try discriminate Hct; unfold on in H; cbv zeta in H;
    repeat match type of H with
    | context [Nat.eqb ?a ?b] => destruct (Nat.eqb a b) eqn:?; cbn [orb] in H; try discriminate H
    end;
    try match type of H with
    | context [get p ?a] => destruct (get p a) as [v|] eqn:Ega; try discriminate H
    end;
    try match type of H with
    | context [get p ?b] => destruct (get p b) as [vb|] eqn:Egb; try discriminate H
    end;
    try (pose proof (Hp _ _ Ega) as Hv; pose proof (len_nonneg (els v)); pose proof Hv as [HvB HvS]; pose proof (b_size_cap c Hc _ HvB));
    try (pose proof (Hp _ _ Egb) as Hvb; pose proof (len_nonneg (els vb)); pose proof Hvb as [HvbB HvbS]).
  - (* PushBack *) destruct (arg_ok (els v) g); [|discriminate H].
    pose proof (grow_incr_ok c Hc v (els v ++ [argval (els v) g]) Hv ltac:(rewrite len_app; reflexivity)) as P. close_threw P Hsame.
  - (* PushBackRv *) destruct (arg_ok (els v) g); [|discriminate H].
    pose proof (one_incr_ok c Hc v (after_move (is_tc c) (els v) g ++ [argval (els v) g]) Hv (arg_len _ _ _)) as P. close_threw P Hsame.
  - (* EmplaceBack *) destruct (arg_ok (els v) g); [|discriminate H].
    pose proof (one_incr_ok c Hc v (els v ++ [argval (els v) g]) Hv ltac:(rewrite len_app; reflexivity)) as P. close_threw P Hsame.
  - (* Insert *) destruct ((0 <=? p0) && (p0 <=? len (els v)) && arg_ok (els v) g) eqn:G; [|discriminate H].
    pose proof (grow_incr_ok c Hc v (insert_list p0 [argval (els v) g] (els v)) Hv ltac:(rewrite len_insert_list by lia; reflexivity)) as P. close_threw P Hsame.
  - (* InsertRv *) destruct ((0 <=? p0) && (p0 <=? len (els v)) && arg_ok (els v) g) eqn:G; [|discriminate H].
    pose proof (one_incr_ok c Hc v (insert_list p0 [argval (els v) g] (after_move (is_tc c) (els v) g)) Hv ltac:(rewrite len_insert_list by (rewrite len_after_move; lia); rewrite len_after_move; reflexivity)) as P. close_threw P Hsame.
  - (* Emplace *) destruct ((0 <=? p0) && (p0 <=? len (els v)) && arg_ok (els v) g) eqn:G; [|discriminate H].
    pose proof (one_incr_ok c Hc v (insert_list p0 [argval (els v) g] (els v)) Hv ltac:(rewrite len_insert_list by lia; reflexivity)) as P. close_threw P Hsame.
  - (* InsertN *) destruct ((0 <=? p0) && (p0 <=? len (els v)) && (0 <=? n) && (n <=? M) && arg_ok (els v) g) eqn:G; [|discriminate H].
    destruct (0 <? n) eqn:Gn; [|discriminate H].
    pose proof (grow_set_ok c Hc v true (b_size c (w v) + n) (insert_list p0 (rep n (argval (els v) g)) (els v)) Hv ltac:(lia) ltac:(rewrite len_insert_list by lia; rewrite len_rep by lia; lia) ltac:(discriminate)) as P. close_threw P Hsame.
  - (* InsertRange *) destruct ((0 <=? p0) && (p0 <=? len (els v))) eqn:G; [|discriminate H]. destruct k; [|discriminate Hsp].
    destruct (0 <? len vs) eqn:Gn; [|discriminate H].
    pose proof (grow_set_ok c Hc v true (b_size c (w v) + len vs) (insert_list p0 vs (els v)) Hv ltac:(lia) ltac:(rewrite len_insert_list by lia; lia) ltac:(discriminate)) as P. close_threw P Hsame.
  - (* Erase *) destruct ((0 <=? p0) && (p0 <? len (els v))); discriminate H.
  - (* EraseRange *) destruct ((0 <=? p0) && (p0 <=? q) && (q <=? len (els v))); discriminate H.
  - (* PopBack *) destruct (0 <? len (els v)); discriminate H.
  - (* PopBackVal *) destruct (0 <? len (els v)); discriminate H.
  - (* Resize *) destruct ((0 <=? n) && (n <=? M)) eqn:G; [|discriminate H].
    pose proof (grow_set_ok c Hc v (b_size c (w v) <? n) n (take n (els v) ++ rep (n - len (els v)) 0) Hv ltac:(lia) ltac:(rewrite len_app, len_take, len_rep' by lia; lia) ltac:(intros; lia)) as P. close_threw P Hsame.
  - (* ResizeV *) destruct ((0 <=? n) && (n <=? M) && arg_ok (els v) g) eqn:G; [|discriminate H].
    pose proof (grow_set_ok c Hc v (b_size c (w v) <? n) n (take n (els v) ++ rep (n - len (els v)) (argval (els v) g)) Hv ltac:(lia) ltac:(rewrite len_app, len_take, len_rep' by lia; lia) ltac:(intros; lia)) as P. close_threw P Hsame.
  - (* AssignN *) destruct ((0 <=? n) && (n <=? M) && arg_ok (els v) g) eqn:G; [|discriminate H].
    pose proof (grow_set_ok c Hc v (b_size c (w v) <? n) n (rep n (argval (els v) g)) Hv ltac:(lia) ltac:(apply len_rep; lia) ltac:(intros; lia)) as P. close_threw P Hsame.
  - (* AssignRange *) destruct k; [|discriminate Hsp]. unfold assign_range in H.
    pose proof (grow_set_ok c Hc v (b_size c (w v) <? len vs) (len vs) vs Hv (len_nonneg _) eq_refl ltac:(intros; lia)) as P. close_threw P Hsame.
  - (* Reserve *) destruct ((0 <=? n) && (n <=? M)) eqn:G; [|discriminate H].
    destruct (fl c) eqn:E.
    + destruct (b_capacity c (w v) <? n) eqn:Gc; [|discriminate H].
      pose proof (b_grow_ok c Hc (w v) n true HvB ltac:(lia) ltac:(intros; lia) ltac:(congruence)) as GR.
      destruct (b_grow c (w v) n true) as [[w1 ev1]|]; [discriminate H|]. destruct GR as [_ X]. discriminate X.
    + destruct (b_capacity c (w v) <? n) eqn:Gc; [|discriminate H].
      pose proof (b_grow_ok c Hc (w v) n true HvB ltac:(lia) ltac:(intros; lia) ltac:(congruence)) as GR.
      destruct (b_grow c (w v) n true) as [[w1 ev1]|]; [discriminate H|]. destruct GR as [_ X]. discriminate X.
    + destruct (exc_check n (b_capacity c (w v))); inversion H; subst.
      split; [intros; reflexivity|]. split; [split; [intros; reflexivity|reflexivity]|]. unfold lim_exn. rewrite E. reflexivity.
  - (* Shrink *) destruct (b_shrink c (w v)); discriminate H.
  - (* AppendN *) destruct ((0 <=? n) && (n <=? M)) eqn:G; [|discriminate H].
    pose proof (grow_set_ok c Hc v true (b_size c (w v) + n) (els v ++ rep n 0) Hv ltac:(lia) ltac:(rewrite len_app, len_rep by lia; lia) ltac:(discriminate)) as P. close_threw P Hsame.
  - (* AppendNV *) destruct ((0 <=? n) && (n <=? M) && arg_ok (els v) g) eqn:G; [|discriminate H].
    pose proof (grow_set_ok c Hc v true (b_size c (w v) + n) (els v ++ rep n (argval (els v) g)) Hv ltac:(lia) ltac:(rewrite len_app, len_rep by lia; lia) ltac:(discriminate)) as P. close_threw P Hsame.
  - (* AppendRange *) destruct k; [|discriminate Hsp]. unfold append_range in H. pose proof (len_nonneg vs).
    pose proof (grow_set_ok c Hc v true (b_size c (w v) + len vs) (els v ++ vs) Hv ltac:(lia) ltac:(rewrite len_app; lia) ltac:(discriminate)) as P. close_threw P Hsame.
  - (* CopyAssign *) unfold assign_range in H.
    pose proof (grow_set_ok c Hc v (b_size c (w v) <? len (els vb)) (len (els vb)) (els vb) Hv ltac:(lia) eq_refl ltac:(intros; lia)) as P. close_threw P Hsame.
  - (* MoveAssign *) destruct (b_move_assign c (w v) (w vb)) as [[? ?] ?]; discriminate H.
  - (* Swap *) destruct (b_swap c (w v) (w vb)); discriminate H.
  - (* Swap2 *) pose proof (b_swap2_ok (w v) (w vb) HvB HvbB) as SW.
    destruct (b_swap2 c (w v) (w vb)) as [[[wt wo] ev0]|e0]; [discriminate H|]. subst e0.
    destruct (adjust c (w v) (b_size c (w vb))) as [[w1 ev1]|e1]; inversion H; subst.
    + split; [apply (contents_set_same p a v); [assumption|reflexivity]|]. split; [exact I|reflexivity].
    + split; [intros; reflexivity|]. split; [exact I|reflexivity].
  - (* At *) destruct ((0 <=? i) && (i <=? M)); [|discriminate H]. destruct (i <? b_size c (w v)); inversion H; subst.
    split; [intros; reflexivity|]. split; [split; [intros; reflexivity|reflexivity]|reflexivity].
  - (* Relocate *) destruct (container_tr c); discriminate H.
Qed.

(* ---- capacity contract (C07) and the inline promise (C05) -------------------------------------------------------- *)
Lemma get_set_eq p a x v : get p a = Some v -> get (set p a x) a = x.
Proof. unfold get. revert a. induction p as [|y p IH]; intros a H; [destruct a; discriminate|].
  destruct a as [|a]; cbn [set nth] in *; auto. Qed.
Lemma get_set_neq p a x k : k <> a -> get (set p a x) k = get p k.
Proof. unfold get. revert a k. induction p as [|y p IH]; intros a k H; [destruct a; reflexivity|].
  destruct a as [|a], k as [|k]; cbn [set nth]; auto; congruence. Qed.

(* single-pass appends that fit perform no allocator request and keep capacity and storage *)
Lemma append_input_fits rb : forall vs v0 v ev, VInv v ->
  len (els v) + len vs <= b_capacity c (w v) ->
  match append_input c rb v0 v ev vs with
  | inl (v', ev') => ev' = ev /\ b_capacity c (w v') = b_capacity c (w v) /\ b_store c (w v') = b_store c (w v)
  | inr _ => False
  end.
Proof. induction vs as [|x t IH]; intros v0 v ev Hv Hfit; cbn [append_input].
  - repeat split; reflexivity.
  - change (len (x :: t)) with (Z.of_nat (S (length t))) in Hfit. pose proof (len_nonneg t) as Ht. unfold len in Ht.
    pose proof (one_incr_ok c Hc v (els v ++ [x]) Hv ltac:(rewrite len_app; reflexivity)) as P. unfold ROk_post in P.
    destruct (one_incr c v (els v ++ [x])) as [[v1 ev1]|[[e vx] evx]].
    + destruct P as (A & B & L & D & F & _). destruct (F ltac:(unfold len in *; lia)) as (F1 & F2 & ->).
      specialize (IH v0 v1 (ev ++ []) A ltac:(rewrite B, len_app, F1; change (len [x]) with 1; unfold len in *; lia)).
      rewrite app_nil_r in *. destruct (append_input c rb v0 v1 ev t) as [[v' ev']|]; [|assumption].
      destruct IH as (I1 & I2 & I3). repeat split; congruence.
    + destruct P as (_ & _ & L & _). pose proof (cap_le_limit c Hc (w v) (proj1 Hv)). unfold len in *. lia.
Qed.

(* operations that change one container through the growing policy only *)
Definition target (o : op) : option nat :=
  match o with
  | PushBack a _ | PushBackRv a _ | EmplaceBack a _ | Insert a _ _ | InsertRv a _ _ | Emplace a _ _ | InsertN a _ _ _
  | InsertRange a _ _ _ | Erase a _ | EraseRange a _ _ | PopBack a | PopBackVal a | Clear a | Resize a _ | ResizeV a _ _
  | AssignN a _ _ | AssignRange a _ _ | AppendN a _ | AppendNV a _ _ | AppendRange a _ _ | CopyAssign a _ | At a _ => Some a
  | _ => None
  end.

Lemma finish_fits p a r ok v n els' p' res ev x' : get p a = Some v -> ROk_post c v n els' r -> len els' = n ->
  finish p a r ok = (p', res, ev) -> get p' a = Some x' ->
  b_capacity c (w v) <= b_capacity c (w x') /\
  (len (els x') <= b_capacity c (w v) -> b_capacity c (w x') = b_capacity c (w v) /\ b_store c (w x') = b_store c (w v) /\ ev = []).
Proof. intros Hg Hr Hl H Hx. unfold finish, ROk_post in *. destruct r as [[v' ev']|[[e' v'] ev']]; inversion H; subst.
  - rewrite (get_set_eq p a _ v Hg) in Hx. inversion Hx; subst. destruct Hr as (A & B & L & D & F & _).
    split; [assumption|]. intros Hfit. rewrite B in Hfit. apply F. lia.
  - rewrite (get_set_eq p a _ v Hg) in Hx. inversion Hx; subst. destruct Hr as (-> & -> & _). split; [lia|]. intros _. repeat split; reflexivity.
Qed.

Theorem step_fits p o a p' r ev x x' : PInv p -> step c p o = (p', r, ev) -> target o = Some a ->
  (single_pass o = true -> forall e, r <> RThrew e) ->
  get p a = Some x -> get p' a = Some x' ->
  b_capacity c (w x) <= b_capacity c (w x') /\
  (len (els x') <= b_capacity c (w x) -> b_capacity c (w x') = b_capacity c (w x) /\ b_store c (w x') = b_store c (w x) /\ ev = []).
Proof.
  intros Hp H Ht Hnt Hx Hx'. unfold step in H.
  assert (Hsame : p' = p -> ev = [] -> b_capacity c (w x) <= b_capacity c (w x') /\
     (len (els x') <= b_capacity c (w x) -> b_capacity c (w x') = b_capacity c (w x) /\ b_store c (w x') = b_store c (w x) /\ ev = [])).
  { intros -> ->. rewrite Hx in Hx'. inversion Hx'; subst. split; [lia|]. intros _. repeat split; reflexivity. }
  destruct o; try discriminate Ht; inversion Ht; subst a0; unfold on in H; cbv zeta in H; rewrite Hx in H;
    try match type of H with
    | context [get p ?b] => destruct (get p b) as [vb|] eqn:Egb; try (inversion H; subst; apply Hsame; reflexivity)
    end;
    pose proof (Hp _ _ Hx) as Hv; pose proof (len_nonneg (els x)); pose proof Hv as [HvB HvS]; pose proof (b_size_cap c Hc _ HvB).
  - (* PushBack *) destruct (arg_ok (els x) g); [|inversion H; subst; apply Hsame; reflexivity].
    pose proof (grow_incr_ok c Hc x (els x ++ [argval (els x) g]) Hv ltac:(rewrite len_app; reflexivity)) as P.
    apply (finish_fits p a _ _ x _ _ p' r ev x' Hx P ltac:(rewrite len_app; reflexivity) H Hx').
  - (* PushBackRv *) destruct (arg_ok (els x) g); [|inversion H; subst; apply Hsame; reflexivity].
    pose proof (one_incr_ok c Hc x (after_move (is_tc c) (els x) g ++ [argval (els x) g]) Hv (arg_len _ _ _)) as P.
    apply (finish_fits p a _ _ x _ _ p' r ev x' Hx P (arg_len _ _ _) H Hx').
  - (* EmplaceBack *) destruct (arg_ok (els x) g); [|inversion H; subst; apply Hsame; reflexivity].
    pose proof (one_incr_ok c Hc x (els x ++ [argval (els x) g]) Hv ltac:(rewrite len_app; reflexivity)) as P.
    apply (finish_fits p a _ _ x _ _ p' r ev x' Hx P ltac:(rewrite len_app; reflexivity) H Hx').
  - (* Insert *) destruct ((0 <=? p0) && (p0 <=? len (els x)) && arg_ok (els x) g) eqn:G; [|inversion H; subst; apply Hsame; reflexivity].
    assert (L : len (insert_list p0 [argval (els x) g] (els x)) = len (els x) + 1) by (rewrite len_insert_list by lia; reflexivity).
    pose proof (grow_incr_ok c Hc x _ Hv L) as P. apply (finish_fits p a _ _ x _ _ p' r ev x' Hx P L H Hx').
  - (* InsertRv *) destruct ((0 <=? p0) && (p0 <=? len (els x)) && arg_ok (els x) g) eqn:G; [|inversion H; subst; apply Hsame; reflexivity].
    assert (L : len (insert_list p0 [argval (els x) g] (after_move (is_tc c) (els x) g)) = len (els x) + 1)
      by (rewrite len_insert_list by (rewrite len_after_move; lia); rewrite len_after_move; reflexivity).
    pose proof (one_incr_ok c Hc x _ Hv L) as P. apply (finish_fits p a _ _ x _ _ p' r ev x' Hx P L H Hx').
  - (* Emplace *) destruct ((0 <=? p0) && (p0 <=? len (els x)) && arg_ok (els x) g) eqn:G; [|inversion H; subst; apply Hsame; reflexivity].
    assert (L : len (insert_list p0 [argval (els x) g] (els x)) = len (els x) + 1) by (rewrite len_insert_list by lia; reflexivity).
    pose proof (one_incr_ok c Hc x _ Hv L) as P. apply (finish_fits p a _ _ x _ _ p' r ev x' Hx P L H Hx').
  - (* InsertN *) destruct ((0 <=? p0) && (p0 <=? len (els x)) && (0 <=? n) && (n <=? M) && arg_ok (els x) g) eqn:G; [|inversion H; subst; apply Hsame; reflexivity].
    destruct (0 <? n) eqn:Gn.
    + assert (L : len (insert_list p0 (rep n (argval (els x) g)) (els x)) = b_size c (w x) + n) by (rewrite len_insert_list by lia; rewrite len_rep by lia; lia).
      assert (Hn0 : 0 <= b_size c (w x) + n) by lia.
      pose proof (grow_set_ok c Hc x true _ _ Hv Hn0 L ltac:(discriminate)) as P. apply (finish_fits p a _ _ x _ _ p' r ev x' Hx P L H Hx').
    + unfold finish in H. inversion H; subst. rewrite (get_set_eq p a _ x Hx) in Hx'. inversion Hx'; subst. split; [lia|]. intros _. repeat split; reflexivity.
  - (* InsertRange *) destruct ((0 <=? p0) && (p0 <=? len (els x))) eqn:G; [|inversion H; subst; apply Hsame; reflexivity]. pose proof (len_nonneg vs). destruct k.
    + destruct (0 <? len vs) eqn:Gn.
      * assert (L : len (insert_list p0 vs (els x)) = b_size c (w x) + len vs) by (rewrite len_insert_list by lia; lia).
        assert (Hn0 : 0 <= b_size c (w x) + len vs) by lia.
        pose proof (grow_set_ok c Hc x true _ _ Hv Hn0 L ltac:(discriminate)) as P. apply (finish_fits p a _ _ x _ _ p' r ev x' Hx P L H Hx').
      * unfold finish in H. inversion H; subst. rewrite (get_set_eq p a _ x Hx) in Hx'. inversion Hx'; subst. split; [lia|]. intros _. repeat split; reflexivity.
    + pose proof (append_input_ok true vs x x [] Hv Hv ltac:(lia) ltac:(lia)) as P.
      pose proof (append_input_fits true vs x x [] Hv) as F.
      destruct (append_input c true x x [] vs) as [[v' ev']|[[e v'] ev']]; inversion H; subst;
        rewrite (get_set_eq p a _ x Hx) in Hx'; inversion Hx'; subst; cbn [w els].
      * destruct P as (_ & _ & Cm). split; [assumption|]. intros Hfit. rewrite len_insert_list in Hfit by lia. apply F in Hfit.
        destruct Hfit as (-> & ? & ?). repeat split; assumption.
      * destruct P as (_ & _ & Lim & Cm & _). split; [assumption|]. intros _.
        exfalso. apply (Hnt eq_refl e). reflexivity.
  - (* Erase *) destruct ((0 <=? p0) && (p0 <? len (els x))) eqn:G; [|inversion H; subst; apply Hsame; reflexivity].
    inversion H; subst. rewrite (get_set_eq p a _ x Hx) in Hx'. inversion Hx'; subst. cbn [w els].
    destruct (b_decr_ok c Hc (w x) HvB ltac:(lia)) as (_ & _ & C & D). split; [lia|]. intros _. repeat split; assumption.
  - (* EraseRange *) destruct ((0 <=? p0) && (p0 <=? q) && (q <=? len (els x))) eqn:G; [|inversion H; subst; apply Hsame; reflexivity].
    inversion H; subst. rewrite (get_set_eq p a _ x Hx) in Hx'. inversion Hx'; subst. destruct (q - p0 =? 0); [split; [lia|intros _; repeat split; reflexivity]|]. cbn [w els].
    destruct (b_setSize_ok c Hc (w x) (b_size c (w x) - (q - p0)) HvB ltac:(lia)) as (_ & _ & C & D). split; [lia|]. intros _. repeat split; assumption.
  - (* PopBack *) destruct (0 <? len (els x)) eqn:G; [|inversion H; subst; apply Hsame; reflexivity].
    inversion H; subst. rewrite (get_set_eq p a _ x Hx) in Hx'. inversion Hx'; subst. cbn [w els].
    destruct (b_decr_ok c Hc (w x) HvB ltac:(lia)) as (_ & _ & C & D). split; [lia|]. intros _. repeat split; assumption.
  - (* PopBackVal *) destruct (0 <? len (els x)) eqn:G; [|inversion H; subst; apply Hsame; reflexivity].
    inversion H; subst. rewrite (get_set_eq p a _ x Hx) in Hx'. inversion Hx'; subst. cbn [w els].
    destruct (b_decr_ok c Hc (w x) HvB ltac:(lia)) as (_ & _ & C & D). split; [lia|]. intros _. repeat split; assumption.
  - (* Clear *) inversion H; subst. rewrite (get_set_eq p a _ x Hx) in Hx'. inversion Hx'; subst. cbn [w els].
    destruct (b_setSize_ok c Hc (w x) 0 HvB ltac:(lia)) as (_ & _ & C & D). split; [lia|]. intros _. repeat split; assumption.
  - (* Resize *) destruct ((0 <=? n) && (n <=? M)) eqn:G; [|inversion H; subst; apply Hsame; reflexivity].
    assert (L : len (take n (els x) ++ rep (n - len (els x)) 0) = n) by (rewrite len_app, len_take, len_rep' by lia; lia).
    pose proof (grow_set_ok c Hc x (b_size c (w x) <? n) n _ Hv ltac:(lia) L ltac:(intros; lia)) as P. apply (finish_fits p a _ _ x _ _ p' r ev x' Hx P L H Hx').
  - (* ResizeV *) destruct ((0 <=? n) && (n <=? M) && arg_ok (els x) g) eqn:G; [|inversion H; subst; apply Hsame; reflexivity].
    assert (L : len (take n (els x) ++ rep (n - len (els x)) (argval (els x) g)) = n) by (rewrite len_app, len_take, len_rep' by lia; lia).
    pose proof (grow_set_ok c Hc x (b_size c (w x) <? n) n _ Hv ltac:(lia) L ltac:(intros; lia)) as P. apply (finish_fits p a _ _ x _ _ p' r ev x' Hx P L H Hx').
  - (* AssignN *) destruct ((0 <=? n) && (n <=? M) && arg_ok (els x) g) eqn:G; [|inversion H; subst; apply Hsame; reflexivity].
    assert (L : len (rep n (argval (els x) g)) = n) by (apply len_rep; lia).
    pose proof (grow_set_ok c Hc x (b_size c (w x) <? n) n _ Hv ltac:(lia) L ltac:(intros; lia)) as P. apply (finish_fits p a _ _ x _ _ p' r ev x' Hx P L H Hx').
  - (* AssignRange *) unfold assign_range in H. pose proof (len_nonneg vs). destruct k.
    + pose proof (grow_set_ok c Hc x (b_size c (w x) <? len vs) (len vs) vs Hv ltac:(lia) eq_refl ltac:(intros; lia)) as P.
      apply (finish_fits p a _ _ x _ _ p' r ev x' Hx P eq_refl H Hx').
    + destruct (b_setSize_ok c Hc (w x) 0 HvB ltac:(lia)) as (A & B & Cc & D).
      assert (V0 : VInv {| w := b_setSize c (w x) 0; els := [] |}) by (split; cbn [w els]; [assumption|rewrite B; reflexivity]).
      pose proof (append_input_ok false vs _ _ [] V0 V0 ltac:(lia) ltac:(lia)) as P.
      pose proof (append_input_fits false vs {| w := b_setSize c (w x) 0; els := [] |} {| w := b_setSize c (w x) 0; els := [] |} [] V0) as F.
      unfold finish in H.
      destruct (append_input c false {| w := b_setSize c (w x) 0; els := [] |} {| w := b_setSize c (w x) 0; els := [] |} [] vs) as [[v' ev']|[[e v'] ev']];
        inversion H; subst; rewrite (get_set_eq p a _ x Hx) in Hx'; inversion Hx'; subst; cbn [w els] in *.
      * destruct P as (_ & PE & Cm). split; [lia|]. intros Hfit. rewrite PE in Hfit. cbn [app] in Hfit.
        destruct (F ltac:(cbn [els w]; change (len []) with 0; lia)) as (-> & ? & ?). repeat split; congruence.
      * exfalso. apply (Hnt eq_refl e). reflexivity.
  - (* AppendN *) destruct ((0 <=? n) && (n <=? M)) eqn:G; [|inversion H; subst; apply Hsame; reflexivity].
    assert (L : len (els x ++ rep n 0) = b_size c (w x) + n) by (rewrite len_app, len_rep by lia; lia).
    assert (Hn0 : 0 <= b_size c (w x) + n) by lia.
    pose proof (grow_set_ok c Hc x true _ _ Hv Hn0 L ltac:(discriminate)) as P. apply (finish_fits p a _ _ x _ _ p' r ev x' Hx P L H Hx').
  - (* AppendNV *) destruct ((0 <=? n) && (n <=? M) && arg_ok (els x) g) eqn:G; [|inversion H; subst; apply Hsame; reflexivity].
    assert (L : len (els x ++ rep n (argval (els x) g)) = b_size c (w x) + n) by (rewrite len_app, len_rep by lia; lia).
    assert (Hn0 : 0 <= b_size c (w x) + n) by lia.
    pose proof (grow_set_ok c Hc x true _ _ Hv Hn0 L ltac:(discriminate)) as P. apply (finish_fits p a _ _ x _ _ p' r ev x' Hx P L H Hx').
  - (* AppendRange *) unfold append_range in H. pose proof (len_nonneg vs). destruct k.
    + assert (L : len (els x ++ vs) = b_size c (w x) + len vs) by (rewrite len_app; lia).
      assert (Hn0 : 0 <= b_size c (w x) + len vs) by lia.
      pose proof (grow_set_ok c Hc x true _ _ Hv Hn0 L ltac:(discriminate)) as P. apply (finish_fits p a _ _ x _ _ p' r ev x' Hx P L H Hx').
    + pose proof (append_input_ok true vs x x [] Hv Hv ltac:(lia) ltac:(lia)) as P.
      pose proof (append_input_fits true vs x x [] Hv) as F. unfold finish in H.
      destruct (append_input c true x x [] vs) as [[v' ev']|[[e v'] ev']]; inversion H; subst;
        rewrite (get_set_eq p a _ x Hx) in Hx'; inversion Hx'; subst; cbn [w els].
      * destruct P as (_ & PE & Cm). split; [assumption|]. intros Hfit. rewrite PE, len_app in Hfit. apply F in Hfit.
        destruct Hfit as (-> & ? & ?). repeat split; assumption.
      * exfalso. apply (Hnt eq_refl e). reflexivity.
  - (* CopyAssign *) destruct (Nat.eqb a b); [inversion H; subst; apply Hsame; reflexivity|]. unfold assign_range in H.
    pose proof (len_nonneg (els vb)).
    pose proof (grow_set_ok c Hc x (b_size c (w x) <? len (els vb)) (len (els vb)) (els vb) Hv ltac:(lia) eq_refl ltac:(intros; lia)) as P.
    apply (finish_fits p a _ _ x _ _ p' r ev x' Hx P eq_refl H Hx').
  - (* At *) destruct ((0 <=? i) && (i <=? M)); [|inversion H; subst; apply Hsame; reflexivity].
    destruct (i <? b_size c (w x)); inversion H; subst; apply Hsame; reflexivity.
Qed.


(* ---- C05: the inline promise ------------------------------------------------------------------------------------- *)
Lemma inline_capacity x : fl c = FSV -> BInv x -> b_store c x = SInl -> b_capacity c x = N /\ b_size c x <= N.
Proof. intros E H Hs. pose proof Hc as [HM0 HN0]. rewrite E in HN0. unfold VecProofs.BInv, b_store, b_capacity, b_size in *. rewrite E in *.
  destruct (isSmall x) eqn:Es; [|discriminate]. destruct (inline_view M N HN0 x H Es) as (A & B & C). split; [assumption|lia]. Qed.

(* a SmallVector that is inline stays inline, keeps capacity N and makes no allocator request through any operation
   whose resulting size is within N *)
Theorem sv_inline_promise p o a p' r ev x x' : fl c = FSV -> PInv p -> step c p o = (p', r, ev) -> target o = Some a ->
  (single_pass o = true -> forall e, r <> RThrew e) ->
  get p a = Some x -> get p' a = Some x' -> b_store c (w x) = SInl -> len (els x') <= N ->
  b_store c (w x') = SInl /\ b_capacity c (w x') = N /\ ev = [].
Proof. intros E Hp H Ht Hnt Hx Hx' Hin Hlen. destruct (inline_capacity (w x) E (proj1 (Hp _ _ Hx)) Hin) as [Hcap _].
  destruct (step_fits p o a p' r ev x x' Hp H Ht Hnt Hx Hx') as [_ F]. destruct (F ltac:(lia)) as (F1 & F2 & F3).
  split; [congruence|split; [congruence|assumption]]. Qed.

(* two inline SmallVectors: move construction / assignment, swap and swap2 keep both inline, without allocator request *)
Lemma sv_move_assign_inline t o : fl c = FSV -> BInv t -> BInv o -> b_store c t = SInl -> b_store c o = SInl ->
  let '(t', o', ev) := b_move_assign c t o in b_store c t' = SInl /\ b_store c o' = SInl /\ ev = [].
Proof. intros E Ht Ho It Io. pose proof Hc as [HM0 HN0]. rewrite E in HN0. unfold b_move_assign, b_store in *. rewrite E in *.
  destruct (isSmall t) eqn:Et; [|discriminate]. destruct (isSmall o) eqn:Eo; [|discriminate]. cbn [negb andb].
  assert (Ht' : WInv M N t) by (unfold VecProofs.BInv in Ht; rewrite E in Ht; exact Ht).
  assert (Ho' : WInv M N o) by (unfold VecProofs.BInv in Ho; rewrite E in Ho; exact Ho).
  destruct (inline_view M N HN0 t Ht' Et) as (T1 & T2 & T3). destruct (inline_view M N HN0 o Ho' Eo) as (O1 & O2 & O3).
  pose proof (size_le_capacity M N o Ho') as Hso. unfold Words.size in O1. rewrite Eo in O1.
  destruct (setSize_ok M N HN0 t (capa_ o) Ht' ltac:(unfold Words.size in *; rewrite Eo in *; lia)) as (_ & _ & _ & D1).
  destruct (setSize_ok M N HN0 o 0 Ho' ltac:(lia)) as (_ & _ & _ & D2).
  rewrite D1, D2, Et, Eo. repeat split; reflexivity. Qed.
Lemma sv_move_construct_inline o : fl c = FSV -> BInv o -> b_store c o = SInl ->
  let '(t', o') := b_move_construct c o in b_store c t' = SInl /\ b_store c o' = SInl.
Proof. intros E Ho Io. pose proof init_BInv as (_ & _ & I3). unfold b_move_construct. rewrite E. rewrite <- (sv_init_eq E).
  split; [assumption|]. unfold b_store in *. rewrite E in *. destruct (isSmall (b_init c)); [reflexivity|congruence]. Qed.
Lemma sv_swap_inline t o : fl c = FSV -> b_store c t = SInl -> b_store c o = SInl ->
  let '(t', o') := b_swap c t o in b_store c t' = SInl /\ b_store c o' = SInl.
Proof. intros E It Io. unfold b_swap. rewrite E. split; assumption. Qed.

(* a FixedCapacityVector never talks to an allocator and its elements never leave the object *)
Lemma fcv_base_no_events : fl c = FFCV ->
  (forall x n, match adjust c x n with inl (_, ev) => ev = [] | inr _ => True end) /\
  (forall x, match adjust_one c x with inl (_, ev) => ev = [] | inr _ => True end) /\
  (forall x, b_free c x = []) /\ (forall x, snd (b_shrink c x) = []) /\ (forall t o, snd (b_move_assign c t o) = []) /\
  (forall x, b_store c x = SInl).
Proof. intros E. unfold adjust, adjust_one, b_free, b_heap, b_shrink, b_move_assign, b_store. rewrite E. repeat split; intros.
  - destruct (exc_check n (b_capacity c x)); [reflexivity|exact I].
  - destruct (exc_check (b_size c x + 1) (b_capacity c x)); [reflexivity|exact I]. Qed.

(* ---- C07 -------------------------------------------------------------------------------------------------------------- *)
Theorem reserve_post p a n p' ev x' : PInv p -> step c p (Reserve a n) = (p', ROk, ev) -> get p' a = Some x' ->
  (0 <= n <= M -> n <= b_capacity c (w x')) /\ (forall x, get p a = Some x -> b_capacity c (w x) <= b_capacity c (w x') /\ els x' = els x).
Proof. intros Hp H Hx'. unfold step, on in H. cbv zeta in H. destruct (get p a) as [x|] eqn:Hx; [|inversion H; subst; congruence].
  pose proof (Hp _ _ Hx) as [HvB HvS]. pose proof (b_size_cap c Hc _ HvB).
  destruct ((0 <=? n) && (n <=? M)) eqn:G; [|discriminate H].
  assert (Hsame : p' = p -> (0 <= n <= M -> n <= b_capacity c (w x) -> n <= b_capacity c (w x')) /\
             (forall x0, Some x = Some x0 -> b_capacity c (w x0) <= b_capacity c (w x') /\ els x' = els x0)).
  { intros ->. rewrite Hx in Hx'. inversion Hx'; subst. split; [auto|]. intros x0 [= <-]. split; [lia|reflexivity]. }
  destruct (fl c) eqn:E.
  - destruct (Z.ltb_spec (b_capacity c (w x)) n) as [Hlt|Hge].
    + pose proof (b_grow_ok c Hc (w x) n true HvB Hlt ltac:(intros; lia) ltac:(congruence)) as GR.
      destruct (b_grow c (w x) n true) as [[w1 ev1]|]; [|discriminate H]. inversion H; subst. destruct GR as (A & B & C & _).
      rewrite (get_set_eq p a _ x Hx) in Hx'. inversion Hx'; subst. cbn [w els]. split; [intros; assumption|]. intros x0 [= <-]. split; [lia|reflexivity].
    + inversion H; subst. destruct (Hsame eq_refl) as [S1 S2]. split; [intros; apply S1; [assumption|lia]|assumption].
  - destruct (Z.ltb_spec (b_capacity c (w x)) n) as [Hlt|Hge].
    + pose proof (b_grow_ok c Hc (w x) n true HvB Hlt ltac:(intros; lia) ltac:(congruence)) as GR.
      destruct (b_grow c (w x) n true) as [[w1 ev1]|]; [|discriminate H]. inversion H; subst. destruct GR as (A & B & C & _).
      rewrite (get_set_eq p a _ x Hx) in Hx'. inversion Hx'; subst. cbn [w els]. split; [intros; assumption|]. intros x0 [= <-]. split; [lia|reflexivity].
    + inversion H; subst. destruct (Hsame eq_refl) as [S1 S2]. split; [intros; apply S1; [assumption|lia]|assumption].
  - unfold exc_check in H. destruct (Z.ltb_spec (b_capacity c (w x)) n) as [Hlt|Hge]; [discriminate H|]. inversion H; subst.
    destruct (Hsame eq_refl) as [S1 S2]. split; [intros; apply S1; assumption|assumption].
Qed.

(* moving from a heap-backed vector hands the buffer over: the target takes the source's words (size, capacity word and,
   with them, the block), nothing is allocated *)
Definition no_alloc (ev : list aevent) : Prop := forall e, In e ev -> match e with EDealloc _ => True | _ => False end.
Lemma steal_move_construct o : b_store c o = SHeap -> fst (b_move_construct c o) = o /\ b_store c (snd (b_move_construct c o)) <> SHeap.
Proof. intros Ho. unfold b_move_construct, b_store in *. destruct (fl c) eqn:E; cbn [fst snd capa_ size_]; try discriminate.
  - split; [reflexivity|discriminate].
  - split; [reflexivity|]. pose proof Hc as [_ HN0]. rewrite E in HN0. unfold isSmall; cbn [capa_ size_]. assert (0 <? N = true) as -> by lia. discriminate. Qed.
Lemma steal_move_assign t o : b_store c o = SHeap ->
  let '(t', o', ev) := b_move_assign c t o in t' = o /\ b_store c o' <> SHeap /\ no_alloc ev.
Proof. intros Ho. unfold b_move_assign, b_store, no_alloc in *. destruct (fl c) eqn:E; try discriminate.
  - split; [reflexivity|]. cbn [capa_]. split; [discriminate|]. intros e He. destruct (capa_ t =? 0); [destruct He|destruct He as [<-|[]]; exact I].
  - destruct (isSmall o) eqn:Eo; [discriminate|]. split; [reflexivity|]. pose proof Hc as [_ HN0]. rewrite E in HN0.
    unfold isSmall at 1; cbn [capa_ size_]. assert (0 <? N = true) as -> by lia. split; [discriminate|].
    intros e He. destruct (isSmall t); [destruct He|destruct He as [<-|[]]; exact I]. Qed.
Lemma steal_swap t o : fl c <> FFCV -> b_swap c t o = (o, t).
Proof. intros Hf. unfold b_swap. destruct (fl c); try reflexivity. congruence. Qed.

(* ---- C06: the allocator protocol ------------------------------------------------------------------------------------ *)
(* the blocks a container owns: one block of [capacity word] elements while begin() points to the heap *)
Definition owned (x : words) : list Z := if b_heap c x then [capa_ x] else [].
Fixpoint take_one (n : Z) (l : list Z) : option (list Z) :=
  match l with [] => None | y :: t => if n =? y then Some t else option_map (cons y) (take_one n t) end.
(* what an allocator event does to the multiset of outstanding blocks; None = protocol violation (a block returned that is
   not outstanding with that size); deallocate(nullptr, 0) is the no-op the first growth of an empty amc::vector performs *)
Definition apply_ev (l : list Z) (e : aevent) : option (list Z) :=
  match e with
  | EAlloc n => Some (n :: l)
  | EDealloc n => if n =? 0 then Some l else take_one n l
  | ERealloc old new live => if old =? 0 then Some (new :: l) else option_map (cons new) (take_one old l)
  end.
Fixpoint apply_evs (l : list Z) (evs : list aevent) : option (list Z) :=
  match evs with [] => Some l | e :: t => match apply_ev l e with Some l' => apply_evs l' t | None => None end end.

Lemma heap_capa_pos x : BInv x -> b_heap c x = true -> 0 < capa_ x \/ (fl c = FSV /\ 0 <= capa_ x).
Proof. intros H Hh. unfold b_heap, b_store, VecProofs.BInv in *. destruct (fl c) eqn:E; try discriminate.
  - destruct (Z.eqb_spec (capa_ x) 0); [discriminate|]. left. lia.
  - right. split; [reflexivity|]. unfold WInv in H. lia. Qed.

(* Reallocate: the allocator's reallocate is used only for trivially relocatable element types, with the true old
   capacity and live count; otherwise allocate + relocate + deallocate(old capacity) *)
Lemma realloc_dispatch old new live :
  realloc_events c old new live = if is_tr c && has_realloc c then [ERealloc old new live] else [EAlloc new; EDealloc old].
Proof. reflexivity. Qed.

Lemma realloc_ledger old new live : 0 <= old -> old < new ->
  apply_evs (if old =? 0 then [] else [old]) (realloc_events c old new live) = Some [new].
Proof. intros H0 Hlt. unfold realloc_events. destruct (is_tr c && has_realloc c); cbn [apply_evs apply_ev].
  - destruct (Z.eqb_spec old 0); [reflexivity|]. cbn [take_one]. rewrite Z.eqb_refl. reflexivity.
  - destruct (Z.eqb_spec old 0); [reflexivity|]. cbn [take_one]. assert (old =? new = false) as -> by lia. rewrite Z.eqb_refl. reflexivity. Qed.

(* growth: the blocks owned before, transformed by the events of grow, are the blocks owned after *)
Lemma grow_ledger x need exact x' ev : BInv x -> b_capacity c x < need -> (exact = true -> need <= M) -> fl c <> FFCV ->
  b_grow c x need exact = Some (x', ev) -> fl c <> FSV \/ b_heap c x = false \/ 0 < capa_ x ->
  apply_evs (owned x) ev = Some (owned x').
Proof. intros H Hn He Hf Hg Hpos. pose proof (b_grow_ok c Hc x need exact H Hn He Hf) as G. rewrite Hg in G. destruct G as (A & B & C & D & _).
  pose proof (b_size_cap c Hc x H) as Hsc. pose proof (b_size_cap c Hc x' A) as Hsc'.
  unfold b_grow in Hg. unfold owned, b_heap. rewrite D. unfold b_store, b_capacity, p_capacity, VecProofs.BInv in *.
  destruct (fl c) eqn:E; try congruence.
  - destruct (safe_next M (mk_wrap c) (capa_ x) need exact) as [nc|]; [|discriminate]. inversion Hg; subst. cbn [capa_].
    cbn [capa_ size_] in *. destruct H as [H1 H2]. destruct (Z.eqb_spec (capa_ x) 0) as [E0|E0].
    + rewrite E0. apply (realloc_ledger 0 nc (size_ x)); lia.
    + pose proof (realloc_ledger (capa_ x) nc (size_ x) ltac:(lia) ltac:(lia)) as R. destruct (Z.eqb_spec (capa_ x) 0) in R; [lia|exact R].
  - destruct (isSmall x) eqn:Es.
    + destruct (safe_next M (mk_wrap c) (if size_ x =? M then capa_ x else size_ x) need exact) as [nc|]; [|discriminate]. inversion Hg; subst. reflexivity.
    + destruct (safe_next M (mk_wrap c) (capa_ x) need exact) as [nc|]; [|discriminate]. inversion Hg; subst. cbn [capa_].
      destruct (heap_view M N x H Es) as (V1 & V2 & V3). rewrite V2 in *.
      assert (Hcx : 0 < capa_ x) by (destruct Hpos as [Hp|[Hp|Hp]]; [congruence| |assumption]; unfold b_heap, b_store in Hp; rewrite E, Es in Hp; discriminate).
      unfold Words.capacity, isSmall in C; cbn [capa_ size_] in C.
      assert (Hnc : capa_ x < nc). { destruct (nc <? size_ x) eqn:Q; cbn [andb] in C; [|lia]. destruct (negb (size_ x =? M)); lia. }
      pose proof (realloc_ledger (capa_ x) nc (size_ x) ltac:(lia) Hnc) as R. destruct (Z.eqb_spec (capa_ x) 0) in R; [lia|exact R].
Qed.

(* destruction returns the block with the capacity it was obtained (or last reallocated) with *)
Lemma free_ledger x : apply_evs (owned x) (b_free c x) = Some [] \/ (b_heap c x = true /\ capa_ x = 0).
Proof. unfold owned, b_free. destruct (b_heap c x) eqn:Hh; [|left; reflexivity].
  destruct (Z.eqb_spec (capa_ x) 0) as [E0|E0]; [right; split; [reflexivity|assumption]|left].
  cbn [apply_evs apply_ev take_one]. destruct (Z.eqb_spec (capa_ x) 0); [lia|]. rewrite Z.eqb_refl. reflexivity. Qed.

(* move assignment: the target's old block is returned (with its own capacity), the source's block changes owner together
   with the capacity word; nothing is allocated *)
Lemma move_assign_ledger t o : BInv t -> BInv o -> (b_heap c t = true -> 0 < capa_ t) -> b_store c o = SHeap ->
  let '(t', o', ev) := b_move_assign c t o in
  apply_evs (owned t ++ owned o) ev = Some (owned t' ++ owned o') /\ owned t' = owned o /\ owned o' = [].
Proof. intros Ht Ho Hpos Hso. unfold b_move_assign. destruct (fl c) eqn:E.
  - unfold owned, b_heap, b_store in *. rewrite E in *. cbn [capa_]. destruct (capa_ o =? 0) eqn:Eo; [discriminate|]. cbn [app].
    destruct (Z.eqb_spec (capa_ t) 0) as [Et|Et]; cbn [app apply_evs apply_ev]; [split; [reflexivity|split; reflexivity]|].
    destruct (Z.eqb_spec (capa_ t) 0); [lia|]. cbn [take_one]. rewrite Z.eqb_refl. split; [reflexivity|split; reflexivity].
  - pose proof Hc as [_ HN0]. rewrite E in HN0. unfold owned, b_heap, b_store in *. rewrite E in *.
    destruct (isSmall o) eqn:Eo; [discriminate|]. rewrite ?Eo.
    assert (Hz : isSmall {| capa_ := 0; size_ := N |} = true) by (unfold isSmall; cbn [capa_ size_]; apply Z.ltb_lt; lia). rewrite Hz. cbn [app].
    destruct (isSmall t) eqn:Et; cbn [app apply_evs apply_ev]; [split; [reflexivity|split; reflexivity]|].
    specialize (Hpos eq_refl). destruct (Z.eqb_spec (capa_ t) 0); [lia|]. cbn [take_one]. rewrite Z.eqb_refl. split; [reflexivity|split; reflexivity].
  - unfold b_store in Hso. rewrite E in Hso. discriminate.
Qed.
End Step.

(* ---- C10 at the level of the operation model: an own-element argument is the value it designates ---------------- *)
Lemma own_as_ext c p a v i : get p a = Some v -> (i < length (els v))%nat ->
  step c p (PushBack a (AOwn i)) = step c p (PushBack a (AExt (nth i (els v) 0))) /\
  (forall q, step c p (Insert a q (AOwn i)) = step c p (Insert a q (AExt (nth i (els v) 0)))) /\
  (forall q n, step c p (InsertN a q n (AOwn i)) = step c p (InsertN a q n (AExt (nth i (els v) 0)))) /\
  (forall q, step c p (Emplace a q (AOwn i)) = step c p (Emplace a q (AExt (nth i (els v) 0)))) /\
  step c p (EmplaceBack a (AOwn i)) = step c p (EmplaceBack a (AExt (nth i (els v) 0))) /\
  (forall n, step c p (ResizeV a n (AOwn i)) = step c p (ResizeV a n (AExt (nth i (els v) 0)))) /\
  (forall n, step c p (AssignN a n (AOwn i)) = step c p (AssignN a n (AExt (nth i (els v) 0)))) /\
  (forall n, step c p (AppendNV a n (AOwn i)) = step c p (AppendNV a n (AExt (nth i (els v) 0)))).
Proof. intros Hg Hi. apply Nat.ltb_lt in Hi. unfold step, on. rewrite Hg. cbn [arg_ok argval]. rewrite Hi.
  repeat split; intros; rewrite ?andb_true_r; reflexivity. Qed.


(* ---- C14 at the level of the operation model -------------------------------------------------------------------------- *)
Lemma relocate_step c p a b v : get p a = Some v -> get p b = None -> a <> b -> container_tr c = true ->
  step c p (Relocate a b) = (set (set p b (Some v)) a None, ROk, []).
Proof. intros Ha Hb Hab Ht. unfold step, on. apply Nat.eqb_neq in Hab. rewrite Hab, Ha, Hb, Ht. reflexivity. Qed.
Lemma relocate_refused c p a b : container_tr c = false -> step c p (Relocate a b) = (p, RSkip, []).
Proof. intros Ht. unfold step, on. destruct (Nat.eqb a b); [reflexivity|]. destruct (get p a); [|reflexivity]. destruct (get p b); [reflexivity|]. rewrite Ht. reflexivity. Qed.
