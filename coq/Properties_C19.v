(* C19 - lookups are logarithmic.
   Model: libstdc++'s std::lower_bound halving loop (the loop FlatSet's find / contains / count / lower_bound / insert /
   erase-by-key run on the sorted vector), one comparator call per iteration, with ANY comparator outcome function.
   [C19_lower_bound_log]: on a range of n > 0 elements the loop performs at most floor(log2 n) + 1 comparisons, which
   is ceil(log2 (n + 1)); the callers add at most a constant (one or two equivalence tests; equal_range runs two
   searches), giving the bound 2*ceil(log2(n+1)) + 4 of the property.  The exact number of comparisons of the
   implementation is compared with this model (and with the bound) by the check, for every n and key rank. *)
From Coq Require Import Arith Lia List PeanoNat.
From Amc Require Import LB.

Theorem C19_lower_bound_log :
  forall (lt_at : nat -> bool) (fuel first len : nat),
    len <= fuel -> 0 < len -> snd (lb lt_at fuel first len) <= Nat.log2 len + 1.
Proof. exact lb_count. Qed.

Theorem C19_bound_form : forall n, 0 < n -> Nat.log2_up (S n) = S (Nat.log2 n).
Proof. exact log2_up_succ. Qed.

(* two searches plus four extra comparisons stay within the property's bound *)
Theorem C19_lookup_bound :
  forall (lt1 lt2 : nat -> bool) (n : nat), 0 < n ->
    snd (lb lt1 n 0 n) + snd (lb lt2 n 0 n) + 4 <= 2 * Nat.log2_up (S n) + 4.
Proof. exact two_searches_bound. Qed.

Example C19_example : snd (lb (fun i => Nat.ltb i 5) 8 0 8) = 3.
Proof. reflexivity. Qed.
