(* Slot level models of the TRIVIALLY RELOCATABLE overloads of include/amc/vectorcommon.hpp (the
   `enable_if<amc::is_trivially_relocatable<T>::value>` ones) and of the relocation functions of memory.hpp they call, for an
   element that is trivially relocatable but NOT trivially copyable (the instrumented element vf::El<1>, "TR": copy construction,
   copy assignment and construction from a value are throwing-capable events, the move constructor is noexcept and no event, the
   destructor is a real one).  Memory, slots, throw oracle: Throw.v.

     memory.hpp  relocate_at_impl (elem, dest, MemMove)              std::memmove (dest, elem, sizeof (T))          -> [relocate]
                 uninitialized_relocate_n_impl (first, n, dest, MemMove)  std::memmove (dest, first, n * sizeof (T)) -> [relocate_n]
     vec::shift_right (first, n)                 uninitialized_relocate_n (first, n, first + 1)                       -> [shift_right1]
     vec::shift_right (first, n, count)          uninitialized_relocate_n (first, n, first + count)                   -> [shift_right_cnt]
     vec::unshift_right (first, n, count)        uninitialized_relocate_n (first + count, n, first)                   -> [unshift_right]
     vec::shift_left (first, n)                  uninitialized_relocate_n (first, n, first - 1)                       -> [shift_left]
     vec::fill_after_shift (first, n, count, v)  std::uninitialized_fill_n (first, count, v)                          -> [fill_after_shift]
     vec::copy_after_shift (it, n, count, pos)   amc::uninitialized_copy_n (it, count, pos)                           -> [copy_after_shift]
     vec::relocate_after_shift (e, dest)         amc::relocate_at (e, dest)                                           -> [relocate_after_shift]
     vec::destroy_after_shift (pos)              nothing                                                              -> [destroy_after_shift]
     vec::assign_after_shift (pos, v)            construct_at (pos, v)                                                (in [insert_n])
     vec::emplace_n (pos, n, args...)            with its two catch blocks                                            -> [emplace_n]
     vec::insert_n (pos, n, const T &)           with its catch block                                                 -> [insert_n]
     vec::erase_n (first, n, count)              destroy_n (first, n); uninitialized_relocate_n (first + n, count, first) -> [erase_n]
     VectorImpl::insert (pos, count, v)          after "fix: insert of several elements before end() ..."             -> [insert_cnt_tr]
     VectorImpl::insert_range (pos, first, last, forward_iterator_tag)   the same handler                             -> [insert_range_tr]
     the body of insert (pos, count, v) BEFORE that fix (no try / catch)                                              -> [insert_cnt_tr_nofix]

   A bitwise relocation src -> dst makes dst hold the object (its state: Live v, or Moved for a moved-from object) and src RAW: no
   moved-from object stays behind, no destructor runs, no event.  It is a lifetime error of the model when the source holds no
   object (Raw: AssignDead, the "read of a dead object" of Throw.move_construct) and when the destination holds one
   (ConstructOverLive: the bytes of a live object would be overwritten without its destructor - a leak - or an object duplicated).
   A range is relocated with memmove semantics: element by element in the order in which no source is overwritten before it has
   been relocated (lowest first when the destination is lower, highest first when it is higher, nothing when it is the same
   address), so overlapping ranges are fine in both directions and exactly the destination slots OUTSIDE the source range must be Raw.

   Results, for every size / capacity / position / count / range / throw index (no axiom: Print Assumptions at the end):
     [relocate_n_spec]                                       the only preconditions of a range relocation, its exact effect
     [shift_right_cnt_spec] [shift_right1_spec] [unshift_right_spec] [shift_left_spec] [uninit_copy_loop_spec]   slot level
     [insert_range_tr_strong] [insert_cnt_tr_strong]         never Err; Threw -> EVERY slot as before; Done -> prefix, new elements,
                                                             suffix, Inv for size + count   ([*_done_abs]: as lists)
     [emplace_n_spec] [insert_n_strong]                      never Err; Threw -> every slot as before; Done -> prefix, element, suffix,
                                                             the temporary e Raw, Inv for size + 1
     [erase_n_correct]                                       never Err, nothing throws; Inv for size - n, the list of Erase.spec_erase
     [shift_*_inv]                                           the helpers on the tail of a vector: never Err
     [insert_cnt_tr_nofix_refuted]                           before the fix a throwing copy left [pos, pos + count) Raw below size and
                                                             the tail alive beyond it *)
From Coq Require Import ZArith Lia Bool List Arith.
From Amc Require Import Throw EmplaceGrow.
From Amc Require Slots Erase ThrowMove.
Import ListNotations.

Definition lift := ThrowMove.lift.

(* ---- bitwise relocation of one object: relocate_at_impl (elem, dest, MemMove) ------------------------------------------------- *)
Definition relocate (m : mem) (dst src : nat) : mem + err :=
  match m src with
  | Out => inr OutOfBlock
  | Raw => inr AssignDead
  | s => match m dst with
         | Raw => inl (upd (upd m dst s) src Raw)
         | Out => inr OutOfBlock
         | _ => inr ConstructOverLive end
  end.
Lemma relocate_ok m dst src : alive (m src) = true -> m dst = Raw -> relocate m dst src = inl (upd (upd m dst (m src)) src Raw).
Proof. intros Hs Hd. unfold relocate. destruct (m src); try discriminate; rewrite Hd; reflexivity. Qed.
(* what the model refuses *)
Lemma relocate_over_alive m dst src : alive (m src) = true -> alive (m dst) = true -> relocate m dst src = inr ConstructOverLive.
Proof. intros Hs Hd. unfold relocate. destruct (m src); try discriminate; destruct (m dst); try discriminate; reflexivity. Qed.
Lemma relocate_from_raw m dst src : m src = Raw -> relocate m dst src = inr AssignDead.
Proof. intros Hs. unfold relocate. rewrite Hs. reflexivity. Qed.

(* ---- uninitialized_relocate_n (first, n, dest): std::memmove (dest, first, n * sizeof (T)) ----------------------------------- *)
(* destination below the source: lowest element first *)
Fixpoint reloc_fwd (m : mem) (src dst n : nat) : mem + err :=
  match n with 0 => inl m
  | S k => match relocate m dst src with inl m1 => reloc_fwd m1 (S src) (S dst) k | inr e => inr e end end.
(* destination above the source: highest element first *)
Fixpoint reloc_bwd (m : mem) (src dst n : nat) : mem + err :=
  match n with 0 => inl m
  | S k => match relocate m (dst + k) (src + k) with inl m1 => reloc_bwd m1 src dst k | inr e => inr e end end.
Definition relocate_n (m : mem) (src n dst : nat) : mem + err :=
  if dst <? src then reloc_fwd m src dst n else if src <? dst then reloc_bwd m src dst n else inl m.

Lemma reloc_fwd_spec : forall n m src dst, dst < src ->
  (forall k, k < n -> alive (m (src + k)) = true) ->
  (forall j, dst <= j < dst + n -> j < src -> m j = Raw) ->
  exists m', reloc_fwd m src dst n = inl m' /\
    (forall k, k < n -> m' (dst + k) = m (src + k)) /\
    (forall j, src <= j < src + n -> dst + n <= j -> m' j = Raw) /\
    (forall j, ~ (dst <= j < dst + n) -> ~ (src <= j < src + n) -> m' j = m j).
Proof.
  induction n as [|n IH]; intros m src dst Hd Ha Hr; cbn [reloc_fwd].
  - exists m. repeat split; intros; try lia; reflexivity.
  - pose proof (Ha 0 ltac:(lia)) as A0. rewrite Nat.add_0_r in A0. pose proof (Hr dst ltac:(lia) Hd) as R0.
    rewrite (relocate_ok m dst src A0 R0).
    destruct (IH (upd (upd m dst (m src)) src Raw) (S src) (S dst) ltac:(lia)) as [m' (E & P1 & P2 & P3)].
    + intros k Hk. pose proof (Ha (S k) ltac:(lia)) as W. replace (src + S k) with (S src + k) in W by lia. updsimp; exact W.
    + intros j Hj Hjs. destruct (Nat.eq_dec j src) as [->|Hne]; [updsimp|].
      pose proof (Hr j ltac:(lia) ltac:(lia)) as W. updsimp; exact W.
    + exists m'. split; [exact E|]. split; [|split].
      * intros k Hk. destruct k as [|k].
        -- rewrite !Nat.add_0_r. rewrite P3 by lia. updsimp.
        -- replace (dst + S k) with (S dst + k) by lia. replace (src + S k) with (S src + k) by lia. rewrite P1 by lia. updsimp.
      * intros j Hj Hjd. destruct (Nat.eq_dec j src) as [->|Hne]; [rewrite P3 by lia; updsimp|apply P2; lia].
      * intros j H1 H2. rewrite P3 by lia. updsimp.
Qed.
Lemma reloc_bwd_spec : forall n m src dst, src < dst ->
  (forall k, k < n -> alive (m (src + k)) = true) ->
  (forall j, dst <= j < dst + n -> src + n <= j -> m j = Raw) ->
  exists m', reloc_bwd m src dst n = inl m' /\
    (forall k, k < n -> m' (dst + k) = m (src + k)) /\
    (forall j, src <= j < src + n -> j < dst -> m' j = Raw) /\
    (forall j, ~ (dst <= j < dst + n) -> ~ (src <= j < src + n) -> m' j = m j).
Proof.
  induction n as [|n IH]; intros m src dst Hd Ha Hr; cbn [reloc_bwd].
  - exists m. repeat split; intros; try lia; reflexivity.
  - pose proof (Ha n ltac:(lia)) as A0. pose proof (Hr (dst + n) ltac:(lia) ltac:(lia)) as R0.
    rewrite (relocate_ok m (dst + n) (src + n) A0 R0).
    destruct (IH (upd (upd m (dst + n) (m (src + n))) (src + n) Raw) src dst Hd) as [m' (E & P1 & P2 & P3)].
    + intros k Hk. pose proof (Ha k ltac:(lia)) as W. updsimp; exact W.
    + intros j Hj Hjs. destruct (Nat.eq_dec j (src + n)) as [->|Hne]; [updsimp|].
      pose proof (Hr j ltac:(lia) ltac:(lia)) as W. updsimp; exact W.
    + exists m'. split; [exact E|]. split; [|split].
      * intros k Hk. destruct (Nat.eq_dec k n) as [->|Hne].
        -- rewrite P3 by lia. updsimp.
        -- rewrite P1 by lia. updsimp.
      * intros j Hj Hjd. destruct (Nat.eq_dec j (src + n)) as [->|Hne]; [rewrite P3 by lia; updsimp|apply P2; lia].
      * intros j H1 H2. rewrite P3 by lia. updsimp.
Qed.
(* memmove of n objects: every source holds an object (alive: Live, or Moved), every destination slot that is not itself one of
   the sources is Raw.  Then: the objects sit in the destination range, the source slots outside it are Raw, nothing else changed. *)
Lemma relocate_n_spec m src n dst :
  (forall k, k < n -> alive (m (src + k)) = true) ->
  (forall j, dst <= j < dst + n -> ~ (src <= j < src + n) -> m j = Raw) ->
  exists m', relocate_n m src n dst = inl m' /\
    (forall k, k < n -> m' (dst + k) = m (src + k)) /\
    (forall j, src <= j < src + n -> ~ (dst <= j < dst + n) -> m' j = Raw) /\
    (forall j, ~ (dst <= j < dst + n) -> ~ (src <= j < src + n) -> m' j = m j).
Proof.
  intros Ha Hr. unfold relocate_n. destruct (Nat.ltb_spec dst src) as [H|H]; [|destruct (Nat.ltb_spec src dst) as [H2|H2]].
  - destruct (reloc_fwd_spec n m src dst H Ha) as [m' (E & P1 & P2 & P3)]; [intros j Hj Hjs; apply Hr; lia|].
    exists m'. split; [exact E|]. split; [exact P1|]. split; [|exact P3]. intros j Hj Hn. apply P2; lia.
  - destruct (reloc_bwd_spec n m src dst H2 Ha) as [m' (E & P1 & P2 & P3)]; [intros j Hj Hjs; apply Hr; lia|].
    exists m'. split; [exact E|]. split; [exact P1|]. split; [|exact P3]. intros j Hj Hn. apply P2; lia.
  - assert (src = dst) by lia. subst dst. exists m. split; [reflexivity|]. split; [reflexivity|]. split; [intros; lia|reflexivity].
Qed.
(* [10, 11, 12, 13, raw, raw]: the 3 elements of [1, 4) two slots up (overlap: slot 3 is a source and a destination) and back *)
Example relocate_n_spec_ex :
  (forall k, k < 3 -> alive (ThrowMove.init 4 6 (1 + k)) = true) /\
  (forall j, 3 <= j < 3 + 3 -> ~ (1 <= j < 1 + 3) -> ThrowMove.init 4 6 j = Raw) /\
  match relocate_n (ThrowMove.init 4 6) 1 3 3 with
  | inl m1 => map m1 (seq 0 7) = [Live 10; Raw; Raw; Live 11; Live 12; Live 13; Out]%Z /\
              match relocate_n m1 3 3 1 with
              | inl m2 => map m2 (seq 0 7) = [Live 10; Live 11; Live 12; Live 13; Raw; Raw; Out]%Z
              | inr _ => False end
  | inr _ => False end.
Proof.
  split; [intros k Hk; assert (k = 0 \/ k = 1 \/ k = 2) as [-> | [-> | ->]] by lia; reflexivity|].
  split; [intros j Hj Hn; assert (j = 4 \/ j = 5) as [-> | ->] by lia; reflexivity|].
  vm_compute. split; reflexivity.
Qed.
(* the model refuses a relocation onto a live object ([10, 11, 12] with capacity 3: no room, slot 3 does not exist; and two
   elements one slot up while slot 2 is alive) and from a raw slot *)
Example relocate_n_errors_ex :
  relocate_n (ThrowMove.init 3 3) 0 3 1 = inr OutOfBlock /\ relocate_n (ThrowMove.init 3 5) 0 2 1 = inr ConstructOverLive /\
  relocate_n (ThrowMove.init 3 5) 2 2 0 = inr ConstructOverLive /\ relocate_n (ThrowMove.init 2 5) 3 1 2 = inr AssignDead.
Proof. repeat split. Qed.

(* ---- the shifts ---------------------------------------------------------------------------------------------------------------- *)
Definition shift_right1 (m : mem) (first n : nat) : mem + err := relocate_n m first n (first + 1).
Definition shift_right_cnt (m : mem) (first n count : nat) : mem + err := relocate_n m first n (first + count).
Definition unshift_right (m : mem) (first n count : nat) : mem + err := relocate_n m (first + count) n first.
Definition shift_left (m : mem) (first n : nat) : mem + err := relocate_n m first n (first - 1).
Lemma shift_right1_eq m first n : shift_right1 m first n = shift_right_cnt m first n 1.
Proof. reflexivity. Qed.
Lemma shift_left_eq m pos n : shift_left m (pos + 1) n = unshift_right m pos n 1.
Proof. unfold shift_left, unshift_right. rewrite Nat.add_sub. reflexivity. Qed.

(* shift_right (first, n, count): the n objects end count slots higher and EVERY slot of [first, first + count) is Raw (nothing
   moved-from stays behind, unlike the not trivially relocatable overload) *)
Lemma shift_right_cnt_spec m first n count :
  (forall k, k < n -> alive (m (first + k)) = true) -> (forall k, k < count -> m (first + n + k) = Raw) ->
  exists m', shift_right_cnt m first n count = inl m' /\
    (forall j, first + count <= j < first + count + n -> m' j = m (j - count)) /\
    (forall j, first <= j < first + count -> m' j = Raw) /\
    (forall j, ~ (first <= j < first + count + n) -> m' j = m j).
Proof.
  intros Ha Hr. unfold shift_right_cnt.
  assert (Hr' : forall j, first + n <= j < first + n + count -> m j = Raw).
  { intros j Hj. replace j with (first + n + (j - (first + n))) by lia. apply Hr. lia. }
  destruct (relocate_n_spec m first n (first + count) Ha) as [m' (E & P1 & P2 & P3)]; [intros j Hj Hn; apply Hr'; lia|].
  exists m'. split; [exact E|]. split; [|split].
  - intros j Hj. replace j with (first + count + (j - (first + count))) at 1 by lia. rewrite P1 by lia. f_equal. lia.
  - intros j Hj. destruct (le_lt_dec (first + n) j) as [L|L]; [rewrite P3 by lia; apply Hr'; lia|apply P2; lia].
  - intros j Hj. apply P3; lia.
Qed.
Lemma shift_right1_spec m first n :
  (forall k, k < n -> alive (m (first + k)) = true) -> m (first + n) = Raw ->
  exists m', shift_right1 m first n = inl m' /\
    (forall j, first < j <= first + n -> m' j = m (j - 1)) /\ m' first = Raw /\ (forall j, j < first \/ first + n < j -> m' j = m j).
Proof.
  intros Ha Hr. rewrite shift_right1_eq.
  destruct (shift_right_cnt_spec m first n 1 Ha) as [m' (E & P1 & P2 & P3)].
  { intros k Hk. assert (k = 0) by lia. subst k. rewrite Nat.add_0_r. exact Hr. }
  exists m'. split; [exact E|]. split; [intros j Hj; apply P1; lia|]. split; [apply P2; lia|]. intros j Hj. apply P3; lia.
Qed.
(* unshift_right (first, n, count) on what shift_right (first, n, count) left, the slots of [first, first + count) Raw (again) *)
Lemma unshift_right_spec m first n count :
  (forall j, first + count <= j < first + count + n -> alive (m j) = true) -> (forall j, first <= j < first + count -> m j = Raw) ->
  exists m', unshift_right m first n count = inl m' /\
    (forall j, first <= j < first + n -> m' j = m (j + count)) /\
    (forall j, first + count <= j < first + count + n -> first + n <= j -> m' j = Raw) /\
    (forall j, ~ (first <= j < first + n) -> ~ (first + count <= j < first + count + n) -> m' j = m j).
Proof.
  intros Ha Hr. unfold unshift_right.
  destruct (relocate_n_spec m (first + count) n first) as [m' (E & P1 & P2 & P3)].
  { intros k Hk. apply Ha. lia. } { intros j Hj Hn. apply Hr. lia. }
  exists m'. split; [exact E|]. split; [|split].
  - intros j Hj. replace j with (first + (j - first)) at 1 by lia. rewrite P1 by lia. f_equal. lia.
  - intros j Hj Hge. apply P2; lia.
  - intros j H1 H2. apply P3; lia.
Qed.
(* shift_left (pos + 1, n) on what shift_right (pos, n) left (slot pos Raw, or Raw again after a failed construction) *)
Lemma shift_left_spec m pos n : 1 <= n ->
  (forall j, pos < j <= pos + n -> alive (m j) = true) -> m pos = Raw ->
  exists m', shift_left m (pos + 1) n = inl m' /\
    (forall j, pos <= j < pos + n -> m' j = m (j + 1)) /\ m' (pos + n) = Raw /\ (forall j, j < pos \/ pos + n < j -> m' j = m j).
Proof.
  intros Hn Ha Hr. rewrite shift_left_eq.
  destruct (unshift_right_spec m pos n 1) as [m' (E & P1 & P2 & P3)].
  { intros j Hj. apply Ha. lia. } { intros j Hj. assert (j = pos) by lia. subst j. exact Hr. }
  exists m'. split; [exact E|]. split; [intros j Hj; apply P1; lia|]. split; [apply P2; lia|]. intros j Hj. apply P3; lia.
Qed.

(* [10, 11, 12, 13, raw, raw, raw]: the slot level hypotheses of the four lemmas hold on the tail [1, 4) (count 2 / 1), and the
   unshift / the left shift of the result give the initial memory back *)
Example shift_spec_ex :
  (forall k, k < 3 -> alive (ThrowMove.init 4 7 (1 + k)) = true) /\ (forall k, k < 2 -> ThrowMove.init 4 7 (1 + 3 + k) = Raw) /\
  ThrowMove.init 4 7 (1 + 3) = Raw /\
  match shift_right_cnt (ThrowMove.init 4 7) 1 3 2 with
  | inl m1 => (forall j, 1 + 2 <= j < 1 + 2 + 3 -> alive (m1 j) = true) /\ (forall j, 1 <= j < 1 + 2 -> m1 j = Raw) /\
              match unshift_right m1 1 3 2 with
              | inl m2 => map m2 (seq 0 8) = map (ThrowMove.init 4 7) (seq 0 8) | inr _ => False end
  | inr _ => False end /\
  match shift_right1 (ThrowMove.init 4 7) 1 3 with
  | inl m1 => 1 <= 3 /\ (forall j, 1 < j <= 1 + 3 -> alive (m1 j) = true) /\ m1 1 = Raw /\
              match shift_left m1 (1 + 1) 3 with
              | inl m2 => map m2 (seq 0 8) = map (ThrowMove.init 4 7) (seq 0 8) | inr _ => False end
  | inr _ => False end.
Proof.
  split; [intros k Hk; assert (k = 0 \/ k = 1 \/ k = 2) as [-> | [-> | ->]] by lia; reflexivity|].
  split; [intros k Hk; assert (k = 0 \/ k = 1) as [-> | ->] by lia; reflexivity|].
  split; [reflexivity|]. split.
  - destruct (shift_right_cnt (ThrowMove.init 4 7) 1 3 2) as [m1|x] eqn:E; vm_compute in E; [injection E as <-|discriminate].
    split; [intros j Hj; assert (j = 3 \/ j = 4 \/ j = 5) as [-> | [-> | ->]] by lia; reflexivity|].
    split; [intros j Hj; assert (j = 1 \/ j = 2) as [-> | ->] by lia; reflexivity|]. vm_compute. reflexivity.
  - destruct (shift_right1 (ThrowMove.init 4 7) 1 3) as [m1|x] eqn:E; vm_compute in E; [injection E as <-|discriminate].
    split; [lia|]. split; [intros j Hj; assert (j = 2 \/ j = 3 \/ j = 4) as [-> | [-> | ->]] by lia; reflexivity|].
    split; [reflexivity|]. vm_compute. reflexivity.
Qed.

(* ---- the throwing pieces: element copies --------------------------------------------------------------------------------------- *)
(* amc::uninitialized_copy_n (first, count, dest) (C++17: std::uninitialized_copy_n) from a range of values: constructs forward; on
   a throw destroys what it built and rethrows.  The source range is given by the list of its values. *)
Fixpoint uninit_copy_loop (m : mem) (th : option nat) (first cur : nat) (l : list Z) : out :=
  match l with
  | [] => Done m th
  | v :: l' => match copy_construct m th cur v with
               | Done m1 th1 => uninit_copy_loop m1 th1 first (S cur) l'
               | Threw m1 => match destroy_n m1 first (cur - first) with inl m2 => Threw m2 | inr e => Err e end
               | Err e => Err e end
  end.
Definition uninit_copy_n (m : mem) (th : option nat) (dst : nat) (l : list Z) : out := uninit_copy_loop m th dst dst l.
(* std::uninitialized_fill_n (Throw.uninit_fill_n) is the copy of count times the same value *)
Lemma uninit_fill_loop_copy : forall n m th first cur v, uninit_fill_loop m th first cur n v = uninit_copy_loop m th first cur (repeat v n).
Proof.
  induction n as [|n IH]; intros m th first cur v; cbn [uninit_fill_loop uninit_copy_loop repeat]; [reflexivity|].
  destruct (copy_construct m th cur v) as [m1 th1|m1|x]; [apply IH|reflexivity|reflexivity].
Qed.
(* either every element built, or NOTHING changed *)
Lemma uninit_copy_loop_spec : forall l m th first cur,
  first <= cur -> (forall j, first <= j < cur -> is_live (m j) = true) -> (forall k, k < length l -> m (cur + k) = Raw) ->
  (exists m' th', uninit_copy_loop m th first cur l = Done m' th' /\
      (forall k, k < length l -> m' (cur + k) = Live (nth k l 0%Z)) /\ (forall j, ~ (cur <= j < cur + length l) -> m' j = m j)) \/
  (exists m', uninit_copy_loop m th first cur l = Threw m' /\
      (forall j, first <= j < cur + length l -> m' j = Raw) /\ (forall j, ~ (first <= j < cur + length l) -> m' j = m j)).
Proof.
  induction l as [|v l IH]; intros m th first cur Hfc Hl Hr; cbn [uninit_copy_loop length].
  - left. exists m, th. repeat split; intros; try lia; reflexivity.
  - pose proof (Hr 0 ltac:(cbn [length]; lia)) as H0. rewrite Nat.add_0_r in H0. unfold copy_construct. rewrite H0.
    destruct (tick th) as [[|] th'].
    + right. destruct (destroy_n_spec (cur - first) m first) as [m2 (E & P1 & P2)]; [intros k Hk; apply Hl; lia|].
      rewrite E. exists m2. split; [reflexivity|]. split.
      * intros j Hj. destruct (le_lt_dec cur j); [rewrite P2 by lia; replace j with (cur + (j - cur)) by lia; apply Hr; cbn [length]; lia|apply P1; lia].
      * intros j Hj. apply P2. lia.
    + destruct (IH (upd m cur (Live v)) th' first (S cur)) as [(m' & th2 & E & P1 & P2)|(m' & E & P1 & P2)]; [lia| | | |].
      * intros j Hj. destruct (Nat.eq_dec j cur) as [->|]; [updsimp|]. pose proof (Hl j ltac:(lia)). updsimp.
      * intros k Hk. pose proof (Hr (S k) ltac:(cbn [length]; lia)) as Hw. replace (cur + S k) with (S cur + k) in Hw by lia. updsimp.
      * left. exists m', th2. split; [exact E|]. split.
        -- intros k Hk. destruct k as [|k]; cbn [nth].
           ++ rewrite Nat.add_0_r. rewrite P2 by lia. updsimp.
           ++ replace (cur + S k) with (S cur + k) by lia. apply P1. lia.
        -- intros j Hj. rewrite P2 by lia. updsimp.
      * right. exists m'. split; [exact E|]. split.
        -- intros j Hj. apply P1. lia.
        -- intros j Hj. rewrite P2 by lia. updsimp.
Qed.
(* three raw slots from 2 on, the range [100, 101, 102]: the 2nd copy throws / every copy succeeds *)
Example uninit_copy_loop_spec_ex :
  2 <= 2 /\ (forall j, 2 <= j < 2 -> is_live (ThrowMove.init 2 6 j) = true) /\
  (forall k, k < length [100; 101; 102]%Z -> ThrowMove.init 2 6 (2 + k) = Raw) /\
  show (uninit_copy_n (ThrowMove.init 2 6) (Some 1) 2 [100; 101; 102]%Z) 7 = Some (true, [Live 10; Live 11; Raw; Raw; Raw; Raw; Out]%Z) /\
  show (uninit_copy_n (ThrowMove.init 2 6) (Some 3) 2 [100; 101; 102]%Z) 7
    = Some (false, [Live 10; Live 11; Live 100; Live 101; Live 102; Raw; Out]%Z).
Proof.
  split; [lia|]. split; [intros; lia|]. split; [|split; vm_compute; reflexivity].
  intros k Hk. cbn [length] in Hk. assert (k = 0 \/ k = 1 \/ k = 2) as [-> | [-> | ->]] by lia; reflexivity.
Qed.

(* shift_right left only uninitialized memory: n is not used *)
Definition fill_after_shift (m : mem) (th : option nat) (first n count : nat) (v : Z) : out := uninit_fill_n m th first count v.
(* copy_after_shift (first, n, count, pos): amc::uninitialized_copy_n (first, count, pos); the range holds the values l *)
Definition copy_after_shift (m : mem) (th : option nat) (l : list Z) (n count pos : nat) : out := uninit_copy_n m th pos (firstn count l).
(* relocate_after_shift (e, dest) = amc::relocate_at (e, dest): one memmove.  Written as a step with an outcome because emplace_n wraps
   it in try / catch; it never throws ([relocate_after_shift_no_throw]) *)
Definition relocate_after_shift (m : mem) (th : option nat) (e dst : nat) : out := lift (relocate m dst e) th.
(* destroy_after_shift (pos): `{}` - a relocated-from slot holds no object *)
Definition destroy_after_shift (m : mem) (pos : nat) : mem := m.
Lemma lift_no_throw r th m' : lift r th <> Threw m'.
Proof. destruct r; discriminate. Qed.
Lemma relocate_after_shift_no_throw m th e dst m' : relocate_after_shift m th e dst <> Threw m'.
Proof. apply lift_no_throw. Qed.

(* ---- insert (pos, count, v) and insert_range (pos, first, last) [forward iterators], within capacity --------------------------------
     if (count > 0) {
       ...adjustCapacity...
       if (nElemsToShift == 0) { std::uninitialized_fill_n (pos, count, newV); }          // insert_range: amc::uninitialized_copy_n (first, count, pos)
       else {
         shift_right (pos, nElemsToShift, count);
         try { fill_after_shift (pos, nElemsToShift, count, newV); }                         // copy_after_shift (first, nElemsToShift, count, pos)
         catch (...) { unshift_right (pos, nElemsToShift, count); throw; }
       }
       setSize (size () + count);
     } *)
Definition insert_cnt_tr (m : mem) (th : option nat) (size pos count : nat) (v : Z) : out :=
  if count =? 0 then Done m th else
  let n := size - pos in
  if n =? 0 then uninit_fill_n m th pos count v else
  match shift_right_cnt m pos n count with
  | inr e => Err e
  | inl m1 => match fill_after_shift m1 th pos n count v with
              | Threw m2 => match unshift_right m2 pos n count with inl m3 => Threw m3 | inr e => Err e end
              | o => o end
  end.
Definition insert_range_tr (m : mem) (th : option nat) (size pos : nat) (l : list Z) : out :=
  let count := length l in
  if count =? 0 then Done m th else
  let n := size - pos in
  if n =? 0 then uninit_copy_n m th pos (firstn count l) else
  match shift_right_cnt m pos n count with
  | inr e => Err e
  | inl m1 => match copy_after_shift m1 th l n count pos with
              | Threw m2 => match unshift_right m2 pos n count with inl m3 => Threw m3 | inr e => Err e end
              | o => o end
  end.
(* the body of insert (pos, count, v) BEFORE "fix: insert of several elements before end() ...": no try / catch *)
Definition insert_cnt_tr_nofix (m : mem) (th : option nat) (size pos count : nat) (v : Z) : out :=
  if count =? 0 then Done m th else
  let n := size - pos in
  if n =? 0 then uninit_fill_n m th pos count v else
  match shift_right_cnt m pos n count with
  | inr e => Err e
  | inl m1 => fill_after_shift m1 th pos n count v
  end.
Lemma insert_cnt_tr_range m th size pos count v : insert_cnt_tr m th size pos count v = insert_range_tr m th size pos (repeat v count).
Proof.
  unfold insert_cnt_tr, insert_range_tr, fill_after_shift, copy_after_shift, uninit_fill_n, uninit_copy_n. rewrite repeat_length.
  assert (F : firstn count (repeat v count) = repeat v count) by (rewrite <- (repeat_length v count) at 1; apply firstn_all).
  rewrite F. destruct (count =? 0); [reflexivity|]. destruct (size - pos =? 0); [apply uninit_fill_loop_copy|].
  destruct (shift_right_cnt m pos (size - pos) count) as [m1|x]; [|reflexivity]. rewrite uninit_fill_loop_copy. reflexivity.
Qed.

(* insert of a forward range anywhere in the vector, within capacity (after adjustCapacity), whichever copy throws: never a lifetime
   error (no relocation onto a live slot, no read of a raw slot, nothing destroyed twice); an exception leaves EVERY slot exactly as
   it was; completion gives prefix, the elements of the range in order, the old tail count slots higher, and the vector invariant *)
Theorem insert_range_tr_strong m th size cap pos l :
  Inv m size cap -> pos <= size -> size + length l <= cap ->
  match insert_range_tr m th size pos l with
  | Done m' _ => (forall j, j < pos -> m' j = m j) /\ (forall k, k < length l -> m' (pos + k) = Live (nth k l 0%Z)) /\
                 (forall j, pos + length l <= j < size + length l -> m' j = m (j - length l)) /\ Inv m' (size + length l) cap
  | Threw m' => forall j, m' j = m j
  | Err _ => False
  end.
Proof.
  intros HI Hp Hcap. pose proof HI as (Hsc & Hl & Hr & Ho). unfold insert_range_tr, copy_after_shift. cbv zeta. rewrite !firstn_all. set (c := length l) in *.
  assert (Hfin : forall m', (forall k, k < c -> m' (pos + k) = Live (nth k l 0%Z)) ->
            (forall j, pos + c <= j < size + c -> m' j = m (j - c)) ->
            (forall j, ~ (pos <= j < size + c) -> m' j = m j) ->
            (forall j, j < pos -> m' j = m j) /\ (forall k, k < c -> m' (pos + k) = Live (nth k l 0%Z)) /\
            (forall j, pos + c <= j < size + c -> m' j = m (j - c)) /\ Inv m' (size + c) cap).
  { intros m' F1 F2 F3. split; [intros j Hj; apply F3; lia|]. split; [exact F1|]. split; [exact F2|].
    repeat split; [lia| | |].
    - intros i Hi. destruct (le_lt_dec pos i) as [Hge|Hlt]; [destruct (le_lt_dec (pos + c) i)|].
      + rewrite F2 by lia. apply Hl. lia.
      + replace i with (pos + (i - pos)) by lia. rewrite F1 by lia. reflexivity.
      + rewrite F3 by lia. apply Hl. lia.
    - intros i Hi Hic. rewrite F3 by lia. apply Hr; lia.
    - intros i Hi. rewrite F3 by lia. apply Ho; lia. }
  destruct (Nat.eqb_spec c 0) as [Hc0|Hc0].
  - rewrite Hc0. split; [reflexivity|]. split; [intros; lia|]. split; [intros j Hj; rewrite Nat.sub_0_r; reflexivity|].
    rewrite Nat.add_0_r. exact HI.
  - destruct (Nat.eqb_spec (size - pos) 0) as [Hz|Hnz].
    + (* at the end: uninitialized_copy_n alone *)
      assert (pos = size) by lia. subst pos. unfold uninit_copy_n.
      destruct (uninit_copy_loop_spec l m th size size) as [(m' & th' & E & P1 & P2)|(m' & E & P1 & P2)];
        [lia|intros; lia|intros k Hk; apply Hr; fold c in Hk; lia| |]; rewrite E; fold c in P1, P2.
      * apply Hfin; [exact P1|intros; lia|intros j Hj; apply P2; lia].
      * intros j. destruct (le_lt_dec size j) as [H1|H1]; [destruct (le_lt_dec (size + c) j) as [H2|H2]|]; [apply P2; lia| |apply P2; lia].
        rewrite P1 by lia. symmetry. apply Hr; lia.
    + (* in the middle: shift, copy, and unshift when a copy throws *)
      destruct (shift_right_cnt_spec m pos (size - pos) c) as [m1 (E1 & S1 & S2 & S3)].
      { intros k Hk. apply live_alive, Hl. lia. } { intros k Hk. apply Hr; lia. }
      rewrite E1. unfold uninit_copy_n.
      destruct (uninit_copy_loop_spec l m1 th pos pos) as [(m2 & th2 & E & P1 & P2)|(m2 & E & P1 & P2)];
        [lia|intros; lia|intros k Hk; apply S2; fold c in Hk; lia| |]; rewrite E; fold c in P1, P2.
      * apply Hfin; [exact P1| |].
        -- intros j Hj. rewrite P2 by lia. apply S1. lia.
        -- intros j Hj. rewrite P2 by lia. apply S3. lia.
      * destruct (unshift_right_spec m2 pos (size - pos) c) as [m3 (E3 & U1 & U2 & U3)].
        { intros j Hj. rewrite P2 by lia. rewrite S1 by lia. apply live_alive, Hl. lia. }
        { intros j Hj. apply P1. lia. }
        rewrite E3. intros j.
        destruct (le_lt_dec pos j) as [A|A]; [destruct (le_lt_dec size j) as [B|B]|].
        -- destruct (le_lt_dec (pos + c) j) as [C|C]; [destruct (le_lt_dec (size + c) j) as [D|D]|].
           ++ rewrite U3 by lia. rewrite P2 by lia. apply S3. lia.
           ++ rewrite U2 by lia. symmetry. apply Hr; lia.
           ++ rewrite U3 by lia. rewrite P1 by lia. symmetry. apply Hr; lia.
        -- rewrite U1 by lia. rewrite P2 by lia. rewrite S1 by lia. f_equal. lia.
        -- rewrite U3 by lia. rewrite P2 by lia. apply S3. lia.
Qed.
(* insert (pos, count, v): the same for count copies of one value *)
Theorem insert_cnt_tr_strong m th size cap pos count v :
  Inv m size cap -> pos <= size -> size + count <= cap ->
  match insert_cnt_tr m th size pos count v with
  | Done m' _ => (forall j, j < pos -> m' j = m j) /\ (forall j, pos <= j < pos + count -> m' j = Live v) /\
                 (forall j, pos + count <= j < size + count -> m' j = m (j - count)) /\ Inv m' (size + count) cap
  | Threw m' => forall j, m' j = m j
  | Err _ => False
  end.
Proof.
  intros HI Hp Hcap. rewrite insert_cnt_tr_range.
  pose proof (insert_range_tr_strong m th size cap pos (repeat v count) HI Hp) as T. rewrite repeat_length in T. specialize (T Hcap).
  destruct (insert_range_tr m th size pos (repeat v count)) as [m' th'|m'|x]; [|exact T|exact T].
  destruct T as (T1 & T2 & T3 & T4). split; [exact T1|]. split; [|split; [exact T3|exact T4]].
  intros j Hj. replace j with (pos + (j - pos)) by lia. rewrite T2 by lia. f_equal. apply Slots.nth_repeat'. lia.
Qed.
Corollary insert_range_tr_threw_inv m th size cap pos l m' :
  Inv m size cap -> pos <= size -> size + length l <= cap -> insert_range_tr m th size pos l = Threw m' -> Inv m' size cap.
Proof.
  intros HI Hp Hcap E. pose proof (insert_range_tr_strong m th size cap pos l HI Hp Hcap) as T. rewrite E in T.
  destruct HI as (Hsc & Hl & Hr & Ho). repeat split; [lia| | |]; intros; rewrite T; auto.
Qed.

(* the same as sequences (Slots.abs: the list of the values of the first size slots): prefix ++ new elements ++ suffix *)
Definition toSm := ThrowMove.toSm.
Definition spec_insert_range (a : list Z) (pos : nat) (l : list Z) : list Z := firstn pos a ++ l ++ skipn pos a.
Lemma spec_insert_range_nth a pos l i : pos <= length a ->
  nth i (spec_insert_range a pos l) 0%Z =
  if i <? pos then nth i a 0%Z else if i <? pos + length l then nth (i - pos) l 0%Z else nth (i - length l) a 0%Z.
Proof.
  intros Hp. unfold spec_insert_range. assert (Hf : length (firstn pos a) = pos) by (rewrite firstn_length; lia).
  destruct (Nat.ltb_spec i pos).
  - rewrite app_nth1 by lia. apply Slots.nth_firstn'. assumption.
  - rewrite app_nth2 by lia. rewrite Hf. destruct (Nat.ltb_spec i (pos + length l)).
    + rewrite app_nth1 by lia. reflexivity.
    + rewrite app_nth2 by lia. rewrite Slots.nth_skipn'. f_equal. lia.
Qed.
Lemma abs_toSm_nth m s i : i < s -> nth i (Slots.abs (toSm m) s) 0%Z = match m i with Live v => v | _ => 0%Z end.
Proof. intros H. rewrite Slots.abs_nth by exact H. unfold toSm, ThrowMove.toSm. destruct (m i); reflexivity. Qed.
Theorem insert_range_tr_done_abs m th size cap pos l m' th' :
  Inv m size cap -> pos <= size -> size + length l <= cap -> insert_range_tr m th size pos l = Done m' th' ->
  Slots.abs (toSm m') (size + length l) = spec_insert_range (Slots.abs (toSm m) size) pos l.
Proof.
  intros HI Hp Hcap E. pose proof (insert_range_tr_strong m th size cap pos l HI Hp Hcap) as T. rewrite E in T.
  destruct T as (T1 & T2 & T3 & _). apply Slots.list_ext.
  - unfold spec_insert_range. rewrite !app_length, firstn_length, skipn_length, !Slots.abs_length. lia.
  - rewrite Slots.abs_length. intros i Hi. rewrite abs_toSm_nth by lia.
    rewrite spec_insert_range_nth by (rewrite Slots.abs_length; lia).
    destruct (Nat.ltb_spec i pos); [|destruct (Nat.ltb_spec i (pos + length l))].
    + rewrite abs_toSm_nth by lia. rewrite T1 by lia. reflexivity.
    + replace i with (pos + (i - pos)) at 1 by lia. rewrite T2 by lia. reflexivity.
    + rewrite abs_toSm_nth by lia. rewrite T3 by lia. reflexivity.
Qed.
Theorem insert_cnt_tr_done_abs m th size cap pos count v m' th' :
  Inv m size cap -> pos <= size -> size + count <= cap -> insert_cnt_tr m th size pos count v = Done m' th' ->
  Slots.abs (toSm m') (size + count) = Slots.spec_insert (Slots.abs (toSm m) size) pos count v.
Proof.
  intros HI Hp Hcap E. rewrite insert_cnt_tr_range in E.
  pose proof (insert_range_tr_done_abs m th size cap pos (repeat v count) m' th' HI Hp) as T. rewrite repeat_length in T.
  exact (T Hcap E).
Qed.

(* size 5, capacity 9: insert (begin () + 2, 3, 7) and insert (begin () + 2, {100, 101, 102}); the 2nd copy throws (event 1): the
   first copy is destroyed, the tail relocated back - every slot as before; no event left to throw (Some 3): completion; at pos = 4
   (n = 1 < count = 3) the same; at the end (pos = 5) no shift *)
Example insert_tr_both_outcomes :
  Inv (ThrowMove.init 5 9) 5 9 /\ 2 <= 5 /\ 5 + 3 <= 9 /\
  show (insert_cnt_tr (ThrowMove.init 5 9) (Some 1) 5 2 3 7%Z) 10
    = Some (true, [Live 10; Live 11; Live 12; Live 13; Live 14; Raw; Raw; Raw; Raw; Out]%Z) /\
  show (insert_cnt_tr (ThrowMove.init 5 9) (Some 3) 5 2 3 7%Z) 10
    = Some (false, [Live 10; Live 11; Live 7; Live 7; Live 7; Live 12; Live 13; Live 14; Raw; Out]%Z) /\
  show (insert_range_tr (ThrowMove.init 5 9) (Some 2) 5 2 [100; 101; 102]%Z) 10
    = Some (true, [Live 10; Live 11; Live 12; Live 13; Live 14; Raw; Raw; Raw; Raw; Out]%Z) /\
  show (insert_range_tr (ThrowMove.init 5 9) None 5 2 [100; 101; 102]%Z) 10
    = Some (false, [Live 10; Live 11; Live 100; Live 101; Live 102; Live 12; Live 13; Live 14; Raw; Out]%Z) /\
  show (insert_range_tr (ThrowMove.init 5 9) (Some 0) 5 4 [100; 101; 102]%Z) 10
    = Some (true, [Live 10; Live 11; Live 12; Live 13; Live 14; Raw; Raw; Raw; Raw; Out]%Z) /\
  show (insert_range_tr (ThrowMove.init 5 9) None 5 4 [100; 101; 102]%Z) 10
    = Some (false, [Live 10; Live 11; Live 12; Live 13; Live 100; Live 101; Live 102; Live 14; Raw; Out]%Z) /\
  show (insert_range_tr (ThrowMove.init 5 9) (Some 2) 5 5 [100; 101; 102]%Z) 10
    = Some (true, [Live 10; Live 11; Live 12; Live 13; Live 14; Raw; Raw; Raw; Raw; Out]%Z).
Proof. split; [apply ThrowMove.init_inv; lia|]. split; [lia|]. split; [lia|]. repeat split; vm_compute; reflexivity. Qed.

(* BEFORE the fix (no handler): size 5, capacity 9, insert (begin () + 2, 3, v), the 2nd copy throws: std::uninitialized_fill_n destroys
   the copy it built and rethrows; nobody relocates the tail back: the vector still says size 5, but its slots 2, 3, 4 are RAW
   (stale bytes: the elements 12, 13, 14 are gone from [pos, size)) and slots 5, 6, 7 - beyond size () - hold live objects nobody will
   destroy *)
Lemma insert_cnt_tr_nofix_refuted : exists m',
  Inv (ThrowMove.init 5 9) 5 9 /\ insert_cnt_tr_nofix (ThrowMove.init 5 9) (Some 1) 5 2 3 7%Z = Threw m' /\
  map m' (seq 0 10) = [Live 10; Live 11; Raw; Raw; Raw; Live 12; Live 13; Live 14; Raw; Out]%Z /\ ~ Inv m' 5 9.
Proof.
  eexists. split; [apply ThrowMove.init_inv; lia|]. split; [vm_compute; reflexivity|]. split; [reflexivity|].
  intros (_ & Hl & _). specialize (Hl 2 ltac:(lia)). discriminate Hl.
Qed.
(* the general statement is false for that body *)
Corollary insert_cnt_tr_nofix_not_strong :
  ~ (forall m th size cap pos count v m', Inv m size cap -> pos <= size -> size + count <= cap ->
       insert_cnt_tr_nofix m th size pos count v = Threw m' -> Inv m' size cap).
Proof.
  intros H. destruct insert_cnt_tr_nofix_refuted as (m' & HI & E & _ & N).
  apply N. apply (H (ThrowMove.init 5 9) (Some 1) 5 9 2 3 7%Z m' HI); [lia|lia|exact E].
Qed.

(* ---- the shifts on the tail of a vector: never a lifetime error -------------------------------------------------------------------- *)
Theorem shift_right_cnt_inv m size cap pos count :
  Inv m size cap -> pos <= size -> size + count <= cap ->
  exists m', shift_right_cnt m pos (size - pos) count = inl m' /\ (forall j, j < pos -> m' j = m j) /\
    (forall j, pos <= j < pos + count -> m' j = Raw) /\ (forall j, pos + count <= j < size + count -> m' j = m (j - count)) /\
    (forall j, size + count <= j -> m' j = m j).
Proof.
  intros (_ & Hl & Hr & _) Hp Hc. destruct (shift_right_cnt_spec m pos (size - pos) count) as [m' (E & P1 & P2 & P3)].
  { intros k Hk. apply live_alive, Hl. lia. } { intros k Hk. apply Hr; lia. }
  exists m'. split; [exact E|]. split; [intros j Hj; apply P3; lia|]. split; [exact P2|]. split; [intros j Hj; apply P1; lia|].
  intros j Hj. apply P3; lia.
Qed.
Theorem shift_right1_inv m size cap pos :
  Inv m size cap -> pos <= size -> size < cap ->
  exists m', shift_right1 m pos (size - pos) = inl m' /\ (forall j, j < pos -> m' j = m j) /\ m' pos = Raw /\
    (forall j, pos < j <= size -> m' j = m (j - 1)) /\ (forall j, size < j -> m' j = m j).
Proof.
  intros HI Hp Hc. rewrite shift_right1_eq. destruct (shift_right_cnt_inv m size cap pos 1 HI Hp ltac:(lia)) as [m' (E & P1 & P2 & P3 & P4)].
  exists m'. split; [exact E|]. split; [exact P1|]. split; [apply P2; lia|]. split; [intros j Hj; apply P3; lia|]. intros j Hj. apply P4; lia.
Qed.
(* unshift_right / shift_left give back exactly what shift_right took *)
Theorem unshift_right_inv m size cap pos count m1 :
  Inv m size cap -> pos <= size -> size + count <= cap -> shift_right_cnt m pos (size - pos) count = inl m1 ->
  exists m', unshift_right m1 pos (size - pos) count = inl m' /\ (forall j, m' j = m j).
Proof.
  intros HI Hp Hc E1. pose proof HI as (_ & Hl & Hr & _).
  destruct (shift_right_cnt_inv m size cap pos count HI Hp Hc) as [m1' (E & S0 & S2 & S1 & S3)]. rewrite E1 in E. injection E as <-.
  destruct (unshift_right_spec m1 pos (size - pos) count) as [m' (E3 & U1 & U2 & U3)].
  { intros j Hj. rewrite S1 by lia. apply live_alive, Hl. lia. } { exact S2. }
  exists m'. split; [exact E3|]. intros j.
  destruct (le_lt_dec pos j) as [A|A]; [destruct (le_lt_dec size j) as [B|B]|].
  - destruct (le_lt_dec (pos + count) j) as [C|C]; [destruct (le_lt_dec (size + count) j) as [D|D]|].
    + rewrite U3 by lia. apply S3. lia.
    + rewrite U2 by lia. symmetry. apply Hr; lia.
    + rewrite U3 by lia. rewrite S2 by lia. symmetry. apply Hr; lia.
  - rewrite U1 by lia. rewrite S1 by lia. f_equal. lia.
  - rewrite U3 by lia. apply S0. lia.
Qed.
Theorem shift_left_inv m size cap pos m1 :
  Inv m size cap -> pos < size -> size < cap -> shift_right1 m pos (size - pos) = inl m1 ->
  exists m', shift_left m1 (pos + 1) (size - pos) = inl m' /\ (forall j, m' j = m j).
Proof.
  intros HI Hp Hc E1. rewrite shift_left_eq. rewrite shift_right1_eq in E1.
  exact (unshift_right_inv m size cap pos 1 m1 HI ltac:(lia) ltac:(lia) E1).
Qed.
Example shift_inv_ex :
  Inv (ThrowMove.init 4 7) 4 7 /\ 1 <= 4 /\ 4 + 2 <= 7 /\ 1 < 4 /\ 4 < 7 /\
  (exists m1, shift_right_cnt (ThrowMove.init 4 7) 1 (4 - 1) 2 = inl m1 /\
     map m1 (seq 0 8) = [Live 10; Raw; Raw; Live 11; Live 12; Live 13; Raw; Out]%Z) /\
  (exists m1, shift_right1 (ThrowMove.init 4 7) 1 (4 - 1) = inl m1 /\
     map m1 (seq 0 8) = [Live 10; Raw; Live 11; Live 12; Live 13; Raw; Raw; Out]%Z).
Proof.
  split; [apply ThrowMove.init_inv; lia|]. repeat (split; [lia|]). split; eexists; (split; [vm_compute; reflexivity|reflexivity]).
Qed.

(* ---- vec::emplace_n (pos, n, args...) ------------------------------------------------------------------------------------------------
     n == 0: construct_at (pos, args...)
     else    ElemStorage e; construct_at (e.ptr (), args...);
             try { shift_right (pos, n); } catch (...) { destroy_at (e.ptr ()); throw; }
             try { relocate_after_shift (e.ptr (), pos); } catch (...) { shift_left (pos + 1, n); destroy_at (e.ptr ()); throw; }
   Layout, argument kinds and the construction of the new element: EmplaceGrow.v (construct_arg: copying an lvalue is one event,
   moving an rvalue none: the move constructor of the element is noexcept).  Both try blocks only hold memmoves: both handlers are
   dead code ([shift_relocate_no_throw]); they are kept in the text. *)
Definition shift_relocate (m : mem) (th : option nat) (pos n e : nat) : out :=
  match lift (shift_right1 m pos n) th with
  | Threw m2 => match destroy m2 e with inl m3 => Threw m3 | inr x => Err x end
  | Done m2 th2 =>
      match relocate_after_shift m2 th2 e pos with
      | Threw m3 => match shift_left m3 (pos + 1) n with
                    | inl m4 => match destroy m4 e with inl m5 => Threw m5 | inr x => Err x end
                    | inr x => Err x end
      | o => o end
  | Err x => Err x end.
Definition emplace_n (m : mem) (th : option nat) (pos n e a : nat) (k : argkind) : out :=
  if n =? 0 then construct_arg m th pos a k
  else match construct_arg m th e a k with
       | Done m1 th1 => shift_relocate m1 th1 pos n e
       | o => o end.
Lemma shift_relocate_no_throw m th pos n e m' : shift_relocate m th pos n e <> Threw m'.
Proof.
  unfold shift_relocate, relocate_after_shift. destruct (shift_right1 m pos n) as [m2|x]; cbn [lift ThrowMove.lift]; [|discriminate].
  destruct (relocate m2 pos e) as [m3|x]; cbn [lift ThrowMove.lift]; discriminate.
Qed.
Lemma shift_relocate_spec m th pos n e : (forall j, pos <= j < pos + n -> alive (m j) = true) -> m (pos + n) = Raw ->
  alive (m e) = true -> (e < pos \/ pos + n < e) ->
  exists m', shift_relocate m th pos n e = Done m' th /\ m' pos = m e /\ (forall j, pos < j <= pos + n -> m' j = m (j - 1)) /\
    m' e = Raw /\ (forall j, j < pos \/ pos + n < j -> j <> e -> m' j = m j).
Proof.
  intros Ha Hr He Hsep. unfold shift_relocate, relocate_after_shift.
  destruct (shift_right1_spec m pos n) as [m2 (E & P1 & P0 & P2)]; [intros k Hk; apply Ha; lia|exact Hr|].
  rewrite E. cbn [lift ThrowMove.lift]. assert (E2 : m2 e = m e) by (apply P2; lia).
  rewrite (relocate_ok m2 pos e) by (rewrite ?E2; auto). cbn [lift ThrowMove.lift].
  eexists. split; [reflexivity|]. split; [|split; [|split]].
  - rewrite E2. updsimp.
  - intros j Hj. rewrite <- P1 by lia. updsimp.
  - updsimp.
  - intros j Hj Hne. rewrite <- P2 by lia. updsimp.
Qed.

(* EmplaceNPre (EmplaceGrow.v): the block [0, cap) satisfies Inv with room for one element, pos <= size, the temporary e (Raw) and
   the argument a (Live va) are two different slots outside the block.
   Throw (only the copy of an lvalue argument can: event 0): EVERY slot as before, e Raw.  Completion: old prefix, the new value at
   pos, the old suffix one slot further, e Raw again (relocated: no destructor needed), the argument moved-from (rvalue) / untouched
   (lvalue), the invariant for size + 1, nothing else changed. *)
Theorem emplace_n_spec m th size cap pos e a k va :
  EmplaceNPre m size cap pos e a va ->
  match emplace_n m th pos (size - pos) e a k with
  | Threw m' => k = Lvalue /\ th = Some 0 /\ (forall j, m' j = m j)
  | Done m' _ => (forall j, j < pos -> m' j = m j) /\ m' pos = Live va /\ (forall j, pos <= j < size -> m' (S j) = m j) /\
                 m' e = Raw /\ m' a = arg_after k va /\ Inv (blockview m' 0 cap) (size + 1) cap /\
                 (forall j, size < j -> j <> e -> j <> a -> m' j = m j)
  | Err _ => False end.
Proof.
  intros (HI & Hroom & Hpos & Hec & Hac & Hea & He & Ha). apply blockview_inv in HI. destruct HI as (_ & Hl & Hr). cbn [Nat.add] in Hl, Hr.
  unfold emplace_n. destruct (Nat.eqb_spec (size - pos) 0) as [Hz|Hnz].
  - assert (pos = size) by lia. subst pos.
    pose proof (construct_arg_spec m th size a k va (Hr size ltac:(lia) Hroom) Ha) as C.
    destruct (construct_arg m th size a k) as [m1 th1|m1|x]; [|destruct C as (C1 & C2 & ->); auto|exact C].
    destruct C as (C1 & C2 & C3 & _). split; [|split; [|split; [|split; [|split; [|split]]]]].
    + intros j Hj. apply C3; lia.
    + exact C1.
    + intros j Hj. lia.
    + rewrite C3 by lia. exact He.
    + exact C2.
    + apply blockview_inv. cbn [Nat.add]. split; [lia|]. split.
      * intros i Hi. destruct (Nat.eq_dec i size) as [->|]; [rewrite C1; reflexivity|rewrite C3 by lia; apply Hl; lia].
      * intros i Hi1 Hi2. rewrite C3 by lia. apply Hr; lia.
    + intros j H1 H2 H3. apply C3; lia.
  - pose proof (construct_arg_spec m th e a k va He Ha) as C.
    destruct (construct_arg m th e a k) as [m1 th1|m1|x]; [|destruct C as (C1 & C2 & ->); auto|exact C].
    destruct C as (C1 & C2 & C3 & _).
    destruct (shift_relocate_spec m1 th1 pos (size - pos) e) as [m' (E & Q0 & Q1 & Q2 & Q3)]; [| | |lia|].
    + intros j Hj. rewrite C3 by lia. apply live_alive, Hl. lia.
    + rewrite C3 by lia. apply Hr; lia.
    + rewrite C1. reflexivity.
    + rewrite E. assert (F : forall j, pos < j <= size -> m' j = m (j - 1)).
      { intros j Hj. rewrite Q1 by lia. apply C3; lia. }
      split; [|split; [|split; [|split; [|split; [|split]]]]].
      * intros j Hj. rewrite Q3 by lia. apply C3; lia.
      * rewrite Q0. exact C1.
      * intros j Hj. rewrite F by lia. f_equal. lia.
      * exact Q2.
      * rewrite Q3 by lia. exact C2.
      * apply blockview_inv. cbn [Nat.add]. split; [lia|]. split.
        -- intros i Hi. destruct (le_lt_dec i pos) as [H1|H1]; [destruct (Nat.eq_dec i pos) as [->|]|].
           ++ rewrite Q0, C1. reflexivity.
           ++ rewrite Q3 by lia. rewrite C3 by lia. apply Hl; lia.
           ++ rewrite F by lia. apply Hl; lia.
        -- intros i Hi1 Hi2. rewrite Q3 by lia. rewrite C3 by lia. apply Hr; lia.
      * intros j H1 H2 H3. rewrite Q3 by lia. apply C3; lia.
Qed.
(* size 3, capacity 5, position 1; slots 0..4 the block, 6 = e, 7 = the argument; own element 2 as an rvalue (moved-from, then
   relocated with the tail) *)
Example emplace_n_spec_ex :
  EmplaceNPre (init_lay 3 5 99) 3 5 1 6 7 99 /\
  show (emplace_n (init_lay 3 5 99) None 1 2 6 7 Lvalue) 8 = Some (false, [Live 10; Live 99; Live 11; Live 12; Raw; Out; Raw; Live 99]%Z) /\
  show (emplace_n (init_lay 3 5 99) (Some 0) 1 2 6 7 Lvalue) 8 = Some (true, [Live 10; Live 11; Live 12; Raw; Raw; Out; Raw; Live 99]%Z) /\
  show (emplace_n (init_lay 3 5 99) (Some 0) 1 2 6 7 Rvalue) 8 = Some (false, [Live 10; Live 99; Live 11; Live 12; Raw; Out; Raw; Moved]%Z) /\
  show (emplace_n (init_lay 3 5 99) None 1 2 6 2 Rvalue) 8 = Some (false, [Live 10; Live 12; Live 11; Moved; Raw; Out; Raw; Live 99]%Z).
Proof. split; [exact emplace_n_pre_ex|]. repeat split; vm_compute; reflexivity. Qed.

(* ---- vec::insert_n (pos, n, const T &v), v not an element of the block -------------------------------------------------------------
     n == 0: construct_at (pos, v)
     else    shift_right (pos, n); try { assign_after_shift (pos, v) = construct_at (pos, v); } catch (...) { shift_left (pos + 1, n); throw; } *)
Definition insert_n (m : mem) (th : option nat) (pos n : nat) (v : Z) : out :=
  if n =? 0 then copy_construct m th pos v
  else match shift_right1 m pos n with
       | inr x => Err x
       | inl m1 => match copy_construct m1 th pos v with
                   | Threw m2 => match shift_left m2 (pos + 1) n with inl m3 => Threw m3 | inr x => Err x end
                   | o => o end
       end.
(* the construction onto the vacated slot throws: the handler relocates the tail back: every slot as before *)
Theorem insert_n_strong m th size cap pos v :
  Inv m size cap -> size < cap -> pos <= size ->
  match insert_n m th pos (size - pos) v with
  | Threw m' => th = Some 0 /\ (forall j, m' j = m j)
  | Done m' _ => (forall j, j < pos -> m' j = m j) /\ m' pos = Live v /\ (forall j, pos <= j < size -> m' (S j) = m j) /\
                 Inv m' (size + 1) cap
  | Err _ => False end.
Proof.
  intros HI Hroom Hpos. pose proof HI as (_ & Hl & Hr & Ho). unfold insert_n.
  assert (D : forall m1, m1 pos = Raw -> (forall j, j < pos -> m1 j = m j) -> (forall j, pos < j <= size -> m1 j = m (j - 1)) ->
            (forall j, size < j -> m1 j = m j) ->
            (forall j, j < pos -> upd m1 pos (Live v) j = m j) /\ upd m1 pos (Live v) pos = Live v /\
            (forall j, pos <= j < size -> upd m1 pos (Live v) (S j) = m j) /\ Inv (upd m1 pos (Live v)) (size + 1) cap).
  { intros m1 R0 F0 F1 F2. split; [intros j Hj; rewrite <- F0 by lia; updsimp|]. split; [updsimp|]. split.
    - intros j Hj. pose proof (F1 (S j) ltac:(lia)) as W. replace (S j - 1) with j in W by lia. rewrite <- W. updsimp.
    - repeat split; [lia| | |].
      + intros i Hi. destruct (Nat.eq_dec i pos) as [->|]; [updsimp|]. destruct (le_lt_dec i pos).
        * pose proof (Hl i ltac:(lia)) as W. rewrite <- F0 in W by lia. updsimp; exact W.
        * pose proof (Hl (i - 1) ltac:(lia)) as W. rewrite <- F1 in W by lia. updsimp; exact W.
      + intros i H1 H2. pose proof (Hr i ltac:(lia) H2) as W. rewrite <- F2 in W by lia. updsimp; exact W.
      + intros i Hi. pose proof (Ho i Hi) as W. rewrite <- F2 in W by lia. updsimp; exact W. }
  destruct (Nat.eqb_spec (size - pos) 0) as [Hz|Hnz].
  - assert (pos = size) by lia. subst pos. unfold copy_construct. rewrite (Hr size) by lia.
    destruct th as [[|t]|]; cbn [tick]; [split; reflexivity| |]; (apply D; [apply Hr; lia|reflexivity|intros; lia|reflexivity]).
  - destruct (shift_right1_inv m size cap pos HI Hpos Hroom) as [m1 (E & P0 & PR & P1 & P2)]. rewrite E.
    unfold copy_construct. rewrite PR.
    destruct th as [[|t]|]; cbn [tick]; [|apply D; assumption|apply D; assumption].
    destruct (shift_left_inv m size cap pos m1 HI ltac:(lia) Hroom E) as [m3 (E3 & Q)]. rewrite E3. split; [reflexivity|exact Q].
Qed.
Example insert_n_strong_ex :
  Inv (ThrowMove.init 3 5) 3 5 /\ 3 < 5 /\ 1 <= 3 /\
  show (insert_n (ThrowMove.init 3 5) (Some 0) 1 (3 - 1) 99%Z) 6 = Some (true, [Live 10; Live 11; Live 12; Raw; Raw; Out]%Z) /\
  show (insert_n (ThrowMove.init 3 5) (Some 1) 1 (3 - 1) 99%Z) 6 = Some (false, [Live 10; Live 99; Live 11; Live 12; Raw; Out]%Z).
Proof. split; [apply ThrowMove.init_inv; lia|]. split; [lia|]. split; [lia|]. split; vm_compute; reflexivity. Qed.

(* ---- vec::erase_n (first, n, count):  amc::destroy_n (first, n); uninitialized_relocate_n (first + n, count, first) -------------------
   The erased elements are destroyed FIRST, then the tail is relocated down onto their (now raw) slots; nothing throws. *)
Definition erase_n (m : mem) (first n count : nat) : mem + err :=
  match destroy_n m first n with inl m1 => relocate_n m1 (first + n) count first | inr e => inr e end.
(* erase (first, last): no lifetime error, every element destroyed or kept exactly once, the last n slots Raw, result as std::vector.
   (No `0 < n` needed: for an empty range this overload does nothing, unlike Erase.erase_n.) *)
Theorem erase_n_correct m size cap pos n :
  Inv m size cap -> pos + n <= size ->
  exists m', erase_n m pos n (size - pos - n) = inl m' /\ Inv m' (size - n) cap /\
    (forall j, j < pos -> m' j = m j) /\ (forall j, pos <= j < size - n -> m' j = m (j + n)) /\
    Slots.abs (toSm m') (size - n) = Erase.spec_erase (Slots.abs (toSm m) size) pos n.
Proof.
  intros (Hsc & Hl & Hr & Ho) Hp. unfold erase_n. set (cnt := size - pos - n).
  destruct (destroy_n_spec n m pos) as [m1 (E1 & D1 & D2)]; [intros k Hk; apply Hl; lia|]. rewrite E1.
  destruct (relocate_n_spec m1 (pos + n) cnt pos) as [m2 (E2 & P1 & P2 & P3)].
  { intros k Hk. rewrite D2 by lia. apply live_alive, Hl. lia. } { intros j Hj Hn. apply D1. lia. }
  assert (B1 : forall j, j < pos -> m2 j = m j) by (intros j Hj; rewrite P3 by lia; apply D2; lia).
  assert (B2 : forall j, pos <= j < size - n -> m2 j = m (j + n)).
  { intros j Hj. replace j with (pos + (j - pos)) at 1 by lia. rewrite P1 by lia. rewrite D2 by lia. f_equal. lia. }
  exists m2. split; [exact E2|]. split; [|split; [exact B1|split; [exact B2|]]].
  - repeat split; [lia| | |].
    + intros i Hi. destruct (le_lt_dec pos i) as [L|L]; [rewrite B2 by lia; apply Hl; lia|rewrite B1 by lia; apply Hl; lia].
    + intros i H1 H2. destruct (le_lt_dec size i) as [L|L]; [rewrite P3 by lia; rewrite D2 by lia; apply Hr; lia|].
      destruct (le_lt_dec (pos + n) i) as [L2|L2]; [apply P2; lia|rewrite P3 by lia; apply D1; lia].
    + intros i Hi. rewrite P3 by lia. rewrite D2 by lia. apply Ho; exact Hi.
  - apply Slots.list_ext.
    + unfold Erase.spec_erase. rewrite app_length, firstn_length, skipn_length, !Slots.abs_length. lia.
    + rewrite Slots.abs_length. intros i Hi. rewrite abs_toSm_nth by lia. rewrite Erase.spec_erase_nth by (rewrite Slots.abs_length; lia).
      destruct (Nat.ltb_spec i pos).
      * rewrite abs_toSm_nth by lia. rewrite B1 by lia. reflexivity.
      * rewrite abs_toSm_nth by lia. rewrite B2 by lia. reflexivity.
Qed.
Example erase_n_correct_ex :
  Inv (ThrowMove.init 5 6) 5 6 /\ 1 + 2 <= 5 /\
  (exists m', erase_n (ThrowMove.init 5 6) 1 2 (5 - 1 - 2) = inl m' /\ map m' (seq 0 7) = [Live 10; Live 13; Live 14; Raw; Raw; Raw; Out]%Z) /\
  (exists m', erase_n (ThrowMove.init 5 6) 3 2 (5 - 3 - 2) = inl m' /\ map m' (seq 0 7) = [Live 10; Live 11; Live 12; Raw; Raw; Raw; Out]%Z).
Proof. split; [apply ThrowMove.init_inv; lia|]. split; [lia|]. split; eexists; (split; [vm_compute; reflexivity|reflexivity]). Qed.

Print Assumptions relocate_n_spec.
Print Assumptions shift_right_cnt_spec.
Print Assumptions shift_right1_spec.
Print Assumptions unshift_right_spec.
Print Assumptions shift_left_spec.
Print Assumptions uninit_copy_loop_spec.
Print Assumptions shift_right_cnt_inv.
Print Assumptions shift_right1_inv.
Print Assumptions unshift_right_inv.
Print Assumptions shift_left_inv.
Print Assumptions insert_range_tr_strong.
Print Assumptions insert_cnt_tr_strong.
Print Assumptions insert_range_tr_threw_inv.
Print Assumptions insert_range_tr_done_abs.
Print Assumptions insert_cnt_tr_done_abs.
Print Assumptions insert_cnt_tr_nofix_refuted.
Print Assumptions insert_cnt_tr_nofix_not_strong.
Print Assumptions shift_relocate_no_throw.
Print Assumptions emplace_n_spec.
Print Assumptions insert_n_strong.
Print Assumptions erase_n_correct.
