(* C15 - slot level model of include/amc/memory.hpp (memory algorithms), with the throw oracle of Throw.v.

   Memory is [mem := nat -> slot] (Throw.v): one address space in which the destination block and the source block
   are two disjoint index ranges.  Element values are Z.  A construction that can throw consults the oracle
   [th : option nat] ([tick]); constructions of a category that cannot throw do not consume oracle events.

   Element category [cat] = the compile-time facts memory.hpp dispatches on:
     tc  std::is_trivially_copyable<T>      tr  amc::is_trivially_relocatable<T>
     td  std::is_trivial<T> / trivially default constructible (value / default construction are no-ops or fills)
     copy_throws / move_throws / ctor_throws: whether the copy / move / default constructor consumes an oracle event.
   Variants = memory_details::{Default, MemMoveInALoop, MemMove} chosen by ImplModeFactory ([impl_mode]) + the
   std-delegating C++17/20 versions, modelled by their specification ([std_*]).

   Reading a dead source is reported as [Err AssignDead] (Throw.v's [err] has no ReadDead constructor). *)
From Coq Require Import ZArith Lia Bool List Arith.
From Amc Require Import Throw.
Import ListNotations.

Record cat := { tc : bool; tr : bool; td : bool; copy_throws : bool; move_throws : bool; ctor_throws : bool }.
(* what the language guarantees about a category: a trivially copyable type has non throwing trivial copy / move *)
Definition cat_ok (c : cat) : Prop := tc c = true -> copy_throws c = false /\ move_throws c = false.

Inductive variant := Generic | MemMoveInALoop | MemMove | StdSpec.

(* outcome of an algorithm: memory, remaining oracle, returned (source iterator, destination iterator) *)
Inductive outc := DoneR (m : mem) (th : option nat) (sret dret : nat) | ThrewR (m : mem) | ErrR (e : err).

Definition tickc (can : bool) (th : option nat) : bool * option nat := if can then tick th else (false, th).
(* does one of the next n throwing-capable events throw? *)
Definition throws (can : bool) (th : option nat) (n : nat) : bool :=
  can && match th with Some k => k <? n | None => false end.

(* ::new (pos) T(v) / T() : [can] says whether this constructor consumes an oracle event *)
Definition construct (can : bool) (m : mem) (th : option nat) (dst : nat) (v : Z) : out :=
  match m dst with
  | Raw => let (t, th') := tickc can th in if t then Threw m else Done (upd m dst (Live v)) th'
  | Out => Err OutOfBlock | _ => Err ConstructOverLive end.
(* state of a source after it has been moved from: a trivially copyable source keeps its value *)
Definition src_after (keep : bool) (s : slot) : slot := if keep then s else Moved.
(* ::new (dst) T(std::move(*src)) *)
Definition move_construct (can keep : bool) (m : mem) (th : option nat) (dst src : nat) : out :=
  match m dst, m src with
  | Raw, Live v => let (t, th') := tickc can th in
                   if t then Threw m else Done (upd (upd m dst (Live v)) src (src_after keep (Live v))) th'
  | Out, _ | _, Out => Err OutOfBlock
  | Raw, _ => Err AssignDead
  | _, _ => Err ConstructOverLive end.
(* memcpy of one element (copy of a trivially copyable object) / memmove of one element (relocation: the source
   bits stay but the object now lives at dst, the source slot is raw storage) *)
Definition bit_copy (m : mem) (dst src : nat) : mem + err :=
  match m dst, m src with
  | Raw, Live v => inl (upd m dst (Live v))
  | Out, _ | _, Out => inr OutOfBlock | Raw, _ => inr AssignDead | _, _ => inr ConstructOverLive end.
Definition bit_reloc (m : mem) (dst src : nat) : mem + err :=
  match m dst, m src with
  | Raw, Live v => inl (upd (upd m dst (Live v)) src Raw)
  | Out, _ | _, Out => inr OutOfBlock | Raw, _ => inr AssignDead | _, _ => inr ConstructOverLive end.

Definition is_raw (s : slot) := match s with Raw => true | _ => false end.
Definition chk_range (p : slot -> bool) (m : mem) (a n : nat) : bool := forallb (fun k => p (m (a + k))) (seq 0 n).
Definition in_range (a n j : nat) : bool := (a <=? j) && (j <? a + n).
(* one memcpy / memmove of n elements *)
Definition block_copy (m : mem) (dst src n : nat) : mem :=
  fun j => if in_range dst n j then m (j - dst + src) else m j.
Definition block_reloc (m : mem) (dst src n : nat) : mem :=
  fun j => if in_range dst n j then m (j - dst + src) else if in_range src n j then Raw else m j.

(* ------------------------------------------------------------------------------------------------------------ *)
(* the loops of memory.hpp *)

(* uninitialized_copy_n_impl(Default), memory.hpp:298-310: try { for (...) construct_at(current, *first); }
   catch (...) { destroy(dest, current); throw; }   [si] counts the source iterator's increments *)
Fixpoint copy_loop (can : bool) (m : mem) (th : option nat) (first cur si : nat) (vals : list Z) : outc :=
  match vals with
  | [] => DoneR m th si cur
  | v :: vs => match construct can m th cur v with
               | Done m1 th1 => copy_loop can m1 th1 first (S cur) (S si) vs
               | Threw m1 => match destroy_n m1 first (cur - first) with inl m2 => ThrewR m2 | inr e => ErrR e end
               | Err e => ErrR e end
  end.
(* uninitialized_value_construct_n / uninitialized_default_construct_n (non trivial overloads), memory.hpp:168-185,218-233 *)
Fixpoint ctor_loop (can : bool) (m : mem) (th : option nat) (first cur n : nat) : outc :=
  match n with
  | 0 => DoneR m th 0 cur
  | S k => match construct can m th cur 0%Z with
           | Done m1 th1 => ctor_loop can m1 th1 first (S cur) k
           | Threw m1 => match destroy_n m1 first (cur - first) with inl m2 => ThrewR m2 | inr e => ErrR e end
           | Err e => ErrR e end
  end.
(* uninitialized_move_n_impl(Default), memory.hpp:346-358 *)
Fixpoint move_loop (can keep : bool) (m : mem) (th : option nat) (first cur src n : nat) : outc :=
  match n with
  | 0 => DoneR m th src cur
  | S k => match move_construct can keep m th cur src with
           | Done m1 th1 => move_loop can keep m1 th1 first (S cur) (S src) k
           | Threw m1 => match destroy_n m1 first (cur - first) with inl m2 => ThrewR m2 | inr e => ErrR e end
           | Err e => ErrR e end
  end.
(* the MemMoveInALoop loops: memcpy per element (copy / move, memory.hpp:312-319,360-368), memmove per element
   (relocate, memory.hpp:476-483) *)
Fixpoint bitcopy_loop (m : mem) (th : option nat) (cur src n : nat) : outc :=
  match n with
  | 0 => DoneR m th src cur
  | S k => match bit_copy m cur src with inl m1 => bitcopy_loop m1 th (S cur) (S src) k | inr e => ErrR e end
  end.
Fixpoint bitreloc_loop (m : mem) (th : option nat) (cur src n : nat) : outc :=
  match n with
  | 0 => DoneR m th src cur
  | S k => match bit_reloc m cur src with inl m1 => bitreloc_loop m1 th (S cur) (S src) k | inr e => ErrR e end
  end.
(* the MemMove versions: if (count > 0) memcpy / memmove(dest, first, count * sizeof(T)); return first + count, dest + count *)
Definition block_ok (m : mem) (dst src n : nat) : bool := chk_range is_raw m dst n && chk_range is_live m src n.
Definition bitcopy_block (m : mem) (th : option nat) (dst src n : nat) : outc :=
  if block_ok m dst src n then DoneR (if 0 <? n then block_copy m dst src n else m) th (src + n) (dst + n)
  else ErrR ConstructOverLive.
Definition bitreloc_block (m : mem) (th : option nat) (dst src n : nat) : outc :=
  if block_ok m dst src n then DoneR (if 0 <? n then block_reloc m dst src n else m) th (src + n) (dst + n)
  else ErrR ConstructOverLive.

(* ------------------------------------------------------------------------------------------------------------ *)
(* loop lemmas (three range clauses each) *)

Lemma throws_S can k n : throws can (Some (S k)) (S n) = throws can (Some k) n.
Proof. unfold throws. destruct can; cbn [andb]; [|reflexivity]. destruct (Nat.ltb_spec (S k) (S n)), (Nat.ltb_spec k n); try reflexivity; lia. Qed.

Lemma copy_loop_spec : forall vals can m th first cur si,
  first <= cur -> (forall j, first <= j < cur -> is_live (m j) = true) -> (forall k, k < length vals -> m (cur + k) = Raw) ->
  (exists m' th', copy_loop can m th first cur si vals = DoneR m' th' (si + length vals) (cur + length vals) /\
      throws can th (length vals) = false /\
      (forall j, cur <= j < cur + length vals -> m' j = Live (nth (j - cur) vals 0%Z)) /\
      (forall j, ~ (cur <= j < cur + length vals) -> m' j = m j)) \/
  (exists m', copy_loop can m th first cur si vals = ThrewR m' /\ throws can th (length vals) = true /\
      (forall j, first <= j < cur + length vals -> m' j = Raw) /\
      (forall j, ~ (first <= j < cur + length vals) -> m' j = m j)).
Proof.
  induction vals as [|v vals IH]; intros can m th first cur si Hfc Hl Hr; cbn [copy_loop length].
  - left. exists m, th. rewrite !Nat.add_0_r. split; [reflexivity|]. split.
    + unfold throws. destruct can, th; reflexivity.
    + split; intros; try lia; reflexivity.
  - pose proof (Hr 0 ltac:(cbn [length]; lia)) as H0. rewrite Nat.add_0_r in H0. unfold construct. rewrite H0.
    assert (Hstep : forall th',
      (exists m' th2, copy_loop can (upd m cur (Live v)) th' first (S cur) (S si) vals = DoneR m' th2 (si + S (length vals)) (cur + S (length vals)) /\
          throws can th' (length vals) = false /\
          (forall j, cur <= j < cur + S (length vals) -> m' j = Live (nth (j - cur) (v :: vals) 0%Z)) /\
          (forall j, ~ (cur <= j < cur + S (length vals)) -> m' j = m j)) \/
      (exists m', copy_loop can (upd m cur (Live v)) th' first (S cur) (S si) vals = ThrewR m' /\ throws can th' (length vals) = true /\
          (forall j, first <= j < cur + S (length vals) -> m' j = Raw) /\
          (forall j, ~ (first <= j < cur + S (length vals)) -> m' j = m j))).
    { intros th'.
      destruct (IH can (upd m cur (Live v)) th' first (S cur) (S si)) as [(m' & th2 & E & T & P1 & P2)|(m' & E & T & P1 & P2)]; [lia| | | |].
      * intros j Hj. destruct (Nat.eq_dec j cur) as [->|]; [updsimp|]. pose proof (Hl j ltac:(lia)). updsimp.
      * intros k Hk. pose proof (Hr (S k) ltac:(cbn [length]; lia)) as Hw. replace (cur + S k) with (S cur + k) in Hw by lia. updsimp.
      * left. exists m', th2. replace (si + S (length vals)) with (S si + length vals) by lia.
        replace (cur + S (length vals)) with (S cur + length vals) by lia. split; [exact E|]. split; [exact T|]. split.
        -- intros j Hj. destruct (Nat.eq_dec j cur) as [->|].
           ++ rewrite P2 by lia. rewrite Nat.sub_diag. updsimp.
           ++ rewrite P1 by lia. replace (j - cur) with (S (j - S cur)) by lia. reflexivity.
        -- intros j Hj. rewrite P2 by lia. updsimp.
      * right. exists m'. split; [exact E|]. split; [exact T|]. split.
        -- intros j Hj. apply P1. lia.
        -- intros j Hj. rewrite P2 by lia. updsimp. }
    assert (Hthrow : (exists m', match destroy_n m first (cur - first) with inl m2 => ThrewR m2 | inr e => ErrR e end = ThrewR m' /\
          (forall j, first <= j < cur + S (length vals) -> m' j = Raw) /\
          (forall j, ~ (first <= j < cur + S (length vals)) -> m' j = m j))).
    { destruct (destroy_n_spec (cur - first) m first) as [m2 (E & P1 & P2)]; [intros k Hk; apply Hl; lia|].
      rewrite E. exists m2. split; [reflexivity|]. split.
      * intros j Hj. destruct (le_lt_dec cur j); [rewrite P2 by lia; replace j with (cur + (j - cur)) by lia; apply Hr; cbn [length]; lia|apply P1; lia].
      * intros j Hj. apply P2. lia. }
    destruct can; cbn [tickc].
    + destruct th as [[|k]|]; cbn [tick].
      * right. destruct Hthrow as (m' & E & P1 & P2). exists m'. split; [exact E|]. split; [reflexivity|]. split; assumption.
      * destruct (Hstep (Some k)) as [(m' & th2 & E & T & P)|(m' & E & T & P)].
        -- left. exists m', th2. split; [exact E|]. split; [rewrite throws_S; exact T|exact P].
        -- right. exists m'. split; [exact E|]. split; [rewrite throws_S; exact T|exact P].
      * destruct (Hstep None) as [(m' & th2 & E & T & P)|(m' & E & T & P)].
        -- left. exists m', th2. split; [exact E|]. split; [reflexivity|exact P].
        -- discriminate T.
    + destruct (Hstep th) as [(m' & th2 & E & T & P)|(m' & E & T & P)].
      * left. exists m', th2. split; [exact E|]. split; [reflexivity|exact P].
      * discriminate T.
Qed.
