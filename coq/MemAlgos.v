(* C15 - slot level model of include/amc/memory.hpp (memory algorithms), with the throw oracle of Throw.v.

   Memory is [mem := nat -> slot] (Throw.v): one address space in which the destination block and the source block
   are two disjoint index ranges.  Element values are Z.  A construction that can throw consults the oracle
   [th : option nat] ([tick]); constructions of a category that cannot throw do not consume oracle events.

   Element category [cat] = the compile-time facts memory.hpp dispatches on:
     tc  std::is_trivially_copyable<T>      tr  amc::is_trivially_relocatable<T>
     td  std::is_trivial<T> / trivially default constructible (value / default construction are no-ops or fills)
     copy_throws / move_throws / ctor_throws: whether the copy / move / default constructor consumes an oracle event.
   Variants = memory_details::{Default, MemMoveInALoop, MemMove} chosen by ImplModeFactory ([impl_mode]) + the
   std-delegating C++17/20 versions, modelled by their specification ([std_*]).

   Reading a dead source is reported as [Err AssignDead] (Throw.v's [err] has no ReadDead constructor). *)
From Coq Require Import ZArith Lia Bool List Arith.
From Amc Require Import Throw.
Import ListNotations.

Record cat := { tc : bool; tr : bool; td : bool; copy_throws : bool; move_throws : bool; ctor_throws : bool }.
(* what the language guarantees about a category: a trivially copyable type has non throwing trivial copy / move *)
Definition cat_ok (c : cat) : Prop := tc c = true -> copy_throws c = false /\ move_throws c = false.

Inductive variant := Generic | MemMoveInALoop | MemMove | StdSpec.

(* outcome of an algorithm: memory, remaining oracle, returned (source iterator, destination iterator) *)
Inductive outc := DoneR (m : mem) (th : option nat) (sret dret : nat) | ThrewR (m : mem) | ErrR (e : err).

Definition tickc (can : bool) (th : option nat) : bool * option nat := if can then tick th else (false, th).
(* does one of the next n throwing-capable events throw? *)
Definition throws (can : bool) (th : option nat) (n : nat) : bool :=
  can && match th with Some k => k <? n | None => false end.

(* ::new (pos) T(v) / T() : [can] says whether this constructor consumes an oracle event *)
Definition construct (can : bool) (m : mem) (th : option nat) (dst : nat) (v : Z) : out :=
  match m dst with
  | Raw => let (t, th') := tickc can th in if t then Threw m else Done (upd m dst (Live v)) th'
  | Out => Err OutOfBlock | _ => Err ConstructOverLive end.
(* state of a source after it has been moved from: a trivially copyable source keeps its value *)
Definition src_after (keep : bool) (s : slot) : slot := if keep then s else Moved.
(* ::new (dst) T(std::move( *src )) *)
Definition move_construct (can keep : bool) (m : mem) (th : option nat) (dst src : nat) : out :=
  match m dst, m src with
  | Raw, Live v => let (t, th') := tickc can th in
                   if t then Threw m else Done (upd (upd m dst (Live v)) src (src_after keep (Live v))) th'
  | Out, _ | _, Out => Err OutOfBlock
  | Raw, _ => Err AssignDead
  | _, _ => Err ConstructOverLive end.
(* memcpy of one element (copy of a trivially copyable object) / memmove of one element (relocation: the source
   bits stay but the object now lives at dst, the source slot is raw storage) *)
Definition bit_copy (m : mem) (dst src : nat) : mem + err :=
  match m dst, m src with
  | Raw, Live v => inl (upd m dst (Live v))
  | Out, _ | _, Out => inr OutOfBlock | Raw, _ => inr AssignDead | _, _ => inr ConstructOverLive end.
Definition bit_reloc (m : mem) (dst src : nat) : mem + err :=
  match m dst, m src with
  | Raw, Live v => inl (upd (upd m dst (Live v)) src Raw)
  | Out, _ | _, Out => inr OutOfBlock | Raw, _ => inr AssignDead | _, _ => inr ConstructOverLive end.

Definition is_raw (s : slot) := match s with Raw => true | _ => false end.
Definition chk_range (p : slot -> bool) (m : mem) (a n : nat) : bool := forallb (fun k => p (m (a + k))) (seq 0 n).
Definition in_range (a n j : nat) : bool := (a <=? j) && (j <? a + n).
(* one memcpy / memmove of n elements *)
Definition block_copy (m : mem) (dst src n : nat) : mem :=
  fun j => if in_range dst n j then m (j - dst + src) else m j.
Definition block_reloc (m : mem) (dst src n : nat) : mem :=
  fun j => if in_range dst n j then m (j - dst + src) else if in_range src n j then Raw else m j.

(* ------------------------------------------------------------------------------------------------------------ *)
(* the loops of memory.hpp *)

(* uninitialized_copy_n_impl(Default), memory.hpp:298-310: try { for (...) construct_at(current, *first); }
   catch (...) { destroy(dest, current); throw; }   [si] counts the source iterator's increments *)
Fixpoint copy_loop (can : bool) (m : mem) (th : option nat) (first cur si : nat) (vals : list Z) : outc :=
  match vals with
  | [] => DoneR m th si cur
  | v :: vs => match construct can m th cur v with
               | Done m1 th1 => copy_loop can m1 th1 first (S cur) (S si) vs
               | Threw m1 => match destroy_n m1 first (cur - first) with inl m2 => ThrewR m2 | inr e => ErrR e end
               | Err e => ErrR e end
  end.
(* uninitialized_value_construct_n / uninitialized_default_construct_n (non trivial overloads), memory.hpp:168-185,218-233 *)
Fixpoint ctor_loop (can : bool) (m : mem) (th : option nat) (first cur n : nat) : outc :=
  match n with
  | 0 => DoneR m th 0 cur
  | S k => match construct can m th cur 0%Z with
           | Done m1 th1 => ctor_loop can m1 th1 first (S cur) k
           | Threw m1 => match destroy_n m1 first (cur - first) with inl m2 => ThrewR m2 | inr e => ErrR e end
           | Err e => ErrR e end
  end.
(* uninitialized_move_n_impl(Default), memory.hpp:346-358 *)
Fixpoint move_loop (can keep : bool) (m : mem) (th : option nat) (first cur src n : nat) : outc :=
  match n with
  | 0 => DoneR m th src cur
  | S k => match move_construct can keep m th cur src with
           | Done m1 th1 => move_loop can keep m1 th1 first (S cur) (S src) k
           | Threw m1 => match destroy_n m1 first (cur - first) with inl m2 => ThrewR m2 | inr e => ErrR e end
           | Err e => ErrR e end
  end.
(* the MemMoveInALoop loops: memcpy per element (copy / move, memory.hpp:312-319,360-368), memmove per element
   (relocate, memory.hpp:476-483) *)
Fixpoint bitcopy_loop (m : mem) (th : option nat) (cur src n : nat) : outc :=
  match n with
  | 0 => DoneR m th src cur
  | S k => match bit_copy m cur src with inl m1 => bitcopy_loop m1 th (S cur) (S src) k | inr e => ErrR e end
  end.
Fixpoint bitreloc_loop (m : mem) (th : option nat) (cur src n : nat) : outc :=
  match n with
  | 0 => DoneR m th src cur
  | S k => match bit_reloc m cur src with inl m1 => bitreloc_loop m1 th (S cur) (S src) k | inr e => ErrR e end
  end.
(* the MemMove versions: if (count > 0) memcpy / memmove(dest, first, count * sizeof(T)); return first + count, dest + count *)
Definition block_ok (m : mem) (dst src n : nat) : bool := chk_range is_raw m dst n && chk_range is_live m src n.
Definition bitcopy_block (m : mem) (th : option nat) (dst src n : nat) : outc :=
  if block_ok m dst src n then DoneR (if 0 <? n then block_copy m dst src n else m) th (src + n) (dst + n)
  else ErrR ConstructOverLive.
Definition bitreloc_block (m : mem) (th : option nat) (dst src n : nat) : outc :=
  if block_ok m dst src n then DoneR (if 0 <? n then block_reloc m dst src n else m) th (src + n) (dst + n)
  else ErrR ConstructOverLive.

(* ------------------------------------------------------------------------------------------------------------ *)
(* loop lemmas (three range clauses each) *)

Lemma throws_S can k n : throws can (Some (S k)) (S n) = throws can (Some k) n.
Proof. unfold throws. destruct can; cbn [andb]; [|reflexivity]. destruct (Nat.ltb_spec (S k) (S n)), (Nat.ltb_spec k n); try reflexivity; lia. Qed.

Lemma copy_loop_spec : forall vals can m th first cur si,
  first <= cur -> (forall j, first <= j < cur -> is_live (m j) = true) -> (forall k, k < length vals -> m (cur + k) = Raw) ->
  (exists m' th', copy_loop can m th first cur si vals = DoneR m' th' (si + length vals) (cur + length vals) /\
      throws can th (length vals) = false /\
      (forall j, cur <= j < cur + length vals -> m' j = Live (nth (j - cur) vals 0%Z)) /\
      (forall j, ~ (cur <= j < cur + length vals) -> m' j = m j)) \/
  (exists m', copy_loop can m th first cur si vals = ThrewR m' /\ throws can th (length vals) = true /\
      (forall j, first <= j < cur + length vals -> m' j = Raw) /\
      (forall j, ~ (first <= j < cur + length vals) -> m' j = m j)).
Proof.
  induction vals as [|v vals IH]; intros can m th first cur si Hfc Hl Hr; cbn [copy_loop length].
  - left. exists m, th. rewrite !Nat.add_0_r. split; [reflexivity|]. split.
    + unfold throws. destruct can, th; reflexivity.
    + split; intros; try lia; reflexivity.
  - pose proof (Hr 0 ltac:(cbn [length]; lia)) as H0. rewrite Nat.add_0_r in H0. unfold construct. rewrite H0.
    assert (Hstep : forall th',
      (exists m' th2, copy_loop can (upd m cur (Live v)) th' first (S cur) (S si) vals = DoneR m' th2 (si + S (length vals)) (cur + S (length vals)) /\
          throws can th' (length vals) = false /\
          (forall j, cur <= j < cur + S (length vals) -> m' j = Live (nth (j - cur) (v :: vals) 0%Z)) /\
          (forall j, ~ (cur <= j < cur + S (length vals)) -> m' j = m j)) \/
      (exists m', copy_loop can (upd m cur (Live v)) th' first (S cur) (S si) vals = ThrewR m' /\ throws can th' (length vals) = true /\
          (forall j, first <= j < cur + S (length vals) -> m' j = Raw) /\
          (forall j, ~ (first <= j < cur + S (length vals)) -> m' j = m j))).
    { intros th'.
      destruct (IH can (upd m cur (Live v)) th' first (S cur) (S si)) as [(m' & th2 & E & T & P1 & P2)|(m' & E & T & P1 & P2)]; [lia| | | |].
      * intros j Hj. destruct (Nat.eq_dec j cur) as [->|]; [updsimp|]. pose proof (Hl j ltac:(lia)). updsimp.
      * intros k Hk. pose proof (Hr (S k) ltac:(cbn [length]; lia)) as Hw. replace (cur + S k) with (S cur + k) in Hw by lia. updsimp.
      * left. exists m', th2. replace (si + S (length vals)) with (S si + length vals) by lia.
        replace (cur + S (length vals)) with (S cur + length vals) by lia. split; [exact E|]. split; [exact T|]. split.
        -- intros j Hj. destruct (Nat.eq_dec j cur) as [->|].
           ++ rewrite P2 by lia. rewrite Nat.sub_diag. updsimp.
           ++ rewrite P1 by lia. replace (j - cur) with (S (j - S cur)) by lia. reflexivity.
        -- intros j Hj. rewrite P2 by lia. updsimp.
      * right. exists m'. split; [exact E|]. split; [exact T|]. split.
        -- intros j Hj. apply P1. lia.
        -- intros j Hj. rewrite P2 by lia. updsimp. }
    assert (Hthrow : (exists m', match destroy_n m first (cur - first) with inl m2 => ThrewR m2 | inr e => ErrR e end = ThrewR m' /\
          (forall j, first <= j < cur + S (length vals) -> m' j = Raw) /\
          (forall j, ~ (first <= j < cur + S (length vals)) -> m' j = m j))).
    { destruct (destroy_n_spec (cur - first) m first) as [m2 (E & P1 & P2)]; [intros k Hk; apply Hl; lia|].
      rewrite E. exists m2. split; [reflexivity|]. split.
      * intros j Hj. destruct (le_lt_dec cur j); [rewrite P2 by lia; replace j with (cur + (j - cur)) by lia; apply Hr; cbn [length]; lia|apply P1; lia].
      * intros j Hj. apply P2. lia. }
    destruct can; cbn [tickc].
    + destruct th as [[|k]|]; cbn [tick].
      * right. destruct Hthrow as (m' & E & P1 & P2). exists m'. split; [exact E|]. split; [reflexivity|]. split; assumption.
      * destruct (Hstep (Some k)) as [(m' & th2 & E & T & P)|(m' & E & T & P)].
        -- left. exists m', th2. split; [exact E|]. split; [rewrite throws_S; exact T|exact P].
        -- right. exists m'. split; [exact E|]. split; [rewrite throws_S; exact T|exact P].
      * destruct (Hstep None) as [(m' & th2 & E & T & P)|(m' & E & T & P)].
        -- left. exists m', th2. split; [exact E|]. split; [reflexivity|exact P].
        -- discriminate T.
    + destruct (Hstep th) as [(m' & th2 & E & T & P)|(m' & E & T & P)].
      * left. exists m', th2. split; [exact E|]. split; [reflexivity|exact P].
      * discriminate T.
Qed.

Lemma ctor_loop_as_copy : forall n can m th first cur,
  ctor_loop can m th first cur n =
  match copy_loop can m th first cur 0 (repeat 0%Z n) with DoneR m' th' _ d => DoneR m' th' 0 d | o => o end.
Proof.
  assert (G : forall n can m th first cur si,
    match copy_loop can m th first cur si (repeat 0%Z n) with DoneR m' th' _ d => DoneR m' th' 0 d | o => o end = ctor_loop can m th first cur n).
  { induction n as [|n IH]; intros can m th first cur si; cbn [ctor_loop copy_loop repeat]; [reflexivity|].
    destruct (construct can m th cur 0%Z) as [m1 th1|m1|e]; [apply IH| |reflexivity].
    destruct (destroy_n m1 first (cur - first)); reflexivity. }
  intros. symmetry. apply G.
Qed.

Lemma nth_repeat0 n i : nth i (repeat 0%Z n) 0%Z = 0%Z.
Proof. revert i. induction n as [|n IH]; intros [|i]; cbn; auto. Qed.

Lemma ctor_loop_spec : forall n can m th first cur,
  first <= cur -> (forall j, first <= j < cur -> is_live (m j) = true) -> (forall k, k < n -> m (cur + k) = Raw) ->
  (exists m' th', ctor_loop can m th first cur n = DoneR m' th' 0 (cur + n) /\ throws can th n = false /\
      (forall j, cur <= j < cur + n -> m' j = Live 0%Z) /\ (forall j, ~ (cur <= j < cur + n) -> m' j = m j)) \/
  (exists m', ctor_loop can m th first cur n = ThrewR m' /\ throws can th n = true /\
      (forall j, first <= j < cur + n -> m' j = Raw) /\ (forall j, ~ (first <= j < cur + n) -> m' j = m j)).
Proof.
  intros n can m th first cur Hfc Hl Hr. rewrite ctor_loop_as_copy.
  destruct (copy_loop_spec (repeat 0%Z n) can m th first cur 0 Hfc Hl) as [(m' & th' & E & T & P1 & P2)|(m' & E & T & P1 & P2)].
  - rewrite repeat_length. exact Hr.
  - rewrite repeat_length in *. left. exists m', th'. rewrite E. split; [reflexivity|]. split; [exact T|]. split; [|exact P2].
    intros j Hj. rewrite P1 by lia. rewrite nth_repeat0. reflexivity.
  - rewrite repeat_length in *. right. exists m'. rewrite E. split; [reflexivity|]. split; [exact T|]. split; assumption.
Qed.

Lemma move_loop_spec : forall n can keep m th first cur src,
  first <= cur -> (src + n <= first \/ cur + n <= src) ->
  (forall j, first <= j < cur -> is_live (m j) = true) ->
  (forall k, k < n -> m (cur + k) = Raw) ->
  (forall k, k < n -> is_live (m (src + k)) = true) ->
  (exists m' th', move_loop can keep m th first cur src n = DoneR m' th' (src + n) (cur + n) /\ throws can th n = false /\
      (forall j, cur <= j < cur + n -> m' j = m (j - cur + src)) /\
      (forall j, src <= j < src + n -> m' j = src_after keep (m j)) /\
      (forall j, ~ (cur <= j < cur + n) -> ~ (src <= j < src + n) -> m' j = m j)) \/
  (exists m' k, move_loop can keep m th first cur src n = ThrewR m' /\ can = true /\ th = Some k /\ k < n /\
      (forall j, first <= j < cur + n -> m' j = Raw) /\
      (forall j, src <= j < src + k -> m' j = src_after keep (m j)) /\
      (forall j, ~ (first <= j < cur + n) -> ~ (src <= j < src + k) -> m' j = m j)).
Proof.
  induction n as [|n IH]; intros can keep m th first cur src Hfc Hdis Hl Hr Hs; cbn [move_loop].
  - left. exists m, th. rewrite !Nat.add_0_r. split; [reflexivity|]. split.
    + unfold throws. destruct can, th; reflexivity.
    + repeat split; intros; try lia; reflexivity.
  - pose proof (Hr 0 ltac:(lia)) as H0. rewrite Nat.add_0_r in H0.
    pose proof (Hs 0 ltac:(lia)) as Hv. rewrite Nat.add_0_r in Hv.
    unfold move_construct. rewrite H0. destruct (m src) as [| |v|] eqn:Es; try discriminate Hv.
    set (m1 := upd (upd m cur (Live v)) src (src_after keep (Live v))).
    assert (Hstep : forall th',
      (exists m' th2, move_loop can keep m1 th' first (S cur) (S src) n = DoneR m' th2 (src + S n) (cur + S n) /\
          throws can th' n = false /\
          (forall j, cur <= j < cur + S n -> m' j = m (j - cur + src)) /\
          (forall j, src <= j < src + S n -> m' j = src_after keep (m j)) /\
          (forall j, ~ (cur <= j < cur + S n) -> ~ (src <= j < src + S n) -> m' j = m j)) \/
      (exists m' k, move_loop can keep m1 th' first (S cur) (S src) n = ThrewR m' /\ can = true /\ th' = Some k /\ k < n /\
          (forall j, first <= j < cur + S n -> m' j = Raw) /\
          (forall j, src <= j < src + S k -> m' j = src_after keep (m j)) /\
          (forall j, ~ (first <= j < cur + S n) -> ~ (src <= j < src + S k) -> m' j = m j))).
    { intros th'.
      destruct (IH can keep m1 th' first (S cur) (S src)) as [(m' & th2 & E & T & P1 & P2 & P3)|(m' & k & E & Hc & Ht & Hk & P1 & P2 & P3)]; [lia|lia| | | | |].
      * intros j Hj. unfold m1. destruct (Nat.eq_dec j cur) as [->|]; [updsimp|]. pose proof (Hl j ltac:(lia)). updsimp.
      * intros k Hk. pose proof (Hr (S k) ltac:(lia)) as Hw. replace (cur + S k) with (S cur + k) in Hw by lia. unfold m1. updsimp.
      * intros k Hk. pose proof (Hs (S k) ltac:(lia)) as Hw. replace (src + S k) with (S src + k) in Hw by lia. unfold m1. updsimp.
      * left. exists m', th2. replace (src + S n) with (S src + n) by lia. replace (cur + S n) with (S cur + n) by lia.
        split; [exact E|]. split; [exact T|]. split; [|split].
        -- intros j Hj. destruct (Nat.eq_dec j cur) as [->|].
           ++ rewrite P3 by lia. rewrite Nat.sub_diag. cbn [Nat.add]. rewrite Es. unfold m1. updsimp.
           ++ rewrite P1 by lia. replace (j - S cur + S src) with (j - cur + src) by lia. unfold m1. updsimp.
        -- intros j Hj. destruct (Nat.eq_dec j src) as [->|].
           ++ rewrite P3 by lia. rewrite Es. unfold m1. updsimp.
           ++ rewrite P2 by lia. unfold m1. f_equal. updsimp.
        -- intros j Ha Hb. rewrite P3 by lia. unfold m1. updsimp.
      * right. exists m', k. split; [exact E|]. split; [exact Hc|]. split; [exact Ht|]. split; [exact Hk|]. split; [|split].
        -- intros j Hj. apply P1. lia.
        -- intros j Hj. destruct (Nat.eq_dec j src) as [->|].
           ++ rewrite P3 by lia. rewrite Es. unfold m1. updsimp.
           ++ rewrite P2 by lia. unfold m1. f_equal. updsimp.
        -- intros j Ha Hb. rewrite P3 by lia. unfold m1. updsimp. }
    destruct can; cbn [tickc].
    + destruct th as [[|k]|]; cbn [tick].
      * right. destruct (destroy_n_spec (cur - first) m first) as [m2 (E & P1 & P2)]; [intros k Hk; apply Hl; lia|].
        rewrite E. exists m2, 0. split; [reflexivity|]. split; [reflexivity|]. split; [reflexivity|]. split; [lia|]. split; [|split].
        -- intros j Hj. destruct (le_lt_dec cur j); [rewrite P2 by lia; replace j with (cur + (j - cur)) by lia; apply Hr; lia|apply P1; lia].
        -- intros j Hj. lia.
        -- intros j Ha Hb. apply P2. lia.
      * destruct (Hstep (Some k)) as [(m' & th2 & E & T & P)|(m' & k' & E & Hc & Ht & Hk & P)].
        -- left. exists m', th2. split; [exact E|]. split; [rewrite throws_S; exact T|exact P].
        -- right. injection Ht as <-. exists m', (S k). split; [exact E|]. split; [reflexivity|]. split; [reflexivity|]. split; [lia|exact P].
      * destruct (Hstep None) as [(m' & th2 & E & T & P)|(m' & k' & E & Hc & Ht & Hk & P)].
        -- left. exists m', th2. split; [exact E|]. split; [reflexivity|exact P].
        -- discriminate Ht.
    + destruct (Hstep th) as [(m' & th2 & E & T & P)|(m' & k' & E & Hc & Ht & Hk & P)].
      * left. exists m', th2. split; [exact E|]. split; [reflexivity|exact P].
      * discriminate Hc.
Qed.

Lemma bitcopy_loop_spec : forall n m th cur src,
  (src + n <= cur \/ cur + n <= src) ->
  (forall k, k < n -> m (cur + k) = Raw) -> (forall k, k < n -> is_live (m (src + k)) = true) ->
  exists m', bitcopy_loop m th cur src n = DoneR m' th (src + n) (cur + n) /\
    (forall j, cur <= j < cur + n -> m' j = m (j - cur + src)) /\
    (forall j, ~ (cur <= j < cur + n) -> m' j = m j).
Proof.
  induction n as [|n IH]; intros m th cur src Hdis Hr Hs; cbn [bitcopy_loop].
  - exists m. rewrite !Nat.add_0_r. repeat split; intros; try lia; reflexivity.
  - pose proof (Hr 0 ltac:(lia)) as H0. rewrite Nat.add_0_r in H0.
    pose proof (Hs 0 ltac:(lia)) as Hv. rewrite Nat.add_0_r in Hv.
    unfold bit_copy. rewrite H0. destruct (m src) as [| |v|] eqn:Es; try discriminate Hv.
    destruct (IH (upd m cur (Live v)) th (S cur) (S src)) as [m' (E & P1 & P2)]; [lia| | |].
    + intros k Hk. pose proof (Hr (S k) ltac:(lia)) as Hw. replace (cur + S k) with (S cur + k) in Hw by lia. updsimp.
    + intros k Hk. pose proof (Hs (S k) ltac:(lia)) as Hw. replace (src + S k) with (S src + k) in Hw by lia. updsimp.
    + exists m'. replace (src + S n) with (S src + n) by lia. replace (cur + S n) with (S cur + n) by lia.
      split; [exact E|]. split.
      * intros j Hj. destruct (Nat.eq_dec j cur) as [->|].
        -- rewrite P2 by lia. rewrite Nat.sub_diag. cbn [Nat.add]. rewrite Es. updsimp.
        -- rewrite P1 by lia. replace (j - S cur + S src) with (j - cur + src) by lia. updsimp.
      * intros j Hj. rewrite P2 by lia. updsimp.
Qed.

Lemma bitreloc_loop_spec : forall n m th cur src,
  (src + n <= cur \/ cur + n <= src) ->
  (forall k, k < n -> m (cur + k) = Raw) -> (forall k, k < n -> is_live (m (src + k)) = true) ->
  exists m', bitreloc_loop m th cur src n = DoneR m' th (src + n) (cur + n) /\
    (forall j, cur <= j < cur + n -> m' j = m (j - cur + src)) /\
    (forall j, src <= j < src + n -> m' j = Raw) /\
    (forall j, ~ (cur <= j < cur + n) -> ~ (src <= j < src + n) -> m' j = m j).
Proof.
  induction n as [|n IH]; intros m th cur src Hdis Hr Hs; cbn [bitreloc_loop].
  - exists m. rewrite !Nat.add_0_r. repeat split; intros; try lia; reflexivity.
  - pose proof (Hr 0 ltac:(lia)) as H0. rewrite Nat.add_0_r in H0.
    pose proof (Hs 0 ltac:(lia)) as Hv. rewrite Nat.add_0_r in Hv.
    unfold bit_reloc. rewrite H0. destruct (m src) as [| |v|] eqn:Es; try discriminate Hv.
    destruct (IH (upd (upd m cur (Live v)) src Raw) th (S cur) (S src)) as [m' (E & P1 & P2 & P3)]; [lia| | |].
    + intros k Hk. pose proof (Hr (S k) ltac:(lia)) as Hw. replace (cur + S k) with (S cur + k) in Hw by lia. updsimp.
    + intros k Hk. pose proof (Hs (S k) ltac:(lia)) as Hw. replace (src + S k) with (S src + k) in Hw by lia. updsimp.
    + exists m'. replace (src + S n) with (S src + n) by lia. replace (cur + S n) with (S cur + n) by lia.
      split; [exact E|]. split; [|split].
      * intros j Hj. destruct (Nat.eq_dec j cur) as [->|].
        -- rewrite P3 by lia. rewrite Nat.sub_diag. cbn [Nat.add]. rewrite Es. updsimp.
        -- rewrite P1 by lia. replace (j - S cur + S src) with (j - cur + src) by lia. updsimp.
      * intros j Hj. destruct (Nat.eq_dec j src) as [->|]; [rewrite P3 by lia; updsimp|apply P2; lia].
      * intros j Ha Hb. rewrite P3 by lia. updsimp.
Qed.

Lemma chk_range_true p m a n : (forall k, k < n -> p (m (a + k)) = true) -> chk_range p m a n = true.
Proof. intros H. unfold chk_range. apply forallb_forall. intros k Hk. apply in_seq in Hk. apply H. lia. Qed.
Lemma chk_range_elim p m a n : chk_range p m a n = true -> forall k, k < n -> p (m (a + k)) = true.
Proof. unfold chk_range. intros H k Hk. rewrite forallb_forall in H. apply H. apply in_seq. lia. Qed.
Lemma is_raw_eq s : is_raw s = true <-> s = Raw. Proof. destruct s; cbn; split; congruence. Qed.
Lemma in_range_spec a n j : in_range a n j = true <-> a <= j < a + n.
Proof. unfold in_range. rewrite andb_true_iff, Nat.leb_le, Nat.ltb_lt. tauto. Qed.
Ltac inr_cases := repeat match goal with |- context [in_range ?a ?n ?j] =>
  let H := fresh "Hin" in destruct (in_range a n j) eqn:H;
  [apply in_range_spec in H | assert (~ (a <= j < a + n)) by (rewrite <- in_range_spec; congruence); clear H] end.

Lemma block_ok_true m dst src n :
  (forall k, k < n -> m (dst + k) = Raw) -> (forall k, k < n -> is_live (m (src + k)) = true) -> block_ok m dst src n = true.
Proof. intros Hr Hs. unfold block_ok. rewrite !chk_range_true; [reflexivity|exact Hs|]. intros k Hk. apply is_raw_eq. apply Hr. exact Hk. Qed.

Lemma bitcopy_block_spec n m th dst src :
  (forall k, k < n -> m (dst + k) = Raw) -> (forall k, k < n -> is_live (m (src + k)) = true) ->
  exists m', bitcopy_block m th dst src n = DoneR m' th (src + n) (dst + n) /\
    (forall j, dst <= j < dst + n -> m' j = m (j - dst + src)) /\
    (forall j, ~ (dst <= j < dst + n) -> m' j = m j).
Proof.
  intros Hr Hs. unfold bitcopy_block. rewrite block_ok_true by assumption. eexists. split; [reflexivity|].
  destruct (Nat.ltb_spec 0 n).
  - split; intros j Hj; unfold block_copy; inr_cases; try lia; reflexivity.
  - split; intros j Hj; [lia|reflexivity].
Qed.

Lemma bitreloc_block_spec n m th dst src :
  (src + n <= dst \/ dst + n <= src) ->
  (forall k, k < n -> m (dst + k) = Raw) -> (forall k, k < n -> is_live (m (src + k)) = true) ->
  exists m', bitreloc_block m th dst src n = DoneR m' th (src + n) (dst + n) /\
    (forall j, dst <= j < dst + n -> m' j = m (j - dst + src)) /\
    (forall j, src <= j < src + n -> m' j = Raw) /\
    (forall j, ~ (dst <= j < dst + n) -> ~ (src <= j < src + n) -> m' j = m j).
Proof.
  intros Hd Hr Hs. unfold bitreloc_block. rewrite block_ok_true by assumption. eexists. split; [reflexivity|].
  destruct (Nat.ltb_spec 0 n).
  - split; [|split]; intros j Hj; try intros Hj2; unfold block_reloc; inr_cases; try lia; reflexivity.
  - split; [|split]; intros j Hj; try intros Hj2; try lia; reflexivity.
Qed.

(* ------------------------------------------------------------------------------------------------------------ *)
(* destroy of objects that are alive (live or moved-from) *)
Definition alive (s : slot) := match s with Live _ | Moved => true | _ => false end.
Lemma alive_of_live s : is_live s = true -> alive s = true. Proof. destruct s; cbn; congruence. Qed.
Lemma destroy_n_alive_spec : forall n m first, (forall k, k < n -> alive (m (first + k)) = true) ->
  exists m', destroy_n m first n = inl m' /\ (forall j, first <= j < first + n -> m' j = Raw) /\ (forall j, ~ (first <= j < first + n) -> m' j = m j).
Proof. induction n as [|n IH]; intros m first H; cbn [destroy_n].
  - exists m. repeat split; intros; try lia; reflexivity.
  - pose proof (H 0 ltac:(lia)) as H0. rewrite Nat.add_0_r in H0. unfold destroy. destruct (m first) eqn:E; try discriminate.
    all: destruct (IH (upd m first Raw) (S first)) as [m' (E' & P1 & P2)];
      [ intros k Hk; pose proof (H (S k) ltac:(lia)) as Hw; replace (first + S k) with (S first + k) in Hw by lia; updsimp
      | exists m'; split; [exact E'|]; split;
        [ intros j Hj; destruct (Nat.eq_dec j first) as [->|]; [rewrite P2 by lia; updsimp|apply P1; lia]
        | intros j Hj; rewrite P2 by lia; updsimp ] ].
Qed.

(* values read through a source iterator over live objects *)
Definition val (s : slot) : Z := match s with Live v => v | _ => 0%Z end.
Definition read_vals (m : mem) (src n : nat) : list Z := map (fun k => val (m (src + k))) (seq 0 n).
Lemma read_vals_length m src n : length (read_vals m src n) = n.
Proof. unfold read_vals. rewrite map_length, seq_length. reflexivity. Qed.
Lemma read_vals_nth m src n k : k < n -> nth k (read_vals m src n) 0%Z = val (m (src + k)).
Proof. intros H. unfold read_vals. rewrite (nth_indep _ 0%Z (val (m (src + 0)))) by (rewrite map_length, seq_length; lia).
  change (val (m (src + 0))) with ((fun k => val (m (src + k))) 0). rewrite map_nth. rewrite seq_nth by lia. reflexivity. Qed.
Lemma live_val s : is_live s = true -> Live (val s) = s. Proof. destruct s; cbn; congruence. Qed.

(* ------------------------------------------------------------------------------------------------------------ *)
(* the std:: algorithms (C++17/20 builds delegate to them), by their specification: all or nothing for the
   destination; a throwing move leaves the already moved sources in the moved-from state *)
Definition th_after (can : bool) (th : option nat) (n : nat) : option nat :=
  if can then match th with Some k => Some (k - n) | None => None end else th.
Definition moved_prefix (keep : bool) (m : mem) (src k : nat) : mem :=
  fun j => if in_range src k j then src_after keep (m j) else m j.
Definition fill0 (m : mem) (dst n : nat) : mem := fun j => if in_range dst n j then Live 0%Z else m j.
Definition std_copy_n (can : bool) (m : mem) (th : option nat) (dst src n : nat) : outc :=
  if block_ok m dst src n then
    if throws can th n then ThrewR m else DoneR (block_copy m dst src n) (th_after can th n) (src + n) (dst + n)
  else ErrR ConstructOverLive.
Definition std_move_n (can keep : bool) (m : mem) (th : option nat) (dst src n : nat) : outc :=
  if block_ok m dst src n then
    if throws can th n then ThrewR (moved_prefix keep m src (match th with Some k => k | None => 0 end))
    else DoneR (moved_prefix keep (block_copy m dst src n) src n) (th_after can th n) (src + n) (dst + n)
  else ErrR ConstructOverLive.
Definition std_ctor_n (can : bool) (m : mem) (th : option nat) (dst n : nat) : outc :=
  if chk_range is_raw m dst n then
    if throws can th n then ThrewR m else DoneR (fill0 m dst n) (th_after can th n) 0 (dst + n)
  else ErrR ConstructOverLive.

(* ------------------------------------------------------------------------------------------------------------ *)
(* the algorithms, per variant.  The category guard: bit copies only for the categories ImplModeFactory allows *)
Definition allowed (bit_ok : bool) (v : variant) : bool :=
  match v with MemMove | MemMoveInALoop => bit_ok | _ => true end.

Definition uninit_copy_n (v : variant) (c : cat) (m : mem) (th : option nat) (dst src n : nat) : outc :=
  if allowed (tc c) v then
    match v with
    | Generic => copy_loop (copy_throws c) m th dst dst src (read_vals m src n)
    | MemMoveInALoop => bitcopy_loop m th dst src n
    | MemMove => bitcopy_block m th dst src n
    | StdSpec => std_copy_n (copy_throws c) m th dst src n
    end
  else ErrR AssignDead.
Definition uninit_move_n (v : variant) (c : cat) (m : mem) (th : option nat) (dst src n : nat) : outc :=
  if allowed (tc c) v then
    match v with
    | Generic => move_loop (move_throws c) (tc c) m th dst dst src n
    | MemMoveInALoop => bitcopy_loop m th dst src n
    | MemMove => bitcopy_block m th dst src n
    | StdSpec => std_move_n (move_throws c) (tc c) m th dst src n
    end
  else ErrR AssignDead.
(* value construction: trivial types are filled with T() (std::fill_n), others constructed one by one *)
Definition uninit_value_n (v : variant) (c : cat) (m : mem) (th : option nat) (dst n : nat) : outc :=
  if td c then (if chk_range is_raw m dst n then DoneR (fill0 m dst n) th 0 (dst + n) else ErrR ConstructOverLive)
  else match v with StdSpec => std_ctor_n (ctor_throws c) m th dst n | _ => ctor_loop (ctor_throws c) m th dst dst n end.
(* default construction: nothing to do for a trivially default constructible type except returning first + n *)
Definition uninit_default_n (v : variant) (c : cat) (m : mem) (th : option nat) (dst n : nat) : outc :=
  if td c then DoneR m th 0 (dst + n)
  else match v with StdSpec => std_ctor_n (ctor_throws c) m th dst n | _ => ctor_loop (ctor_throws c) m th dst dst n end.
(* uninitialized_relocate_n: [v] is the mode chosen with is_trivially_relocatable, [inner] the variant of the
   amc::uninitialized_move_n called by the Default mode (memory.hpp:469-474: move_n, then destroy_n of the sources;
   there is no try/catch here: a throw of move_n propagates before any source is destroyed).
   [StdSpec] = the specification: std::uninitialized_move_n followed by std::destroy_n. *)
Definition uninit_relocate_n (v inner : variant) (c : cat) (m : mem) (th : option nat) (dst src n : nat) : outc :=
  if allowed (tr c) v then
    match v with
    | MemMoveInALoop => bitreloc_loop m th dst src n
    | MemMove => bitreloc_block m th dst src n
    | _ => match uninit_move_n (match v with StdSpec => StdSpec | _ => inner end) c m th dst src n with
           | DoneR m1 th1 s d => match destroy_n m1 src n with inl m2 => DoneR m2 th1 s d | inr e => ErrR e end
           | o => o end
    end
  else ErrR AssignDead.
(* relocate_at (memory.hpp:415-434,520-525) *)
Definition relocate_at (c : cat) (m : mem) (th : option nat) (dst src : nat) : outc :=
  if tr c then match bit_reloc m dst src with inl m1 => DoneR m1 th (S src) (S dst) | inr e => ErrR e end
  else match move_construct (move_throws c) (tc c) m th dst src with
       | Done m1 th1 => match destroy m1 src with inl m2 => DoneR m2 th1 (S src) (S dst) | inr e => ErrR e end
       | Threw m1 => ThrewR m1 | Err e => ErrR e end.

(* ------------------------------------------------------------------------------------------------------------ *)
(* theorems *)
(* precondition of every two-range algorithm: disjoint ranges, raw destination, live sources *)
Definition pre (m : mem) (dst src n : nat) : Prop :=
  (src + n <= dst \/ dst + n <= src) /\ (forall k, k < n -> m (dst + k) = Raw) /\ (forall k, k < n -> is_live (m (src + k)) = true).
Definition throwing_variant (v : variant) : Prop := v = Generic \/ v = StdSpec.

Lemma throws_at can k n : can = true -> k < n -> throws can (Some k) n = true.
Proof. intros -> H. unfold throws. cbn [andb]. apply Nat.ltb_lt. exact H. Qed.

Theorem uninit_copy_n_equal : forall v c n m th dst src,
  allowed (tc c) v = true -> pre m dst src n -> throws (copy_throws c) th n = false ->
  exists m' th', uninit_copy_n v c m th dst src n = DoneR m' th' (src + n) (dst + n) /\
    (forall j, dst <= j < dst + n -> m' j = m (j - dst + src)) /\
    (forall j, ~ (dst <= j < dst + n) -> m' j = m j).
Proof.
  intros v c n m th dst src Ha (Hd & Hr & Hs) Ht. unfold uninit_copy_n. rewrite Ha. destruct v.
  - destruct (copy_loop_spec (read_vals m src n) (copy_throws c) m th dst dst src (le_n _)) as [(m' & th' & E & _ & P1 & P2)|(m' & _ & T & _)];
      rewrite ?read_vals_length in *; [intros; lia|exact Hr| |congruence].
    exists m', th'. split; [exact E|]. split; [|exact P2].
    intros j Hj. rewrite P1 by lia. rewrite read_vals_nth by lia. rewrite live_val by (apply Hs; lia). f_equal. lia.
  - destruct (bitcopy_loop_spec n m th dst src Hd Hr Hs) as [m' (E & P)]. exists m', th. split; [exact E|exact P].
  - destruct (bitcopy_block_spec n m th dst src Hr Hs) as [m' (E & P)]. exists m', th. split; [exact E|exact P].
  - unfold std_copy_n. rewrite block_ok_true by assumption. rewrite Ht. eexists. eexists. split; [reflexivity|].
    split; intros j Hj; unfold block_copy; inr_cases; try lia; reflexivity.
Qed.

Theorem uninit_copy_n_cleanup : forall v c n m k dst src,
  throwing_variant v -> pre m dst src n -> copy_throws c = true -> k < n ->
  exists m', uninit_copy_n v c m (Some k) dst src n = ThrewR m' /\ (forall j, m' j = m j).
Proof.
  intros v c n m k dst src Hv (Hd & Hr & Hs) Hc Hk. unfold uninit_copy_n.
  pose proof (throws_at _ k n Hc Hk) as Ht.
  destruct Hv as [-> | ->]; cbn [allowed].
  - destruct (copy_loop_spec (read_vals m src n) (copy_throws c) m (Some k) dst dst src (le_n _)) as [(m' & th' & _ & T & _)|(m' & E & _ & P1 & P2)];
      rewrite ?read_vals_length in *; [intros; lia|exact Hr|congruence|].
    exists m'. split; [exact E|]. intros j. destruct (le_lt_dec dst j) as [H1|H1]; [destruct (le_lt_dec (dst + n) j) as [H2|H2]|].
    + apply P2. lia.
    + rewrite P1 by lia. replace j with (dst + (j - dst)) by lia. symmetry. apply Hr. lia.
    + apply P2. lia.
  - unfold std_copy_n. rewrite block_ok_true by assumption. rewrite Ht. exists m. split; reflexivity.
Qed.

Theorem uninit_move_n_equal : forall v c n m th dst src,
  allowed (tc c) v = true -> pre m dst src n -> throws (move_throws c) th n = false ->
  exists m' th', uninit_move_n v c m th dst src n = DoneR m' th' (src + n) (dst + n) /\
    (forall j, dst <= j < dst + n -> m' j = m (j - dst + src)) /\
    (forall j, src <= j < src + n -> m' j = src_after (tc c) (m j)) /\
    (forall j, ~ (dst <= j < dst + n) -> ~ (src <= j < src + n) -> m' j = m j).
Proof.
  intros v c n m th dst src Ha (Hd & Hr & Hs) Ht. unfold uninit_move_n. rewrite Ha. destruct v; cbn [allowed] in Ha.
  - destruct (move_loop_spec n (move_throws c) (tc c) m th dst dst src (le_n _) Hd) as [(m' & th' & E & _ & P)|(m' & k & _ & Hc & Hth & Hk & _)];
      [intros; lia|exact Hr|exact Hs| |].
    + exists m', th'. split; [exact E|exact P].
    + subst th. rewrite throws_at in Ht by assumption. discriminate Ht.
  - destruct (bitcopy_loop_spec n m th dst src Hd Hr Hs) as [m' (E & P1 & P2)]. exists m', th. split; [exact E|]. split; [exact P1|]. split.
    + intros j Hj. rewrite Ha. cbn [src_after]. apply P2. lia.
    + intros j H1 H2. apply P2. exact H1.
  - destruct (bitcopy_block_spec n m th dst src Hr Hs) as [m' (E & P1 & P2)]. exists m', th. split; [exact E|]. split; [exact P1|]. split.
    + intros j Hj. rewrite Ha. cbn [src_after]. apply P2. lia.
    + intros j H1 H2. apply P2. exact H1.
  - unfold std_move_n. rewrite block_ok_true by assumption. rewrite Ht. eexists. eexists. split; [reflexivity|].
    split; [|split]; intros j Hj; try intros Hj2; unfold moved_prefix, block_copy; inr_cases; try lia; reflexivity.
Qed.

(* on a throw of the k-th move construction: destination as before, the k sources already moved are moved-from
   (alive, value gone: as for std::uninitialized_move_n there is no roll-back of the moves), nothing else touched *)
Theorem uninit_move_n_cleanup : forall v c n m k dst src,
  throwing_variant v -> pre m dst src n -> move_throws c = true -> k < n ->
  exists m', uninit_move_n v c m (Some k) dst src n = ThrewR m' /\
    (forall j, src <= j < src + k -> m' j = src_after (tc c) (m j)) /\
    (forall j, ~ (src <= j < src + k) -> m' j = m j).
Proof.
  intros v c n m k dst src Hv (Hd & Hr & Hs) Hc Hk. unfold uninit_move_n.
  pose proof (throws_at _ k n Hc Hk) as Ht.
  destruct Hv as [-> | ->]; cbn [allowed].
  - destruct (move_loop_spec n (move_throws c) (tc c) m (Some k) dst dst src (le_n _) Hd) as [(m' & th' & _ & T & _)|(m' & k' & E & _ & Hth & _ & P1 & P2 & P3)];
      [intros; lia|exact Hr|exact Hs|congruence|].
    injection Hth as <-. exists m'. split; [exact E|]. split; [exact P2|].
    intros j Hj. destruct (le_lt_dec dst j) as [H1|H1]; [destruct (le_lt_dec (dst + n) j) as [H2|H2]|].
    + apply P3; lia.
    + rewrite P1 by lia. replace j with (dst + (j - dst)) by lia. symmetry. apply Hr. lia.
    + apply P3; lia.
  - unfold std_move_n. rewrite block_ok_true by assumption. rewrite Ht. eexists. split; [reflexivity|].
    split; intros j Hj; unfold moved_prefix; inr_cases; try lia; reflexivity.
Qed.

Theorem uninit_value_n_equal : forall v c n m th dst,
  (forall k, k < n -> m (dst + k) = Raw) -> throws (ctor_throws c) th n = false ->
  exists m' th', uninit_value_n v c m th dst n = DoneR m' th' 0 (dst + n) /\
    (forall j, dst <= j < dst + n -> m' j = Live 0%Z) /\ (forall j, ~ (dst <= j < dst + n) -> m' j = m j).
Proof.
  intros v c n m th dst Hr Ht. unfold uninit_value_n. destruct (td c).
  - rewrite chk_range_true by (intros k Hk; apply is_raw_eq; apply Hr; exact Hk). eexists. eexists. split; [reflexivity|].
    split; intros j Hj; unfold fill0; inr_cases; try lia; reflexivity.
  - assert (G : exists m' th', ctor_loop (ctor_throws c) m th dst dst n = DoneR m' th' 0 (dst + n) /\
      (forall j, dst <= j < dst + n -> m' j = Live 0%Z) /\ (forall j, ~ (dst <= j < dst + n) -> m' j = m j)).
    { destruct (ctor_loop_spec n (ctor_throws c) m th dst dst (le_n _)) as [(m' & th' & E & _ & P)|(m' & _ & T & _)];
        [intros; lia|exact Hr| |congruence]. exists m', th'. split; [exact E|exact P]. }
    destruct v; try exact G.
    unfold std_ctor_n. rewrite chk_range_true by (intros k Hk; apply is_raw_eq; apply Hr; exact Hk). rewrite Ht.
    eexists. eexists. split; [reflexivity|]. split; intros j Hj; unfold fill0; inr_cases; try lia; reflexivity.
Qed.

Lemma ctor_cleanup_aux : forall v c n m k dst,
  (forall j, j < n -> m (dst + j) = Raw) -> ctor_throws c = true -> k < n ->
  exists m', match v with StdSpec => std_ctor_n (ctor_throws c) m (Some k) dst n | _ => ctor_loop (ctor_throws c) m (Some k) dst dst n end = ThrewR m' /\
    (forall j, m' j = m j).
Proof.
  intros v c n m k dst Hr Hc Hk. pose proof (throws_at _ k n Hc Hk) as Ht.
  assert (G : exists m', ctor_loop (ctor_throws c) m (Some k) dst dst n = ThrewR m' /\ (forall j, m' j = m j)).
  { destruct (ctor_loop_spec n (ctor_throws c) m (Some k) dst dst (le_n _)) as [(m' & th' & _ & T & _)|(m' & E & _ & P1 & P2)];
      [intros; lia|exact Hr|congruence|].
    exists m'. split; [exact E|]. intros j. destruct (le_lt_dec dst j) as [H1|H1]; [destruct (le_lt_dec (dst + n) j) as [H2|H2]|].
    + apply P2. lia.
    + rewrite P1 by lia. replace j with (dst + (j - dst)) by lia. symmetry. apply Hr. lia.
    + apply P2. lia. }
  destruct v; try exact G.
  unfold std_ctor_n. rewrite chk_range_true by (intros i Hi; apply is_raw_eq; apply Hr; exact Hi). rewrite Ht. exists m. split; reflexivity.
Qed.

Theorem uninit_value_n_cleanup : forall v c n m k dst,
  td c = false -> (forall j, j < n -> m (dst + j) = Raw) -> ctor_throws c = true -> k < n ->
  exists m', uninit_value_n v c m (Some k) dst n = ThrewR m' /\ (forall j, m' j = m j).
Proof. intros v c n m k dst Htd Hr Hc Hk. unfold uninit_value_n. rewrite Htd. apply ctor_cleanup_aux; auto. Qed.

Theorem uninit_default_n_equal : forall v c n m th dst,
  td c = false -> (forall k, k < n -> m (dst + k) = Raw) -> throws (ctor_throws c) th n = false ->
  exists m' th', uninit_default_n v c m th dst n = DoneR m' th' 0 (dst + n) /\
    (forall j, dst <= j < dst + n -> m' j = Live 0%Z) /\ (forall j, ~ (dst <= j < dst + n) -> m' j = m j).
Proof.
  intros v c n m th dst Htd Hr Ht. pose proof (uninit_value_n_equal v c n m th dst Hr Ht) as G.
  unfold uninit_value_n in G. unfold uninit_default_n. rewrite Htd in *. exact G.
Qed.
(* trivially default constructible types: nothing is written, and the END of the range is returned *)
Theorem uninit_default_n_trivial : forall v c n m th dst,
  td c = true -> uninit_default_n v c m th dst n = DoneR m th 0 (dst + n).
Proof. intros v c n m th dst Htd. unfold uninit_default_n. rewrite Htd. reflexivity. Qed.
Theorem uninit_default_n_cleanup : forall v c n m k dst,
  td c = false -> (forall j, j < n -> m (dst + j) = Raw) -> ctor_throws c = true -> k < n ->
  exists m', uninit_default_n v c m (Some k) dst n = ThrewR m' /\ (forall j, m' j = m j).
Proof. intros v c n m k dst Htd Hr Hc Hk. unfold uninit_default_n. rewrite Htd. apply ctor_cleanup_aux; auto. Qed.

(* relocate = move-construct at the destination, then destroy the source; same end state for the bitwise modes *)
Theorem uninit_relocate_n_equal : forall v inner c n m th dst src,
  allowed (tr c) v = true -> allowed (tc c) inner = true -> pre m dst src n -> throws (move_throws c) th n = false ->
  exists m' th', uninit_relocate_n v inner c m th dst src n = DoneR m' th' (src + n) (dst + n) /\
    (forall j, dst <= j < dst + n -> m' j = m (j - dst + src)) /\
    (forall j, src <= j < src + n -> m' j = Raw) /\
    (forall j, ~ (dst <= j < dst + n) -> ~ (src <= j < src + n) -> m' j = m j).
Proof.
  intros v inner c n m th dst src Ha Hi Hp Ht. pose proof Hp as (Hd & Hr & Hs). unfold uninit_relocate_n. rewrite Ha.
  assert (G : forall iv, allowed (tc c) iv = true ->
    exists m' th', match uninit_move_n iv c m th dst src n with
                   | DoneR m1 th1 s d => match destroy_n m1 src n with inl m2 => DoneR m2 th1 s d | inr e => ErrR e end
                   | o => o end = DoneR m' th' (src + n) (dst + n) /\
      (forall j, dst <= j < dst + n -> m' j = m (j - dst + src)) /\
      (forall j, src <= j < src + n -> m' j = Raw) /\
      (forall j, ~ (dst <= j < dst + n) -> ~ (src <= j < src + n) -> m' j = m j)).
  { intros iv Hiv. destruct (uninit_move_n_equal iv c n m th dst src Hiv Hp Ht) as (m1 & th1 & E & P1 & P2 & P3). rewrite E.
    destruct (destroy_n_alive_spec n m1 src) as [m2 (E2 & Q1 & Q2)].
    - intros k Hk. rewrite P2 by lia. pose proof (Hs k Hk) as Hl. destruct (m (src + k)); try discriminate Hl. destruct (tc c); reflexivity.
    - rewrite E2. exists m2, th1. split; [reflexivity|]. split; [|split].
      + intros j Hj. rewrite Q2 by lia. apply P1. exact Hj.
      + exact Q1.
      + intros j H1 H2. rewrite Q2 by lia. apply P3; assumption. }
  destruct v.
  - apply G. exact Hi.
  - destruct (bitreloc_loop_spec n m th dst src Hd Hr Hs) as [m' (E & P)]. exists m', th. split; [exact E|exact P].
  - destruct (bitreloc_block_spec n m th dst src Hd Hr Hs) as [m' (E & P)]. exists m', th. split; [exact E|exact P].
  - apply G. reflexivity.
Qed.

(* FULL statement of the property for a throw inside uninitialized_relocate_n (only the Default mode constructs
   anything that can throw): every object created is destroyed (destination raw as before), the sources stay alive,
   nothing else is touched.  TRUE of the faithful model, with "alive" = within its lifetime: the k sources whose move
   construction completed are in the moved-from state (their values are gone, exactly as after a failed
   std::uninitialized_move_n), the others are untouched; no source has been destroyed. *)
Theorem uninit_relocate_n_cleanup : forall v inner c n m k dst src,
  throwing_variant v -> throwing_variant inner -> cat_ok c -> pre m dst src n -> move_throws c = true -> k < n ->
  exists m', uninit_relocate_n v inner c m (Some k) dst src n = ThrewR m' /\
    (forall j, src <= j < src + k -> m' j = Moved) /\
    (forall j, ~ (src <= j < src + k) -> m' j = m j) /\
    (forall j, src <= j < src + n -> alive (m' j) = true).
Proof.
  intros v inner c n m k dst src Hv Hi Hok Hp Hc Hk. pose proof Hp as (Hd & Hr & Hs).
  assert (Htc : tc c = false). { destruct (tc c) eqn:E; [|reflexivity]. destruct (Hok E) as (_ & H). congruence. }
  assert (G : forall iv, throwing_variant iv -> exists m',
    match uninit_move_n iv c m (Some k) dst src n with
    | DoneR m1 th1 s d => match destroy_n m1 src n with inl m2 => DoneR m2 th1 s d | inr e => ErrR e end
    | o => o end = ThrewR m' /\
    (forall j, src <= j < src + k -> m' j = Moved) /\ (forall j, ~ (src <= j < src + k) -> m' j = m j) /\
    (forall j, src <= j < src + n -> alive (m' j) = true)).
  { intros iv Hiv. destruct (uninit_move_n_cleanup iv c n m k dst src Hiv Hp Hc Hk) as (m' & E & P1 & P2). rewrite E.
    exists m'. split; [reflexivity|]. rewrite Htc in P1. cbn [src_after] in P1. split; [exact P1|]. split; [exact P2|].
    intros j Hj. destruct (le_lt_dec (src + k) j).
    - rewrite P2 by lia. apply alive_of_live. replace j with (src + (j - src)) by lia. apply Hs. lia.
    - rewrite P1 by lia. reflexivity. }
  unfold uninit_relocate_n. destruct Hv as [-> | ->]; cbn [allowed]; apply G; [exact Hi|right; reflexivity].
Qed.

(* same inputs, allowed variants: same final memory, same returned iterators *)
Theorem variants_agree_relocate : forall v1 i1 v2 i2 c n m th dst src,
  allowed (tr c) v1 = true -> allowed (tc c) i1 = true -> allowed (tr c) v2 = true -> allowed (tc c) i2 = true ->
  pre m dst src n -> throws (move_throws c) th n = false ->
  exists m1 th1 m2 th2, uninit_relocate_n v1 i1 c m th dst src n = DoneR m1 th1 (src + n) (dst + n) /\
    uninit_relocate_n v2 i2 c m th dst src n = DoneR m2 th2 (src + n) (dst + n) /\ (forall j, m1 j = m2 j).
Proof.
  intros v1 i1 v2 i2 c n m th dst src A1 B1 A2 B2 Hp Ht.
  destruct (uninit_relocate_n_equal v1 i1 c n m th dst src A1 B1 Hp Ht) as (m1 & th1 & E1 & P1 & P2 & P3).
  destruct (uninit_relocate_n_equal v2 i2 c n m th dst src A2 B2 Hp Ht) as (m2 & th2 & E2 & Q1 & Q2 & Q3).
  exists m1, th1, m2, th2. split; [exact E1|]. split; [exact E2|]. intros j.
  destruct (in_range dst n j) eqn:Hd; [apply in_range_spec in Hd; rewrite P1, Q1 by exact Hd; reflexivity|].
  assert (~ (dst <= j < dst + n)) by (rewrite <- in_range_spec; congruence).
  destruct (in_range src n j) eqn:Hs; [apply in_range_spec in Hs; rewrite P2, Q2 by exact Hs; reflexivity|].
  assert (~ (src <= j < src + n)) by (rewrite <- in_range_spec; congruence).
  rewrite P3, Q3 by assumption. reflexivity.
Qed.
Theorem variants_agree_copy : forall v1 v2 c n m th dst src,
  allowed (tc c) v1 = true -> allowed (tc c) v2 = true -> pre m dst src n -> throws (copy_throws c) th n = false ->
  exists m1 th1 m2 th2, uninit_copy_n v1 c m th dst src n = DoneR m1 th1 (src + n) (dst + n) /\
    uninit_copy_n v2 c m th dst src n = DoneR m2 th2 (src + n) (dst + n) /\ (forall j, m1 j = m2 j).
Proof.
  intros v1 v2 c n m th dst src A1 A2 Hp Ht.
  destruct (uninit_copy_n_equal v1 c n m th dst src A1 Hp Ht) as (m1 & th1 & E1 & P1 & P2).
  destruct (uninit_copy_n_equal v2 c n m th dst src A2 Hp Ht) as (m2 & th2 & E2 & Q1 & Q2).
  exists m1, th1, m2, th2. split; [exact E1|]. split; [exact E2|]. intros j.
  destruct (in_range dst n j) eqn:Hd; [apply in_range_spec in Hd; rewrite P1, Q1 by exact Hd; reflexivity|].
  assert (~ (dst <= j < dst + n)) by (rewrite <- in_range_spec; congruence).
  rewrite P2, Q2 by assumption. reflexivity.
Qed.
Theorem variants_agree_move : forall v1 v2 c n m th dst src,
  allowed (tc c) v1 = true -> allowed (tc c) v2 = true -> pre m dst src n -> throws (move_throws c) th n = false ->
  exists m1 th1 m2 th2, uninit_move_n v1 c m th dst src n = DoneR m1 th1 (src + n) (dst + n) /\
    uninit_move_n v2 c m th dst src n = DoneR m2 th2 (src + n) (dst + n) /\ (forall j, m1 j = m2 j).
Proof.
  intros v1 v2 c n m th dst src A1 A2 Hp Ht.
  destruct (uninit_move_n_equal v1 c n m th dst src A1 Hp Ht) as (m1 & th1 & E1 & P1 & P2 & P3).
  destruct (uninit_move_n_equal v2 c n m th dst src A2 Hp Ht) as (m2 & th2 & E2 & Q1 & Q2 & Q3).
  exists m1, th1, m2, th2. split; [exact E1|]. split; [exact E2|]. intros j.
  destruct (in_range dst n j) eqn:Hd; [apply in_range_spec in Hd; rewrite P1, Q1 by exact Hd; reflexivity|].
  assert (~ (dst <= j < dst + n)) by (rewrite <- in_range_spec; congruence).
  destruct (in_range src n j) eqn:Hs; [apply in_range_spec in Hs; rewrite P2, Q2 by exact Hs; reflexivity|].
  assert (~ (src <= j < src + n)) by (rewrite <- in_range_spec; congruence).
  rewrite P3, Q3 by assumption. reflexivity.
Qed.

Theorem relocate_at_spec : forall c m th dst src v,
  m dst = Raw -> m src = Live v -> dst <> src -> cat_ok c ->
  (throws (move_throws c) th 1 = false \/ tr c = true ->
     exists m' th', relocate_at c m th dst src = DoneR m' th' (S src) (S dst) /\ m' dst = Live v /\ m' src = Raw /\
       (forall j, j <> dst -> j <> src -> m' j = m j)) /\
  (tr c = false -> move_throws c = true -> th = Some 0 -> exists m', relocate_at c m th dst src = ThrewR m' /\ forall j, m' j = m j).
Proof.
  intros c m th dst src v Hd Hs Hne Hok. unfold relocate_at, bit_reloc, move_construct. rewrite Hd, Hs. split.
  - intros Hc. destruct (tr c) eqn:Etr.
    + eexists. eexists. split; [reflexivity|]. repeat split; intros; updsimp.
    + destruct Hc as [Hc|Hc]; [|discriminate Hc]. unfold throws in Hc. unfold tickc.
      destruct (move_throws c); cbn [andb] in Hc.
      * destruct th as [[|k]|]; cbn [tick]; try discriminate Hc.
        all: unfold destroy; replace (upd (upd m dst (Live v)) src (src_after (tc c) (Live v)) src) with (src_after (tc c) (Live v)) by updsimp.
        all: destruct (tc c); cbn [src_after]; eexists; eexists; (split; [reflexivity|]); repeat split; intros; updsimp.
      * unfold destroy; replace (upd (upd m dst (Live v)) src (src_after (tc c) (Live v)) src) with (src_after (tc c) (Live v)) by updsimp.
        destruct (tc c); cbn [src_after]; eexists; eexists; (split; [reflexivity|]); repeat split; intros; updsimp.
  - intros Etr Hc ->. rewrite Etr, Hc. cbn [tickc tick]. exists m. split; reflexivity.
Qed.

(* ------------------------------------------------------------------------------------------------------------ *)
(* selection of the implementation: memory_details::ImplModeFactory (memory.hpp:252-262) and the #ifdef ladders *)
Inductive itkind := ItPtr | ItRandom | ItBidir | ItForward | ItMovePtr.   (* source iterator; the destination is a pointer *)
Definition impl_mode (bit_possible : bool) (it : itkind) : variant :=
  match it with
  | ItMovePtr => Generic                                        (* reference type is an rvalue reference *)
  | ItPtr => if bit_possible then MemMove else Generic
  | _ => if bit_possible then MemMoveInALoop else Generic
  end.
Lemma impl_mode_allowed b it : allowed b (impl_mode b it) = true.
Proof. destruct it, b; reflexivity. Qed.

Inductive algo := ACopyN | ACopy | AMoveN | AMove | AValueN | AValue | ADefaultN | ADefault
                | ARelocN | AReloc | ARelocAt | ADestroyN | ADestroy | ADestroyAt | AConstructAt.
Record case := mkcase { c_algo : algo; c_std : nat; c_it : itkind; c_cat : cat; c_n : nat; c_th : option nat }.

(* the element types of the driver *)
Definition cNTR := {| tc := false; tr := false; td := false; copy_throws := true; move_throws := false; ctor_throws := true |}.
Definition cTR  := {| tc := false; tr := true;  td := false; copy_throws := true; move_throws := false; ctor_throws := true |}.
Definition cTM  := {| tc := false; tr := false; td := false; copy_throws := true; move_throws := true;  ctor_throws := true |}.
Definition cTC  := {| tc := true;  tr := true;  td := false; copy_throws := false; move_throws := false; ctor_throws := false |}.
Definition cPOD := {| tc := true;  tr := true;  td := true;  copy_throws := false; move_throws := false; ctor_throws := false |}.

(* canonical initial memory: n + 1 live sources 11, 12, ... at SRC, n + 1 raw slots at DST (one guard slot each) *)
Definition SRC := 10.
Definition DST := 40.
Definition init_mem (n : nat) : mem :=
  fun j => if in_range SRC (S n) j then Live (Z.of_nat (11 + (j - SRC))) else if in_range DST (S n) j then Raw else Out.
Definition code (s : slot) : Z := match s with Out => -3 | Raw => -1 | Moved => -2 | Live v => v end%Z.
Definition dump (m : mem) (a n : nat) : list Z := map (fun k => code (m (a + k))) (seq 0 n).
(* observable: [threw; model error; source advance; destination advance; n+1 destination slots; n+1 source slots] *)
Definition observe (n : nat) (m0 : mem) (o : outc) : list Z :=
  match o with
  | DoneR m _ s d => [0; 0; Z.of_nat (s - SRC); Z.of_nat (d - DST)] ++ dump m DST (S n) ++ dump m SRC (S n)
  | ThrewR m => [1; 0; -1; -1] ++ dump m DST (S n) ++ dump m SRC (S n)
  | ErrR _ => [0; 1; -1; -1] ++ dump m0 DST (S n) ++ dump m0 SRC (S n)
  end%Z.

Definition run_algo (cs : case) (m : mem) : outc :=
  let c := c_cat cs in let n := c_n cs in let th := c_th cs in let it := c_it cs in
  let modern := 17 <=? c_std cs in
  let std_or (v : variant) := if modern then StdSpec else v in
  let range_mode (v : variant) := match v with Generic => StdSpec | _ => v end in   (* the range versions delegate Default to std:: *)
  match c_algo cs with
  | ACopyN => match it with
              | ItMovePtr => uninit_move_n (std_or Generic) c m th DST SRC n      (* copying through move_iterator moves *)
              | _ => uninit_copy_n (std_or (impl_mode (tc c) it)) c m th DST SRC n end
  | ACopy => match it with
             | ItMovePtr => uninit_move_n StdSpec c m th DST SRC n
             | _ => uninit_copy_n (std_or (range_mode (impl_mode (tc c) it))) c m th DST SRC n end
  | AMoveN => uninit_move_n (std_or (impl_mode (tc c) it)) c m th DST SRC n
  | AMove => uninit_move_n (std_or (range_mode (impl_mode (tc c) it))) c m th DST SRC n
  | AValueN | AValue => uninit_value_n (std_or Generic) c m th DST n
  | ADefaultN | ADefault => uninit_default_n (std_or Generic) c m th DST n
  | ARelocN => uninit_relocate_n (impl_mode (tr c) it) (std_or (impl_mode (tc c) it)) c m th DST SRC n
  | AReloc => uninit_relocate_n (impl_mode (tr c) it) (std_or (range_mode (impl_mode (tc c) it))) c m th DST SRC n
  | ARelocAt => relocate_at c m th DST SRC
  | ADestroyN | ADestroy => match destroy_n m SRC n with inl m' => DoneR m' th (SRC + n) DST | inr e => ErrR e end
  | ADestroyAt => match destroy m SRC with inl m' => DoneR m' th (S SRC) DST | inr e => ErrR e end
  | AConstructAt => match construct (copy_throws c) m th DST (val (m SRC)) with
                    | Done m' th' => DoneR m' th' SRC (S DST) | Threw m' => ThrewR m' | Err e => ErrR e end
  end.
Definition result := list Z.
Definition run_case (cs : case) : result := let m0 := init_mem (c_n cs) in observe (c_n cs) m0 (run_algo cs m0).

(* ------------------------------------------------------------------------------------------------------------ *)
(* concrete instances (non vacuity) *)
Example ex_copy_generic : run_case (mkcase ACopyN 11 ItForward cNTR 3 None) = [0; 0; 3; 3; 11; 12; 13; -1; 11; 12; 13; 14]%Z.
Proof. vm_compute. reflexivity. Qed.
Example ex_copy_throw : run_case (mkcase ACopyN 14 ItPtr cNTR 3 (Some 2)) = [1; 0; -1; -1; -1; -1; -1; -1; 11; 12; 13; 14]%Z.
Proof. vm_compute. reflexivity. Qed.
Example ex_copy_memmove : run_case (mkcase ACopyN 11 ItPtr cTC 3 None) = run_case (mkcase ACopyN 11 ItBidir cTC 3 None)
  /\ run_case (mkcase ACopyN 11 ItPtr cTC 3 None) = [0; 0; 3; 3; 11; 12; 13; -1; 11; 12; 13; 14]%Z.
Proof. vm_compute. split; reflexivity. Qed.
Example ex_move_generic : run_case (mkcase AMoveN 11 ItPtr cNTR 2 None) = [0; 0; 2; 2; 11; 12; -1; -2; -2; 13]%Z.
Proof. vm_compute. reflexivity. Qed.
Example ex_move_throw : run_case (mkcase AMoveN 11 ItPtr cTM 3 (Some 2)) = [1; 0; -1; -1; -1; -1; -1; -1; -2; -2; 13; 14]%Z.
Proof. vm_compute. reflexivity. Qed.
Example ex_value_throw : run_case (mkcase AValueN 14 ItPtr cTR 3 (Some 1)) = [1; 0; -1; -1; -1; -1; -1; -1; 11; 12; 13; 14]%Z
  /\ run_case (mkcase AValueN 14 ItPtr cTR 3 None) = [0; 0; 0; 3; 0; 0; 0; -1; 11; 12; 13; 14]%Z.
Proof. vm_compute. split; reflexivity. Qed.
Example ex_default_trivial : run_case (mkcase ADefaultN 11 ItPtr cPOD 3 None) = [0; 0; 0; 3; -1; -1; -1; -1; 11; 12; 13; 14]%Z.
Proof. vm_compute. reflexivity. Qed.
Example ex_relocate : run_case (mkcase ARelocN 11 ItPtr cNTR 3 None) = [0; 0; 3; 3; 11; 12; 13; -1; -1; -1; -1; 14]%Z
  /\ run_case (mkcase ARelocN 11 ItPtr cTR 3 None) = run_case (mkcase ARelocN 11 ItPtr cNTR 3 None)
  /\ run_case (mkcase ARelocN 20 ItForward cTR 3 None) = run_case (mkcase ARelocN 11 ItPtr cNTR 3 None).
Proof. vm_compute. repeat split; reflexivity. Qed.
(* a throw of the third move construction: destination raw again, two sources moved-from, the others intact and alive *)
Example ex_relocate_throw : run_case (mkcase ARelocN 11 ItPtr cTM 3 (Some 2)) = [1; 0; -1; -1; -1; -1; -1; -1; -2; -2; 13; 14]%Z
  /\ run_case (mkcase ARelocN 17 ItPtr cTM 3 (Some 2)) = run_case (mkcase ARelocN 11 ItPtr cTM 3 (Some 2)).
Proof. vm_compute. split; reflexivity. Qed.
(* ... and therefore NOT a roll-back: the values of the sources already moved are lost (as with std::uninitialized_move_n) *)
Example ex_relocate_no_rollback : exists m', uninit_relocate_n Generic Generic cTM (init_mem 3) (Some 2) DST SRC 3 = ThrewR m' /\ m' SRC <> init_mem 3 SRC.
Proof. eexists. split; [vm_compute; reflexivity|]. vm_compute. discriminate. Qed.
