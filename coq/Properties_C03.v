(* C03 - FlatSet is observationally a std::set for every operation history.
   Model: SetModel.v (FlatSet = a list kept strictly sorted by the comparator object the set holds; every lookup a binary
   search given by its partition point; bulk paths = append + std::stable_sort of the tail + std::inplace_merge +
   std::unique, each modelled by an implementation meeting the standard's specification).  The std::set side is the
   simplest possible: a strictly sorted list, single insertion [ins] = "insert unless an equivalent element exists",
   membership by linear scan [has_eqv].  For EVERY comparator that is a strict weak order (swo; proved for the
   less / greater / coarse / stateful comparators the driver uses: swo_cmp_of):
   - [C03_sorted_every_history]: after any sequence of operations of the driver's alphabet (insert, hinted insert, emplace,
     range / initializer-list insert, node extract / insert, erase by key / position / range, clear, merge, swap, copy,
     move, construction / assignment from a vector, steal_vector, erase loops) every FlatSet of the pool is strictly sorted
     under the comparator, hence free of equivalent elements;
   - [C03_bulk_is_repeated_insertion]: range insertion / construction from a range or a vector equals inserting the
     elements one by one, first of equivalent elements wins (this is where the default-constructed comparator and the
     unstable sort used to break the property);
   - [C03_find_is_scan], [C03_lower_bound_is_count]: binary-search lookups agree with the linear specification;
   - [C03_insert_membership], [C03_merge], [C03_merge_other_comparator]: single insertion and the two merges.
   The model is tied to the code by the lock-step correspondence (result of every call, size, contents in iteration order)
   on 8 FlatSet configurations, and insert_hint additionally by regeneration from the source (C12). *)
From Coq Require Import ZArith List Bool.
From Amc Require Import Hint SetModel SetProofs.
Import ListNotations.

Theorem C03_sorted_every_history :
  forall cmp, swo cmp -> forall ops p, FInv cmp p -> FInv cmp (fold_left (fun q o => fst (sstep cmp KFlat q o)) ops p).
Proof. exact S_flat_history. Qed.

Theorem C03_bulk_is_repeated_insertion :
  forall cmp, swo cmp -> forall l vs, sorted cmp l -> fs_bulk cmp l vs = fold_ins cmp vs l.
Proof. exact S_bulk. Qed.

Theorem C03_find_is_scan :
  forall cmp, swo cmp -> forall l v, sorted cmp l ->
    (fs_find cmp l v < length l -> eqv cmp (nth (fs_find cmp l v) l 0%Z) v = true /\ has_eqv cmp l v = true) /\
    (fs_find cmp l v = length l -> has_eqv cmp l v = false) /\ fs_find cmp l v <= length l.
Proof. exact S_find. Qed.

Theorem C03_lower_bound_is_count :
  forall cmp, swo cmp -> forall l v, sorted cmp l -> lb cmp l v = length (filter (fun x => cmp x v) l).
Proof. exact S_lb. Qed.

Theorem C03_insert_membership :
  forall cmp, swo cmp -> forall acc x y, sorted cmp acc ->
    sorted cmp (ins cmp acc x) /\ (In y (ins cmp acc x) <-> In y acc \/ (y = x /\ has_eqv cmp acc x = false)).
Proof. exact S_ins. Qed.

Theorem C03_merge :
  forall cmp, swo cmp -> forall a b, sorted cmp a -> sorted cmp b ->
    sorted cmp (fst (fs_merge cmp (length a + length b + 1) a b)) /\ sorted cmp (snd (fs_merge cmp (length a + length b + 1) a b)) /\
    (forall y, In y (fst (fs_merge cmp (length a + length b + 1) a b)) -> In y a \/ In y b) /\
    (forall y, In y a -> In y (fst (fs_merge cmp (length a + length b + 1) a b))) /\
    (forall y, In y (snd (fs_merge cmp (length a + length b + 1) a b)) -> In y b).
Proof. exact S_merge. Qed.

Theorem C03_merge_other_comparator :
  forall cmp, swo cmp -> forall a b, sorted cmp a -> sorted cmp b ->
    sorted cmp (fst (fs_merge_other cmp a b)) /\ sorted cmp (snd (fs_merge_other cmp a b)) /\
    (forall z, In z (snd (fs_merge_other cmp a b)) -> In z b) /\ fst (fs_merge_other cmp a b) = fold_ins cmp b a.
Proof. exact S_merge_other. Qed.

Theorem C03_comparators_are_strict_weak_orders : forall k, swo (cmp_of k).
Proof. exact swo_cmp_of. Qed.

(* non-vacuity: a stateful comparator (x mod 5) and a range with equivalent elements *)
Example C03_example : fs_bulk (cmp_of (CKMod 5)) [] [0; 3; 1; 4; 2; 5; 6]%Z = [0; 1; 2; 3; 4]%Z.
Proof. reflexivity. Qed.

(* Single insertion, lookup and erasure by key of the model are the code's: [insert_val] (Hint.v), [fs_find] and [fs_erase_key]
   (SetModel.v) are proved equal (HintTV.v) to Gen/HintGen.v, regenerated on every run by translator/hint2coq.py from clang's AST
   of FlatSet<int>::insert_val, find(const_reference), erase(const_reference), insert(first, last) and eraseDuplicates (iterators
   as offsets; std::lower_bound, std::stable_sort, std::inplace_merge, std::unique and the vector's insert / erase as primitives
   specified in HintPrims.v - a change of algorithm, e.g. std::sort for std::stable_sort, has no primitive and breaks the obligation). *)
From Amc Require HintPrims HintTV.
From Amc.Gen Require HintGen.
Theorem C03_insert_is_the_regenerated_one :
  forall cmp l v, HintGen.insert_val_gen cmp l v =
    (fst (Hint.insert_val cmp l v), Z.of_nat (snd (Hint.insert_val cmp l v)),
     Nat.eqb (Hint.lb cmp l v) (length l) || cmp v (nth (Hint.lb cmp l v) l 0%Z)).
Proof. exact HintTV.insert_val_tv. Qed.
Theorem C03_find_is_the_regenerated_one :
  forall cmp l v, HintGen.find_gen cmp l v = Z.of_nat (SetModel.fs_find cmp l v).
Proof. exact HintTV.find_tv. Qed.
Theorem C03_erase_key_is_the_regenerated_one :
  forall cmp l v, HintGen.erase_key_gen cmp l v = (fst (SetModel.fs_erase_key cmp l v), Z.of_nat (snd (SetModel.fs_erase_key cmp l v))).
Proof. exact HintTV.erase_key_tv. Qed.
Theorem C03_bulk_insert_is_the_regenerated_one :
  forall cmp l vs, HintGen.insert_range_gen cmp l vs None = inl (SetModel.fs_bulk cmp l vs).
Proof. exact HintTV.insert_range_tv. Qed.
