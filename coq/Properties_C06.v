(* C06 - allocator protocol: each block returned once with its own size, none left.
   Over the vector model the blocks a container owns are read off its words ([owned]: one block of <capacity word> elements
   while begin() points to the heap), and an event list is interpreted on the multiset of outstanding blocks ([apply_evs];
   None = a block returned that is not outstanding with that size).
   History level (Ledger.v):
   - [C06_every_operation_ledger]: for EVERY operation of the model (38 operations, any flavour, size type, element category,
     allocator kind) on a pool satisfying the representation invariant, the allocator events of the operation turn the
     multiset of blocks owned by the containers of the pool before it into the multiset owned after it - no block is
     returned that is not outstanding with exactly that size, none is dropped - also when the operation throws;
   - [C06_every_history_ledger]: hence after any history from the empty pool the events form a valid allocator conversation,
     the outstanding blocks are exactly those owned by the live containers, and nothing is outstanding once every container
     is gone.  (A buffer adopted from an amc::vector enters the ledger as an allocation made outside the pool.)
   What remains PARTIAL: the theorem is about the model's event lists; that they are the implementation's is the lock-step
   correspondence (every step's event list compared) and the ledger allocator of the drivers.
   Per storage-base function:
   - [C06_reallocate_dispatch]: the allocator's reallocate is used only for trivially relocatable element types with an
     allocator offering it, with the true old capacity and live count; otherwise allocate + deallocate(old capacity);
   - [C06_grow_ledger]: growth turns the owned blocks into the owned blocks of the result (old block returned with the
     capacity it was obtained with, unless realloc'd in place; deallocate(nullptr,0) of an empty amc::vector is the no-op);
   - [C06_free_ledger]: destruction returns the block with its capacity word;
   - [C06_move_assign_ledger]: move assignment from a heap-backed vector returns the target's old block and transfers the
     source's block together with the capacity word - nothing is allocated, nothing is left with the source. *)
From Coq Require Import ZArith List Bool Permutation.
From Amc Require Import GenPrelude Words VecModel VecProofs Ledger.
Import ListNotations.
Local Open Scope Z_scope.

Theorem C06_reallocate_dispatch :
  forall c old new live,
    realloc_events c old new live = if is_tr c && has_realloc c then [ERealloc old new live] else [EAlloc new; EDealloc old].
Proof. exact realloc_dispatch. Qed.

Theorem C06_grow_ledger :
  forall c, cfg_ok c -> forall x need exact x' ev,
    BInv c x -> b_capacity c x < need -> (exact = true -> need <= cM c) -> fl c <> FFCV ->
    b_grow c x need exact = Some (x', ev) -> fl c <> FSV \/ b_heap c x = false \/ 0 < capa_ x ->
    apply_evs (owned c x) ev = Some (owned c x').
Proof. exact grow_ledger. Qed.

Theorem C06_free_ledger :
  forall c x, apply_evs (owned c x) (b_free c x) = Some [] \/ (b_heap c x = true /\ capa_ x = 0).
Proof. exact free_ledger. Qed.

Theorem C06_move_assign_ledger :
  forall c, cfg_ok c -> forall t o, BInv c t -> BInv c o -> (b_heap c t = true -> 0 < capa_ t) -> b_store c o = SHeap ->
    let '(t', o', ev) := b_move_assign c t o in
    apply_evs (owned c t ++ owned c o) ev = Some (owned c t' ++ owned c o') /\ owned c t' = owned c o /\ owned c o' = [].
Proof. exact move_assign_ledger. Qed.

Theorem C06_every_operation_ledger :
  forall c, cfg_ok c -> forall p o, PInv c p -> op_ok p o ->
    exists outstanding, apply_evs (pool_own c p) (ext_events c o ++ evs_of (step c p o)) = Some outstanding /\
                        Permutation outstanding (pool_own c (pool_of (step c p o))).
Proof. exact step_led. Qed.

Theorem C06_every_history_ledger :
  forall c, cfg_ok c -> forall ops, ops_ok c init_pool ops ->
    exists outstanding, apply_evs [] (run_evs c init_pool ops) = Some outstanding /\
      Permutation outstanding (pool_own c (run c init_pool ops)) /\
      ((forall k, get (run c init_pool ops) k = None) -> outstanding = []).
Proof. exact ledger_every_history. Qed.

(* non-vacuity: SmallVector<NTR,2> grows to the heap, is move-assigned to a second one that owned a buffer, both destroyed *)
Example C06_example_history :
  let c := {| fl := FSV; cN := 2; cM := 255; csigned := false; ccat := NTR; calloc := ALed |} in
  let ops := [CtorRange 0 RFwd [1;2;3]; CtorRange 1 RFwd [4;5;6;7]; MoveAssign 1 0; PushBack 1 (AExt 9); Shrink 1; Dtor 0; Dtor 1] in
  run_evs c init_pool ops = [EAlloc 3; EAlloc 4; EDealloc 4; EAlloc 5; EDealloc 3; EAlloc 4; EDealloc 5; EDealloc 4] /\
  apply_evs [] (run_evs c init_pool ops) = Some [] /\ run c init_pool ops = [None; None; None].
Proof. vm_compute. repeat split. Qed.

Example C06_example :
  let c := {| fl := FVec; cN := 0; cM := 4294967295; csigned := false; ccat := NTR; calloc := AAmc |} in
  let '(p, r, ev) := step c (run c init_pool [CtorRange 0 RFwd [1;2;3]]) (PushBack 0 (AExt 4)) in
  (ev, apply_evs [3] ev) = ([EAlloc 5; EDealloc 3], Some [5]).
Proof. vm_compute. reflexivity. Qed.

(* The allocator calls of the model are the code's: [b_grow] and [b_shrink] - new words and the allocate / deallocate /
   Reallocate calls with their arguments, in order - are proved equal (Gen/BaseTV_<S>.v) to the definitions regenerated on
   every run by translator/base2coq.py from clang's AST of grow, shrink_impl, shrink, resetToSmall, freeStorage of the bases. *)
From Amc.Gen Require BaseTV_u8 BaseTV_u32.
Theorem C06_grow_is_the_regenerated_one_u8 :
  forall c, cM c = 255 -> forall st minSize exact, fl c = FSV -> Words.WInv 255 (cN c) st -> 0 <= minSize < 2 ^ 63 -> 255 < 2 ^ 62 ->
    mk_wrap c = wrap_u8 -> BaseTV_u8.one c (Base_u8.sv_grow st minSize exact) = b_grow c st minSize exact.
Proof. exact BaseTV_u8.sv_grow_tv. Qed.
Theorem C06_shrink_is_the_regenerated_one_u8 :
  forall c, cM c = 255 -> 0 < cN c < 255 -> forall st, fl c = FSV -> Words.WInv 255 (cN c) st ->
    BaseTV_u8.one c (Base_u8.sv_shrink_impl st (cN c)) = Some (b_shrink c st).
Proof. exact BaseTV_u8.sv_shrink_impl_tv. Qed.
Theorem C06_vector_grow_is_the_regenerated_one_u32 :
  forall c, cM c = 4294967295 -> forall st minSize exact, fl c = FVec -> BaseTV_u32.InRange st -> 0 <= minSize < 2 ^ 63 -> 4294967295 < 2 ^ 62 ->
    mk_wrap c = wrap_u32 -> BaseTV_u32.one c (Base_u32.std_grow st minSize exact) = b_grow c st minSize exact.
Proof. exact BaseTV_u32.std_grow_tv. Qed.
Theorem C06_vector_shrink_is_the_regenerated_one_u32 :
  forall c st, fl c = FVec -> BaseTV_u32.InRange st -> BaseTV_u32.one c (Base_u32.std_shrink_impl st 0) = Some (b_shrink c st).
Proof. exact BaseTV_u32.std_shrink_impl_tv. Qed.
