(* C06 - allocator protocol: each block returned once with its own size, none left.
   Over the vector model the blocks a container owns are read off its words ([owned]: one block of <capacity word> elements
   while begin() points to the heap), and an event list is interpreted on the multiset of outstanding blocks ([apply_evs];
   None = a block returned that is not outstanding with that size).  PARTIAL: proved per storage-base function; the
   composition over whole operations is carried by the correspondence (the model's event lists equal the implementation's)
   and by the ledger allocator of the driver.
   - [C06_reallocate_dispatch]: the allocator's reallocate is used only for trivially relocatable element types with an
     allocator offering it, with the true old capacity and live count; otherwise allocate + deallocate(old capacity);
   - [C06_grow_ledger]: growth turns the owned blocks into the owned blocks of the result (old block returned with the
     capacity it was obtained with, unless realloc'd in place; deallocate(nullptr,0) of an empty amc::vector is the no-op);
   - [C06_free_ledger]: destruction returns the block with its capacity word;
   - [C06_move_assign_ledger]: move assignment from a heap-backed vector returns the target's old block and transfers the
     source's block together with the capacity word - nothing is allocated, nothing is left with the source. *)
From Coq Require Import ZArith List Bool.
From Amc Require Import GenPrelude Words VecModel VecProofs.
Import ListNotations.
Local Open Scope Z_scope.

Theorem C06_reallocate_dispatch :
  forall c old new live,
    realloc_events c old new live = if is_tr c && has_realloc c then [ERealloc old new live] else [EAlloc new; EDealloc old].
Proof. exact realloc_dispatch. Qed.

Theorem C06_grow_ledger :
  forall c, cfg_ok c -> forall x need exact x' ev,
    BInv c x -> b_capacity c x < need -> (exact = true -> need <= cM c) -> fl c <> FFCV ->
    b_grow c x need exact = Some (x', ev) -> fl c <> FSV \/ b_heap c x = false \/ 0 < capa_ x ->
    apply_evs (owned c x) ev = Some (owned c x').
Proof. exact grow_ledger. Qed.

Theorem C06_free_ledger :
  forall c x, apply_evs (owned c x) (b_free c x) = Some [] \/ (b_heap c x = true /\ capa_ x = 0).
Proof. exact free_ledger. Qed.

Theorem C06_move_assign_ledger :
  forall c, cfg_ok c -> forall t o, BInv c t -> BInv c o -> (b_heap c t = true -> 0 < capa_ t) -> b_store c o = SHeap ->
    let '(t', o', ev) := b_move_assign c t o in
    apply_evs (owned c t ++ owned c o) ev = Some (owned c t' ++ owned c o') /\ owned c t' = owned c o /\ owned c o' = [].
Proof. exact move_assign_ledger. Qed.

Example C06_example :
  let c := {| fl := FVec; cN := 0; cM := 4294967295; csigned := false; ccat := NTR; calloc := AAmc |} in
  let '(p, r, ev) := step c (run c init_pool [CtorRange 0 RFwd [1;2;3]]) (PushBack 0 (AExt 4)) in
  (ev, apply_evs [3] ev) = ([EAlloc 5; EDealloc 3], Some [5]).
Proof. vm_compute. reflexivity. Qed.
