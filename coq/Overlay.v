(* The OVERLAY of the heap pointer and the first inline slots of a SmallVector (include/amc/vectorcommon.hpp, smallvector.hpp).
   SmallVectorBase keeps two words _capa, _size and ElemWithPtrStorage<T> _storage.  SMALL state: the inline element slots start at
   the first byte of _storage.  LARGE state: the same first bytes hold the POINTER to the heap block (_storage.dyn () / setDyn (p)).
   So constructing an element in inline slot 0 (and in the following slots the pointer bytes span) CLOBBERS the pointer.  Three
   functions relocate elements between the inline slots and a heap block while the vector is (still) in its large state:

     SmallVectorBase::resetToSmall (inplaceCapa)       T *dynStorage = _storage.dyn ();
       (shrink_to_fit back to the inline storage)      try { RelocateToNewBuffer (dynStorage, _size, _storage.ptr ()); }
                                                       catch (...) { _storage.setDyn (dynStorage); throw; }            <- repair fed92df
                                                       deallocate (dynStorage, _capa); _capa = _size; _size = inplaceCapa / max
                                                                                                                        -> [reset_to_small]
     SmallVectorBase::SwapDynamicBuffer (vDynBuf, vSmall)   T *oDynStorage = vDynBuf._storage.dyn ();
       (swap of a heap vector with an inline one)      { RestoreDynStorage restore {vDynBuf, oDynStorage};              <- repair 0d47293 / fb114b6
                                                         uninitialized_relocate_n (vSmall.ptr (), vSmall._capa, vDynBuf.ptr ());
                                                         restore.dynStorage = nullptr; }
                                                       vSmall._storage.setDyn (oDynStorage);
       then swap_impl: std::swap (_capa, o._capa); std::swap (_size, o._size)                                           -> [swap_dyn_small]
     SmallVectorBase::grow, small state                T *dynStorage = allocate (newCapa);
                                                       try { RelocateToNewBuffer (_storage.ptr (), _capa, dynStorage); }
                                                       catch (...) { deallocate (dynStorage, newCapa); throw; }
                                                       _storage.setDyn (dynStorage); _size = _capa; _capa = newCapa     -> [grow_small]

   MODEL.  One memory (Throw.v: nat -> slot) holds the inline ranges and the heap blocks as index ranges (Transfer.v: Rng, Disj).
   An object [obj] abstracts the two words to the flag [small] + [size] + [cap] (capacity of the storage in use), has the pointer cell
   [ptr : option nat] (Some base of the heap block; None = the bytes hold no valid pointer: CLOBBERED) and the base [bi] of its N
   inline slots.  Overlay rule: a construction in the inline slot bi + k, k < min span N (span >= 1: the number of inline slots the
   pointer bytes cover) sets ptr := None.  The relocations are those of Transfer.v / ThrowMove.v, re-run by an INSTRUMENTED loop
   [loop_ov] that also returns the flag "a construction in a covered slot completed" - [reloc_ov_fst_copy], [reloc_ov_fst_move]: its
   memory / outcome IS Transfer.relocate_by_copy / Transfer.uninit_relocate_n (so their theorems are reused, not redone).
   [set_dyn] (setDyn p) is an ERROR of the model (PtrOverLive) when a covered inline slot holds an alive object; [get_dyn] (dyn ())
   is an error (WildPointer) when ptr = None; [dealloc] is an error (FreeLive) when the block still holds an object.
   Element flavours: mt = true: vf::El<2> (harness/cpp/common.hpp: moves and copies are throwing-capable events).  RelocateToNewBuffer
   COPIES such an element (RelocateByCopy: not trivially relocatable, move may throw, copyable): resetToSmall and grow use
   Transfer.relocate_by_copy; SwapDynamicBuffer calls amc::uninitialized_relocate_n directly: throwing MOVES.  mt = false: vf::El<0>
   (noexcept moves, no event).  Not modelled: a move-only element whose move may throw (RelocateToNewBuffer then moves), El<1> (memmove).

   THEOREMS (every size / N / span / capacity / base address / throw index; no axiom: Print Assumptions at the end)
     [reset_to_small_spec]      never an error; Threw: mt = true, the object is EXACTLY as before (large, ptr = Some of the same block),
                                every slot of the memory as before (copies: STRONG), WF; Done: small, the inline slots hold the old
                                contents, the heap block is freed (Out), nothing else changed, WF
     [reset_to_small_conserves] count_live (inline) + count_live (heap) = size in both outcomes
     [swap_dyn_small_spec]      never an error; Threw: mt = true, both descriptors exactly as before, the heap one WF (ptr = Some of the
                                same block, block contents untouched, inline slots all Raw), the inline one keeps its size elements ALIVE
                                BUT POSSIBLY MOVED-FROM (throwing moves: BASIC), its other slots Raw; Done: the contents and the states
                                are exchanged, both WF
     [swap_dyn_small_conserves] count_live over the two inline ranges and the heap block conserved in both outcomes
     [grow_small_spec]          never an error; Threw: object and memory of the vector as before, the new block freed; Done: large, ptr =
                                Some of the new block which holds the old contents, inline slots Raw
     [reset_to_small_refuted] [swap_dyn_small_refuted]   the code BEFORE the repairs (no handler / no guard): a throw after the first
                                construction leaves the object LARGE with ptr = None - the wild pointer ([data] is an error) - for
                                EVERY well-formed state with two elements or more and every throw index 1 .. size - 1 ([.._general]),
                                and a vm_compute witness *)
From Coq Require Import ZArith Lia Bool List Arith.
From Amc Require Import Throw EmplaceGrow Transfer.
From Amc Require ThrowMove.
Import ListNotations.

(* ---- the instrumented relocation loop ----------------------------------------------------------------------------------------------- *)
(* the loop of uninitialized_copy_n / uninitialized_move_n (same shape in Transfer.v and ThrowMove.v) for a construction [cons]; it
   also returns c || "a construction completed in a slot of W" *)
Section Instr.
  Variable W : nat -> bool.
  Variable cons : mem -> option nat -> nat -> nat -> out.
  Fixpoint loop_ov (m : mem) (th : option nat) (c : bool) (src dst0 cur n : nat) : out * bool :=
    match n with
    | 0 => (Done m th, c)
    | S k => match cons m th cur src with
             | Done m1 th1 => loop_ov m1 th1 (c || W cur) (S src) dst0 (S cur) k
             | Threw m1 => (match destroy_n m1 dst0 (cur - dst0) with inl m2 => Threw m2 | inr e => Err e end, c)
             | Err e => (Err e, c) end
    end.
  (* ... then destroy_n (src, n) *)
  Definition reloc_ov (m : mem) (th : option nat) (src n dst : nat) : out * bool :=
    match loop_ov m th false src dst dst n with
    | (Done m1 th1, c) => (lift (destroy_n m1 src n) th1, c)
    | oc => oc end.
  Lemma loop_ov_mono : forall n m th src dst0 cur, snd (loop_ov m th true src dst0 cur n) = true.
  Proof.
    induction n as [|n IH]; intros m th src dst0 cur; cbn [loop_ov]; [reflexivity|].
    destruct (cons m th cur src) as [m1 th1|m1|x]; [apply IH|reflexivity|reflexivity].
  Qed.
End Instr.

Lemma loop_ov_fst_copy W : forall n m th c src dst0 cur,
  fst (loop_ov W copy_construct_from m th c src dst0 cur n) = uninit_copy_loop m th src dst0 cur n.
Proof.
  induction n as [|n IH]; intros m th c src dst0 cur; cbn [loop_ov uninit_copy_loop]; [reflexivity|].
  destruct (copy_construct_from m th cur src) as [m1 th1|m1|x]; [apply IH|reflexivity|reflexivity].
Qed.
Lemma loop_ov_fst_move W mt : forall n m th c src dst0 cur,
  fst (loop_ov W (move_construct_g mt) m th c src dst0 cur n) = uninit_move_loop mt m th src dst0 cur n.
Proof.
  induction n as [|n IH]; intros m th c src dst0 cur; cbn [loop_ov uninit_move_loop]; [reflexivity|].
  destruct (move_construct_g mt m th cur src) as [m1 th1|m1|x]; [apply IH|reflexivity|reflexivity].
Qed.
(* the memory / outcome of the instrumented relocations are the relocations of Transfer.v *)
Lemma reloc_ov_fst_copy W m th src n dst : fst (reloc_ov W copy_construct_from m th src n dst) = relocate_by_copy m th src n dst.
Proof.
  unfold reloc_ov, relocate_by_copy, uninit_copy_n. rewrite <- (loop_ov_fst_copy W n m th false src dst dst).
  destruct (loop_ov W copy_construct_from m th false src dst dst n) as [[m1 th1|m1|x] c]; reflexivity.
Qed.
Lemma reloc_ov_fst_move W mt m th src n dst : fst (reloc_ov W (move_construct_g mt) m th src n dst) = uninit_relocate_n mt m th src n dst.
Proof.
  unfold reloc_ov, uninit_relocate_n, uninit_move_n. rewrite <- (loop_ov_fst_move W mt n m th false src dst dst).
  destruct (loop_ov W (move_construct_g mt) m th false src dst dst n) as [[m1 th1|m1|x] c]; reflexivity.
Qed.
(* vec::RelocateToNewBuffer: copies for El<2>, amc::uninitialized_relocate_n (Default) for El<0> *)
Definition reloc_new_ov (W : nat -> bool) (mt : bool) : mem -> option nat -> nat -> nat -> nat -> out * bool :=
  if mt then reloc_ov W copy_construct_from else reloc_ov W (move_construct_g false).
Definition reloc_new (mt : bool) (m : mem) (th : option nat) (src n dst : nat) : out :=
  if mt then relocate_by_copy m th src n dst else uninit_relocate_n false m th src n dst.
Lemma reloc_new_ov_fst W mt m th src n dst : fst (reloc_new_ov W mt m th src n dst) = reloc_new mt m th src n dst.
Proof. destruct mt; cbn [reloc_new_ov reloc_new]; [apply reloc_ov_fst_copy|apply reloc_ov_fst_move]. Qed.
(* both flavours at once: a throw is only possible for El<2> and leaves every slot as it was *)
Lemma reloc_new_spec mt m th bs n caps bd capd : Rng m bs n caps -> Rng m bd 0 capd -> Disj bs caps bd capd -> n <= capd ->
  match reloc_new mt m th bs n bd with
  | Done m' _ => Relocated m m' bs n caps bd capd
  | Threw m' => mt = true /\ forall j, m' j = m j
  | Err _ => False end.
Proof.
  intros RS RD HD Hfit. destruct mt; cbn [reloc_new].
  - pose proof (relocate_by_copy_strong m th bs n caps bd capd RS RD HD Hfit) as S.
    destruct (relocate_by_copy m th bs n bd) as [m' th'|m'|x]; [exact S|split; [reflexivity|exact S]|exact S].
  - pose proof (relocate_to_new_buffer_spec false m th bs n caps bd capd RS RD HD Hfit) as S. cbn [relocate_to_new_buffer] in S.
    destruct (uninit_relocate_n false m th bs n bd) as [m' th'|m'|x]; [exact (proj2 S)|contradiction|exact S].
Qed.
(* amc::uninitialized_relocate_n called directly: throwing moves for El<2> *)
Lemma reloc_move_spec mt m th bs n caps bd capd : Rng m bs n caps -> Rng m bd 0 capd -> Disj bs caps bd capd -> n <= capd ->
  match uninit_relocate_n mt m th bs n bd with
  | Done m' _ => Relocated m m' bs n caps bd capd
  | Threw m' => mt = true /\ Rng m' bd 0 capd /\ (forall k, k < n -> alive (m' (bs + k)) = true) /\
                (forall k, n <= k < caps -> m' (bs + k) = Raw) /\ (forall j, ~ (bs <= j < bs + n) -> m' j = m j)
  | Err _ => False end.
Proof.
  intros RS RD HD Hfit. destruct mt.
  - pose proof (uninit_relocate_n_mt_basic m th bs n caps bd capd RS RD HD Hfit) as S.
    destruct (uninit_relocate_n true m th bs n bd) as [m' th'|m'|x]; [exact S|split; [reflexivity|exact S]|exact S].
  - pose proof (relocate_to_new_buffer_spec false m th bs n caps bd capd RS RD HD Hfit) as S. cbn [relocate_to_new_buffer] in S.
    destruct (uninit_relocate_n false m th bs n bd) as [m' th'|m'|x]; [exact (proj2 S)|contradiction|exact S].
Qed.

(* ---- objects -------------------------------------------------------------------------------------------------------------------------- *)
Record obj := { small : bool; size : nat; cap : nat; ptr : option nat; bi : nat }.
Inductive oerr := Lifetime (e : err) | WildPointer | PtrOverLive | FreeLive.
Inductive res (A : Type) := RDone (m : mem) (a : A) (th : option nat) | RThrew (m : mem) (a : A) | RErr (e : oerr).
Arguments RDone {A} m a th.
Arguments RThrew {A} m a.
Arguments RErr {A} e.

(* the slots whose construction overwrites the pointer bytes: the first min span N inline slots *)
Definition Wov (b N span : nat) (j : nat) : bool := (b <=? j) && (j <? b + Nat.min span N).
Definition with_ptr (o : obj) (p : option nat) : obj := {| small := small o; size := size o; cap := cap o; ptr := p; bi := bi o |}.
Definition clobber (c : bool) (o : obj) : obj := if c then with_ptr o None else o.
Fixpoint none_alive (m : mem) (b n : nat) : bool := match n with 0 => true | S k => negb (alive (m b)) && none_alive m (S b) k end.
(* _storage.setDyn (p): memcpy of the pointer over the first bytes: an error when an object is alive there *)
Definition set_dyn (N span : nat) (m : mem) (o : obj) (p : nat) : obj + oerr :=
  if none_alive m (bi o) (Nat.min span N) then inl (with_ptr o (Some p)) else inr PtrOverLive.
(* _storage.dyn () *)
Definition get_dyn (o : obj) : nat + oerr := match ptr o with Some p => inl p | None => inr WildPointer end.
(* begin () / data (): what every later use of the vector starts with *)
Definition data (o : obj) : nat + oerr := if small o then inl (bi o) else get_dyn o.
(* deallocate (p, n): the slots leave the model; an error if an object is still alive in the block (a leak) or if it is not a block *)
Fixpoint dealloc (m : mem) (p n : nat) : mem + oerr :=
  match n with 0 => inl m | S k => match m p with Raw => dealloc (upd m p Out) (S p) k | _ => inr FreeLive end end.

Lemma none_alive_raw : forall n m b, (forall k, k < n -> m (b + k) = Raw) -> none_alive m b n = true.
Proof.
  induction n as [|n IH]; intros m b H; cbn [none_alive]; [reflexivity|].
  pose proof (H 0 ltac:(lia)) as H0. rewrite Nat.add_0_r in H0. rewrite H0. cbn [alive negb andb]. apply IH.
  intros k Hk. replace (S b + k) with (b + S k) by lia. apply H. lia.
Qed.
Lemma dealloc_ok : forall n m p, (forall k, k < n -> m (p + k) = Raw) ->
  exists m', dealloc m p n = inl m' /\ (forall k, k < n -> m' (p + k) = Out) /\ (forall j, ~ (p <= j < p + n) -> m' j = m j).
Proof.
  induction n as [|n IH]; intros m p H; cbn [dealloc].
  - exists m. repeat split; intros; try lia; reflexivity.
  - pose proof (H 0 ltac:(lia)) as H0. rewrite Nat.add_0_r in H0. rewrite H0.
    destruct (IH (upd m p Out) (S p)) as [m' (E & P1 & P2)].
    { intros k Hk. pose proof (H (S k) ltac:(lia)) as W. replace (p + S k) with (S p + k) in W by lia. updsimp; exact W. }
    exists m'. split; [exact E|]. split.
    + intros k Hk. destruct k as [|k]; [rewrite Nat.add_0_r; rewrite P2 by lia; updsimp|].
      replace (p + S k) with (S p + k) by lia. apply P1. lia.
    + intros j Hj. rewrite P2 by lia. updsimp.
Qed.
Lemma set_dyn_raw N span m o p : (forall k, k < N -> m (bi o + k) = Raw) -> set_dyn N span m o p = inl (with_ptr o (Some p)).
Proof. intros H. unfold set_dyn. rewrite none_alive_raw; [reflexivity|]. intros k Hk. apply H. lia. Qed.
Lemma with_ptr_clobber c o p : with_ptr (clobber c o) p = with_ptr o p.
Proof. destruct c; reflexivity. Qed.
Lemma Rng_ext m m' b s c : (forall k, k < c -> m' (b + k) = m (b + k)) -> Rng m b s c -> Rng m' b s c.
Proof.
  intros H (H1 & H2 & H3). split; [exact H1|]. split; intros i Hi; rewrite H by lia; [apply H2|apply H3]; exact Hi.
Qed.
Lemma count_live_out : forall n m b, (forall k, k < n -> alive (m (b + k)) = false) -> count_live m b n = 0.
Proof. intros n m b H. apply (count_live_rng n m b 0); [lia|intros; lia|intros i Hi; apply H; lia]. Qed.

(* the well-formed object: small: its elements are in the inline slots; large: the inline slots are all Raw, the pointer cell holds
   the base of a heap block which holds the elements and does not overlap the inline slots *)
Definition WF (N : nat) (m : mem) (o : obj) : Prop :=
  1 <= N /\
  if small o then Rng m (bi o) (size o) N /\ cap o = N
  else Rng m (bi o) 0 N /\ exists p, ptr o = Some p /\ Rng m p (size o) (cap o) /\ Disj (bi o) N p (cap o).
Lemma WF_ext N m m' o : (forall j, m' j = m j) -> WF N m o -> WF N m' o.
Proof.
  intros H (HN & W). split; [exact HN|]. destruct (small o).
  - destruct W as [W1 W2]. split; [|exact W2]. apply (Rng_ext m); [intros; apply H|exact W1].
  - destruct W as [W1 (p & E & W2 & W3)]. split; [apply (Rng_ext m); [intros; apply H|exact W1]|].
    exists p. split; [exact E|]. split; [apply (Rng_ext m); [intros; apply H|exact W2]|exact W3].
Qed.
Lemma WF_data N m o : WF N m o -> exists b, data o = inl b.
Proof.
  intros (_ & W). unfold data, get_dyn. destruct (small o); [eexists; reflexivity|].
  destruct W as [_ (p & E & _)]. rewrite E. eexists; reflexivity.
Qed.

(* ---- SmallVectorBase::resetToSmall ------------------------------------------------------------------------------------------------------- *)
(* handler = true: the current code; handler = false: the code before fed92df (no try block) *)
Definition reset_to_small (handler : bool) (N span : nat) (mt : bool) (m : mem) (th : option nat) (o : obj) : res obj :=
  match get_dyn o with
  | inr e => RErr e
  | inl p =>
    match reloc_new_ov (Wov (bi o) N span) mt m th p (size o) (bi o) with
    | (Err e, _) => RErr (Lifetime e)
    | (Threw m1, c) =>
        if handler then match set_dyn N span m1 (clobber c o) p with inl o2 => RThrew m1 o2 | inr e => RErr e end
        else RThrew m1 (clobber c o)
    | (Done m1 th1, c) =>
        match dealloc m1 p (cap o) with
        | inr e => RErr e
        | inl m2 => RDone m2 {| small := true; size := size o; cap := N; ptr := ptr (clobber c o); bi := bi o |} th1 end
    end
  end.

Theorem reset_to_small_spec N span mt m th o p :
  WF N m o -> small o = false -> ptr o = Some p -> size o <= N ->
  match reset_to_small true N span mt m th o with
  | RErr _ => False
  | RThrew m' o' => mt = true /\ o' = o /\ (forall j, m' j = m j) /\ WF N m' o'
  | RDone m' o' _ => small o' = true /\ size o' = size o /\ bi o' = bi o /\ WF N m' o' /\
                     content m' (bi o) (size o) = content m p (size o) /\ (forall k, k < cap o -> m' (p + k) = Out) /\
                     (forall j, ~ inR (bi o) N j -> ~ inR p (cap o) j -> m' j = m j)
  end.
Proof.
  intros HW Hs Hp Hfit. pose proof HW as (HN & W). destruct o as [sm sz cp pt b]. cbn [small size cap ptr bi] in *. subst sm pt.
  destruct W as [RI (p' & E & RH & HD)]. injection E as <-.
  unfold reset_to_small, get_dyn. cbn [small size cap ptr bi].
  destruct (reloc_new_ov (Wov b N span) mt m th p sz b) as [r c] eqn:Er.
  pose proof (reloc_new_ov_fst (Wov b N span) mt m th p sz b) as F. rewrite Er in F. cbn [fst] in F. subst r.
  pose proof (reloc_new_spec mt m th p sz cp b N RH RI ltac:(unfold Disj in *; lia) Hfit) as S.
  destruct (reloc_new mt m th p sz b) as [m1 th1|m1|x]; [| |exact S].
  - destruct S as (S1 & S2 & S3 & S4).
    destruct (dealloc_ok cp m1 p) as [m2 (E2 & D1 & D2)]; [intros k Hk; apply (proj2 (proj2 S3)); lia|]. rewrite E2.
    unfold Disj, inR in *.
    assert (RI' : Rng m2 b sz N) by (apply (Rng_ext m1); [intros k Hk; apply D2; lia|exact S2]).
    split; [reflexivity|]. split; [reflexivity|]. split; [reflexivity|]. split; [|split; [|split]].
    + split; [exact HN|]. cbn [small size cap bi]. split; [exact RI'|reflexivity].
    + rewrite <- S1. apply content_ext. intros k Hk. apply D2. lia.
    + exact D1.
    + intros j H1 H2. rewrite D2 by lia. apply S4; assumption.
  - destruct S as (-> & S).
    assert (Rw : forall k, k < N -> m1 (b + k) = Raw) by (intros k Hk; rewrite S; apply (proj2 (proj2 RI)); lia).
    pose proof (set_dyn_raw N span m1 (clobber c {| small := false; size := sz; cap := cp; ptr := Some p; bi := b |}) p) as SD.
    rewrite SD by (destruct c; exact Rw). rewrite with_ptr_clobber. unfold with_ptr. cbn [small size cap ptr bi].
    split; [reflexivity|]. split; [reflexivity|]. split; [exact S|]. apply (WF_ext N m); [exact S|exact HW].
Qed.
(* no leak: size objects before and after in the inline range + the heap block (the freed block counts none) *)
Theorem reset_to_small_conserves N span mt m th o p :
  WF N m o -> small o = false -> ptr o = Some p -> size o <= N ->
  count_live m (bi o) N + count_live m p (cap o) = size o /\
  match reset_to_small true N span mt m th o with
  | RErr _ => False
  | RThrew m' _ | RDone m' _ _ => count_live m' (bi o) N + count_live m' p (cap o) = size o
  end.
Proof.
  intros HW Hs Hp Hfit. pose proof (reset_to_small_spec N span mt m th o p HW Hs Hp Hfit) as S.
  pose proof HW as (HN & W). rewrite Hs, Hp in W. destruct W as [RI (p' & E & RH & HD)]. injection E as <-.
  assert (C0 : count_live m (bi o) N + count_live m p (cap o) = size o)
    by (rewrite (Rng_count _ _ _ _ RI), (Rng_count _ _ _ _ RH); reflexivity).
  split; [exact C0|]. destruct (reset_to_small true N span mt m th o) as [m' o' th'|m' o'|x]; [| |exact S].
  - destruct S as (S1 & S2 & S3 & (_ & S4) & _ & S6 & _). rewrite S1, S2, S3 in S4. destruct S4 as [S4 _].
    rewrite (Rng_count _ _ _ _ S4). rewrite count_live_out; [lia|]. intros k Hk. rewrite S6 by exact Hk. reflexivity.
  - destruct S as (_ & _ & S & _). rewrite (count_live_ext N m m' (bi o)), (count_live_ext (cap o) m m' p) by (intros; apply S). exact C0.
Qed.

(* the code before the repair, for EVERY well-formed large state with two elements or more and every throw index 1 .. size - 1: the
   first copy has been built in inline slot 0 - over the pointer bytes - and destroyed again by the roll-back of uninitialized_copy_n;
   the vector is still in its large state, its pointer is gone: every later use starts by reading it *)
Lemma loop_ov_first_done W cons m th c src dst0 cur n m1 th1 : cons m th cur src = Done m1 th1 -> W cur = true ->
  snd (loop_ov W cons m th c src dst0 cur (S n)) = true.
Proof. intros E HW. cbn [loop_ov]. rewrite E, HW, orb_true_r. apply loop_ov_mono. Qed.
Lemma Wov_base b N span : 1 <= N -> 1 <= span -> Wov b N span b = true.
Proof. intros H1 H2. unfold Wov. destruct (Nat.leb_spec b b); [|lia]. destruct (Nat.ltb_spec b (b + Nat.min span N)); [reflexivity|lia]. Qed.
Lemma reset_to_small_refuted_general N span m j o p :
  WF N m o -> small o = false -> ptr o = Some p -> size o <= N -> 1 <= span -> 1 <= j < size o ->
  exists m' o', reset_to_small false N span true m (Some j) o = RThrew m' o' /\ small o' = false /\ ptr o' = None /\
                data o' = inr WildPointer.
Proof.
  intros HW Hs Hp Hfit Hsp Hj. pose proof HW as (HN & W). destruct o as [sm sz cp pt b]. cbn [small size cap ptr bi] in *. subst sm pt.
  destruct W as [RI (p' & E & RH & HD)]. injection E as <-.
  pose proof (reset_to_small_spec N span true m (Some j) _ p HW eq_refl eq_refl Hfit) as Sp.
  unfold reset_to_small, get_dyn in *. cbn [small size cap ptr bi] in *.
  destruct (reloc_new_ov (Wov b N span) true m (Some j) p sz b) as [r c] eqn:Er.
  (* the flag *)
  assert (Hc : c = true).
  { pose proof (f_equal snd Er) as F. cbn [snd reloc_new_ov] in F. unfold reloc_ov in F.
    destruct sz as [|sz]; [lia|].
    assert (A0 : alive (m p) = true) by (pose proof (proj1 (proj2 RH) 0 ltac:(lia)) as A; rewrite Nat.add_0_r in A; apply live_alive, A).
    assert (R0 : m b = Raw) by (pose proof (proj2 (proj2 RI) 0 ltac:(lia)) as A; rewrite Nat.add_0_r in A; exact A).
    pose proof (copy_construct_from_ok m (Some j) b p A0 R0) as CC. destruct j as [|j]; [lia|]. cbn [tick fst snd] in CC.
    pose proof (loop_ov_first_done (Wov b N span) copy_construct_from m (Some (S j)) false p b b sz _ _ CC (Wov_base b N span HN Hsp)) as L.
    destruct (loop_ov (Wov b N span) copy_construct_from m (Some (S j)) false p b b (S sz)) as [[m1 th1|m1|x] c']; cbn [snd] in *; congruence. }
  subst c.
  (* the outcome: a throw (the event j < size exists) *)
  pose proof (reloc_new_ov_fst (Wov b N span) true m (Some j) p sz b) as F. rewrite Er in F. cbn [fst reloc_new] in F.
  destruct r as [m1 th1|m1|x].
  - (* completion is impossible: the oracle would be consumed *)
    exfalso. clear Sp Er.
    assert (G : forall n mm k src dst0 cur, k < n -> match uninit_copy_loop mm (Some k) src dst0 cur n with Done _ _ => False | _ => True end).
    { induction n as [|n IH]; intros mm k src dst0 cur Hk; [lia|]. cbn [uninit_copy_loop]. unfold copy_construct_from.
      destruct (mm src); try exact I; destruct (mm cur); try exact I; (destruct k as [|k]; cbn [tick];
        [destruct (destroy_n mm dst0 (cur - dst0)); exact I|apply IH; lia]). }
    specialize (G sz m j p b b ltac:(lia)). unfold relocate_by_copy, uninit_copy_n in F.
    destruct (uninit_copy_loop m (Some j) p b b sz) as [m2 th2|m2|x]; [contradiction| |]; discriminate.
  - exists m1. eexists. split; [reflexivity|]. cbn [clobber with_ptr small ptr]. repeat split.
  - contradiction.
Qed.

(* ---- SmallVectorBase::SwapDynamicBuffer + the end of swap_impl ------------------------------------------------------------------------- *)
(* a = vDynBuf (large), b = vSmall; guard = true: the current code; guard = false: the code before 0d47293 *)
Definition swap_dynamic_buffer (guard : bool) (N span : nat) (mt : bool) (m : mem) (th : option nat) (a b : obj) : res (obj * obj) :=
  match get_dyn a with
  | inr e => RErr e
  | inl p =>
    match reloc_ov (Wov (bi a) N span) (move_construct_g mt) m th (bi b) (size b) (bi a) with
    | (Err e, _) => RErr (Lifetime e)
    | (Threw m1, c) =>
        if guard then match set_dyn N span m1 (clobber c a) p with inl a2 => RThrew m1 (a2, b) | inr e => RErr e end
        else RThrew m1 (clobber c a, b)
    | (Done m1 th1, c) =>
        match set_dyn N span m1 b p with inl b2 => RDone m1 (clobber c a, b2) th1 | inr e => RErr e end
    end
  end.
(* std::swap (_capa, o._capa); std::swap (_size, o._size): the state, the size and the capacity change sides; the storages stay *)
Definition swap_words (a b : obj) : obj * obj :=
  ({| small := small b; size := size b; cap := cap b; ptr := ptr a; bi := bi a |},
   {| small := small a; size := size a; cap := cap a; ptr := ptr b; bi := bi b |}).
Definition swap_dyn_small (guard : bool) (N span : nat) (mt : bool) (m : mem) (th : option nat) (a b : obj) : res (obj * obj) :=
  match swap_dynamic_buffer guard N span mt m th a b with
  | RDone m1 (a1, b1) th1 => RDone m1 (swap_words a1 b1) th1
  | r => r end.

Theorem swap_dyn_small_spec N span mt m th a b p :
  WF N m a -> WF N m b -> small a = false -> small b = true -> ptr a = Some p ->
  Disj (bi a) N (bi b) N -> Disj (bi b) N p (cap a) ->
  match swap_dyn_small true N span mt m th a b with
  | RErr _ => False
  | RThrew m' (a', b') => mt = true /\ a' = a /\ b' = b /\ WF N m' a' /\
                          (forall k, k < cap a -> m' (p + k) = m (p + k)) /\
                          (forall k, k < size b -> alive (m' (bi b + k)) = true) /\ (forall k, size b <= k < N -> m' (bi b + k) = Raw) /\
                          (forall j, ~ (bi b <= j < bi b + size b) -> m' j = m j)
  | RDone m' (a', b') _ => small a' = true /\ size a' = size b /\ bi a' = bi a /\ WF N m' a' /\
                           content m' (bi a) (size b) = content m (bi b) (size b) /\
                           small b' = false /\ size b' = size a /\ cap b' = cap a /\ ptr b' = Some p /\ bi b' = bi b /\ WF N m' b' /\
                           (forall k, k < cap a -> m' (p + k) = m (p + k)) /\
                           (forall j, ~ inR (bi a) N j -> ~ inR (bi b) N j -> m' j = m j)
  end.
Proof.
  intros HWa HWb Hsa Hsb Hp HDab HDbp. pose proof HWa as (HN & Wa). pose proof HWb as (_ & Wb).
  destruct a as [sma sa ca pta ba]. destruct b as [smb sb cb ptb bb]. cbn [small size cap ptr bi] in *. subst sma smb pta.
  destruct Wa as [RIa (p' & E & RH & HDa)]. injection E as <-. destruct Wb as [RIb ->].
  unfold swap_dyn_small, swap_dynamic_buffer, get_dyn. cbn [small size cap ptr bi].
  destruct (reloc_ov (Wov ba N span) (move_construct_g mt) m th bb sb ba) as [r c] eqn:Er.
  pose proof (reloc_ov_fst_move (Wov ba N span) mt m th bb sb ba) as F. rewrite Er in F. cbn [fst] in F. subst r.
  pose proof (reloc_move_spec mt m th bb sb N ba N RIb RIa ltac:(unfold Disj in *; lia) (proj1 RIb)) as S.
  unfold Disj, inR in *. pose proof (proj1 RIb) as Hsb.
  destruct (uninit_relocate_n mt m th bb sb ba) as [m1 th1|m1|x]; [| |exact S].
  - destruct S as (S1 & S2 & S3 & S4).
    rewrite (set_dyn_raw N span m1 _ p) by (cbn [bi]; intros k Hk; apply (proj2 (proj2 S3)); lia).
    assert (Hh : forall k, k < ca -> m1 (p + k) = m (p + k)) by (intros k Hk; apply S4; unfold inR; lia).
    unfold swap_words, with_ptr. cbn [small size cap ptr bi].
    assert (Ea : small (clobber c {| small := false; size := sa; cap := ca; ptr := Some p; bi := ba |}) = false /\
                 size (clobber c {| small := false; size := sa; cap := ca; ptr := Some p; bi := ba |}) = sa /\
                 cap (clobber c {| small := false; size := sa; cap := ca; ptr := Some p; bi := ba |}) = ca /\
                 bi (clobber c {| small := false; size := sa; cap := ca; ptr := Some p; bi := ba |}) = ba) by (destruct c; repeat split).
    destruct Ea as (-> & -> & -> & ->).
    split; [reflexivity|]. split; [reflexivity|]. split; [reflexivity|]. split; [|split; [exact S1|]].
    { split; [exact HN|]. cbn [small size cap bi]. split; [exact S2|reflexivity]. }
    split; [reflexivity|]. split; [reflexivity|]. split; [reflexivity|]. split; [reflexivity|]. split; [reflexivity|].
    split; [|split; [exact Hh|intros j H1 H2; apply S4; assumption]].
    split; [exact HN|]. cbn [small size cap ptr bi]. split; [exact S3|]. exists p. split; [reflexivity|].
    split; [apply (Rng_ext m); [exact Hh|exact RH]|unfold Disj; lia].
  - destruct S as (-> & S1 & S2 & S3 & S4).
    assert (Rw : forall k, k < N -> m1 (ba + k) = Raw) by (intros k Hk; apply (proj2 (proj2 S1)); lia).
    pose proof (set_dyn_raw N span m1 (clobber c {| small := false; size := sa; cap := ca; ptr := Some p; bi := ba |}) p) as SD.
    rewrite SD by (destruct c; exact Rw). rewrite with_ptr_clobber. unfold with_ptr. cbn [small size cap ptr bi].
    assert (Hh : forall k, k < ca -> m1 (p + k) = m (p + k)) by (intros k Hk; apply S4; lia).
    split; [reflexivity|]. split; [reflexivity|]. split; [reflexivity|]. split; [|split; [exact Hh|split; [exact S2|split; [exact S3|exact S4]]]].
    split; [exact HN|]. cbn [small size cap ptr bi]. split; [exact S1|]. exists p. split; [reflexivity|].
    split; [apply (Rng_ext m); [exact Hh|exact RH]|unfold Disj; lia].
Qed.
(* no leak: size a + size b objects in the two inline ranges and the heap block, before and after, in both outcomes *)
Theorem swap_dyn_small_conserves N span mt m th a b p :
  WF N m a -> WF N m b -> small a = false -> small b = true -> ptr a = Some p ->
  Disj (bi a) N (bi b) N -> Disj (bi b) N p (cap a) ->
  count_live m (bi a) N = 0 /\ count_live m (bi b) N = size b /\ count_live m p (cap a) = size a /\
  match swap_dyn_small true N span mt m th a b with
  | RErr _ => False
  | RThrew m' _ => count_live m' (bi a) N = 0 /\ count_live m' (bi b) N = size b /\ count_live m' p (cap a) = size a
  | RDone m' _ _ => count_live m' (bi a) N = size b /\ count_live m' (bi b) N = 0 /\ count_live m' p (cap a) = size a
  end.
Proof.
  intros HWa HWb Hsa Hsb Hp HDab HDbp. pose proof (swap_dyn_small_spec N span mt m th a b p HWa HWb Hsa Hsb Hp HDab HDbp) as S.
  pose proof HWa as (HN & Wa). pose proof HWb as (_ & Wb). rewrite Hsa in Wa. rewrite Hsb in Wb.
  destruct Wa as [RIa (p' & E & RH & HDa)]. rewrite Hp in E. injection E as <-. destruct Wb as [RIb Ecb].
  split; [exact (Rng_count _ _ _ _ RIa)|]. split; [exact (Rng_count _ _ _ _ RIb)|]. split; [exact (Rng_count _ _ _ _ RH)|].
  destruct (swap_dyn_small true N span mt m th a b) as [m' [a' b'] th'|m' [a' b']|x]; [| |exact S].
  - destruct S as (A1 & A2 & A3 & (_ & A4) & _ & B1 & B2 & B3 & B4 & B5 & (_ & B6) & _).
    rewrite A1, A2, A3 in A4. rewrite B1, B2, B3, B4, B5 in B6. destruct A4 as [A4 _]. destruct B6 as [B6 (q & Eq & B7 & _)].
    injection Eq as <-. split; [exact (Rng_count _ _ _ _ A4)|]. split; [exact (Rng_count _ _ _ _ B6)|exact (Rng_count _ _ _ _ B7)].
  - destruct S as (_ & -> & -> & (_ & A4) & _ & C2 & C3 & _). rewrite Hsa in A4. destruct A4 as [A4 (q & Eq & A5 & _)].
    rewrite Hp in Eq. injection Eq as <-. split; [exact (Rng_count _ _ _ _ A4)|]. split; [|exact (Rng_count _ _ _ _ A5)].
    apply count_live_rng; [exact (proj1 RIb)|exact C2|]. intros i Hi. rewrite C3 by exact Hi. reflexivity.
Qed.

(* the code before the repair (no guard), for EVERY well-formed pair with two elements or more in the inline vector and every throw index
   1 .. size - 1: the first element has been moved into inline slot 0 of the heap vector - over its pointer bytes - and destroyed again
   by the roll-back of uninitialized_move_n; the heap vector is still in its large state, its pointer is gone *)
Lemma swap_dyn_small_refuted_general N span m j a b p :
  WF N m a -> WF N m b -> small a = false -> small b = true -> ptr a = Some p ->
  Disj (bi a) N (bi b) N -> Disj (bi b) N p (cap a) -> 1 <= span -> 1 <= j < size b ->
  exists m' a' b', swap_dyn_small false N span true m (Some j) a b = RThrew m' (a', b') /\ small a' = false /\ ptr a' = None /\
                   data a' = inr WildPointer.
Proof.
  intros HWa HWb Hsa Hsb Hp HDab HDbp Hsp Hj. pose proof HWa as (HN & Wa). pose proof HWb as (_ & Wb).
  pose proof (swap_dyn_small_spec N span true m (Some j) a b p HWa HWb Hsa Hsb Hp HDab HDbp) as Sp.
  destruct a as [sma sa ca pta ba]. destruct b as [smb sb cb ptb bb]. cbn [small size cap ptr bi] in *. subst sma smb pta.
  destruct Wa as [RIa (p' & E & RH & HDa)]. injection E as <-. destruct Wb as [RIb ->].
  unfold swap_dyn_small, swap_dynamic_buffer, get_dyn in *. cbn [small size cap ptr bi] in *.
  destruct (reloc_ov (Wov ba N span) (move_construct_g true) m (Some j) bb sb ba) as [r c] eqn:Er.
  assert (Hc : c = true).
  { pose proof (f_equal snd Er) as F. cbn [snd] in F. unfold reloc_ov in F. destruct sb as [|sb]; [lia|].
    assert (A0 : alive (m bb) = true) by (pose proof (proj1 (proj2 RIb) 0 ltac:(lia)) as A; rewrite Nat.add_0_r in A; apply live_alive, A).
    assert (R0 : m ba = Raw) by (pose proof (proj2 (proj2 RIa) 0 ltac:(lia)) as A; rewrite Nat.add_0_r in A; exact A).
    destruct j as [|j]; [lia|].
    assert (CC : move_construct_g true m (Some (S j)) ba bb = Done (upd (upd m ba (m bb)) bb Moved) (Some j)).
    { cbn [move_construct_g]. unfold ThrowMove.move_construct. rewrite (mv_construct_ok m ba bb R0 A0). reflexivity. }
    pose proof (loop_ov_first_done (Wov ba N span) (move_construct_g true) m (Some (S j)) false bb ba ba sb _ _ CC (Wov_base ba N span HN Hsp)) as L.
    destruct (loop_ov (Wov ba N span) (move_construct_g true) m (Some (S j)) false bb ba ba (S sb)) as [[m1 th1|m1|x] c']; cbn [snd] in *; congruence. }
  subst c.
  pose proof (reloc_ov_fst_move (Wov ba N span) true m (Some j) bb sb ba) as F. rewrite Er in F. cbn [fst] in F.
  destruct r as [m1 th1|m1|x].
  - exfalso. clear Sp Er.
    assert (G : forall n mm k src dst0 cur, k < n -> match uninit_move_loop true mm (Some k) src dst0 cur n with Done _ _ => False | _ => True end).
    { induction n as [|n IH]; intros mm k src dst0 cur Hk; [lia|]. cbn [uninit_move_loop move_construct_g]. unfold ThrowMove.move_construct.
      destruct (mv_construct mm cur src) as [mm1|x]; [|exact I].
      destruct k as [|k]; cbn [tick]; [destruct (destroy_n mm dst0 (cur - dst0)); exact I|apply IH; lia]. }
    specialize (G sb m j bb ba ba ltac:(lia)). unfold uninit_relocate_n, uninit_move_n in F.
    destruct (uninit_move_loop true m (Some j) bb ba ba sb) as [m2 th2|m2|x]; [contradiction| |]; discriminate.
  - exists m1. eexists. eexists. split; [reflexivity|]. cbn [clobber with_ptr small ptr]. repeat split.
  - contradiction.
Qed.

(* ---- SmallVectorBase::grow from the small state ---------------------------------------------------------------------------------------- *)
(* the constructions happen in the new block: the flag stays down *)
Lemma loop_ov_noW W cons : forall n m th c src dst0 cur, (forall k, k < n -> W (cur + k) = false) ->
  snd (loop_ov W cons m th c src dst0 cur n) = c.
Proof.
  induction n as [|n IH]; intros m th c src dst0 cur H; cbn [loop_ov]; [reflexivity|].
  destruct (cons m th cur src) as [m1 th1|m1|x]; [|reflexivity|reflexivity].
  rewrite IH; [|intros k Hk; replace (S cur + k) with (cur + S k) by lia; apply H; lia].
  pose proof (H 0 ltac:(lia)) as H0. rewrite Nat.add_0_r in H0. rewrite H0. apply orb_false_r.
Qed.
Lemma reloc_new_ov_noW W mt m th src n dst : (forall k, k < n -> W (dst + k) = false) -> snd (reloc_new_ov W mt m th src n dst) = false.
Proof.
  intros H. destruct mt; cbn [reloc_new_ov]; unfold reloc_ov.
  - pose proof (loop_ov_noW W copy_construct_from n m th false src dst dst H) as L.
    destruct (loop_ov W copy_construct_from m th false src dst dst n) as [[m1 th1|m1|x] c]; exact L.
  - pose proof (loop_ov_noW W (move_construct_g false) n m th false src dst dst H) as L.
    destruct (loop_ov W (move_construct_g false) m th false src dst dst n) as [[m1 th1|m1|x] c]; exact L.
Qed.
(* allocate (newCapa) has returned the block [pn, pn + newcap) (all Raw); the elements are relocated OUT of the inline slots; the pointer
   is written after the inline objects have been destroyed *)
Definition grow_small (N span : nat) (mt : bool) (m : mem) (th : option nat) (o : obj) (pn newcap : nat) : res obj :=
  match reloc_new_ov (Wov (bi o) N span) mt m th (bi o) (size o) pn with
  | (Err e, _) => RErr (Lifetime e)
  | (Threw m1, c) => match dealloc m1 pn newcap with inl m2 => RThrew m2 (clobber c o) | inr e => RErr e end
  | (Done m1 th1, c) =>
      match set_dyn N span m1 (clobber c o) pn with
      | inl o2 => RDone m1 {| small := false; size := size o; cap := newcap; ptr := ptr o2; bi := bi o |} th1
      | inr e => RErr e end
  end.
Theorem grow_small_spec N span mt m th o pn newcap :
  WF N m o -> small o = true -> Rng m pn 0 newcap -> Disj (bi o) N pn newcap -> size o <= newcap ->
  match grow_small N span mt m th o pn newcap with
  | RErr _ => False
  | RThrew m' o' => mt = true /\ o' = o /\ WF N m' o' /\ (forall k, k < newcap -> m' (pn + k) = Out) /\
                    (forall j, ~ inR pn newcap j -> m' j = m j)
  | RDone m' o' _ => small o' = false /\ size o' = size o /\ cap o' = newcap /\ ptr o' = Some pn /\ bi o' = bi o /\ WF N m' o' /\
                     content m' pn (size o) = content m (bi o) (size o) /\
                     (forall j, ~ inR (bi o) N j -> ~ inR pn newcap j -> m' j = m j)
  end.
Proof.
  intros HW Hs RN HD Hfit. pose proof HW as (HN & W). destruct o as [sm sz cp pt b]. cbn [small size cap ptr bi] in *. subst sm.
  destruct W as [RI ->]. unfold grow_small. cbn [small size cap ptr bi].
  destruct (reloc_new_ov (Wov b N span) mt m th b sz pn) as [r c] eqn:Er.
  assert (Hc : c = false).
  { pose proof (reloc_new_ov_noW (Wov b N span) mt m th b sz pn) as L. rewrite Er in L. cbn [snd] in L. apply L.
    intros k Hk. pose proof (proj1 RI) as Hsz. unfold Wov, Disj in *.
    destruct (Nat.leb_spec b (pn + k)); [|reflexivity]. destruct (Nat.ltb_spec (pn + k) (b + Nat.min span N)); [lia|reflexivity]. }
  subst c. cbn [clobber].
  pose proof (reloc_new_ov_fst (Wov b N span) mt m th b sz pn) as F. rewrite Er in F. cbn [fst] in F. subst r.
  pose proof (reloc_new_spec mt m th b sz N pn newcap RI RN HD Hfit) as S. unfold Disj, inR in *.
  destruct (reloc_new mt m th b sz pn) as [m1 th1|m1|x]; [| |exact S].
  - destruct S as (S1 & S2 & S3 & S4).
    rewrite (set_dyn_raw N span m1 _ pn) by (cbn [bi]; intros k Hk; apply (proj2 (proj2 S3)); lia).
    unfold with_ptr. cbn [small size cap ptr bi]. repeat (split; [reflexivity|]). split; [|split; [exact S1|exact S4]].
    split; [exact HN|]. cbn [small size cap ptr bi]. split; [exact S3|]. exists pn. split; [reflexivity|]. split; [exact S2|unfold Disj; lia].
  - destruct S as (-> & S).
    destruct (dealloc_ok newcap m1 pn) as [m2 (E2 & D1 & D2)]; [intros k Hk; rewrite S; apply (proj2 (proj2 RN)); lia|]. rewrite E2.
    split; [reflexivity|]. split; [reflexivity|]. split; [|split; [exact D1|intros j Hj; rewrite D2 by lia; apply S]].
    split; [exact HN|]. cbn [small size cap bi]. split; [|reflexivity].
    apply (Rng_ext m); [|exact RI]. intros k Hk. rewrite D2 by lia. apply S.
Qed.

(* ---- Examples: the hypotheses are satisfiable, both outcomes exist ------------------------------------------------------------------------ *)
Definition showr {A : Type} (r : res A) (n : nat) : option (bool * A * list slot) :=
  match r with RDone m a _ => Some (false, a, map m (seq 0 n)) | RThrew m a => Some (true, a, map m (seq 0 n)) | RErr _ => None end.
Ltac rng_tac := split; [lia|split; intros i Hi; (do 6 (destruct i as [|i]; [first [lia|reflexivity]|])); lia].
(* N = 3 inline slots [0, 3) (raw), guards, heap block [6, 10) holding [20, 21] (Transfer.init2 0 3 2 4) *)
Definition o_r : obj := {| small := false; size := 2; cap := 4; ptr := Some 6; bi := 0 |}.
Lemma o_r_wf : WF 3 (init2 0 3 2 4) o_r.
Proof.
  destruct (init2_pre 0 3 2 4 ltac:(lia) ltac:(lia)) as (H1 & H2 & H3 & _).
  split; [lia|]. cbn [o_r small size cap ptr bi]. split; [exact H1|]. exists 6. split; [reflexivity|]. split; [exact H2|exact H3].
Qed.
Local Open Scope Z_scope.
(* the second copy throws (event 1): object and memory as before; no throw: small, [20, 21] inline, the block gone *)
Example reset_to_small_spec_ex :
  (WF 3 (init2 0 3 2 4) o_r /\ small o_r = false /\ ptr o_r = Some 6%nat /\ (size o_r <= 3)%nat) /\
  showr (reset_to_small true 3 1 true (init2 0 3 2 4) (Some 1%nat) o_r) 11 = Some (true, o_r, map (init2 0 3 2 4) (seq 0 11)) /\
  showr (reset_to_small true 3 2 true (init2 0 3 2 4) None o_r) 11
    = Some (false, {| small := true; size := 2; cap := 3; ptr := None; bi := 0 |}, [Live 20; Live 21; Raw; Out; Raw; Out; Out; Out; Out; Out; Out]) /\
  showr (reset_to_small true 3 1 false (init2 0 3 2 4) (Some 1%nat) o_r) 11
    = Some (false, {| small := true; size := 2; cap := 3; ptr := None; bi := 0 |}, [Live 20; Live 21; Raw; Out; Raw; Out; Out; Out; Out; Out; Out]).
Proof. split; [split; [exact o_r_wf|repeat split; cbn; lia]|]. repeat split; vm_compute; reflexivity. Qed.
Example reset_to_small_conserves_ex :
  match reset_to_small true 3 1 true (init2 0 3 2 4) (Some 1%nat) o_r with RThrew m' _ => (count_live m' 0 3 + count_live m' 6 4 = 2)%nat | _ => False end /\
  match reset_to_small true 3 1 true (init2 0 3 2 4) None o_r with RDone m' _ _ => (count_live m' 0 3 + count_live m' 6 4 = 2)%nat | _ => False end.
Proof. split; vm_compute; reflexivity. Qed.
(* before fed92df: same state, same throw: still large, ptr = None, the block [20, 21] unreachable *)
Lemma reset_to_small_refuted :
  exists N span m th o p m' o', WF N m o /\ small o = false /\ ptr o = Some p /\ (size o <= N)%nat /\
    reset_to_small false N span true m th o = RThrew m' o' /\ small o' = false /\ ptr o' = None /\ data o' = inr WildPointer.
Proof.
  exists 3%nat, 1%nat, (init2 0 3 2 4), (Some 1%nat), o_r, 6%nat.
  destruct (reset_to_small_refuted_general 3 1 (init2 0 3 2 4) 1 o_r 6 o_r_wf eq_refl eq_refl ltac:(cbn; lia) ltac:(lia) ltac:(cbn; lia))
    as (m' & o' & E & P1 & P2 & P3).
  exists m', o'. split; [exact o_r_wf|]. repeat (split; [first [reflexivity|assumption|cbn; lia]|]). exact P3.
Qed.
Example reset_to_small_refuted_ex :
  showr (reset_to_small false 3 1 true (init2 0 3 2 4) (Some 1%nat) o_r) 11 = Some (true, with_ptr o_r None, map (init2 0 3 2 4) (seq 0 11)) /\
  data (with_ptr o_r None) = inr WildPointer /\
  (* the first copy throws: nothing has been built yet, the pointer bytes are intact *)
  showr (reset_to_small false 3 1 true (init2 0 3 2 4) (Some 0%nat) o_r) 11 = Some (true, o_r, map (init2 0 3 2 4) (seq 0 11)).
Proof. repeat split; vm_compute; reflexivity. Qed.

(* a: inline [0, 3) raw, heap [8, 12) = [10, 11, 12, raw]; b: inline [4, 7) = [20, 21, raw]; guards 3, 7, 12 *)
Definition m3 : mem := fun i =>
  if (i <? 3)%nat then Raw else if (i <? 4)%nat then Out else if (i <? 6)%nat then Live (Z.of_nat (16 + i)) else if (i <? 7)%nat then Raw
  else if (i <? 8)%nat then Out else if (i <? 11)%nat then Live (Z.of_nat (2 + i)) else if (i <? 12)%nat then Raw else Out.
Definition o_a : obj := {| small := false; size := 3; cap := 4; ptr := Some 8%nat; bi := 0 |}.
Definition o_b : obj := {| small := true; size := 2; cap := 3; ptr := None; bi := 4 |}.
Lemma o_ab_wf : WF 3 m3 o_a /\ WF 3 m3 o_b /\ Disj (bi o_a) 3 (bi o_b) 3 /\ Disj (bi o_b) 3 8 (cap o_a).
Proof.
  split; [|split; [|split; [unfold Disj; cbn; lia|unfold Disj; cbn; lia]]].
  - split; [lia|]. cbn [o_a small size cap ptr bi]. split; [rng_tac|]. exists 8%nat. split; [reflexivity|]. split; [rng_tac|unfold Disj; lia].
  - split; [lia|]. cbn [o_b small size cap ptr bi]. split; [rng_tac|reflexivity].
Qed.
(* the second move throws (event 1): a as before, b keeps two alive elements, the first one moved-from; no throw: exchanged *)
Example swap_dyn_small_spec_ex :
  (WF 3 m3 o_a /\ WF 3 m3 o_b /\ small o_a = false /\ small o_b = true /\ ptr o_a = Some 8%nat /\
   Disj (bi o_a) 3 (bi o_b) 3 /\ Disj (bi o_b) 3 8 (cap o_a)) /\
  showr (swap_dyn_small true 3 1 true m3 (Some 1%nat) o_a o_b) 13
    = Some (true, (o_a, o_b), [Raw; Raw; Raw; Out; Moved; Live 21; Raw; Out; Live 10; Live 11; Live 12; Raw; Out]) /\
  showr (swap_dyn_small true 3 1 true m3 None o_a o_b) 13
    = Some (false, ({| small := true; size := 2; cap := 3; ptr := None; bi := 0 |}, {| small := false; size := 3; cap := 4; ptr := Some 8%nat; bi := 4 |}),
            [Live 20; Live 21; Raw; Out; Raw; Raw; Raw; Out; Live 10; Live 11; Live 12; Raw; Out]) /\
  showr (swap_dyn_small true 3 1 false m3 (Some 1%nat) o_a o_b) 13
    = Some (false, ({| small := true; size := 2; cap := 3; ptr := None; bi := 0 |}, {| small := false; size := 3; cap := 4; ptr := Some 8%nat; bi := 4 |}),
            [Live 20; Live 21; Raw; Out; Raw; Raw; Raw; Out; Live 10; Live 11; Live 12; Raw; Out]).
Proof.
  destruct o_ab_wf as (H1 & H2 & H3 & H4). split; [repeat (split; [first [assumption|reflexivity]|]); assumption|].
  repeat split; vm_compute; reflexivity.
Qed.
Example swap_dyn_small_conserves_ex :
  match swap_dyn_small true 3 1 true m3 (Some 1%nat) o_a o_b with
  | RThrew m' _ => (count_live m' 0 3 = 0 /\ count_live m' 4 3 = 2 /\ count_live m' 8 4 = 3)%nat | _ => False end /\
  match swap_dyn_small true 3 1 true m3 None o_a o_b with
  | RDone m' _ _ => (count_live m' 0 3 = 2 /\ count_live m' 4 3 = 0 /\ count_live m' 8 4 = 3)%nat | _ => False end.
Proof. split; vm_compute; repeat split. Qed.
(* before 0d47293: same state, same throw: a still large, ptr = None: its block [10, 11, 12] is unreachable *)
Lemma swap_dyn_small_refuted :
  exists N span m th a b p m' a' b', WF N m a /\ WF N m b /\ small a = false /\ small b = true /\ ptr a = Some p /\
    Disj (bi a) N (bi b) N /\ Disj (bi b) N p (cap a) /\
    swap_dyn_small false N span true m th a b = RThrew m' (a', b') /\ small a' = false /\ ptr a' = None /\ data a' = inr WildPointer.
Proof.
  destruct o_ab_wf as (H1 & H2 & H3 & H4).
  destruct (swap_dyn_small_refuted_general 3 1 m3 1 o_a o_b 8 H1 H2 eq_refl eq_refl eq_refl H3 H4 ltac:(lia) ltac:(cbn; lia))
    as (m' & a' & b' & E & P).
  exists 3%nat, 1%nat, m3, (Some 1%nat), o_a, o_b, 8%nat, m', a', b'.
  repeat (split; [first [assumption|reflexivity]|]). exact P.
Qed.
Example swap_dyn_small_refuted_ex :
  showr (swap_dyn_small false 3 1 true m3 (Some 1%nat) o_a o_b) 13
    = Some (true, (with_ptr o_a None, o_b), [Raw; Raw; Raw; Out; Moved; Live 21; Raw; Out; Live 10; Live 11; Live 12; Raw; Out]) /\
  data (with_ptr o_a None) = inr WildPointer.
Proof. split; vm_compute; reflexivity. Qed.

(* grow: b = [20, 21, raw] inline at [0, 3) grows into the raw block [6, 10) (Transfer.init2 2 3 0 4) *)
Definition o_g : obj := {| small := true; size := 2; cap := 3; ptr := None; bi := 0 |}.
Example grow_small_spec_ex :
  (WF 3 (init2 2 3 0 4) o_g /\ small o_g = true /\ Rng (init2 2 3 0 4) 6 0 4 /\ Disj (bi o_g) 3 6 4 /\ (size o_g <= 4)%nat) /\
  showr (grow_small 3 1 true (init2 2 3 0 4) (Some 1%nat) o_g 6 4) 11
    = Some (true, o_g, [Live 10; Live 11; Raw; Out; Raw; Out; Out; Out; Out; Out; Out]) /\
  showr (grow_small 3 1 true (init2 2 3 0 4) None o_g 6 4) 11
    = Some (false, {| small := false; size := 2; cap := 4; ptr := Some 6%nat; bi := 0 |}, [Raw; Raw; Raw; Out; Raw; Out; Live 10; Live 11; Raw; Raw; Out]).
Proof.
  destruct (init2_pre 2 3 0 4 ltac:(lia) ltac:(lia)) as (H1 & H2 & H3 & _).
  split; [|repeat split; vm_compute; reflexivity].
  split; [split; [lia|cbn [o_g small size cap bi]; split; [exact H1|reflexivity]]|]. repeat (split; [first [assumption|reflexivity]|]). cbn; lia.
Qed.

Print Assumptions reset_to_small_spec.
Print Assumptions reset_to_small_conserves.
Print Assumptions reset_to_small_refuted_general.
Print Assumptions reset_to_small_refuted.
Print Assumptions swap_dyn_small_spec.
Print Assumptions swap_dyn_small_conserves.
Print Assumptions swap_dyn_small_refuted_general.
Print Assumptions swap_dyn_small_refuted.
Print Assumptions grow_small_spec.
